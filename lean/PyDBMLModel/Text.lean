/-
L1: `pydbml/tools.py` and the renderer text helpers, function for function.
-/
import PyDBMLModel.Py
namespace PyDBML

/-- Python exception classes that are *not* part of PyDBML's error contract (C08). -/
inductive PyExc where
  | ValueError | KeyError | IndexError | AttributeError | TypeError | RuntimeError | RecursionError
  deriving Repr, DecidableEq, Inhabited

def PyExc.name : PyExc → String
  | .ValueError => "ValueError" | .KeyError => "KeyError" | .IndexError => "IndexError"
  | .AttributeError => "AttributeError" | .TypeError => "TypeError"
  | .RuntimeError => "RuntimeError" | .RecursionError => "RecursionError"

/-! ### tools.py -/

/-- `tools.comment(val, comb)`. -/
def commentLines (comb : Str) (val : Str) : Str :=
  joinNL ((splitNL val).map fun cl => comb ++ ' ' :: cl) ++ ['\n']

/-- `tools.indent(val, spaces)`. -/
def toolsIndent (val : Str) (spaces : Nat := 4) : Str :=
  if val.isEmpty then val
  else List.replicate spaces ' ' ++ replaceChar '\n' ('\n' :: List.replicate spaces ' ') val

/-- `tools.remove_bom`. -/
def removeBom (s : Str) : Str :=
  match s with
  | c :: r => if c.toNat = 0xFEFF then r else s
  | [] => []

def isBlankHT (c : Char) : Bool := c = ' ' || c = '\t'

/-- One greedy iteration of `([ \t]*\n)`: `some rest` if the text starts with a blank line. -/
def dropBlankLine (s : Str) : Option Str :=
  match s.dropWhile isBlankHT with
  | '\n' :: r => some r
  | _ => none

/-- `([ \t]*\n)*`, greedy; returns (start of the last dropped blank line, remaining text). -/
def dropBlankLines : Nat → Str → Option Str → Option Str × Str
  | 0, s, last => (last, s)
  | fuel + 1, s, last =>
    match dropBlankLine s with
    | some r => dropBlankLines fuel r (some s)
    | none => (last, s)

/-- The suffix matches `(\n[ \t]*)*$`. -/
def isBlankTail (s : Str) : Bool :=
  match s with
  | [] => true
  | c :: _ => c = '\n' && s.all fun d => d = '\n' || isBlankHT d

/-- `[\s\S]+?` followed by `(\n[ \t]*)*$`: the shortest non-empty prefix whose remainder is a
    blank tail. -/
def takeContentGo : Str → Str
  | [] => []
  | c :: r => if isBlankTail (c :: r) then [] else c :: takeContentGo r
def takeContent : Str → Str
  | [] => []
  | c :: r => c :: takeContentGo r

/-- `tools.strip_empty_lines`: `re.sub(r'^([ \t]*\n)*(?P<content>[\s\S]+?)(\n[ \t]*)*$', '\g<content>')`
    as a scanner. -/
def stripEmptyLines (s : Str) : Str :=
  match dropBlankLines (s.length + 1) s none with
  | (_, c :: r) => takeContent (c :: r)
  | (some last, []) => takeContent last      -- everything is blank lines: backtrack one iteration
  | (none, []) => []                          -- empty input: no match, unchanged

/-- length of the `^\s*` match. -/
def leadingSpaces (line : Str) : Nat := (line.takeWhile isSpaceChar).length

def minList : List Nat → Option Nat
  | [] => none
  | x :: xs => match minList xs with
    | none => some x
    | some m => some (min x m)

/-- `tools.remove_indentation` (a text without any non-blank line is returned as it is). -/
def removeIndentation (s : Str) : Str :=
  if s.isEmpty then s
  else
    let lines := splitNL s
    let spaces := (lines.filter fun l => !l.isEmpty && !isSpaceStr l).map leadingSpaces
    match minList spaces with
    | none => s
    | some k => joinNL (lines.map (·.drop k))

/-- `NoteBlueprint._preformat_text` / `StickyNoteBlueprint._preformat_text`. -/
def norm (s : Str) : Str := removeIndentation (stripEmptyLines s)

/-- `tools.doublequote_string`. -/
def doublequoteString (s : Str) : Except PyExc Str :=
  if containsChar '\n' s then .error .ValueError
  else .ok ('"' :: replaceChar '"' ['\\', '"'] (stripSet (· = '"') s) ++ ['"'])

/-! ### renderer/dbml/default/utils.py -/

/-- `prepare_text_for_dbml`: `re.sub(r"('''|'|\\\\)", r'\\\1', text)`. -/
def prepareTextForDbml : Str → Str
  | '\'' :: '\'' :: '\'' :: r => '\\' :: '\'' :: '\'' :: '\'' :: prepareTextForDbml r
  | '\'' :: r => '\\' :: '\'' :: prepareTextForDbml r
  | '\\' :: r => '\\' :: '\\' :: prepareTextForDbml r
  | c :: r => c :: prepareTextForDbml r
  | [] => []

/-- `quote_string`. -/
def quoteString (t : Str) : Str :=
  if containsChar '\n' t then lit "'''\n" ++ prepareTextForDbml t ++ lit "'''"
  else '\'' :: prepareTextForDbml t ++ ['\'']

/-- `note_option_to_dbml` (on the note's text). -/
def noteOptionToDbml (t : Str) : Str :=
  if containsChar '\n' t then lit "note: '''" ++ prepareTextForDbml t ++ lit "'''"
  else lit "note: '" ++ prepareTextForDbml t ++ ['\'']

def commentToDbml (v : Str) : Str := commentLines (lit "//") v
def commentToSql (v : Str) : Str := commentLines (lit "--") v

/-! ### renderer/sql/default/note.py -/

/-- `re.sub(r'\\\n', '', text)`. -/
def dropLineContinuations : Str → Str
  | '\\' :: '\n' :: r => dropLineContinuations r
  | c :: r => c :: dropLineContinuations r
  | [] => []

/-- `prepare_text_for_sql`. -/
def prepareTextForSql (t : Str) : Str :=
  replaceChar '\'' ['"'] (dropLineContinuations t)

end PyDBML
