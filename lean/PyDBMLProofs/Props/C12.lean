/-
C12 — all documented ways of supplying the source give the same database.
-/
import PyDBMLModel
namespace PyDBML
namespace C12
open Entry

/-- the routes that accept a given kind of source -/
def accepts (r : Route) (k : SourceKind) : Bool :=
  match r, k with
  | .ctor, .str | .ctor, .path | .ctor, .textFile => true
  | .parseStatic, .str | .instanceParse, .str => true
  | .parseFile, .pathString | .parseFile, .path | .parseFile, .textFile => true
  | _, _ => false

/-- Every accepting route hands the parser the same text — the content with one leading byte-order
    mark removed — whatever the kind of source. -/
theorem routes_agree_on_text (r r' : Route) (k k' : SourceKind) (content : Str) (o o' : Opts)
    (h : accepts r k = true) (h' : accepts r' k' = true) :
    ∃ p p', entry r k content o = .parser (removeBom content) p
          ∧ entry r' k' content o' = .parser (removeBom content) p' := by
  cases r <;> cases k <;> simp [accepts] at h <;> cases r' <;> cases k' <;> simp [accepts] at h' <;>
    exact ⟨_, _, rfl, rfl⟩

/-- options reach the parser unchanged on every route that takes them; `parse_file` takes none. -/
theorem options_unchanged (r : Route) (k : SourceKind) (content : Str) (o : Opts)
    (h : accepts r k = true) (hr : r ≠ .parseFile) :
    entry r k content o = .parser (removeBom content) o := by
  cases r <;> cases k <;> simp [accepts] at h <;> first | rfl | exact absurd rfl hr

theorem parse_file_defaults (k : SourceKind) (content : Str) (o : Opts) (h : accepts .parseFile k = true) :
    entry .parseFile k content o = .parser (removeBom content) {} := by
  cases k <;> simp [accepts] at h <;> rfl

/-- …hence identical databases: with equal options all accepting routes produce the same outcome. -/
theorem routes_agree (r r' : Route) (k k' : SourceKind) (content : Str) (o : Opts)
    (h : accepts r k = true) (h' : accepts r' k' = true) (hr : r ≠ .parseFile) (hr' : r' ≠ .parseFile) :
    run r k content o = run r' k' content o := by
  unfold run
  rw [options_unchanged r k content o h hr, options_unchanged r' k' content o h' hr']

theorem routes_agree_default (r : Route) (k k' : SourceKind) (content : Str)
    (h : accepts r k = true) (h' : accepts .parseFile k' = true) :
    run r k content {} = run .parseFile k' content {} := by
  unfold run
  rw [parse_file_defaults k' content {} h']
  by_cases hr : r = .parseFile
  · subst hr; rw [parse_file_defaults k content {} h]
  · rw [options_unchanged r k content {} h hr]

/-- a leading byte-order mark is ignored on every route -/
theorem bom_ignored (r : Route) (k : SourceKind) (content : Str) (o : Opts) (h : accepts r k = true)
    (hb : ∀ c rest, content = c :: rest → c.toNat ≠ 0xFEFF) :
    entry r k (Char.ofNat 0xFEFF :: content) o = entry r k content o := by
  have h1 : removeBom (Char.ofNat 0xFEFF :: content) = content := by
    simp [removeBom]
  have h2 : removeBom content = content := by
    cases content with
    | nil => rfl
    | cons c rest => simp [removeBom, hb c rest rfl]
  cases r <;> cases k <;> simp [accepts] at h <;> simp [entry, h1, h2]

/-- the constructor refuses any other source type -/
theorem other_type_refused (content : Str) (o : Opts) : entry .ctor .other content o = .typeError := rfl

end C12
end PyDBML
