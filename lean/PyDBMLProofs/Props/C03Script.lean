/-
C03/C04 — the reader of the DDL, continued: enums (`read_render_enum`) and whole scripts of enums, tables and
standalone references (`read_render_script_all`).
-/
import PyDBMLModel
import PyDBMLProofs.Props.C03Read
import PyDBMLProofs.Props.C04Read
namespace PyDBML
namespace C03
open Sql

theorem stripSuffix_append (a suf : Str) : stripSuffix? suf (a ++ suf) = some a := by
  unfold stripSuffix?
  have h : suf.isSuffixOf (a ++ suf) = true := by
    rw [List.isSuffixOf_iff_suffix]
    exact List.suffix_append a suf
  simp [h]

theorem joinNL_three (H : Str) (I : List Str) (F : Str) (hI : I ≠ []) :
    joinNL ([H] ++ I ++ [F]) = H ++ '\n' :: (joinNL I ++ '\n' :: F) := by
  rw [List.append_assoc [H] I [F], joinNL_append [H] (I ++ [F]) (by simp) (by simp), joinNL_append I [F] hI (by simp)]
  rfl

/-- the lines of the statement the renderer writes for an enum -/
def enumItemLines : List Str → List Str
  | [] => []
  | [n] => [' ' :: ' ' :: '\'' :: (n ++ ['\''])]
  | n :: n2 :: ns => (' ' :: ' ' :: '\'' :: (n ++ ['\'', ','])) :: enumItemLines (n2 :: ns)

def enumLines (e : Enum) : List Str :=
  [lit "CREATE TYPE " ++ qualName e.schema e.name ++ lit " AS ENUM ("] ++ enumItemLines (e.items.map (·.name)) ++ [lit ");"]

theorem readEnumItems_ok : ∀ (ns : List Str), ns ≠ [] → readEnumItems (enumItemLines ns) = some ns := by
  intro ns
  induction ns with
  | nil => intro h; exact absurd rfl h
  | cons n r ih =>
    intro _
    cases r with
    | nil =>
      simp only [enumItemLines, readEnumItems]
      rw [stripSuffix_append]
      rfl
    | cons n2 r2 =>
      have ih' := ih (by simp)
      cases hr : enumItemLines (n2 :: r2) with
      | nil => cases r2 <;> simp [enumItemLines] at hr
      | cons x xs =>
        rw [hr] at ih'
        simp only [enumItemLines, hr, readEnumItems]
        rw [show n ++ ['\'', ','] = n ++ ['\'', ','] from rfl, stripSuffix_append, ih']

theorem enumItemLines_ne (ns : List Str) (h : ns ≠ []) : enumItemLines ns ≠ [] := by
  cases ns with
  | nil => exact absurd rfl h
  | cons n r => cases r <;> simp [enumItemLines]

/-- the enums the reader theorem covers: at least one item, no comment on the enum or on an item, no line break in a
    name -/
structure EnumReadable (e : Enum) : Prop where
  items : e.items ≠ []
  comment : e.comment = none
  itemPlain : ∀ i ∈ e.items, i.comment = none ∧ NoBreak i.name
  names : NoBreak e.schema ∧ NoBreak e.name

theorem rstrip_comma (pre : Str) : rstripSet (· = ',') (pre ++ ['\'', ',']) = pre ++ ['\''] := by
  unfold rstripSet
  simp [List.reverse_append, List.dropWhile]

theorem joinNL_enumItems : ∀ (ns : List Str), ns ≠ [] →
    rstripSet (· = ',') (joinNL (ns.map fun n => ' ' :: ' ' :: '\'' :: (n ++ ['\'', ','])))
      = joinNL (enumItemLines ns) := by
  intro ns
  induction ns with
  | nil => intro h; exact absurd rfl h
  | cons n r ih =>
    intro _
    cases r with
    | nil =>
      simp only [List.map_cons, List.map_nil, joinNL, enumItemLines]
      have := rstrip_comma (' ' :: ' ' :: '\'' :: n)
      simpa using this
    | cons n2 r2 =>
      have ih' := ih (by simp)
      -- the strip only touches the end of the text
      have hsplit : ∀ (a b : Str), b ≠ [] → (∃ x, b.getLast? = some x ∧ x ≠ ',' ) ∨ True → True := fun _ _ _ _ => trivial
      clear hsplit
      have e1 : joinNL ((n :: n2 :: r2).map fun n => ' ' :: ' ' :: '\'' :: (n ++ ['\'', ',']))
          = (' ' :: ' ' :: '\'' :: (n ++ ['\'', ','])) ++ '\n' :: joinNL ((n2 :: r2).map fun n => ' ' :: ' ' :: '\'' :: (n ++ ['\'', ','])) := rfl
      have e2 : joinNL (enumItemLines (n :: n2 :: r2))
          = (' ' :: ' ' :: '\'' :: (n ++ ['\'', ','])) ++ '\n' :: joinNL (enumItemLines (n2 :: r2)) := by
        rw [show enumItemLines (n :: n2 :: r2) = (' ' :: ' ' :: '\'' :: (n ++ ['\'', ','])) :: enumItemLines (n2 :: r2) from rfl,
          joinNL_cons _ _ (enumItemLines_ne _ (by simp))]
      rw [e1, e2, ← ih']
      -- rstrip of `A ++ B` with `rstrip B` not empty is `A ++ rstrip B`
      generalize hB : joinNL ((n2 :: r2).map fun n => ' ' :: ' ' :: '\'' :: (n ++ ['\'', ','])) = B
      have hBne : rstripSet (· = ',') B ≠ [] := by
        rw [← hB, ih']
        cases hr : enumItemLines (n2 :: r2) with
        | nil => exact absurd hr (enumItemLines_ne _ (by simp))
        | cons x xs =>
          have hx : x ≠ [] := by
            cases r2 <;> simp [enumItemLines] at hr <;> (rw [← hr.1]; simp)
          cases xs with
          | nil => simpa [joinNL] using hx
          | cons y ys =>
            rw [joinNL_cons _ _ (by simp)]
            cases x with
            | nil => exact absurd rfl hx
            | cons _ _ => simp
      unfold rstripSet at hBne ⊢
      simp only [List.reverse_append, List.reverse_cons, List.append_assoc]
      have hd : ∀ (P Q : Str), P.dropWhile (fun c => decide (c = ',')) ≠ [] →
          (P ++ Q).dropWhile (fun c => decide (c = ',')) = P.dropWhile (fun c => decide (c = ',')) ++ Q := by
        intro P
        induction P with
        | nil => intro Q h; simp at h
        | cons c P ihP =>
          intro Q h
          by_cases hc : c = ','
          · subst hc
            simp only [List.cons_append, List.dropWhile_cons, decide_true, ↓reduceIte] at h ⊢
            exact ihP Q h
          · simp [List.dropWhile_cons, hc]
      have hrev : B.reverse.dropWhile (fun c => decide (c = ',')) ≠ [] := by
        intro h0; apply hBne; rw [h0]; rfl
      rw [hd _ _ hrev]
      simp

theorem renderEnum_lines (e : Enum) (h : EnumReadable e) : renderEnum e = joinNL (enumLines e) := by
  have hitems : (e.items.map fun i => indent2 (Sql.optComment i.comment ++ '\'' :: i.name ++ lit "',"))
      = (e.items.map (·.name)).map fun n => ' ' :: ' ' :: '\'' :: (n ++ ['\'', ',']) := by
    rw [List.map_map]
    apply List.map_congr_left
    intro i hi
    obtain ⟨hc, hn⟩ := h.itemPlain i hi
    have hl : ∀ ch ∈ ('\'' :: i.name ++ lit "',"), isLineBreak ch = false := by
      intro ch hch
      have e : '\'' :: i.name ++ lit "'," = ['\''] ++ i.name ++ ['\'', ','] := by simp [lit]
      rw [e] at hch
      simp only [List.mem_append] at hch
      rcases hch with (h1 | h1) | h1
      · exact (by decide : ∀ c ∈ ['\''], isLineBreak c = false) ch h1
      · exact hn ch h1
      · exact (by decide : ∀ c ∈ ['\'', ','], isLineBreak c = false) ch h1
    simp only [Sql.optComment, hc, List.nil_append, Function.comp]
    rw [indent2_line _ hl '\'' _ rfl (by decide)]
    simp [lit]
  unfold renderEnum
  simp only [hitems]
  simp only [Sql.optComment, h.comment, List.nil_append]
  rw [joinNL_enumItems _ (by simpa using h.items)]
  have hne : enumItemLines (e.items.map (·.name)) ≠ [] := enumItemLines_ne _ (by simpa using h.items)
  unfold enumLines
  rw [joinNL_three _ _ _ hne]
  simp [lit]

/-- what the model says about an enum -/
def enumDescOf (e : Enum) : EnumDesc := { qname := qualName e.schema e.name, items := e.items.map (·.name) }

theorem readEnumLines_ok (e : Enum) (h : EnumReadable e) : readEnumLines (enumLines e) = some (enumDescOf e) := by
  unfold readEnumLines enumLines
  simp only [List.append_assoc, List.cons_append, List.nil_append, stripKw_append]
  rw [stripSuffix_append]
  have hr1 : ∀ L : List Str, (L ++ [lit ");"]).getLast? = some (lit ");") := by intro L; simp
  have hr2 : ∀ L : List Str, (L ++ [lit ");"]).dropLast = L := by intro L; simp
  simp only [hr1, hr2, ↓reduceIte]
  rw [readEnumItems_ok _ (by simpa using h.items)]
  rfl

/-- **the reader inverts the enum renderer**: one `CREATE TYPE … AS ENUM` statement, the name as qualified by
    `get_full_name_for_sql`, the items in order, nothing else -/
theorem read_render_enum (e : Enum) (h : EnumReadable e) :
    readEnumLines (splitNL (renderEnum e)) = some (enumDescOf e) := by
  rw [renderEnum_lines e h, C14.splitNL_joinNL _ (by simp [enumLines])]
  · exact readEnumLines_ok e h
  · intro l hl
    apply noBreak_nl
    unfold enumLines at hl
    simp only [List.mem_append, List.mem_singleton] at hl
    rcases hl with (h1 | h1) | h1
    · subst h1
      intro ch hch
      simp only [List.mem_append] at hch
      rcases hch with (h2 | h2) | h2
      · exact (by decide : ∀ c ∈ lit "CREATE TYPE ", isLineBreak c = false) ch h2
      · exact qualName_noBreak _ _ h.names.1 h.names.2 ch h2
      · exact (by decide : ∀ c ∈ lit " AS ENUM (", isLineBreak c = false) ch h2
    · have : ∀ (ns : List Str), (∀ n ∈ ns, NoBreak n) → ∀ l ∈ enumItemLines ns, NoBreak l := by
        intro ns
        induction ns with
        | nil => intro _ l hl; simp [enumItemLines] at hl
        | cons n r ih =>
          intro hn l hl
          have hnn := hn n (by simp)
          cases r with
          | nil =>
            simp only [enumItemLines, List.mem_singleton] at hl
            subst hl
            intro ch hch
            have e : ' ' :: ' ' :: '\'' :: (n ++ ['\'']) = [' ', ' ', '\''] ++ n ++ ['\''] := by simp
            rw [e] at hch
            simp only [List.mem_append] at hch
            rcases hch with (h2 | h2) | h2
            · exact (by decide : ∀ c ∈ [' ', ' ', '\''], isLineBreak c = false) ch h2
            · exact hnn ch h2
            · exact (by decide : ∀ c ∈ ['\''], isLineBreak c = false) ch h2
          | cons n2 r2 =>
            simp only [enumItemLines, List.mem_cons] at hl
            rcases hl with h2 | h2
            · subst h2
              intro ch hch
              have e : ' ' :: ' ' :: '\'' :: (n ++ ['\'', ',']) = [' ', ' ', '\''] ++ n ++ ['\'', ','] := by simp
              rw [e] at hch
              simp only [List.mem_append] at hch
              rcases hch with (h3 | h3) | h3
              · exact (by decide : ∀ c ∈ [' ', ' ', '\''], isLineBreak c = false) ch h3
              · exact hnn ch h3
              · exact (by decide : ∀ c ∈ ['\'', ','], isLineBreak c = false) ch h3
            · exact ih (fun m hm => hn m (by simp [hm])) l (by simpa [enumItemLines] using h2)
      apply this (e.items.map (·.name)) _ l h1
      intro n hn
      obtain ⟨i, hi, rfl⟩ := List.mem_map.mp hn
      exact (h.itemPlain i hi).2
    · subst h1
      exact (by decide : ∀ c ∈ lit ");", isLineBreak c = false)

/-! ### whole scripts: enums, tables, standalone references -/

open C04 in
/-- the table a standalone reference alters / references -/
def stOf (db : Db) (r : Ref) : Table := (db.tables[(refSides r).1.1]?).getD default
open C04 in
def rtOf (db : Db) (r : Ref) : Table := (db.tables[(refSides r).2.1]?).getD default

open C04 in
/-- the standalone references the FOREIGN KEY reader covers: not many-to-many, between existing columns of existing
    tables, no comment, no double quote in a name, the statement is one line -/
structure FkReadable (db : Db) (r : Ref) : Prop where
  kind : r.kind ≠ .manyToMany
  standalone : r.inline = false
  src : (refSides r).1.1 < db.tables.length
  dst : (refSides r).2.1 < db.tables.length
  srcCols : ∀ i ∈ (refSides r).1.2, i < (stOf db r).columns.length
  dstCols : ∀ i ∈ (refSides r).2.2, i < (rtOf db r).columns.length
  comment : r.comment = none
  ne1 : (refSides r).1.2 ≠ []
  ne2 : (refSides r).2.2 ≠ []
  quotesT : '"' ∉ (stOf db r).schema ∧ '"' ∉ (stOf db r).name ∧ '"' ∉ (rtOf db r).schema ∧ '"' ∉ (rtOf db r).name
  quotesC : (∀ n ∈ namesAt (stOf db r) (refSides r).1.2, '"' ∉ n) ∧ (∀ n ∈ namesAt (rtOf db r) (refSides r).2.2, '"' ∉ n)
  quotesN : ∀ n, r.name = some n → '"' ∉ n
  oneLine : NoBreak (fkLine r (stOf db r) (rtOf db r))

/-- the blocks of lines of the script of a database of enums, tables and standalone references -/
def scriptBlocks (db : Db) : List (List Str) :=
  db.enums.map enumLines ++ db.tables.map (tableLines db)
    ++ db.refs.map fun r => [C04.fkLine r (stOf db r) (rtOf db r)]

/-- what the model says the script states -/
def scriptStmts (db : Db) : List Stmt :=
  db.enums.map (fun e => Stmt.enum (enumDescOf e)) ++ db.tables.map (fun t => Stmt.table (tabDescOf db t))
    ++ db.refs.map fun r => Stmt.fk (C04.fkDescOf r (stOf db r) (rtOf db r))

structure ScriptReadable (db : Db) : Prop where
  enums : ∀ e ∈ db.enums, EnumReadable e
  tables : ∀ t ∈ db.tables, Readable db t
  refs : ∀ r ∈ db.refs, FkReadable db r
  some : db.tables ≠ []

theorem interBlank_no_nl : ∀ (Ts : List (List Str)), (∀ A ∈ Ts, ∀ l ∈ A, '\n' ∉ l) → ∀ l ∈ interBlank Ts, '\n' ∉ l := by
  intro Ts
  induction Ts with
  | nil => intro _ l hl; simp [interBlank] at hl
  | cons A r ih =>
    intro hT l hl
    cases r with
    | nil => exact hT A (by simp) l (by simpa [interBlank] using hl)
    | cons B r2 =>
      simp only [interBlank, List.mem_append, List.mem_cons] at hl
      rcases hl with h1 | h1 | h1
      · exact hT A (by simp) l h1
      · subst h1; simp
      · exact ih (fun X hX => hT X (by simp [hX])) l h1

theorem mapM_some_map_mem {α β} (f : α → Option β) (g : α → β) :
    ∀ l : List α, (∀ a ∈ l, f a = some (g a)) → l.mapM f = some (l.map g) := by
  intro l
  induction l with
  | nil => intro _; rfl
  | cons x xs ih =>
    intro h
    rw [List.mapM_cons, h x (by simp), ih (fun a ha => h a (by simp [ha]))]; rfl

theorem mapM_some_map_comp {α β γ} (f : β → Option γ) (g : α → β) (k : α → γ) :
    ∀ l : List α, (∀ a ∈ l, f (g a) = some (k a)) → l.mapM (f ∘ g) = some (l.map k) := by
  intro l h
  exact mapM_some_map_mem (f ∘ g) k l h

theorem enumLines_nonempty (e : Enum) : ∀ l ∈ enumLines e, l ≠ [] := by
  intro l hl
  unfold enumLines at hl
  simp only [List.mem_append, List.mem_singleton] at hl
  rcases hl with (h1 | h1) | h1
  · subst h1; simp [lit]
  · have : ∀ (ns : List Str), ∀ l ∈ enumItemLines ns, l ≠ [] := by
      intro ns
      induction ns with
      | nil => intro l hl; simp [enumItemLines] at hl
      | cons n r ih =>
        intro l hl
        cases r with
        | nil => simp only [enumItemLines, List.mem_singleton] at hl; subst hl; simp
        | cons n2 r2 =>
          simp only [enumItemLines, List.mem_cons] at hl
          rcases hl with h2 | h2
          · subst h2; simp
          · exact ih l (by simpa [enumItemLines] using h2)
    exact this _ l h1
  · subst h1; simp [lit]

theorem enumLines_no_nl (e : Enum) (h : EnumReadable e) : ∀ l ∈ enumLines e, '\n' ∉ l := by
  intro l hl
  apply noBreak_nl
  unfold enumLines at hl
  simp only [List.mem_append, List.mem_singleton] at hl
  rcases hl with (h1 | h1) | h1
  · subst h1
    intro ch hch
    simp only [List.mem_append] at hch
    rcases hch with (h2 | h2) | h2
    · exact (by decide : ∀ c ∈ lit "CREATE TYPE ", isLineBreak c = false) ch h2
    · exact qualName_noBreak _ _ h.names.1 h.names.2 ch h2
    · exact (by decide : ∀ c ∈ lit " AS ENUM (", isLineBreak c = false) ch h2
  · have : ∀ (ns : List Str), (∀ n ∈ ns, NoBreak n) → ∀ l ∈ enumItemLines ns, NoBreak l := by
      intro ns
      induction ns with
      | nil => intro _ l hl; simp [enumItemLines] at hl
      | cons n r ih =>
        intro hn l hl
        have hnn := hn n (by simp)
        cases r with
        | nil =>
          simp only [enumItemLines, List.mem_singleton] at hl
          subst hl
          intro ch hch
          have e : ' ' :: ' ' :: '\'' :: (n ++ ['\'']) = [' ', ' ', '\''] ++ n ++ ['\''] := by simp
          rw [e] at hch
          simp only [List.mem_append] at hch
          rcases hch with (h2 | h2) | h2
          · exact (by decide : ∀ c ∈ [' ', ' ', '\''], isLineBreak c = false) ch h2
          · exact hnn ch h2
          · exact (by decide : ∀ c ∈ ['\''], isLineBreak c = false) ch h2
        | cons n2 r2 =>
          simp only [enumItemLines, List.mem_cons] at hl
          rcases hl with h2 | h2
          · subst h2
            intro ch hch
            have e : ' ' :: ' ' :: '\'' :: (n ++ ['\'', ',']) = [' ', ' ', '\''] ++ n ++ ['\'', ','] := by simp
            rw [e] at hch
            simp only [List.mem_append] at hch
            rcases hch with (h3 | h3) | h3
            · exact (by decide : ∀ c ∈ [' ', ' ', '\''], isLineBreak c = false) ch h3
            · exact hnn ch h3
            · exact (by decide : ∀ c ∈ ['\'', ','], isLineBreak c = false) ch h3
          · exact ih (fun m hm => hn m (by simp [hm])) l (by simpa [enumItemLines] using h2)
    apply this (e.items.map (·.name)) _ l h1
    intro n hn
    obtain ⟨i, hi, rfl⟩ := List.mem_map.mp hn
    exact (h.itemPlain i hi).2
  · subst h1
    exact (by decide : ∀ c ∈ lit ");", isLineBreak c = false)

theorem readBlock_enum (e : Enum) (h : EnumReadable e) : readBlock (enumLines e) = some (Stmt.enum (enumDescOf e)) := by
  have := readEnumLines_ok e h
  unfold enumLines at this ⊢
  simp only [List.append_assoc, List.cons_append, List.nil_append] at this ⊢
  unfold readBlock
  have hp : (lit "CREATE TYPE ").isPrefixOf (lit "CREATE TYPE " ++ (qualName e.schema e.name ++ lit " AS ENUM (")) = true := by
    rw [List.isPrefixOf_iff_prefix]; exact List.prefix_append _ _
  simp only [hp, ↓reduceIte, this]
  rfl

theorem readBlock_table (db : Db) (t : Table) (h : Readable db t) :
    readBlock (tableLines db t) = some (Stmt.table (tabDescOf db t)) := by
  have := readTableLines_ok db t h
  unfold tableLines at this ⊢
  simp only [List.append_assoc, List.cons_append, List.nil_append] at this ⊢
  unfold readBlock
  have hp1 : (lit "CREATE TYPE ").isPrefixOf (lit "CREATE TABLE " ++ (qualName t.schema t.name ++ lit " (")) = false := by
    simp [lit, List.isPrefixOf]
  have hp2 : (lit "CREATE TABLE ").isPrefixOf (lit "CREATE TABLE " ++ (qualName t.schema t.name ++ lit " (")) = true := by
    rw [List.isPrefixOf_iff_prefix]; exact List.prefix_append _ _
  simp only [hp1, hp2, Bool.false_eq_true, ↓reduceIte, this]
  rfl

open C04 in
theorem readBlock_fk (db : Db) (r : Ref) (h : FkReadable db r) :
    readBlock [fkLine r (stOf db r) (rtOf db r)] = some (Stmt.fk (fkDescOf r (stOf db r) (rtOf db r))) := by
  have := readFk_fkLine r (stOf db r) (rtOf db r) h.ne1 h.ne2 h.quotesT h.quotesC h.quotesN
  unfold readBlock
  have e : fkLine r (stOf db r) (rtOf db r) = lit "ALTER TABLE " ++ (fkLine r (stOf db r) (rtOf db r)).drop 12 := by
    unfold fkLine
    simp [lit]
  have hp1 : (lit "CREATE TYPE ").isPrefixOf (fkLine r (stOf db r) (rtOf db r)) = false := by
    rw [e]; simp [lit, List.isPrefixOf]
  have hp2 : (lit "CREATE TABLE ").isPrefixOf (fkLine r (stOf db r) (rtOf db r)) = false := by
    rw [e]; simp [lit, List.isPrefixOf]
  have hp3 : (lit "ALTER TABLE ").isPrefixOf (fkLine r (stOf db r) (rtOf db r)) = true := by
    rw [e, List.isPrefixOf_iff_prefix]; exact List.prefix_append _ _
  simp only [hp1, hp2, hp3, Bool.false_eq_true, ↓reduceIte, and_self, this]
  rfl

open C04 in
/-- **the reader inverts the script renderer, whole scripts**: for a database of covered enums, covered tables and
    covered standalone references (no inline reference), the script is read back to: one CREATE TYPE per enum in order
    with its items in order; then one CREATE TABLE per table in declaration order, each with exactly its columns, flags,
    defaults and key; then one ALTER TABLE … FOREIGN KEY per reference in order, on the key holder, correctly directed -
    and nothing else. -/
theorem read_render_script_all (db : Db) (h : ScriptReadable db) :
    ∃ text, renderDb db = .ok text ∧ readScriptAll text = some (scriptStmts db) := by
  have hinl : ∀ r ∈ db.refs, r.inline = false := fun r hr => (h.refs r hr).standalone
  have horder : reorderIdx db.tables db.refs = List.range db.tables.length := by
    apply C18.order_identity_without_hosts
    intro i
    unfold C18.hosted countFor
    have : db.refs.filter (fun r => hostName db.tables r = some ((db.tables[i]?.map (·.name)).getD [])) = [] := by
      rw [List.filter_eq_nil_iff]
      intro r hr
      simp [hostName, hinl r hr]
    cases hti : db.tables[i]? with
    | none => rfl
    | some t =>
      simp only
      have : db.refs.filter (fun r => hostName db.tables r = some t.name) = [] := by
        rw [List.filter_eq_nil_iff]
        intro r hr
        simp [hostName, hinl r hr]
      rw [this]; rfl
  have htabs : (List.range db.tables.length).mapM (renderTable db) = .ok (db.tables.map fun t => joinNL (tableLines db t)) := by
    have h1 := C02.range_mapM_getD_idx db.tables "table position" (fun i t => do
        let refs ← (inlineRefsFor db i t).mapM (renderInlineRef db)
        renderTableWith db t refs) (fun t => renderTableWith db t [])
      (by
        intro i t _
        have hin : inlineRefsFor db i t = [] := by
          unfold inlineRefsFor
          split
          · rfl
          · rw [List.filter_eq_nil_iff]
            intro r hr
            simp [hinl r hr]
        simp only [hin, List.mapM_nil, bind, Except.bind, pure, Except.pure])
    unfold renderTable
    rw [h1]
    exact mapM_ok_map_mem' _ _ db.tables (fun t ht => renderTable_lines db t (h.tables t ht))
  have hrefs : (db.refs.filter (!·.inline)).mapM (renderRefTop db)
      = .ok (db.refs.map fun r => fkLine r (stOf db r) (rtOf db r)) := by
    have hf : db.refs.filter (!·.inline) = db.refs := by
      rw [List.filter_eq_self]
      intro r hr
      simp [hinl r hr]
    rw [hf]
    apply mapM_ok_map_mem'
    intro r hr
    have hk := h.refs r hr
    exact renderRefTop_line db r hk.kind hk.standalone (stOf db r) (rtOf db r)
      (by simp [stOf, List.getElem?_eq_getElem hk.src]) (by simp [rtOf, List.getElem?_eq_getElem hk.dst])
      hk.srcCols hk.dstCols hk.comment
  have henums : db.enums.map renderEnum = db.enums.map fun e => joinNL (enumLines e) := by
    apply List.map_congr_left
    intro e he
    exact renderEnum_lines e (h.enums e he)
  have hne : scriptBlocks db ≠ [] := by
    unfold scriptBlocks
    have := h.some
    cases ht : db.tables with
    | nil => exact absurd ht this
    | cons t r => simp
  have hblockne : ∀ A ∈ scriptBlocks db, A ≠ [] := by
    intro A hA
    unfold scriptBlocks at hA
    simp only [List.mem_append, List.mem_map] at hA
    rcases hA with (⟨e, _, rfl⟩ | ⟨t, _, rfl⟩) | ⟨r, _, rfl⟩
    · simp [enumLines]
    · simp [tableLines]
    · simp
  have htext : renderDb db = .ok (joinNL (interBlank (scriptBlocks db))) := by
    unfold renderDb
    simp only [horder, htabs, hrefs, henums, bind, Except.bind, pure, Except.pure]
    rw [← joinWith_blocks (scriptBlocks db) hblockne]
    unfold scriptBlocks
    simp [List.map_append, List.map_map, Function.comp_def, joinNL]
  refine ⟨_, htext, ?_⟩
  unfold readScriptAll
  have hnl : ∀ A ∈ scriptBlocks db, ∀ l ∈ A, '\n' ∉ l := by
    intro A hA
    unfold scriptBlocks at hA
    simp only [List.mem_append, List.mem_map] at hA
    rcases hA with (⟨e, he, rfl⟩ | ⟨t, ht, rfl⟩) | ⟨r, hr, rfl⟩
    · exact enumLines_no_nl e (h.enums e he)
    · exact tableLines_no_nl db t (h.tables t ht)
    · intro l hl
      simp only [List.mem_singleton] at hl
      subst hl
      exact noBreak_nl _ (h.refs r hr).oneLine
  have hnonempty : ∀ A ∈ scriptBlocks db, ∀ l ∈ A, l ≠ [] := by
    intro A hA
    unfold scriptBlocks at hA
    simp only [List.mem_append, List.mem_map] at hA
    rcases hA with (⟨e, _, rfl⟩ | ⟨t, _, rfl⟩) | ⟨r, _, rfl⟩
    · exact enumLines_nonempty e
    · exact tableLines_nonempty db t
    · intro l hl
      simp only [List.mem_singleton] at hl
      subst hl
      simp [fkLine, lit]
  rw [C14.splitNL_joinNL _ (interBlank_ne _ hne hblockne) (interBlank_no_nl _ hnl), splitBlocks_interBlank _ hne hnonempty]
  unfold scriptBlocks scriptStmts
  have h1 := mapM_some_map_comp readBlock enumLines (fun e => Stmt.enum (enumDescOf e)) db.enums
    (fun e he => readBlock_enum e (h.enums e he))
  have h2 := mapM_some_map_comp readBlock (tableLines db) (fun t => Stmt.table (tabDescOf db t)) db.tables
    (fun t ht => readBlock_table db t (h.tables t ht))
  have h3 := mapM_some_map_comp readBlock (fun r => [fkLine r (stOf db r) (rtOf db r)])
    (fun r => Stmt.fk (fkDescOf r (stOf db r) (rtOf db r))) db.refs (fun r hr => readBlock_fk db r (h.refs r hr))
  rw [List.mapM_append, List.mapM_append, List.mapM_map, List.mapM_map, List.mapM_map, h1, h2, h3]
  rfl

/-- the reader on a literal script of every covered kind (a test on one literal) -/
example : readScriptAll (lit "CREATE TYPE \"s\".\"status\" AS ENUM (\n  'new',\n  'it''s'\n);\n\nCREATE TABLE \"a\" (\n  \"id\" int PRIMARY KEY\n);\n\nCREATE TABLE \"b\" (\n  \"a id\" int NOT NULL DEFAULT 0\n);\n\nALTER TABLE \"b\" ADD FOREIGN KEY (\"a id\") REFERENCES \"a\" (\"id\");")
    = some [Stmt.enum ⟨lit "\"s\".\"status\"", [lit "new", lit "it''s"]⟩,
            Stmt.table ⟨lit "\"a\"", [⟨lit "id", lit "int", true, false, false, false, none⟩], none⟩,
            Stmt.table ⟨lit "\"b\"", [⟨lit "a id", lit "int", false, false, false, true, some (lit "0")⟩], none⟩,
            Stmt.fk ⟨lit "\"b\"", none, [lit "a id"], lit "\"a\"", [lit "id"], []⟩] := by
  decide +kernel

end C03
end PyDBML
