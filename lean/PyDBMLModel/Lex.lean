/-
L4a: the scannerless lexical layer — pyparsing 3.3.2 primitives as PyDBML configures them
(`ParserElement.set_default_whitespace_chars(' \t\r')`), over a cursor that remembers the previous
character (for `WordStart`/`WordEnd`) and the "past end" position `LineEnd` produces at end of input.
Every primitive is validated against the real pyparsing elements of `pydbml.definitions` by the
`prim` correspondence (harness/props/c07.py).
-/
import PyDBMLModel.Model
namespace PyDBML
namespace Lex

/-- errors a parse can end in, other than a syntax error -/
inductive PErr where
  | noColumns                 -- `SyntaxError` raised by `parse_table`
  | internal (e : PyExc)      -- any other Python exception escaping a parse action
  | lib (name : String)       -- an exception of `pydbml.exceptions` (raised while building)
  | outOfModel (why : String)
  deriving Repr, DecidableEq, Inhabited

structure Cur where
  prev : Option Char := none
  rest : Str := []
  pastEnd : Bool := false     -- `LineEnd` matched at end of input (position len+1)
  deriving Repr, DecidableEq, Inhabited

inductive Res (α : Type) where
  | ok (a : α) (c : Cur)
  | fail                      -- ParseException
  | fatal                     -- ParseSyntaxException (after an error stop `-`)
  | exn (e : PErr)            -- a Python exception from a parse action
  deriving Repr, Inhabited

abbrev P (α : Type) := Cur → Res α

@[inline] def ppure {α} (a : α) : P α := fun c => .ok a c
@[inline] def pbind {α β} (p : P α) (f : α → P β) : P β := fun c =>
  match p c with
  | .ok a c' => f a c'
  | .fail => .fail
  | .fatal => .fatal
  | .exn e => .exn e
instance : Monad P where
  pure := ppure
  bind := pbind

def pfail {α} : P α := fun _ => .fail
def pexn {α} (e : PErr) : P α := fun _ => .exn e

/-- `MatchFirst` (`|`): the second alternative is tried from the original position when the first
    fails with a ParseException; fatal errors and action exceptions propagate. -/
def alt {α} (p q : P α) : P α := fun c =>
  match p c with
  | .fail => q c
  | r => r
infixl:20 " <|>> " => alt

/-- everything after an error stop (`-`): a plain failure becomes fatal. -/
def cut {α} (p : P α) : P α := fun c =>
  match p c with
  | .fail => .fatal
  | r => r

/-- `Opt` / `[0, 1]` -/
def opt {α} (p : P α) : P (Option α) := fun c =>
  match p c with
  | .ok a c' => .ok (some a) c'
  | .fail => .ok none c
  | .fatal => .fatal
  | .exn e => .exn e

/-- `ZeroOrMore` with explicit fuel (callers pass `rest.length + 2`: every successful iteration of
    the grammar's repeated bodies consumes input or reaches `pastEnd`, except the bodies noted). -/
def many {α} (p : P α) : Nat → P (List α)
  | 0 => fun c => .ok [] c
  | fuel + 1 => fun c =>
    match p c with
    | .ok a c' =>
      if c'.rest.length = c.rest.length && c'.pastEnd = c.pastEnd then .ok [a] c'   -- no progress: stop
      else
        match many p fuel c' with
        | .ok as c'' => .ok (a :: as) c''
        | .fail => .ok [a] c'
        | .fatal => .fatal
        | .exn e => .exn e
    | .fail => .ok [] c
    | .fatal => .fatal
    | .exn e => .exn e

def fuelOf (c : Cur) : Nat := c.rest.length + 2

def manyF {α} (p : P α) : P (List α) := fun c => many p (fuelOf c) c

def many1 {α} (p : P α) : P (List α) := do
  let a ← p
  let as ← manyF p
  pure (a :: as)

/-! ### character classes -/

def isAlpha (c : Char) : Bool := ('a' ≤ c && c ≤ 'z') || ('A' ≤ c && c ≤ 'Z')
def isDigit (c : Char) : Bool := '0' ≤ c && c ≤ '9'
def isAlnum (c : Char) : Bool := isAlpha c || isDigit c
def isNameChar (c : Char) : Bool := isAlnum c || c = '_'
def isHex (c : Char) : Bool := isDigit c || ('a' ≤ c && c ≤ 'f') || ('A' ≤ c && c ≤ 'F')
/-- `pp.printables`: ASCII 33…126 -/
def isPrintable (c : Char) : Bool := 33 ≤ c.toNat && c.toNat ≤ 126
/-- default whitespace of every element: `" \t\r"` -/
def isWs (c : Char) : Bool := c = ' ' || c = '\t' || c = '\r'

/-- advance over `n` characters -/
def advance (c : Cur) : Nat → Cur
  | 0 => c
  | n + 1 =>
    match c.rest with
    | [] => c
    | x :: r => advance { c with prev := some x, rest := r } n

/-- the whitespace skip every element does first -/
def skipWsList : Option Char → Str → Option Char × Str
  | p, x :: r => if isWs x then skipWsList (some x) r else (p, x :: r)
  | p, [] => (p, [])

def skipWs (c : Cur) : Cur :=
  let pr := skipWsList c.prev c.rest
  { c with prev := pr.1, rest := pr.2 }

/-- Python `str.upper()` on the characters that can take part in a caseless match against an ASCII
    keyword: ASCII letters, and the two non-ASCII characters whose upper case is one ASCII letter. -/
def pyUpper1 (c : Char) : Char :=
  if c.toNat = 0x17F then 'S' else if c.toNat = 0x131 then 'I' else asciiUpper c

def startsWith (s pre : Str) : Bool :=
  match pre, s with
  | [], _ => true
  | p :: ps, x :: xs => p == x && startsWith xs ps
  | _ :: _, [] => false

def startsWithCaseless (s pre : Str) : Bool :=
  match pre, s with
  | [], _ => true
  | p :: ps, x :: xs => pyUpper1 p == pyUpper1 x && startsWithCaseless xs ps
  | _ :: _, [] => false

/-- `Literal(s)` without whitespace skipping -/
def litRaw (s : Str) : P Unit := fun c =>
  if !c.pastEnd && startsWith c.rest s then .ok () (advance c s.length) else .fail

/-- `Literal(s)` -/
def sym (s : String) : P Unit := fun c => litRaw s.toList (skipWs c)

/-- `CaselessLiteral(s)`: prefix test on upper-cased text, no word boundary; returns `s`. -/
def clit (s : String) : P Unit := fun c =>
  let c := skipWs c
  if !c.pastEnd && startsWithCaseless c.rest s.toList then .ok () (advance c s.length) else .fail

/-- keyword characters of `CaselessKeyword` (`(alphanums + "_$").upper()`, tested on `ch.upper()`) -/
def isKwIdent (c : Char) : Bool :=
  let u := pyUpper1 c
  ('A' ≤ u && u ≤ 'Z') || isDigit u || u = '_' || u = '$'

/-- `CaselessKeyword(s)`: caseless match that is neither preceded nor followed by a keyword character -/
def ckw (s : String) : P Unit := fun c0 =>
  let c := skipWs c0
  if !c.pastEnd && startsWithCaseless c.rest s.toList then
    let prevOk := match c.prev with | none => true | some p => !isKwIdent p
    let c' := advance c s.length
    let nextOk := match c'.rest with | [] => true | x :: _ => !isKwIdent x
    if prevOk && nextOk then .ok () c' else .fail
  else .fail

/-- `Word(chars)` without whitespace skipping: a maximal non-empty run -/
def wordRaw (p : Char → Bool) : P Str := fun c =>
  let w := c.rest.takeWhile p
  if w.isEmpty || c.pastEnd then .fail else .ok w (advance c w.length)

def word (p : Char → Bool) : P Str := fun c => wordRaw p (skipWs c)

/-- `LineEnd()`: LF, or end of input (which moves to the past-end position) -/
def lineEnd : P Unit := fun c =>
  let c := skipWs c
  if c.pastEnd then .fail
  else match c.rest with
    | '\n' :: r => .ok () { c with prev := some '\n', rest := r }
    | [] => .ok () { c with pastEnd := true }
    | _ => .fail

/-- `StringEnd()` -/
def stringEnd : P Unit := fun c =>
  let c := skipWs c
  if c.rest.isEmpty then .ok () { c with pastEnd := true } else .fail

/-- `WordStart(wordChars=printables)` (skips whitespace first) -/
def wordStart : P Unit := fun c =>
  let c := skipWs c
  if c.pastEnd then .fail
  else match c.rest with
    | [] => .fail
    | x :: _ =>
      match c.prev with
      | none => .ok () c
      | some p => if isPrintable p || !isPrintable x then .fail else .ok () c

/-- `WordEnd(wordChars=printables)` (does not skip whitespace) -/
def wordEnd : P Unit := fun c =>
  match c.rest with
  | [] => .ok () c
  | x :: _ =>
    if c.pastEnd then .ok () c
    else if isPrintable x then .fail
    else match c.prev with
      | some p => if isPrintable p then .ok () c else .fail
      | none => .fail     -- `instring[-1]`: the last character of the text; not reachable after `as`

/-! ### quoted strings -/

def hexVal (c : Char) : Nat :=
  if isDigit c then c.toNat - 48 else if 'a' ≤ c && c ≤ 'f' then c.toNat - 87 else c.toNat - 55

/-- the unquote scan of `QuotedString.parseImpl` (`convert_whitespace_escapes=True`), with the
    numeric pattern as pyparsing 3.3.2 compiles it: `\\[0-7]3|\\0|\\x[0-9a-fA-F]2|\\u[0-9a-fA-F]4`.
    `esc` = an escape character is configured (string literals) or not (names);
    `dotall` = multi-line string (`\` + LF is an escape pair).
    `unquoteStep` is one match of the scan regex at the head of the text: (characters emitted,
    characters consumed, ≥ 1 on non-empty input); alternatives in the regex's order: whitespace
    escapes, numeric escapes, escaped character, any character. -/
def unquoteStep (esc dotall : Bool) : Str → Str × Nat
  | '\\' :: d :: r =>
    if d = 't' then (['\t'], 2)
    else if d = 'n' then (['\n'], 2)
    else if d = 'f' then (['\x0c'], 2)
    else if d = 'r' then (['\r'], 2)
    else if ('0' ≤ d && d ≤ '7') && r.head? = some '3' then ([d, '3'], 3)      -- `\\[0-7]3` ↦ `d3`
    else if d = '0' then (['\x00'], 2)
    else if d = 'x' && (match r with | h :: '2' :: _ => isHex h | _ => false) then
      ([Char.ofNat (hexVal (r.headD 'a') * 16 + 2)], 4)
    else if d = 'u' && (match r with | h :: '4' :: _ => isHex h | _ => false) then
      ([Char.ofNat (hexVal (r.headD 'a') * 16 + 4)], 4)
    else if esc && (dotall || d ≠ '\n') then ([d], 2)
    else (['\\'], 1)
  | c :: _ => ([c], 1)
  | [] => ([], 0)

/-- the scan: `skip` characters are still covered by the previous match -/
def unquoteAux (esc dotall : Bool) : Nat → Str → Str
  | _, [] => []
  | n + 1, _ :: r => unquoteAux esc dotall n r
  | 0, c :: r =>
    let st := unquoteStep esc dotall (c :: r)
    st.1 ++ unquoteAux esc dotall (st.2 - 1) r

def unquote (esc dotall : Bool) (s : Str) : Str := unquoteAux esc dotall 0 s

/-- body of `'…'` / `"…"` with escape character: `(\\.|[^q\n\r\\])*` then `q`.
    Returns (raw body, rest after the closing quote). -/
def scanQ1 (q : Char) : Str → Option (Str × Str)
  | '\\' :: d :: r =>
    if d = '\n' then none
    else match scanQ1 q r with
      | some (b, rest) => some ('\\' :: d :: b, rest)
      | none => none
  | c :: r =>
    if c = q then some ([], r)
    else if c = '\n' || c = '\r' || c = '\\' then none
    else match scanQ1 q r with
      | some (b, rest) => some (c :: b, rest)
      | none => none
  | [] => none

/-- body of a name `"…"` (no escape character): `[^"\n\r]*` then `"` -/
def scanName : Str → Option (Str × Str)
  | c :: r =>
    if c = '"' then some ([], r)
    else if c = '\n' || c = '\r' then none
    else match scanName r with
      | some (b, rest) => some (c :: b, rest)
      | none => none
  | [] => none

/-- body of `'''…'''`: `(\\.|''(?!')|'(?!'')|[^'\\])*` (DOTALL) then `'''`.
    The regex is greedy with backtracking; because every alternative is determined by its first
    characters, the scan below (stop at the first `'''` that is not consumed by an alternative)
    is what the backtracking engine finds. -/
def scanQ3 : Str → Option (Str × Str)
  | '\\' :: d :: r =>
    match scanQ3 r with
    | some (b, rest) => some ('\\' :: d :: b, rest)
    | none => none
  | '\'' :: '\'' :: '\'' :: r => some ([], r)
  | '\'' :: '\'' :: r =>        -- `''` not followed by `'`
    match scanQ3 r with
    | some (b, rest) => some ('\'' :: '\'' :: b, rest)
    | none => none
  | '\'' :: r =>                -- `'` not followed by `''`
    match scanQ3 r with
    | some (b, rest) => some ('\'' :: b, rest)
    | none => none
  | '\\' :: [] => none
  | c :: r =>
    match scanQ3 r with
    | some (b, rest) => some (c :: b, rest)
    | none => none
  | [] => none

def curAfter (c : Cur) (rest : Str) : Cur := advance c (c.rest.length - rest.length)

/-- `name`: `Word(alphanums + '_') | QuotedString('"')` -/
def name : P Str := fun c =>
  let c := skipWs c
  if c.pastEnd then .fail
  else
    let w := c.rest.takeWhile isNameChar
    if !w.isEmpty then .ok w (advance c w.length)
    else match c.rest with
      | '"' :: r =>
        match scanName r with
        | some (b, rest) => .ok (unquote false false b) (curAfter c rest)
        | none => .fail
      | _ => .fail

/-- `string_literal`: `'…' ^ "…" ^ '''…'''` (longest match; first on ties) -/
def stringLiteral : P Str := fun c =>
  let c := skipWs c
  if c.pastEnd then .fail
  else match c.rest with
    | '\'' :: r =>
      let a : Option (Str × Str) := (scanQ1 '\'' r).map fun p => (unquote true false p.1, p.2)
      let t : Option (Str × Str) := match r with
        | '\'' :: '\'' :: r3 => (scanQ3 r3).map fun p => (unquote true true p.1, p.2)
        | _ => none
      match a, t with
      | some (va, ra), some (vt, rt) =>
        if rt.length < ra.length then .ok vt (curAfter c rt) else .ok va (curAfter c ra)
      | some (va, ra), none => .ok va (curAfter c ra)
      | none, some (vt, rt) => .ok vt (curAfter c rt)
      | none, none => .fail
    | '"' :: r =>
      match scanQ1 '"' r with
      | some (b, rest) => .ok (unquote true false b) (curAfter c rest)
      | none => .fail
    | _ => .fail

/-- `expression_literal`: `` Combine(Suppress('`') + CharsNotIn('`')[...] + Suppress('`')) `` -/
def expressionLiteral : P Str := fun c =>
  let c := skipWs c
  if c.pastEnd then .fail
  else match c.rest with
    | '`' :: r =>
      let body := r.takeWhile (· ≠ '`')
      match r.drop body.length with
      | '`' :: rest => .ok body (curAfter c rest)
      | _ => .fail
    | _ => .fail

/-- `number_literal`: `Word(nums) ^ Combine(Word(nums) + '.' + Word(nums))`; returns the matched text -/
def numberLiteral : P Str := fun c =>
  let c := skipWs c
  if c.pastEnd then .fail
  else
    let i := c.rest.takeWhile isDigit
    if i.isEmpty then .fail
    else match c.rest.drop i.length with
      | '.' :: r =>
        let f := r.takeWhile isDigit
        if f.isEmpty then .ok i (advance c i.length)
        else .ok (i ++ '.' :: f) (advance c (i.length + 1 + f.length))
      | _ => .ok i (advance c i.length)

/-- `relation`: `oneOf("> - < <>")` -/
def relation : P RefKind := fun c =>
  let c := skipWs c
  if c.pastEnd then .fail
  else match c.rest with
    | '<' :: '>' :: _ => .ok .manyToMany (advance c 2)
    | '>' :: _ => .ok .manyToOne (advance c 1)
    | '-' :: _ => .ok .oneToOne (advance c 1)
    | '<' :: _ => .ok .oneToMany (advance c 1)
    | _ => .fail

/-- `hex_color`: `("#" - (hex*3 ^ hex*6)).leaveWhitespace()` inside `Combine(...)`.
    The enclosing `Combine` skips whitespace; after `#` a failure is fatal. -/
def hexColor : P Str := fun c =>
  let c := skipWs c
  if c.pastEnd then .fail
  else match c.rest with
    | '#' :: r =>
      let h := r.takeWhile isHex
      if h.length ≥ 6 then .ok ('#' :: h.take 6) (advance c 7)
      else if h.length ≥ 3 then .ok ('#' :: h.take 3) (advance c 4)
      else .fatal
    | _ => .fail

/-- `comment`: `//` + SkipTo(LineEnd) | `/*` … `*/`; returns the captured text -/
def findClose : Str → Option (Str × Str)
  | '*' :: '/' :: r => some ([], r)
  | c :: r => match findClose r with
    | some (b, rest) => some (c :: b, rest)
    | none => none
  | [] => none

def comment : P Str := fun c =>
  let c := skipWs c
  if c.pastEnd then .fail
  else match c.rest with
    | '/' :: '/' :: r =>
      let c1 := skipWs (advance c 2)
      let text := c1.rest.takeWhile (· ≠ '\n')
      let _ := r
      .ok text (advance c1 text.length)
    | '/' :: '*' :: r =>
      let c1 := skipWs (advance c 2)
      let _ := r
      match findClose c1.rest with
      | some (b, rest) => .ok b (curAfter c1 rest)
      | none => .fail
    | _ => .fail

/-- `White()` : one or more of `" \t\r\n"` (no skipping) -/
def white : P Unit := fun c =>
  let w := c.rest.takeWhile fun x => x = ' ' || x = '\t' || x = '\r' || x = '\n'
  if w.isEmpty || c.pastEnd then .fail else .ok () (advance c w.length)

/-- `str.expandtabs()` (tab size 8; the column restarts after LF and CR) -/
def expandTabsAux : Nat → Str → Str
  | _, [] => []
  | col, '\t' :: r =>
    let n := 8 - col % 8
    List.replicate n ' ' ++ expandTabsAux 0 r
  | col, c :: r =>
    if c = '\n' || c = '\r' then c :: expandTabsAux 0 r else c :: expandTabsAux (col + 1) r

def expandTabs (s : Str) : Str := expandTabsAux 0 s

end Lex
end PyDBML
