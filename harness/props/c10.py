"""C10 — renderings always reflect the current state of the model after edits."""
import json
import random
import sys

from harness import core, gen_db as GD, observe as O
from harness.driver import Driver, DriverError
from harness.props.sqlcommon import same_outcome

sys.path.insert(0, '/repo')
from pydbml.classes import Column, EnumItem, Expression, Index, Note  # noqa: E402

PID = 'C10'
THEOREMS = ['PyDBML.C10.fk_shows_renamed_target', 'PyDBML.C10.fk_shows_renamed_source', 'PyDBML.C10.fk_shows_renamed_column',
            'PyDBML.C10.table_shows_new_name']
MODULES = ['PyDBMLProofs.Props.C10']

EDITS = ['t.name', 't.schema', 't.alias', 't.note', 't.color', 'c.name', 'c.type', 'c.type_enum', 'c.flags', 'c.default',
         'c.note', 'e.name', 'e.schema', 'e.add_item', 'e.item_name', 'r.type', 'r.inline', 'r.name', 'r.actions',
         't.add_column', 't.add_index', 't.delete_index', 'g.name', 'g.color', 'p.name', 'p.items', 's.text',
         'db.allow_properties', 'ix.flags', 'ix.name', 't.twin_index', 't.delete_last_index', 't.delete_last_index',
         't.note_text', 'c.note_text', 'ix.note_text', 't.note_same', 'c.note_same']


def note_frame(db, hd):
    """the note text of every element that has one, by object: {id: (what, text)}"""
    out = {}
    def add(o, what):
        n = getattr(o, 'note', None)
        out[id(o)] = (what, getattr(n, 'text', n))
    for t in hd['tables']:
        add(t, f'table {t.name!r}')
        for c in t.columns:
            add(c, f'column {t.name!r}.{c.name!r}')
        for ix in t.indexes:
            add(ix, f'an index of {t.name!r}')
    for e in hd['enums']:
        for i in e.items:
            add(i, f'enum item {e.name!r}.{i.name!r}')
    for g in hd['groups']:
        add(g, f'group {g.name!r}')
    if db.project is not None:
        add(db.project, 'the project')
    return out


def apply_edit(rng, db, hd, kind, counter):
    """Apply one in-place edit through plain attribute assignment / public methods. Returns a description."""
    T, E, R, G = hd['tables'], hd['enums'], hd['refs'], hd['groups']
    fresh = lambda base: f'{base}_{counter}'  # noqa: E731
    lost = hd.setdefault('lost', [])

    def put(owner, attr, value, what):
        """assign, then read the attribute back THROUGH ITS OWNER (`owner()` is evaluated again): what was written is what is
        there. The expected content of an edit is the value written, not whatever the object reports afterwards."""
        setattr(owner(), attr, value)
        got = getattr(owner(), attr)
        if not (got is value or got == value):
            lost.append(f'{what} = {value!r} reads back as {got!r}')
    if kind.startswith('t.') and T:
        t = rng.choice(T)
        if kind == 't.name':
            put(lambda: t, 'name', fresh('tbl'), 'table.name')
        elif kind == 't.schema':
            put(lambda: t, 'schema', rng.choice(['public', 'sales', 'hr', fresh('sch')]), 'table.schema')
            if sum(1 for x in T if x.full_name == t.full_name) > 1:
                t.name = fresh('tbl')
        elif kind == 't.alias':
            put(lambda: t, 'alias', rng.choice([None, '', fresh('al')]), 'table.alias')     # '' = cleared, like None
        elif kind == 't.note':
            v = rng.choice(['', 'new note', 'new\nnote'])
            t.note = Note(v)
            if t.note.text != v:
                lost.append(f'table.note = Note({v!r}) reads back as {t.note.text!r}')
        elif kind == 't.color':
            put(lambda: t, 'header_color', rng.choice([None, '', '#abc', '#123456']), 'table.header_color')
        elif kind == 't.add_column':
            t.add_column(Column(fresh('col'), rng.choice(['int', 'text']), pk=rng.random() < 0.3, note=rng.choice([None, 'cn'])))
        elif kind == 't.add_index':
            k = rng.randint(1, min(2, len(t.columns)))
            t.add_index(Index(rng.sample(t.columns, k), name=rng.choice([None, fresh('idx')]), unique=rng.random() < 0.5,
                              pk=rng.random() < 0.2))
        elif kind == 't.note_text':
            # the text of the existing Note object, changed in place (not a new Note): whatever is stored is what renders
            put(lambda: t.note, 'text', rng.choice(['plain', '  indented', '\n\nblank lines around\n\n', '    a\n    b', 'tail  ', '']), 'table.note.text')
        elif kind == 't.note_same':
            # read - modify - write back the very same Note object
            n_ = t.note
            n_.text = rng.choice(['kept object', 'same note, new text'])
            t.note = n_
            if t.note is not n_ or t.note.text != n_.text:
                lost.append('table.note = (its own note object) is not kept')
        elif kind == 'ix.note_text' and t.indexes:
            ix_ = rng.choice(t.indexes)
            put(lambda: ix_.note, 'text', rng.choice(['plain', '  indented', '\nlead', '']), 'index.note.text')
        elif kind == 't.twin_index' and t.indexes:
            # an index that differs from an existing one in a single attribute (note, comment, name, a flag)
            src = rng.choice(t.indexes)
            tw = Index(list(src.subjects), name=src.name, unique=src.unique, type=src.type, pk=src.pk, note=src.note.text or None, comment=src.comment)
            what = rng.choice(['note', 'comment', 'name', 'unique'])
            if what == 'note':
                tw.note = Note(fresh('twin note'))
            elif what == 'comment':
                tw.comment = fresh('twin comment')
            elif what == 'name':
                tw.name = fresh('twin')
            else:
                tw.unique = not tw.unique
            t.add_index(tw)
        elif kind == 't.delete_last_index' and t.indexes:
            t.delete_index(t.indexes[-1])       # by object: the one passed must go, not an equal-looking earlier one
        elif kind == 't.delete_index' and t.indexes:
            if rng.random() < 0.5:
                t.delete_index(rng.randrange(len(t.indexes)))
            else:
                t.delete_index(rng.choice(t.indexes))
        return kind
    if kind.startswith('c.') and T:
        t = rng.choice(T)
        c = rng.choice(t.columns)
        if kind == 'c.name':
            put(lambda: c, 'name', fresh('c'), 'column.name')
        elif kind == 'c.type':
            put(lambda: c, 'type', rng.choice(['bigint', 'varchar(10)', 'uuid']), 'column.type')
        elif kind == 'c.type_enum' and E:
            put(lambda: c, 'type', rng.choice(E), 'column.type')
        elif kind == 'c.note_text':
            put(lambda: c.note, 'text', rng.choice(['plain', '  indented', '\n\nblank lines around\n', '    a\n    b', '']), 'column.note.text')
        elif kind == 'c.note_same':
            n_ = c.note
            n_.text = rng.choice(['kept object', 'same note, new text'])
            c.note = n_
            if c.note is not n_ or c.note.text != n_.text:
                lost.append('column.note = (its own note object) is not kept')
        elif kind == 'c.flags':
            f = rng.choice(['pk', 'unique', 'not_null', 'autoinc'])
            put(lambda: c, f, not getattr(c, f), 'column.' + f)
        elif kind == 'c.default':
            put(lambda: c, 'default', rng.choice([None, 0, 5, 1.5, True, False, 'txt', '', Expression('now()')]), 'column.default')
        elif kind == 'c.note':
            v = rng.choice(['', 'cnote'])
            c.note = Note(v)
            if c.note.text != v:
                lost.append(f'column.note = Note({v!r}) reads back as {c.note.text!r}')
        return kind
    if kind.startswith('ix.') and T:
        t = rng.choice(T)
        if t.indexes:
            ix = rng.choice(t.indexes)
            if kind == 'ix.flags':
                f = rng.choice(['pk', 'unique'])
                put(lambda: ix, f, not getattr(ix, f), 'index.' + f)
            else:
                put(lambda: ix, 'name', rng.choice([None, '', fresh('ix')]), 'index.name')
        return kind
    if kind.startswith('e.') and E:
        e = rng.choice(E)
        if kind == 'e.name':
            put(lambda: e, 'name', fresh('en'), 'enum.name')
        elif kind == 'e.schema':
            put(lambda: e, 'schema', rng.choice(['public', 'sales']), 'enum.schema')
            if sum(1 for x in E if (x.schema, x.name) == (e.schema, e.name)) > 1:
                e.name = fresh('en')
        elif kind == 'e.add_item':
            new = rng.choice([fresh('it'), EnumItem(fresh('it2'), note='n')])
            e.add_item(new)
            if isinstance(new, str) and counter % 2 == 0:
                # two items added by name; then the note of the first is written in place: an edit of one object is an edit of
                # that object only (no draw: the other choices stay what they were)
                e.add_item(fresh('itb'))
                it_ = next(i for i in e.items if i.name == new)
                before = note_frame(db, hd)
                put(lambda: it_.note, 'text', fresh('item note'), 'enum item.note.text')
                after = note_frame(db, hd)
                for key in before:
                    if key != id(it_) and before[key] != after.get(key):
                        lost.append(f'writing the note of enum item {new!r} changed the note of {before[key][0]} from {before[key][1]!r} to {after.get(key, (None, None))[1]!r}')
                        break
        elif kind == 'e.item_name' and e.items:
            it_ = rng.choice(e.items)
            put(lambda: it_, 'name', fresh('itn'), 'enum item.name')
        return kind
    if kind.startswith('r.') and R:
        r = rng.choice(R)
        if kind == 'r.type':
            put(lambda: r, 'type', rng.choice(['>', '<', '-', '<>']), 'reference.type')
        elif kind == 'r.inline':
            r.inline = not r._inline
        elif kind == 'r.name':
            put(lambda: r, 'name', rng.choice([None, '', fresh('fk')]), 'reference.name')
        elif kind == 'r.actions':
            # any spelling: an action assigned in place is the action a freshly built reference with that action has
            put(lambda: r, 'on_update', rng.choice([None, 'cascade', 'set null', 'CASCADE', 'Set Null']), 'reference.on_update')
            put(lambda: r, 'on_delete', rng.choice([None, 'restrict', 'no action', 'NO ACTION', 'Restrict']), 'reference.on_delete')
        return kind
    if kind.startswith('g.') and G:
        g = rng.choice(G)
        if kind == 'g.name':
            put(lambda: g, 'name', fresh('grp'), 'group.name')
        else:
            put(lambda: g, 'color', rng.choice([None, '#fff']), 'group.color')
        return kind
    if kind.startswith('p.') and db.project is not None:
        if kind == 'p.name':
            put(lambda: db.project, 'name', fresh('prj'), 'project.name')
        else:
            db.project.items['k%d' % (counter % 3)] = fresh('v')
        return kind
    if kind == 's.text' and db.sticky_notes:
        sn_ = rng.choice(db.sticky_notes)
        put(lambda: sn_, 'text', fresh('sticky text'), 'sticky note.text')
        return kind
    if kind == 'db.allow_properties':
        put(lambda: db, 'allow_properties', not db.allow_properties, 'database.allow_properties')
        return kind
    return None


def elem_renderings(db):
    out = {'db.sql': O.run(lambda: db.sql), 'db.dbml': O.run(lambda: db.dbml)}
    for i, t in enumerate(db.tables):
        out[f't{i}.sql'] = O.run(lambda t=t: t.sql)
        out[f't{i}.dbml'] = O.run(lambda t=t: t.dbml)
    for i, e in enumerate(db.enums):
        out[f'e{i}.sql'] = O.run(lambda e=e: e.sql)
        out[f'e{i}.dbml'] = O.run(lambda e=e: e.dbml)
    for i, r in enumerate(db.refs):
        out[f'r{i}.sql'] = O.run(lambda r=r: r.sql)
        out[f'r{i}.dbml'] = O.run(lambda r=r: r.dbml)
    for i, g in enumerate(db.table_groups):
        out[f'g{i}.dbml'] = O.run(lambda g=g: g.dbml)
    return out


def impl_job(job):
    seed, n_edits = job
    rng = random.Random(seed)
    spec = GD.gen_spec(rng, wild=False, max_tables=4, refs_wild_comment=False)
    try:
        db, hd = GD.build(spec)
    except Exception as e:  # noqa: BLE001
        return {'skip': 'build:' + type(e).__name__}
    changed = []

    def render_now(when):
        """evaluate the renderings (a cache would be filled now); reading them must leave the model as it is"""
        try:
            d0 = O.dump_db(db)
        except (O.OutOfModel, O.NotADatabase):
            d0 = None
        O.run(lambda: db.sql)
        if d0 is not None:
            try:
                if O.dump_db(db) != d0:
                    changed.append(when + ': .sql')
            except (O.OutOfModel, O.NotADatabase):
                changed.append(when + ': .sql (model left the value domain)')
        O.run(lambda: db.dbml)
    render_now('before the first edit')
    edits = []
    for k in range(n_edits):
        kind = rng.choice(EDITS)
        try:
            d = apply_edit(rng, db, hd, kind, k)
        except Exception as e:  # noqa: BLE001
            return {'skip': f'edit {kind} raised {type(e).__name__}'}
        if d:
            edits.append(d)
        if rng.random() < 0.3:
            render_now(f'after edit {k}')
    try:
        dump = O.dump_db(db)
    except O.OutOfModel as e:
        return {'skip': 'outOfModel:' + str(e)}
    r = {'dump': dump, 'edits': edits, 'spec': spec, 'changed': changed, 'lost': list(hd.get('lost', []))}
    r['after'] = elem_renderings(db)
    try:
        fresh, _ = GD.build(dump)
        r['fresh'] = elem_renderings(fresh)
    except Exception as e:  # noqa: BLE001
        r['fresh_skip'] = type(e).__name__
    return r


def main(tier, seed):
    ctx = core.Ctx(PID, tier, seed, 'translation_validation', THEOREMS, MODULES)
    ctx.build()
    problems = ctx.audit() if ctx.build_ok else ['lake build failed']
    drv = None
    try:
        drv = Driver()
    except DriverError as e:
        ctx.notes.append(str(e))
    n = 2500 if not ctx.thorough else 40000
    jobs = [(f'{seed}:{i}', 1 + (i % 15)) for i in range(n)]
    res = core.pmap(impl_job, jobs)
    ok = [(j, r) for j, r in zip(jobs, res) if 'skip' not in r]
    for r in res:
        if 'skip' in r:
            ctx.count('skip:' + r['skip'].split(' raised')[0][:40])
    msql = mdbml = None
    if drv is not None:
        msql = drv.ask_many({'op': 'sql', 'db': r['dump']} for _, r in ok)
        mdbml = drv.ask_many({'op': 'dbml', 'db': r['dump']} for _, r in ok)
    for k, (job, r) in enumerate(ok):
        ctx.case(core.h([r['spec'], r['edits'], r['dump']]), len(r['edits']) >= 2,
                 sample={'edits': r['edits'], 'tables': [t['name'] for t in r['dump']['tables']]} if k % 200 == 0 else None)
        for e in r['edits']:
            ctx.count('edit:' + e)
        if r.get('changed'):
            ctx.fail('evaluating a rendering changed the model itself (' + r['changed'][0] + '): later renderings no longer '
                     'reflect the state the caller built', {'op': 'edits', 'seed': job[0], 'n_edits': job[1]}, edits=r['edits'])
        if r.get('lost'):
            ctx.fail('an in-place edit is lost (' + r['lost'][0] + '): the renderings cannot show the value that was written',
                     {'op': 'edits', 'seed': job[0], 'n_edits': job[1]}, edits=r['edits'], lost=r['lost'][:5])
        if 'fresh' in r:
            ctx.count('oracle:fresh-rebuilt')
            for key, v in r['after'].items():
                fv = r['fresh'].get(key)
                if fv != v:
                    ctx.fail(f'{key} after edits differs from the rendering of a database freshly built with the final content',
                             {'op': 'edits', 'seed': job[0], 'n_edits': job[1]}, edits=r['edits'], after=v, fresh=fv)
                    break
        else:
            ctx.count('oracle:fresh-build-refused:' + r['fresh_skip'])
        if msql is not None:
            if not same_outcome(msql[k], r['after']['db.sql']) and msql[k].get('err') != 'outOfModel':
                ctx.diverge('db.sql after edits', {'op': 'sql', 'db': r['dump']}, msql[k], r['after']['db.sql'])
            if not same_outcome(mdbml[k], r['after']['db.dbml']) and mdbml[k].get('err') != 'outOfModel':
                ctx.diverge('db.dbml after edits', {'op': 'dbml', 'db': r['dump']}, mdbml[k], r['after']['db.dbml'])
    if drv is not None:
        drv.close()
    return ctx.finish(
        rule='random databases (hygienic) edited in place by 1-15 of 30 edit kinds (renames of tables/schemas/columns/enums/items, '
             'types, flags, defaults, notes, aliases, reference kind/inline/name/actions, added columns/indexes/items, removed '
             'indexes, group/project/sticky edits, allow_properties flips), with renderings evaluated before and between '
             'edits; non-trivial: >=2 effective edits; distinct by (spec, edits, final content) hash',
        explanation='The value model renders from the content alone (that a rendering equals that of a freshly built database is '
                    'definitional there). Theorems fk_shows_renamed_target / fk_shows_renamed_source / fk_shows_renamed_column / '
                    'table_shows_new_name (C10.lean): after an in-place rename of a table or column the DDL of every standalone '
                    'reference to it and the table statement itself, read back by the proved reader of C03/C04, show the new name. '
                    'The real code is tied to the model after every edit '
                    'sequence: db.sql/db.dbml equal the model rendering of the content read off the live objects; model-free '
                    'oracle: all database and element renderings equal those of a database freshly built with the final content.',
        assumptions=['content is read off live objects through public attributes (observe.dump_db)'],
        trusted_base=['Lean 4.33 kernel', 'hand-written renderer models tied by this correspondence', 'harness/gen_db.build'],
        proof_problems=problems)


def replay(path):
    case = json.load(open(path))
    print(json.dumps(case, indent=1)[:4000])
    c = case.get('case', {})
    if c.get('op') == 'edits':
        r = impl_job((c['seed'], c['n_edits']))
        for key, v in r.get('after', {}).items():
            if r.get('fresh', {}).get(key) != v:
                print('DIFF', key, v, r['fresh'].get(key))
    return 0
