import PyDBMLProofs.Props.C13
import PyDBMLProofs.Props.C18
