"""C11 — parsing is deterministic, history-independent and re-entrant."""
import gc
import json
import random
import sys
import threading
import weakref
from concurrent.futures import ThreadPoolExecutor

from harness import ref_text as RT
from harness import core, gen_db as GD, gen_text as GT, impl_text as IT, observe as O, speller as SP
from harness import parse_common as PC
from harness.driver import Driver, DriverError

sys.path.insert(0, '/repo')
import pyparsing as pp  # noqa: E402
from pydbml import PyDBML  # noqa: E402

PID = 'C11'
THEOREMS = []
MODULES = []


def grammar_fingerprint():
    """structure of the module-level (shared) grammar: identities, parse-action counts, names, children"""
    import importlib
    out = []
    seen = set()

    def walk(e):
        if id(e) in seen:
            return
        seen.add(id(e))
        kids = list(getattr(e, 'exprs', []) or [])
        if getattr(e, 'expr', None) is not None:
            kids.append(e.expr)
        out.append((id(e), type(e).__name__, len(getattr(e, 'parseAction', []) or []), getattr(e, 'resultsName', None),
                    tuple(id(k) for k in kids)))
        for k in kids:
            walk(k)
    for mod in ('common', 'generic', 'column', 'table', 'reference', 'index', 'enum', 'table_group', 'project', 'sticky_note'):
        try:
            m = importlib.import_module('pydbml.definitions.' + mod)
        except ImportError:
            continue
        for name in sorted(vars(m)):
            v = getattr(m, name)
            if isinstance(v, pp.ParserElement):
                walk(v)
    try:
        from pydbml.parser.blueprints import Blueprint
        out.append(('Blueprint.parser', repr(Blueprint.parser)))
    except ImportError:
        pass
    return out


def live_pydbml_objects():
    gc.collect()
    n = 0
    for o in gc.get_objects():
        mod = getattr(type(o), '__module__', '') or ''
        if mod.startswith('pydbml.') and not isinstance(o, type):
            n += 1
    return n


def reachable_mutables(root):
    """ids of every mutable object reachable from a result: pydbml instances, dicts, lists, sets"""
    seen = {}
    stack = [root]
    while stack:
        o = stack.pop()
        if id(o) in seen or isinstance(o, (str, bytes, int, float, bool, type(None), type)):
            continue
        mod = getattr(type(o), '__module__', '') or ''
        if isinstance(o, (list, tuple, set, frozenset)):
            if not isinstance(o, (tuple, frozenset)):
                seen[id(o)] = o
            stack.extend(o)
        elif isinstance(o, dict):
            seen[id(o)] = o
            stack.extend(o.keys())
            stack.extend(o.values())
        elif mod.startswith('pydbml.'):
            seen[id(o)] = o
            stack.extend(vars(o).values() if hasattr(o, '__dict__') else [])
    return seen


def docs_pool(seed, n):
    docs = [(t, False) for _, t in GT.corpus() if len(t) < 3000]
    for k in range(n):
        rng = random.Random(f'{seed}:{k}')
        spec = SP.normalise_for_spelling(GD.gen_spec(rng, wild=False, max_tables=3), RT.ref_norm)
        if not SP.spellable(spec):
            continue
        text = SP.spell(spec, rng, {'varied': True})[0]
        docs.append((text, spec['allow_properties']))
        if k % 3 == 0:
            docs.append((GT.mutate(rng, text, 2), spec['allow_properties']))      # mostly failing half-way
        if k % 5 == 0:
            toks = GT.tokens(text)
            docs.append((''.join(toks[:len(toks) * 2 // 3]), spec['allow_properties']))   # truncated: fails late
    return docs


def main(tier, seed):
    ctx = core.Ctx(PID, tier, seed, 'other', THEOREMS, MODULES)
    ctx.build()
    problems = ctx.audit() if ctx.build_ok else ['lake build failed']
    rng = ctx.rng
    docs = docs_pool(seed, 40 if not ctx.thorough else 400)
    base = [PC.impl_parse(t, p) for t, p in docs]
    # the first parses streamline the shared sub-grammar reachable through `Forward` once (lazy, idempotent
    # normalisation inside pyparsing); the fingerprint is taken after this warm-up
    fp0 = grammar_fingerprint()
    for (t, p), r in zip(docs, base):
        ctx.count('pool:' + PC.brief(r).split(':')[0])
    # --- determinism and history independence (sequential, same process: state would accumulate)
    n_hist = 150 if not ctx.thorough else 3000
    for h in range(n_hist):
        hist = [rng.randrange(len(docs)) for _ in range(rng.randint(1, 8))]
        target = rng.randrange(len(docs))
        for j in hist:
            PC.impl_parse(*docs[j])
        r = PC.impl_parse(*docs[target])
        ctx.case(core.h(['hist', hist, target]), len(hist) >= 1 and hist[0] != target,
                 sample={'history': [PC.brief(base[j]) for j in hist], 'target': PC.brief(base[target])} if h % 60 == 0 else None)
        if r != base[target]:
            ctx.fail('parsing a document after other documents gives another result', {'op': 'history', 'history': [docs[j][0] for j in hist], 'text': docs[target][0],
                                                                                        'props': docs[target][1]})
    if grammar_fingerprint() != fp0:
        ctx.fail('the shared (module-level) grammar was modified by parsing', {'op': 'fingerprint', 'after': 'sequential histories'})
    # --- concurrency: 16 threads, every document several times, barrier-started
    jobs = [(k % len(docs)) for k in range(len(docs) * (3 if not ctx.thorough else 10))]
    rng.shuffle(jobs)
    barrier = threading.Barrier(16)
    started = threading.Event()

    def work(chunk):
        try:
            barrier.wait(timeout=10)
        except threading.BrokenBarrierError:
            pass
        return [(j, PC.impl_parse(*docs[j])) for j in chunk]
    old = sys.getswitchinterval()
    sys.setswitchinterval(1e-5)
    try:
        with ThreadPoolExecutor(16) as ex:
            outs = list(ex.map(work, [jobs[i::16] for i in range(16)]))
    finally:
        sys.setswitchinterval(old)
    for lst in outs:
        for j, r in lst:
            ctx.case(core.h(['thread', j, len(ctx.nontrivial) % 7]), True)
            if r != base[j]:
                ctx.fail('parsing concurrently with other documents in other threads gives another result',
                         {'op': 'threads', 'text': docs[j][0], 'props': docs[j][1]})
                break
    if grammar_fingerprint() != fp0:
        ctx.fail('the shared (module-level) grammar was modified by concurrent parsing', {'op': 'fingerprint', 'after': 'threads'})
    # --- no shared mutable state between results
    ok_docs = [(t, p) for (t, p), r in zip(docs, base) if 'ok' in r]
    import tempfile, pathlib, shutil
    tmpd = tempfile.mkdtemp(prefix='c11_')

    def via(route, t, p, tag):
        """the document through one of the entry routes of the library (parse_file takes no options: only for p False)"""
        if route == 0 or (p and route in (2, 3)):
            return PyDBML(t, allow_properties=p)
        if route == 1:
            return PyDBML.parse(t, allow_properties=p)
        f = pathlib.Path(tmpd) / f'{tag}.dbml'
        f.write_text(t, encoding='utf8')
        if route == 2:
            return PyDBML.parse_file(str(f))
        if route == 3:
            return PyDBML.parse_file(f)
        if route == 4:
            return PyDBML(f, allow_properties=p)
        with open(f, encoding='utf8') as fh:
            return PyDBML(fh, allow_properties=p)
    for k, (t, p) in enumerate(ok_docs[:40 if not ctx.thorough else 400]):
        # both results through the same route (k), then through two different ones: a memo in any route shows
        ra, rb = [(k % 6, k % 6), (k % 6, (k + 1) % 6)][(k // 6) % 2]
        try:
            a = via(ra, t, p, f'a{k}')
            b = via(rb, t, p, f'a{k}' if (k // 12) % 2 == 0 else f'b{k}')
        except UnicodeError:
            a = PyDBML(t, allow_properties=p)
            b = PyDBML(t, allow_properties=p)
        ctx.count(f'routes:{ra}/{rb}')
        if a is b:
            ctx.fail('two parse calls on the same document return one and the same Database object',
                     {'op': 'aliasing', 'text': t, 'props': p, 'routes': [ra, rb]})
            continue
        before = O.dump_db(b)
        shared = set(reachable_mutables(a)) & set(reachable_mutables(b))
        if shared:
            kinds = sorted({type(reachable_mutables(a)[i]).__name__ for i in shared})
            ctx.fail(f'two parse results share mutable objects ({", ".join(kinds)})', {'op': 'shared-objects', 'text': t, 'props': p})
        # edit and extend `a`
        if a.project is not None:
            a.project.items['injected'] = 'x'
            a.project.note.text = 'changed'
        for tb in a.tables:
            tb.properties['injected'] = 'y'
            tb.note.text = 'changed'
            tb.name = tb.name + '_renamed'
            for c in tb.columns:
                c.properties['injected'] = 'z'
                c.note.text = 'changed'
                if hasattr(c.default, 'text'):
                    c.default.text = 'changed()'
            for ix in tb.indexes:
                for sbj in ix.subjects:
                    if hasattr(sbj, 'text'):
                        sbj.text = 'changed()'
        for e in a.enums:
            e.add_item('injected_item')
        for g in a.table_groups:
            g.items.clear()
        from pydbml.classes import Table, Column
        nt = Table('injected_table')
        nt.add_column(Column('c', 'int'))
        a.add(nt)
        ctx.case(core.h(['alias', t]), True)
        if O.dump_db(b) != before:
            ctx.fail('editing one parsed database changes another one obtained from the same document', {'op': 'aliasing', 'text': t, 'props': p})
        c = PC.impl_parse(t, p)
        if c.get('ok') != before:
            ctx.fail('editing a parsed database changes the outcome of a later parse', {'op': 'aliasing-later', 'text': t, 'props': p})
    shutil.rmtree(tmpd, ignore_errors=True)
    # --- reclaimability
    live0 = live_pydbml_objects()
    refs = []
    for t, p in docs[:30]:
        try:
            db = PyDBML(t, allow_properties=p)
            refs.append(weakref.ref(db))
            refs += [weakref.ref(x) for x in db.tables[:2]]
            refs += [weakref.ref(c.default) for tb in db.tables for c in tb.columns if hasattr(c.default, 'text')][:3]
            refs += [weakref.ref(x) for x in db.refs[:1]] + [weakref.ref(x) for x in db.enums[:1]]
            del db
        except Exception:  # noqa: BLE001
            pass
    gc.collect()
    alive = sum(1 for r in refs if r() is not None)
    # ... and right after a single parse, with no later parse in between (a cache of "the last parse" would be
    # flushed by the next one and stay unnoticed above)
    for t, p in [d for d, r in zip(docs, base) if 'ok' in r][:8]:
        one = []
        try:
            db = PyDBML(t, allow_properties=p)
            one.append(weakref.ref(db))
            one += [weakref.ref(x) for x in db.tables[:2]] + [weakref.ref(x) for x in db.refs[:1]] + [weakref.ref(x) for x in db.enums[:1]]
            del db
        except Exception:  # noqa: BLE001
            pass
        gc.collect()
        alive += sum(1 for r in one if r() is not None)
        refs += one
    for t, p in [d for d, r in zip(docs, base) if str(r.get('err', '')).startswith('lib:')][:4]:
        # a parse that failed while building: nothing of it may stay reachable
        n0 = live_pydbml_objects()
        try:
            PyDBML(t, allow_properties=p)
        except Exception:  # noqa: BLE001
            pass
        n1 = live_pydbml_objects()
        if n1 > n0 + 2:
            ctx.fail(f'objects of a parse that failed while building stay reachable ({n0} -> {n1} live pydbml objects)', {'op': 'retained-after-failure', 'text': t})
    ctx.case(core.h(['reclaim', len(refs)]), True, sample={'weakrefs': len(refs), 'alive_after_drop': alive})
    if alive:
        ctx.fail(f'{alive} of {len(refs)} dropped results are still referenced by the library', {'op': 'reclaim'})
    live1 = live_pydbml_objects()
    if live1 > live0 + 5:
        ctx.fail(f'objects created for finished/failed parses are retained ({live0} -> {live1} live pydbml objects)', {'op': 'retained'})
    ctx.extra['live_objects'] = [live0, live1]
    # --- the results equal the pure model function of (document, options)
    drv = None
    try:
        drv = Driver()
        ms = drv.ask_many({'op': 'parse', 'text': t, 'allow_properties': p} for t, p in docs)
        for (t, p), r, m in zip(docs, base, ms):
            if m.get('err') != 'outOfModel' and r.get('err') != 'recursion' and not PC.same_parse(m, r):
                ctx.diverge('parse result vs the pure model function', {'op': 'parse', 'text': t, 'props': p}, PC.brief(m), PC.brief(r))
        drv.close()
    except DriverError as e:
        ctx.notes.append(str(e))
    return ctx.finish(
        rule='pool of corpus, spelled, mutated (failing half-way) and truncated documents; random histories of 1-8 earlier parses '
             'before a target parse; 16 barrier-started threads with a 10 microsecond switch interval parsing every document '
             'several times; edits/extensions of one result against a sibling result and later parses; weak references to dropped '
             'results. Non-trivial: a history whose first call differs from the target; distinct by case hash',
        explanation='In the Lean model parsing is a function of (text, options), so determinism, history independence and '
                    'interleaving independence hold there by construction (no theorem is claimed: it would be vacuous). That '
                    'the implementation has no hidden state is MONITORED, not proved: results after histories / under threads equal '
                    'the fresh results and the pure model\'s; the module-level pyparsing grammar is fingerprinted (identities, '
                    'parse-action counts, results names, children) before and after; Blueprint.parser stays None; results share no '
                    'mutable state; dropped results are collected.',
        assumptions=['CPython scheduling, the GIL and the garbage collector are outside the model'],
        trusted_base=['Lean 4.33 kernel', 'the monitors of harness/props/c11.py'],
        proof_problems=problems)


def replay(path):
    case = json.load(open(path))
    print(json.dumps(case, indent=1)[:3000])
    c = case.get('case', {})
    if c.get('op') == 'aliasing' and c.get('routes') and not c.get('props'):
        import tempfile, pathlib
        with tempfile.TemporaryDirectory(prefix='c11_') as d:
            f = pathlib.Path(d) / 'doc.dbml'
            f.write_text(c['text'], encoding='utf8')
            mk = {0: lambda: PyDBML(c['text']), 1: lambda: PyDBML.parse(c['text']), 2: lambda: PyDBML.parse_file(str(f)),
                  3: lambda: PyDBML.parse_file(f), 4: lambda: PyDBML(f), 5: lambda: PyDBML(open(f, encoding='utf8'))}
            a, b = mk[c['routes'][0]](), mk[c['routes'][1]]()
            print('routes', c['routes'], '-> the two calls return the same object:', a is b)
            return 1 if a is b else 0
    return 0
