"""C01 — parsing is faithful: the Database holds exactly what the document declares."""
import copy
import json
import random

from harness import ref_text as RT
from harness import core, gen_db as GD, gen_text as GT, impl_text as IT, observe as O, speller as SP
from harness import parse_common as PC
from harness.driver import Driver, DriverError

PID = 'C01'
THEOREMS = ['PyDBML.C02.kwTable_facts', 'PyDBML.C02.kwEnum_facts', 'PyDBML.C02.kwRef_facts', 'PyDBML.C02.kwGroup_facts', 'PyDBML.C02.kwProject_facts', 'PyDBML.C02.kwNote_facts', 'PyDBML.C02.spells_bare', 'PyDBML.C02.spells_quoted', 'PyDBML.C02.document_faithful_each_variant', 'PyDBML.C02.document_faithful_variants', 'PyDBML.C02.enums_tables_spelling_inert', 'PyDBML.C02.tables_spelling_inert', 'PyDBML.C02.bodyEnd_note', 'PyDBML.C02.enumRule_okPN', 'PyDBML.C02.projectRule_okP', 'PyDBML.C02.document_faithful_gaps', 'PyDBML.C02.parseDoc_elems_gaps_end', 'PyDBML.C02.parseDoc_elems_gaps', 'PyDBML.C02.cBefore_nls_comment',
            'PyDBML.C02.parseDoc_elems', 'PyDBML.C02.DocSpec.build', 'PyDBML.C02.enumRule_okP', 'PyDBML.C02.stickyNoteRule_okP', 'PyDBML.C02.tableGroupRule_okP', 'PyDBML.C02.ColForm.parseDoc_tables_refs', 'PyDBML.C02.ColForm.build_tables_refs', 'PyDBML.C02.ColForm.buildRef_ok', 'PyDBML.C02.tableColumn_settings', 'PyDBML.C02.ColForm.parseDoc_table', 'PyDBML.C02.ColForm.build_table', 'PyDBML.C02.parseDoc_tables_refs', 'PyDBML.C02.build_tables_refs', 'PyDBML.C02.buildRef_plain', 'PyDBML.C02.parseDoc_tables', 'PyDBML.C02.parseDoc_enum', 'PyDBML.C02.build_enum', 'PyDBML.C02.build_tables', 'PyDBML.C02.many_tables', 'PyDBML.C02.parseDoc_table', 'PyDBML.C02.parseDoc_sticky', 'PyDBML.C02.build_table']
MODULES = ['PyDBMLProofs.Props.C02Sticky', 'PyDBMLProofs.Props.C02Table', 'PyDBMLProofs.Props.C02Tables', 'PyDBMLProofs.Props.C02Enum', 'PyDBMLProofs.Props.C02Refs', 'PyDBMLProofs.Props.C02Form', 'PyDBMLProofs.Props.C02Flags', 'PyDBMLProofs.Props.C02Comment', 'PyDBMLProofs.Props.C02FormTables', 'PyDBMLProofs.Props.C02FormRefs', 'PyDBMLProofs.Props.C02FlagsTables', 'PyDBMLProofs.Props.C02Doc', 'PyDBMLProofs.Props.C02DocMore', 'PyDBMLProofs.Props.C02Group', 'PyDBMLProofs.Props.C02Inline', 'PyDBMLProofs.Props.C02Project', 'PyDBMLProofs.Props.C02EnumNote', 'PyDBMLProofs.Props.C02TableNote', 'PyDBMLProofs.Props.C02Document', 'PyDBMLProofs.Props.C01Layout', 'PyDBMLProofs.Props.C01LayoutEnd',
           'PyDBMLProofs.Props.C01LayoutDoc', 'PyDBMLProofs.Props.C01Case']


def mk_case(seed, varied=True, max_tables=4):
    rng = random.Random(seed)
    spec = GD.gen_spec(rng, wild=False, max_tables=max_tables)
    if rng.random() < 0.15:
        GD.add_namesake_case(rng, spec)     # a public table and a namesake in another schema, referred to from there
    spec = SP.normalise_for_spelling(spec, RT.ref_norm)
    if not SP.spellable(spec):
        return None
    # a fifth of the documents carries comments wherever the grammar allows them (several per document, line and block style):
    # what is declared does not depend on them (the comparison leaves the comment attributes to C14)
    opts = {'varied': varied}
    if rng.random() < 0.2:
        opts.update(comments=True, comment_seed=f'{seed}:c01')
    text, exp, info = SP.spell(spec, rng, opts)
    return {'seed': seed, 'text': text, 'expected': exp, 'props': spec['allow_properties'], 'spec': spec, 'forms': info['forms']}


# ---- wild transformations: one named departure from WF each (DESIGN 5.1) ------------------------------
def base_spec():
    col = lambda n, **kw: dict({'name': n, 'type': 'int', 'unique': False, 'not_null': False, 'pk': False, 'autoinc': False,  # noqa: E731
                                'default': None, 'note': '', 'comment': None, 'props': []}, **kw)
    tab = lambda n, **kw: dict({'name': n, 'schema': 'public', 'alias': None, 'columns': [col('id'), col('x')], 'indexes': [],  # noqa: E731
                                'note': '', 'header_color': None, 'comment': None, 'abstract': False, 'props': []}, **kw)
    return {'tables': [tab('a'), tab('b')], 'refs': [], 'enums': [], 'groups': [], 'sticky': [], 'project': None,
            'allow_properties': False}, col, tab


def wild_cases():
    """(reason, text, expected) — documents that are well-formed DBML declaring `expected`, each touching
    one region the code mishandles."""
    out = []
    s, col, tab = base_spec()
    # bare table name with keyword prefix `note` listed in a TableGroup
    s1 = copy.deepcopy(s)
    s1['tables'][0]['name'] = 'notes'
    s1['groups'] = [{'name': 'g', 'items': [0, 1], 'comment': None, 'note': None, 'color': None}]
    out.append(('KwPrefixBare', 'Table notes {\n id int\n x int\n}\nTable b {\n id int\n x int\n}\nTableGroup g {\n notes\n b\n}\n', s1))
    s1b = copy.deepcopy(s1)
    s1b['tables'][0]['name'] = 'note'
    out.append(('KwExactBare', 'Table note {\n id int\n x int\n}\nTable b {\n id int\n x int\n}\nTableGroup g {\n note\n b\n}\n', s1b))
    # project field whose bare key starts with `note`
    s2 = copy.deepcopy(s)
    s2['project'] = {'name': 'p', 'items': [['notes', 'v']], 'note': '', 'comment': None}
    out.append(('KwPrefixBare', 'Project p {\n notes: \'v\'\n}\nTable a {\n id int\n x int\n}\nTable b {\n id int\n x int\n}\n', s2))
    # property key with a setting keyword as prefix
    s3 = copy.deepcopy(s)
    s3['allow_properties'] = True
    s3['tables'][0]['columns'][0]['props'] = [['pk1', 'v']]
    out.append(('PropKeyKwPrefix', "Table a {\n id int [pk1: 'v']\n x int\n}\nTable b {\n id int\n x int\n}\n", s3))
    # table group whose bare name starts with `as`
    s4 = copy.deepcopy(s)
    s4['groups'] = [{'name': 'assets', 'items': [0], 'comment': None, 'note': None, 'color': None}]
    out.append(('GroupNameAs', 'Table a {\n id int\n x int\n}\nTable b {\n id int\n x int\n}\nTableGroup assets {\n a\n}\n', s4))
    # alias equal to another table's bare name
    s5 = copy.deepcopy(s)
    s5['tables'][1]['alias'] = 'a'
    s5['tables'][1]['schema'] = 's'
    s5['refs'] = [{'type': '>', 't1': 1, 'col1': [0], 't2': 0, 'col2': [0], 'name': None, 'comment': None,
                   'on_update': None, 'on_delete': None, 'inline': False}]
    out.append(('AliasShadow', 'Table public.a {\n id int\n x int\n}\nTable s.b as c {\n id int\n x int\n}\nRef: s.b.id > public.a.id\n'
                .replace(' as c', ' as c'), None))
    out.append(('AliasShadow', 'Table zz.a {\n id int\n x int\n}\nTable s.b as a {\n id int\n x int\n}\nRef: s.b.id > zz.a.id\n',
                dict(copy.deepcopy(s5), tables=[dict(s5['tables'][0], schema='zz'), s5['tables'][1]])))
    # blank line before an enum's closing brace
    s6 = copy.deepcopy(s)
    s6['enums'] = [{'name': 'e', 'schema': 'public', 'items': [{'name': 'x', 'note': '', 'comment': None}], 'comment': None}]
    out.append(('EnumBlankBeforeClose', 'Enum e {\n x\n\n}\nTable a {\n id int\n x int\n}\nTable b {\n id int\n x int\n}\n', s6))
    # upper-case AS / REF:
    s7 = copy.deepcopy(s)
    s7['tables'][0]['alias'] = 'al'
    out.append(('UpperAs', 'Table a AS al {\n id int\n x int\n}\nTable b {\n id int\n x int\n}\n', s7))
    s8 = copy.deepcopy(s)
    s8['refs'] = [{'type': '>', 't1': 0, 'col1': [0], 't2': 1, 'col2': [0], 'name': None, 'comment': None,
                   'on_update': None, 'on_delete': None, 'inline': True}]
    out.append(('UpperRef', 'Table a {\n id int [REF: > b.id]\n x int\n}\nTable b {\n id int\n x int\n}\n', s8))
    # quoted name with a dot inside a TableGroup
    s9 = copy.deepcopy(s)
    s9['tables'][0]['name'] = 'a.b'
    s9['groups'] = [{'name': 'g', 'items': [0], 'comment': None, 'note': None, 'color': None}]
    out.append(('DottedQuotedName', 'Table "a.b" {\n id int\n x int\n}\nTable b {\n id int\n x int\n}\nTableGroup g {\n "a.b"\n}\n', s9))
    # backslash inside a quoted name
    s10 = copy.deepcopy(s)
    s10['tables'][0]['name'] = 'a\\tb'
    out.append(('NameBackslash', 'Table "a\\tb" {\n id int\n x int\n}\nTable b {\n id int\n x int\n}\n', s10))
    # a quoted column name containing a comma (or framed by parentheses / blanks) used in a reference
    s11 = copy.deepcopy(s)
    s11['tables'][0]['columns'][1]['name'] = 'x,y'
    s11['refs'] = [{'type': '>', 't1': 0, 'col1': [1], 't2': 1, 'col2': [0], 'name': None, 'comment': None,
                    'on_update': None, 'on_delete': None, 'inline': False}]
    out.append(('RefColumnSplit', 'Table a {\n id int\n "x,y" int\n}\nTable b {\n id int\n x int\n}\nRef: a."x,y" > b.id\n', s11))
    s12 = copy.deepcopy(s)
    s12['tables'][0]['columns'] = [col('id'), col('x'), col('(x)')]
    s12['refs'] = [{'type': '>', 't1': 0, 'col1': [2], 't2': 1, 'col2': [0], 'name': None, 'comment': None,
                    'on_update': None, 'on_delete': None, 'inline': False}]
    out.append(('RefColumnSplit', 'Table a {\n id int\n x int\n "(x)" int\n}\nTable b {\n id int\n x int\n}\nRef: a."(x)" > b.id\n', s12))
    return [(r, t, e) for r, t, e in out if e is not None]


def job_run(case):
    return PC.impl_parse(case['text'], case['props'])


def refs_multiset(d):
    out = []
    for r in d['refs']:
        out.append(json.dumps({k: v for k, v in r.items() if k != 'inline'}, sort_keys=True))
    return sorted(out)


def main(tier, seed):
    ctx = core.Ctx(PID, tier, seed, 'translation_validation', THEOREMS, MODULES)
    ctx.build()
    problems = ctx.audit() if ctx.build_ok else ['lake build failed']
    drv = None
    try:
        drv = Driver()
    except DriverError as e:
        ctx.notes.append(str(e))

    # ---- corpus
    for name, text in GT.corpus():
        i = PC.impl_parse(text, False)
        ctx.case(core.h(['corpus', name]), True, sample={'corpus': name, 'outcome': PC.brief(i)} if name == 'general.dbml' else None)
        if drv is not None:
            m = drv.ask({'op': 'parse', 'text': text, 'allow_properties': False})
            if m.get('err') != 'outOfModel' and not PC.same_parse(m, i):
                ctx.diverge('parse (corpus document)', {'op': 'parse', 'text': text, 'props': False}, PC.brief(m), PC.brief(i))

    # ---- spelled well-formed documents
    n = 2500 if not ctx.thorough else 40000
    cases = [c for c in (mk_case(f'{seed}:{k}', varied=(k % 6 != 0)) for k in range(n)) if c is not None]
    res = core.pmap(job_run, cases)
    model = drv.ask_many({'op': 'parse', 'text': c['text'], 'allow_properties': c['props']} for c in cases) if drv else None
    for k, (c, r) in enumerate(zip(cases, res)):
        feats = GD.features(c['spec'])
        ctx.case(core.h(c['text']), len(c['spec']['tables']) >= 1 and len(feats) >= 2,
                 sample={'text': c['text'][:600], 'features': feats} if k % 500 == 1 else None)
        for f in feats:
            ctx.count('feature:' + f)
        for f in c['forms']:
            ctx.count('refform:' + f)
        exp = O.strip_comments(c['expected'])
        if 'ok' not in r:
            ctx.fail('a well-formed document is rejected: ' + r['err'], {'op': 'spelled', 'seed': c['seed'], 'text': c['text'], 'props': c['props']})
        else:
            got = O.strip_comments(r['ok'])
            if got != exp:
                d = PC.first_diff(exp, got)
                ctx.fail('parsed content differs from what the document declares', {'op': 'spelled', 'seed': c['seed'], 'text': c['text'], 'props': c['props']},
                         first_difference={'path': d[0], 'declared': d[1], 'parsed': d[2]} if d else None)
        if model is not None:
            m = model[k]
            if m.get('err') != 'outOfModel' and not PC.same_parse(m, r):
                d = PC.first_diff(m.get('ok'), r.get('ok')) if 'ok' in m and 'ok' in r else None
                ctx.diverge('parse (spelled document)', {'op': 'parse', 'text': c['text'], 'props': c['props']},
                            PC.brief(m) + (f' {d}' if d else ''), PC.brief(r))

    # ---- spelling independence: the same content under several spellings (incl. other ref forms)
    m_ind = 300 if not ctx.thorough else 4000
    for k in range(m_ind):
        rng = random.Random(f'{seed}:ind:{k}')
        spec = SP.normalise_for_spelling(GD.gen_spec(rng, wild=False, max_tables=3), RT.ref_norm)
        if not SP.spellable(spec):
            continue
        outs = []
        for form in (None, 'short', 'long', 'inline'):
            text, exp, _ = SP.spell(spec, rng, {'varied': True, 'ref_form': form})
            r = PC.impl_parse(text, spec['allow_properties'])
            outs.append((form, text, r))
        ctx.case(core.h(['ind', spec]), bool(spec['refs']))
        ok_all = all('ok' in r for _, _, r in outs)
        if ok_all:
            base = O.strip_comments(outs[0][2]['ok'])
            for form, text, r in outs[1:]:
                g = O.strip_comments(r['ok'])
                same = all(base[key] == g[key] for key in base if key != 'refs') and refs_multiset(base) == refs_multiset(g)
                if not same:
                    ctx.fail('two spellings of the same declarations give different models', {'op': 'independence', 'texts': [outs[0][1], text]})
        else:
            bad = next((form, text, r) for form, text, r in outs if 'ok' not in r)
            ctx.fail('a well-formed document is rejected: ' + bad[2]['err'], {'op': 'spelled', 'text': bad[1], 'props': spec['allow_properties']})

    # ---- wild: named departures from WF
    for reason, text, exp in wild_cases():
        r = PC.impl_parse(text, exp['allow_properties'])
        ctx.case(core.h(['wild', text]), True, sample={'wild': reason, 'text': text, 'outcome': PC.brief(r)})
        ctx.count('wild:' + reason)
        if 'ok' not in r or O.strip_comments(r['ok']) != O.strip_comments(exp):
            ctx.fail(f'document outside WF ({reason}) is not parsed to what it declares: {PC.brief(r)}',
                     {'op': 'wild', 'text': text, 'props': exp['allow_properties']}, reason=reason)
        if drv is not None:
            m = drv.ask({'op': 'parse', 'text': text, 'allow_properties': exp['allow_properties']})
            if not PC.same_parse(m, r):
                ctx.diverge('parse (wild document)', {'op': 'parse', 'text': text, 'props': exp['allow_properties']}, PC.brief(m), PC.brief(r))
    if drv is not None:
        drv.close()

    def kf_replay(f):
        w = f['witness']
        r = PC.impl_parse(w['text'], w.get('props', False))
        exp = next((e for rs, t, e in wild_cases() if t == w['text']), None)
        return 'ok' not in r or (exp is not None and O.strip_comments(r['ok']) != O.strip_comments(exp))

    return ctx.finish(
        rule='abstract database contents (1-4 tables, enums, references of all kinds, groups, sticky notes, project, properties) '
             'written as DBML by a speller under random choices of: element interleaving, bare/quoted identifiers, keyword case, '
             'blanks, blank lines, string style, settings order and line breaks, note in settings or body, positions of note and '
             'index block, legacy constraints, inline/short/block Ref, schema.name/bare/alias addressing. Non-trivial: >=1 table '
             'and >=2 features; distinct by document hash',
        explanation='Oracle (parser-independent): the parsed content equals the content the speller was given — nothing dropped, '
                    'nothing invented, source order kept; spelling independence across reference forms. Correspondence: the Lean '
                    'character-level model of the whole grammar + build (lean/PyDBMLModel/{Lex,Grammar,Build}.lean) returns the same '
                    'content or error class on the corpus and on every spelled document. Theorems parseDoc_tables / build_tables (the renderer\'s spelling of any number of tables with any number of plain columns is '
                    'parsed and built to exactly those declarations, each once, in source order) and parseDoc_sticky are the parse-of-spelling theorems; they are partial '
                    '(two element kinds, one spelling each).',
        assumptions=['the speller only produces documents inside WF (DESIGN 5.1); named departures are the wild cases'],
        trusted_base=['hand-written Lean model of pyparsing primitives and the grammar, tied by this correspondence',
                      'harness/speller.py (independent of the parser)'],
        kf_replay=kf_replay, proof_problems=problems)


def replay(path):
    case = json.load(open(path))
    c = case.get('case', {})
    print(json.dumps({k: v for k, v in case.items() if k != 'case'}, indent=1)[:3000])
    if 'text' in c:
        print(c['text'])
        r = PC.impl_parse(c['text'], c.get('props', False))
        print('impl:', PC.brief(r))
        with Driver() as d:
            print('model:', PC.brief(d.ask({'op': 'parse', 'text': c['text'], 'allow_properties': c.get('props', False)})))
    return 0
