"""Entry point: `./check <ID> [--tier quick|thorough] [--replay <path>]` (cwd /verif)."""
import argparse
import importlib
import os
import sys
import traceback

VERIF = os.path.dirname(os.path.dirname(os.path.abspath(__file__)))
sys.path.insert(0, VERIF)
sys.path.insert(0, '/repo')
sys.setrecursionlimit(10000)


def main():
    ap = argparse.ArgumentParser()
    ap.add_argument('pid')
    ap.add_argument('--tier', default=os.environ.get('VERIF_TIER', 'quick'))
    ap.add_argument('--replay')
    a = ap.parse_args()
    tier = a.tier if a.tier in ('quick', 'thorough') else 'quick'
    try:
        seed = int(os.environ.get('VERIF_SEED', '0'))
    except ValueError:
        seed = 0
    pid = a.pid.upper()
    try:
        mod = importlib.import_module(f'harness.props.{pid.lower()}')
    except ModuleNotFoundError as e:
        print(f'no check for {pid}: {e}', file=sys.stderr)
        return 2
    try:
        if a.replay:
            return mod.replay(a.replay)
        return mod.main(tier, seed)
    except SystemExit:
        raise
    except BaseException:  # noqa: BLE001  harness trouble is exit 2, never a VIOLATION line
        traceback.print_exc()
        print(f'[{pid}] harness error (exit 2)', file=sys.stderr)
        return 2


if __name__ == '__main__':
    sys.exit(main())
