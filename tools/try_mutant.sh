#!/bin/sh
# usage: tools/try_mutant.sh <patch.diff> <demo.py|-> <check ids...>
# applies the patch to /repo, runs the unedited test-suite, the demonstration and the given checks, then reverts.
patch="$1"; demo="$2"; shift 2
cd /repo || exit 2
if [ -n "$(git status --porcelain)" ]; then echo "/repo not clean"; exit 2; fi
git apply "$patch" || { echo "patch does not apply"; exit 2; }
echo "== tests: $(/venv/bin/python -m pytest -q -p no:cacheprovider 2>&1 | tail -1)"
if [ "$demo" != "-" ]; then (cd /repo && /venv/bin/python "$demo" >/dev/null 2>&1; echo "== demo exit with patch: $?"); fi
for c in "$@"; do (cd /verif && ./check "$c" 2>&1 | grep -E "^\[C|^VIOLATION" | tail -2); done
git checkout -- . ; git status --porcelain | head -3
if [ "$demo" != "-" ]; then (cd /repo && /venv/bin/python "$demo" >/dev/null 2>&1; echo "== demo exit clean: $?"); fi
