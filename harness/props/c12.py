"""C12 — all documented ways of supplying the source give the same database."""
import io
import json
import os
import random
import shutil
import sys
import tempfile
from pathlib import Path

from harness import ref_text as RT
from harness import core, gen_db as GD, gen_text as GT, impl_text as IT, observe as O, speller as SP
from harness import parse_common as PC
from harness.driver import Driver, DriverError

sys.path.insert(0, '/repo')
from pydbml import PyDBML  # noqa: E402
from pydbml.renderer.base import BaseRenderer  # noqa: E402

PID = 'C12'
THEOREMS = ['PyDBML.C12.routes_agree_on_text', 'PyDBML.C12.options_unchanged', 'PyDBML.C12.parse_file_defaults',
            'PyDBML.C12.routes_agree', 'PyDBML.C12.routes_agree_default', 'PyDBML.C12.bom_ignored',
            'PyDBML.C12.other_type_refused']
MODULES = ['PyDBMLProofs.Props.C12']
BOM = '﻿'


class MarkSQL(BaseRenderer):
    model_renderers = {}

    @classmethod
    def render_db(cls, db):
        return '<custom sql>'


class MarkDBML(BaseRenderer):
    model_renderers = {}

    @classmethod
    def render_db(cls, db):
        return '<custom dbml>'


def routes(tmpdir, text, tag):
    """(route name, model route, model kind, takes options, thunk(opts) -> Database)"""
    path = os.path.join(tmpdir, f'd{tag}.dbml')
    with open(path, 'w', encoding='utf8', newline='') as f:
        f.write(text)

    def with_file(fn):
        def run(**kw):
            with open(path, encoding='utf8', newline='') as f:
                return fn(f, **kw)
        return run
    return [
        ('PyDBML(str)', 'ctor', 'str', True, lambda **kw: PyDBML(text, **kw)),
        ('PyDBML(Path)', 'ctor', 'path', True, lambda **kw: PyDBML(Path(path), **kw)),
        ('PyDBML(file)', 'ctor', 'file', True, with_file(lambda f, **kw: PyDBML(f, **kw))),
        ('PyDBML.parse(str)', 'parse', 'str', True, lambda **kw: PyDBML.parse(text, **kw)),
        ('PyDBML().parse(str)', 'instance_parse', 'str', True, lambda **kw: PyDBML().parse(text, **kw)),
        ('PyDBML.parse_file(str path)', 'parse_file', 'path_string', False, lambda **kw: PyDBML.parse_file(path)),
        ('PyDBML.parse_file(Path)', 'parse_file', 'path', False, lambda **kw: PyDBML.parse_file(Path(path))),
        ('PyDBML.parse_file(file)', 'parse_file', 'file', False, with_file(lambda f, **kw: PyDBML.parse_file(f))),
    ]


def outcome(thunk, **kw):
    try:
        db = thunk(**kw)
    except Exception as e:  # noqa: BLE001
        return {'err': O.classify(e)}, None
    try:
        return {'ok': O.dump_db(db)}, db
    except O.OutOfModel as e:
        return {'err': 'outOfModel:' + str(e)}, db
    except O.NotADatabase as e:
        return {'err': 'internal:NotADatabase(' + str(e) + ')'}, None


def main(tier, seed):
    ctx = core.Ctx(PID, tier, seed, 'proof', THEOREMS, MODULES)
    ctx.build()
    problems = ctx.audit() if ctx.build_ok else ['lake build failed']
    drv = None
    try:
        drv = Driver()
    except DriverError as e:
        ctx.notes.append(str(e))
    rng = ctx.rng
    texts = [t for _, t in GT.corpus() if len(t) < 4000][:6]
    n = 60 if not ctx.thorough else 1200
    for k in range(n):
        r2 = random.Random(f'{seed}:{k}')
        spec = SP.normalise_for_spelling(GD.gen_spec(r2, wild=False, max_tables=2), RT.ref_norm)
        if SP.spellable(spec):
            texts.append(SP.spell(spec, r2, {'varied': True})[0])
    texts += ['', 'Table é {\n "日本" int [note: \'ü😀\']\n}\n', 'Table t {\n id int\n', 'Table t {\n id int [k: \'v\']\n}\n',
              'Table t {\r\n id int\r\n}\r\n',
              # Windows line ends INSIDE texts the parser keeps (multi-line notes, comments, a lone CR): every route sees the same characters
              "Table t {\r\n  id int [note: '''line one\r\nline two''']\r\n  Note: '''first\r\nsecond'''\r\n}\r\n",
              '// a comment\r\n/* block\r\ncomment */\r\nTable t {\r\n  id int // trailing\r\n}\r\n',
              "Note n {\n  '''a\rb'''\n}\nTable t {\n  id int\n}\n",
              # the text must arrive untouched on every route: no Unicode normalisation, case folding or character mapping
              'Table "cafe\u0301" {\n "e\u0301" int [note: \'A\u030a \u212b \ufb01 \uff21 \u1e9e \u0130 \u017f\']\n}\nNote n {\n \'x\u0301 \u00a0 \u200d \u00ad\'\n}\n',
              'Enum "\u2126" {\n "\u03a9"\n "K"\n "\u212a"\n}\nTable t {\n c "\u2126"\n d "\u03a9"\n}\n',
              # U+FEFF inside the document is content (zero width no-break space), only a LEADING one is a byte-order mark
              'Table "a\ufeffb" {\n "c\ufeff" int [note: \'x\ufeffy\', default: \'\ufeff\']\n}\nNote n {\n \'\ufeffz\'\n}\n']
    tmpdir = tempfile.mkdtemp(prefix='verif_c12_')
    reqs, obs = [], []
    try:
        for ti, base in enumerate(texts):
            for variant, text in (('plain', base), ('bom', BOM + base), ('double-bom', BOM + BOM + base)):
                props = rng.random() < 0.5
                res = []
                for name, mroute, mkind, takes, thunk in routes(tmpdir, text, f'{ti}{variant}'):
                    kw = {'allow_properties': props} if takes else {}
                    o, db = outcome(thunk, **kw)
                    res.append((name, takes, o))
                    reqs.append({'op': 'entry', 'route': mroute, 'kind': mkind, 'text': text, 'allow_properties': props if takes else False})
                    obs.append((name, text, props if takes else False, o))
                    ctx.case(core.h(['route', name, text, props]), variant != 'plain' or name != 'PyDBML(str)',
                             sample={'route': name, 'variant': variant, 'outcome': PC.brief(o)} if ti == 7 else None)
                    ctx.count('route:' + name)
                    ctx.count('variant:' + variant)
                # pairwise agreement (routes that take options were given the same ones; parse_file has the defaults)
                with_opts = [(nm, o) for nm, takes, o in res if takes]
                for nm, o in with_opts[1:]:
                    if o != with_opts[0][1]:
                        ctx.fail(f'{nm} and {with_opts[0][0]} give different results for the same text and options',
                                 {'op': 'routes', 'text': text, 'props': props}, reason='DoubleBom' if variant == 'double-bom' else None,
                                 a=PC.brief(with_opts[0][1]), b=PC.brief(o))
                files = [(nm, o) for nm, takes, o in res if not takes]
                for nm, o in files[1:]:
                    if o != files[0][1]:
                        ctx.fail(f'{nm} and {files[0][0]} give different results', {'op': 'routes', 'text': text, 'props': False})
                if not props and files and with_opts and files[0][1] != with_opts[0][1]:
                    ctx.fail('parse_file and the constructor give different results with default options',
                             {'op': 'routes', 'text': text, 'props': False}, reason='DoubleBom' if variant == 'double-bom' else None)
                # a leading BOM is ignored
                if variant == 'bom':
                    plain = outcome(lambda **kw: PyDBML(base, **kw), allow_properties=props)[0]
                    if with_opts[0][1] != plain:
                        ctx.fail('a leading byte-order mark changes the result', {'op': 'routes', 'text': text, 'props': props})
        # open files in other states: a handle that has been read from already (the routes parse what is left), and a stream that
        # cannot seek (a pipe): both handle routes must still agree with the string route on the text they are given
        for ti, text in enumerate([t for t in texts if len(t.encode('utf8')) < 30000][:12]):
            want, _ = outcome(lambda **kw: PyDBML(text, **kw), allow_properties=True)
            hpath = os.path.join(tmpdir, f'h{ti}.dbml')
            with open(hpath, 'w', encoding='utf8', newline='') as f:
                f.write('// a first line the caller has read already\n' + text)

            def advanced(fn):
                def run(**kw):
                    with open(hpath, encoding='utf8', newline='') as f:
                        f.readline()
                        return fn(f, **kw)
                return run

            def piped(fn):
                def run(**kw):
                    r_, w_ = os.pipe()
                    os.write(w_, text.encode('utf8'))
                    os.close(w_)
                    with io.open(r_, 'r', encoding='utf8', newline='') as f:
                        return fn(f, **kw)
                return run
            for state, wrap in (('read from already', advanced), ('not seekable', piped)):
                for rname, fn, kw in (('PyDBML(file)', lambda f, **k: PyDBML(f, **k), {'allow_properties': True}),
                                      ('PyDBML.parse_file(file)', lambda f, **k: PyDBML.parse_file(f), {})):
                    if rname.startswith('PyDBML.parse_file'):
                        ref_o, _ = outcome(lambda **k: PyDBML(text, **k), allow_properties=False)
                    else:
                        ref_o = want
                    o, _ = outcome(wrap(fn), **kw)
                    ctx.case(core.h(['handle-state', state, rname, text]), True,
                             sample={'route': rname, 'handle': state, 'outcome': PC.brief(o)} if ti == 0 else None)
                    ctx.count('handle-state:' + state)
                    if not PC.same_parse(o, ref_o):
                        ctx.fail(f'{rname} on an open file that is {state} does not give what the string route gives on the text handed over',
                                 {'op': 'handle-state', 'route': rname, 'state': state, 'text': text}, got=PC.brief(o), want=PC.brief(ref_o))
        # the same path read again after the file has been rewritten: a path route gives what the string route gives on the text
        # the file holds NOW (all documented ways of supplying the source give the same database - at every call)
        small = [t for t in texts if len(t.encode('utf8')) < 30000][:10]
        spath = os.path.join(tmpdir, 'rewritten.dbml')
        for ti, text in enumerate(small + small[:1]):
            with open(spath, 'w', encoding='utf8', newline='') as f:
                f.write(text)
            ref_plain, _ = outcome(lambda **k: PyDBML(text, **k), allow_properties=False)
            for rname, thunk in (('PyDBML(Path)', lambda **k: PyDBML(Path(spath))),
                                 ('PyDBML.parse_file(str path)', lambda **k: PyDBML.parse_file(spath)),
                                 ('PyDBML.parse_file(Path)', lambda **k: PyDBML.parse_file(Path(spath)))):
                o, _ = outcome(thunk)
                ctx.case(core.h(['rewritten-file', ti, rname, text]), ti > 0)
                ctx.count('rewritten-file:' + rname)
                if not PC.same_parse(o, ref_plain):
                    ctx.fail(f'{rname} on a path whose file has been rewritten since an earlier call does not give what the string '
                             'route gives on the current text', {'op': 'rewritten-file', 'route': rname, 'texts': (small + small[:1])[:ti + 1]},
                             got=PC.brief(o), want=PC.brief(ref_plain))
        # options: renderer classes have the same effect on every route that accepts them
        sample_text = texts[0]
        for name, mroute, mkind, takes, thunk in routes(tmpdir, sample_text, 'opts'):
            if not takes:
                continue
            for props in (False, True):
                o, db = outcome(thunk, allow_properties=props, sql_renderer=MarkSQL, dbml_renderer=MarkDBML)
                ctx.case(core.h(['opts', name, props]), True)
                if db is None or db.sql_renderer is not MarkSQL or db.dbml_renderer is not MarkDBML or db.allow_properties != props \
                        or db.sql != '<custom sql>' or db.dbml != '<custom dbml>':
                    ctx.fail(f'options passed through {name} do not reach the database', {'op': 'options', 'route': name, 'props': props})
        # the same options given BY POSITION (source, allow_properties, sql_renderer, dbml_renderer - the documented order)
        prop_text = "Table t {\n  id int [k: 'v']\n  owner: 'me'\n}\n"
        pos_routes = [('PyDBML(str, ...)', lambda *a: PyDBML(prop_text, *a)),
                      ('PyDBML.parse(str, ...)', lambda *a: PyDBML.parse(prop_text, *a)),
                      ('PyDBML().parse(str, ...)', lambda *a: PyDBML().parse(prop_text, *a))]
        for name, thunk in pos_routes:
            for args in ((True,), (True, MarkSQL, MarkDBML), (False, MarkSQL)):
                ctx.case(core.h(['opts-positional', name, len(args), args[0]]), True,
                         sample={'route': name, 'positional_options': [getattr(a, '__name__', a) for a in args]} if len(args) == 3 else None)
                try:
                    db = thunk(*args)
                    got = (db.allow_properties, db.sql_renderer, db.dbml_renderer, bool(db.tables and db.tables[0].properties))
                except Exception as e:  # noqa: BLE001
                    got = O.classify(e)
                from pydbml.renderer.sql.default import DefaultSQLRenderer as _DS
                from pydbml.renderer.dbml.default import DefaultDBMLRenderer as _DD
                if args[0]:
                    want = (True, args[1] if len(args) > 1 else _DS, args[2] if len(args) > 2 else _DD, True)
                else:
                    want = 'syntax'        # the document has properties: with the option off it is a syntax error
                if got != want:
                    ctx.fail(f'options passed by position through {name} do not have the effect they have by keyword',
                             {'op': 'options-positional', 'route': name, 'n_args': len(args)}, got=str(got), want=str(want))
        # other source types
        for bad in (b'Table t {\n id int\n}', 42, ['Table'], io.StringIO('Table t {\n id int\n}'), 3.5, object()):
            ctx.case(core.h(['type', type(bad).__name__]), True, sample={'source_type': type(bad).__name__})
            try:
                PyDBML(bad)
                ctx.fail(f'the constructor accepts a source of type {type(bad).__name__}', {'op': 'type', 'type': type(bad).__name__})
            except TypeError:
                pass
            except Exception as e:  # noqa: BLE001
                ctx.fail(f'the constructor raises {type(e).__name__} instead of TypeError for a source of type {type(bad).__name__}',
                         {'op': 'type', 'type': type(bad).__name__})
    finally:
        shutil.rmtree(tmpdir, ignore_errors=True)
    if drv is not None:
        ms = drv.ask_many(reqs)
        for (name, text, props, o), m in zip(obs, ms):
            mo = m.get('outcome')
            if mo is None:
                ctx.diverge('entry route', {'op': 'entry', 'route': name, 'text': text}, m, PC.brief(o))
            elif mo.get('err') != 'outOfModel' and not PC.same_parse(mo, o):
                ctx.diverge('entry route outcome', {'op': 'entry', 'route': name, 'text': text, 'props': props}, PC.brief(mo), PC.brief(o))
        m = drv.ask({'op': 'entry', 'route': 'ctor', 'kind': 'other', 'text': '', 'allow_properties': False})
        if m.get('err') != 'TypeError':
            ctx.diverge('entry route (other type)', {'op': 'entry'}, m, 'TypeError')
        drv.close()

    def kf_replay(f):
        return False

    return ctx.finish(
        rule='documents (corpus, spelled, non-ASCII, CRLF, invalid) x {no BOM, BOM, two BOMs} x 8 routes (string, Path, open '
             'file through the constructor; parse; instance parse; parse_file with path string, Path, open file) x option values; '
             'custom renderer classes through every option-taking route; six foreign source types. Files live in a scratch '
             'directory outside /repo and /verif, removed afterwards. Non-trivial: route pairs differing in route or BOM',
        explanation='Theorems over the model of the entry points: all accepting routes hand the parser the same text (one leading '
                    'BOM removed) and the same options (parse_file: defaults), hence equal outcomes; other source types are '
                    'refused. Tied to the code by running every route on the same texts and comparing with the model; oracle: '
                    'pairwise equality of the results on the real code.',
        assumptions=['UTF-8 decoding of files is Python\'s', 'an io.StringIO is not a documented source (TextIOWrapper only)'],
        trusted_base=['Lean 4.33 kernel', 'axioms: propext, Classical.choice, Quot.sound only',
                      'hand-written Entry model + parser model tied by this correspondence'],
        kf_replay=kf_replay, proof_problems=problems)


def replay(path):
    case = json.load(open(path))
    print(json.dumps(case, indent=1)[:3000])
    c = case.get('case', {})
    if c.get('op') == 'rewritten-file':
        tmpdir = tempfile.mkdtemp(prefix='verif_c12_')
        try:
            spath = os.path.join(tmpdir, 'rewritten.dbml')
            thunk = {'PyDBML(Path)': lambda: PyDBML(Path(spath)), 'PyDBML.parse_file(str path)': lambda: PyDBML.parse_file(spath),
                     'PyDBML.parse_file(Path)': lambda: PyDBML.parse_file(Path(spath))}[c['route']]
            o = ref = None
            for text in c['texts']:
                with open(spath, 'w', encoding='utf8', newline='') as f:
                    f.write(text)
                o, _ = outcome(lambda **k: thunk())
                ref, _ = outcome(lambda **k: PyDBML(text, **k), allow_properties=False)
            print('path route now:', PC.brief(o), '\nstring route   :', PC.brief(ref))
            return 0 if PC.same_parse(o, ref) else 1
        finally:
            shutil.rmtree(tmpdir, ignore_errors=True)
    return 0
