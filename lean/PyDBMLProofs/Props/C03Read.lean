/-
C03 — "the SQL DDL states exactly the model", as an inversion: a READER of the DDL (written here, independent of the
renderer: it only looks at the text) recovers from the rendered text of a table its qualified name and, for every
column in order, the name, the type, PRIMARY KEY / AUTOINCREMENT / UNIQUE / NOT NULL and the DEFAULT text - exactly
the model's values (`read_render_column`, `read_render_table`).  What is read determines what was rendered: two tables
with the same DDL have the same columns with the same settings.
-/
import PyDBMLModel
import PyDBMLProofs.Props.C14
import PyDBMLProofs.Props.C02Sticky
import PyDBMLProofs.Props.C02Tables
import PyDBMLProofs.Props.C18Order
namespace PyDBML
namespace C03
open Sql

/-- what the model says about a column, given whether its table has a composite primary key -/
def descOf (ty : Str) (cpk : Bool) (c : Column) : ColDesc :=
  { name := c.name, type := ty, pk := c.pk && !cpk, autoinc := c.autoinc, unique := c.unique, notNull := c.notNull,
    default := c.default.map defaultSql }

/-! ### list lemmas -/

theorem joinWith_space (a : Str) : ∀ (l : List Str), joinWith [' '] (a :: l) = a ++ l.flatMap (fun x => ' ' :: x) := by
  intro l
  induction l generalizing a with
  | nil => simp [joinWith]
  | cons b r ih =>
    rw [show joinWith [' '] (a :: b :: r) = a ++ [' '] ++ joinWith [' '] (b :: r) from rfl, ih b]
    simp

theorem dropWhile_until (p : Char → Bool) (a : Str) (x : Char) (b : Str) (ha : ∀ c ∈ a, p c = true) (hx : p x = false) :
    (a ++ x :: b).dropWhile p = x :: b ∧ (a ++ x :: b).takeWhile p = a := by
  induction a with
  | nil => simp [List.dropWhile, List.takeWhile, hx]
  | cons c r ih =>
    have hc := ha c (by simp)
    have := ih (fun d hd => ha d (by simp [hd]))
    simp [List.dropWhile, List.takeWhile, hc, this]

theorem dropWhile_all (p : Char → Bool) (a : Str) (ha : ∀ c ∈ a, p c = true) :
    a.dropWhile p = [] ∧ a.takeWhile p = a := by
  induction a with
  | nil => simp
  | cons c r ih =>
    have hc := ha c (by simp)
    have := ih (fun d hd => ha d (by simp [hd]))
    simp [List.dropWhile, List.takeWhile, hc, this]

/-- the settings part of a column line -/
def flagsTail (pk ai uq nn : Bool) (d : Option Str) : Str :=
  (if pk then lit " PRIMARY KEY" else []) ++ (if ai then lit " AUTOINCREMENT" else [])
    ++ (if uq then lit " UNIQUE" else []) ++ (if nn then lit " NOT NULL" else [])
    ++ (match d with | some t => lit " DEFAULT " ++ t | none => [])

theorem flagsTail_head (pk ai uq nn : Bool) (d : Option Str) :
    flagsTail pk ai uq nn d = [] ∨ ∃ r, flagsTail pk ai uq nn d = ' ' :: r := by
  cases pk <;> cases ai <;> cases uq <;> cases nn <;> cases d <;> simp [flagsTail, lit]

/-- the reader's settings part on what the renderer writes -/
theorem read_flagsTail (name ty : Str) (pk ai uq nn : Bool) (d : Option Str) :
    (let f1 := stripKw [' ', 'P', 'R', 'I', 'M', 'A', 'R', 'Y', ' ', 'K', 'E', 'Y'] (flagsTail pk ai uq nn d)
     let f2 := stripKw [' ', 'A', 'U', 'T', 'O', 'I', 'N', 'C', 'R', 'E', 'M', 'E', 'N', 'T'] f1.2
     let f3 := stripKw [' ', 'U', 'N', 'I', 'Q', 'U', 'E'] f2.2
     let f4 := stripKw [' ', 'N', 'O', 'T', ' ', 'N', 'U', 'L', 'L'] f3.2
     match f4.2 with
     | [] => some (⟨name, ty, f1.1, f2.1, f3.1, f4.1, none⟩ : ColDesc)
     | rest =>
       let f5 := stripKw [' ', 'D', 'E', 'F', 'A', 'U', 'L', 'T', ' '] rest
       if f5.1 then some ⟨name, ty, f1.1, f2.1, f3.1, f4.1, some f5.2⟩ else none)
    = some ⟨name, ty, pk, ai, uq, nn, d⟩ := by
  cases pk <;> cases ai <;> cases uq <;> cases nn <;> cases d <;>
    simp [flagsTail, lit, stripKw, List.isPrefixOf]

/-- the line the column renderer writes -/
def colLine (ty : Str) (cpk : Bool) (c : Column) : Str :=
  '"' :: (c.name ++ '"' :: ' ' :: (ty ++ flagsTail (c.pk && !cpk) c.autoinc c.unique c.notNull (c.default.map defaultSql)))

theorem renderColumn_line (db : Db) (cpk : Bool) (c : Column) (ty : Str) (hty : typeText db c = .ok ty)
    (hcm : c.comment = none) : renderColumn db cpk c = .ok (colLine ty cpk c) := by
  unfold renderColumn colLine
  simp only [hty, bind, Except.bind, pure, Except.pure, hcm, List.nil_append]
  simp only [List.append_assoc, List.cons_append, List.nil_append]
  rw [joinWith_space]
  congr 1
  cases c.pk <;> cases cpk <;> cases c.autoinc <;> cases c.unique <;> cases c.notNull <;> cases c.default <;>
    simp [flagsTail, lit]

theorem readColumn_colLine (cpk : Bool) (c : Column) (ty : Str) (hname : '"' ∉ c.name) (htb : ' ' ∉ ty) :
    readColumn (colLine ty cpk c) = some (descOf ty cpk c) := by
  have hq : ∀ ch ∈ c.name, (ch != '"') = true := by
    intro ch hch
    simp only [bne_iff_ne, ne_eq]
    intro e; subst e; exact hname hch
  have hs : ∀ ch ∈ ty, (ch != ' ') = true := by
    intro ch hch
    simp only [bne_iff_ne, ne_eq]
    intro e; subst e; exact htb hch
  obtain ⟨hd1, ht1⟩ := dropWhile_until (· != '"') c.name '"'
    (' ' :: (ty ++ flagsTail (c.pk && !cpk) c.autoinc c.unique c.notNull (c.default.map defaultSql))) hq (by decide)
  have h2 : (ty ++ flagsTail (c.pk && !cpk) c.autoinc c.unique c.notNull (c.default.map defaultSql)).dropWhile (· != ' ')
        = flagsTail (c.pk && !cpk) c.autoinc c.unique c.notNull (c.default.map defaultSql)
      ∧ (ty ++ flagsTail (c.pk && !cpk) c.autoinc c.unique c.notNull (c.default.map defaultSql)).takeWhile (· != ' ') = ty := by
    rcases flagsTail_head (c.pk && !cpk) c.autoinc c.unique c.notNull (c.default.map defaultSql) with h | ⟨r, h⟩
    · rw [h, List.append_nil]
      exact dropWhile_all _ ty hs
    · rw [h]
      exact dropWhile_until _ ty ' ' r hs (by decide)
  unfold readColumn colLine
  simp only [hd1, ht1, h2.1, h2.2]
  exact read_flagsTail c.name ty _ _ _ _ _

/-- **the reader inverts the column renderer**: for a column whose name has no double quote, whose type text has no
    blank, and that carries no comment, the reader recovers from the rendered line exactly the name, the type text,
    the four flags (PRIMARY KEY unless the table's key is composite) and the default as rendered -/
theorem read_render_column (db : Db) (cpk : Bool) (c : Column) (ty : Str) (hty : typeText db c = .ok ty)
    (hname : '"' ∉ c.name) (htb : ' ' ∉ ty) (hcm : c.comment = none) :
    ∃ line, renderColumn db cpk c = .ok line ∧ readColumn line = some (descOf ty cpk c) :=
  ⟨_, renderColumn_line db cpk c ty hty hcm, readColumn_colLine cpk c ty hname htb⟩

/-- what the statement says of each flag, read off the reader's result: the keyword is there exactly when the flag is
    set - `DEFAULT` also for 0, false and the empty string -/
example : readColumn (lit "\"n\" int NOT NULL DEFAULT 0") = some ⟨lit "n", lit "int", false, false, false, true, some (lit "0")⟩
    ∧ readColumn (lit "\"n\" int DEFAULT ") = some ⟨lit "n", lit "int", false, false, false, false, some []⟩
    ∧ readColumn (lit "\"id\" int PRIMARY KEY AUTOINCREMENT UNIQUE") = some ⟨lit "id", lit "int", true, true, true, false, none⟩
    ∧ readColumn (lit "\"id\" int KEY") = none := by decide +kernel

/-! ### tables -/

/-- lines joined by `,\n`: every line but the last gets a comma -/
def commaLines : List Str → List Str
  | [] => []
  | [l] => [l]
  | l :: l2 :: ls => (l ++ [',']) :: commaLines (l2 :: ls)

theorem joinWith_commaNL : ∀ (ls : List Str), joinWith (lit ",\n") ls = joinNL (commaLines ls) := by
  intro ls
  induction ls with
  | nil => rfl
  | cons l r ih =>
    cases r with
    | nil => rfl
    | cons l2 r2 =>
      rw [show joinWith (lit ",\n") (l :: l2 :: r2) = l ++ lit ",\n" ++ joinWith (lit ",\n") (l2 :: r2) from rfl, ih]
      cases hcl : commaLines (l2 :: r2) with
      | nil => cases r2 <;> simp [commaLines] at hcl
      | cons x xs =>
        simp only [commaLines, hcl, joinNL]
        simp [lit]

theorem commaLines_ne (ls : List Str) (h : ls ≠ []) : commaLines ls ≠ [] := by
  cases ls with
  | nil => exact absurd rfl h
  | cons l r => cases r <;> simp [commaLines]

theorem commaLines_cons (l : Str) (ls : List Str) (h : ls ≠ []) : commaLines (l :: ls) = (l ++ [',']) :: commaLines ls := by
  cases ls with
  | nil => exact absurd rfl h
  | cons _ _ => rfl

theorem joinNL_cons (l : Str) (M : List Str) (hM : M ≠ []) : joinNL (l :: M) = l ++ '\n' :: joinNL M := by
  cases M with
  | nil => exact absurd rfl hM
  | cons _ _ => rfl

theorem joinNL_append (A B : List Str) (hA : A ≠ []) (hB : B ≠ []) : joinNL (A ++ B) = joinNL A ++ '\n' :: joinNL B := by
  induction A with
  | nil => exact absurd rfl hA
  | cons a r ih =>
    cases r with
    | nil => simp [joinNL_cons _ _ hB, joinNL]
    | cons a2 r2 =>
      have h1 : joinNL ((a :: a2 :: r2) ++ B) = a ++ '\n' :: joinNL ((a2 :: r2) ++ B) := joinNL_cons a _ (by simp)
      have h2 : joinNL (a :: a2 :: r2) = a ++ '\n' :: joinNL (a2 :: r2) := rfl
      rw [h1, ih (by simp), h2]
      simp

theorem mem_commaLines (ls : List Str) (x : Str) (hx : x ∈ commaLines ls) : ∃ l ∈ ls, x = l ∨ x = l ++ [','] := by
  induction ls with
  | nil => simp [commaLines] at hx
  | cons l r ih =>
    cases r with
    | nil => simp [commaLines] at hx; exact ⟨l, by simp, Or.inl hx⟩
    | cons l2 r2 =>
      simp only [commaLines, List.mem_cons] at hx
      rcases hx with h | h
      · exact ⟨l, by simp, Or.inr h⟩
      · obtain ⟨y, hy, hxy⟩ := ih (by simpa [commaLines] using h)
        exact ⟨y, by simp [hy], hxy⟩

/-- the table-level key clause as the renderer writes it -/
def pkLine (names : List Str) : Str :=
  lit "  PRIMARY KEY (" ++ joinWith (lit ", ") (names.map fun n => '"' :: n ++ ['"']) ++ [')']

theorem readNames_ok : ∀ (ns : List Str) (fuel : Nat), ns ≠ [] → ns.length ≤ fuel → (∀ n ∈ ns, '"' ∉ n) →
    readNames fuel (joinWith (lit ", ") (ns.map fun n => '"' :: n ++ ['"']) ++ [')']) = some ns := by
  intro ns
  induction ns with
  | nil => intro _ h; exact absurd rfl h
  | cons n r ih =>
    intro fuel _ hf hq
    obtain ⟨f, rfl⟩ : ∃ f, fuel = f + 1 := ⟨fuel - 1, by simp at hf; omega⟩
    have hn : ∀ ch ∈ n, (ch != '"') = true := by
      intro ch hch
      simp only [bne_iff_ne, ne_eq]
      intro e; subst e; exact hq n (by simp) hch
    cases r with
    | nil =>
      obtain ⟨hd, ht⟩ := dropWhile_until (· != '"') n '"' [')'] hn (by decide)
      simp only [List.map_cons, List.map_nil, joinWith, readNames, List.cons_append, List.append_assoc, List.nil_append, hd, ht]
    | cons n2 r2 =>
      have e : joinWith (lit ", ") ((n :: n2 :: r2).map fun n => '"' :: n ++ ['"']) ++ [')']
          = '"' :: (n ++ '"' :: ',' :: ' ' :: (joinWith (lit ", ") ((n2 :: r2).map fun n => '"' :: n ++ ['"']) ++ [')'])) := by
        simp [joinWith, lit]
      obtain ⟨hd, ht⟩ := dropWhile_until (· != '"') n '"'
        (',' :: ' ' :: (joinWith (lit ", ") ((n2 :: r2).map fun n => '"' :: n ++ ['"']) ++ [')'])) hn (by decide)
      rw [e]
      simp only [readNames, hd, ht]
      rw [ih f (by simp) (by simp at hf ⊢; omega) (fun m hm => hq m (by simp [hm]))]
      rfl

theorem stripKw_append (kw r : Str) : stripKw kw (kw ++ r) = (true, r) := by
  unfold stripKw
  have : kw.isPrefixOf (kw ++ r) = true := by
    induction kw with
    | nil => simp
    | cons a k ih => simp [ih]
  simp [this]

theorem readBody_cons2 (r l2 : Str) (ls : List Str) :
    readBody ((' ' :: ' ' :: r) :: l2 :: ls)
      = if r.getLast? = some ',' then
          match readColumn r.dropLast, readBody (l2 :: ls) with
          | some c, some (cs, k) => some (c :: cs, k)
          | _, _ => none
        else none := rfl

theorem readBody_pkLine (names : List Str) (hne : names ≠ []) (hq : ∀ n ∈ names, '"' ∉ n) :
    readBody [pkLine names] = some ([], some names) := by
  have e : pkLine names = ' ' :: ' ' :: (lit "PRIMARY KEY (" ++ (joinWith (lit ", ") (names.map fun n => '"' :: n ++ ['"']) ++ [')'])) := by
    simp [pkLine, lit]
  rw [e]
  simp only [readBody, stripKw_append]
  rw [readNames_ok names _ hne ?_ hq]
  · rfl
  · have : ∀ (l : List Str), l.length ≤ (joinWith (lit ", ") (l.map fun n => '"' :: n ++ ['"'])).length := by
      intro l
      induction l with
      | nil => simp
      | cons a r ih =>
        cases r with
        | nil => simp [joinWith]
        | cons b r2 =>
          have : joinWith (lit ", ") ((a :: b :: r2).map fun n => '"' :: n ++ ['"'])
              = ('"' :: a ++ ['"']) ++ lit ", " ++ joinWith (lit ", ") ((b :: r2).map fun n => '"' :: n ++ ['"']) := rfl
          rw [this]
          simp only [List.length_append, List.length_cons] at ih ⊢
          omega
    have := this names
    simp only [List.length_append]
    omega

/-- the key clause the renderer adds: none, or the names of the key columns in order -/
def keyOf (cpk : Bool) (cs : List Column) : Option (List Str) :=
  if cpk then some ((cs.filter (·.pk)).map (·.name)) else none

theorem readBody_commaLines (cpk : Bool) (tyOf : Column → Str) (comp : List Str) (k : Option (List Str))
    (hcomp : (comp = [] ∧ k = none) ∨ (∃ names, comp = [pkLine names] ∧ k = some names ∧ names ≠ [] ∧ ∀ n ∈ names, '"' ∉ n)) :
    ∀ (cs : List Column), cs ≠ [] → (∀ c ∈ cs, '"' ∉ c.name ∧ ' ' ∉ tyOf c) →
    readBody (commaLines ((cs.map fun c => ' ' :: ' ' :: colLine (tyOf c) cpk c) ++ comp))
      = some (cs.map fun c => descOf (tyOf c) cpk c, k) := by
  intro cs
  induction cs with
  | nil => intro h; exact absurd rfl h
  | cons c r ih =>
    intro _ hok
    have hc := hok c (by simp)
    have hlast : (colLine (tyOf c) cpk c ++ [',']).getLast? = some ',' := by simp
    have hdrop : (colLine (tyOf c) cpk c ++ [',']).dropLast = colLine (tyOf c) cpk c := by simp
    have hstep : ∀ (L : List Str) (res : List ColDesc × Option (List Str)), L ≠ [] → readBody (commaLines L) = some res →
        readBody (commaLines ((' ' :: ' ' :: colLine (tyOf c) cpk c) :: L)) = some (descOf (tyOf c) cpk c :: res.1, res.2) := by
      intro L res hL hres
      rw [commaLines_cons _ _ hL]
      obtain ⟨x, xs, hx⟩ : ∃ x xs, commaLines L = x :: xs := by
        cases h : commaLines L with
        | nil => exact absurd h (commaLines_ne L hL)
        | cons x xs => exact ⟨x, xs, rfl⟩
      rw [hx, List.cons_append, List.cons_append, readBody_cons2, if_pos hlast, hdrop,
        readColumn_colLine cpk c (tyOf c) hc.1 hc.2, ← hx, hres]
    cases r with
    | nil =>
      rcases hcomp with ⟨rfl, rfl⟩ | ⟨names, rfl, rfl, hne, hq⟩
      · have hk : stripKw (lit "PRIMARY KEY (") (colLine (tyOf c) cpk c) = (false, colLine (tyOf c) cpk c) := by
          simp [stripKw, colLine, lit, List.isPrefixOf]
        simp [commaLines, readBody, hk, readColumn_colLine cpk c (tyOf c) hc.1 hc.2]
      · have := hstep [pkLine names] ([], some names) (by simp) (by simpa [commaLines] using readBody_pkLine names hne hq)
        simpa using this
    | cons c2 r2 =>
      have ih' := ih (by simp) (fun x hx => hok x (by simp [hx]))
      have := hstep (((c2 :: r2).map fun c => ' ' :: ' ' :: colLine (tyOf c) cpk c) ++ comp) _ (by simp) ih'
      simpa using this

theorem indent2_line (l : Str) (hl : ∀ c ∈ l, isLineBreak c = false) (x : Char) (r : Str) (hx : l = x :: r)
    (hsp : isSpaceChar x = false) : indent2 l = [' ', ' '] ++ l := by
  unfold indent2 textwrapIndent splitLinesKeep
  rw [C02.splitLinesKeepAux_plain [] l hl (Or.inr (by rw [hx]; simp))]
  simp [hx, hsp]

theorem mapM_ok_map_mem' {α β ε} (f : α → Except ε β) (g : α → β) :
    ∀ l : List α, (∀ a ∈ l, f a = .ok (g a)) → l.mapM f = .ok (l.map g) := by
  intro l
  induction l with
  | nil => intro _; rfl
  | cons x xs ih =>
    intro h
    rw [List.mapM_cons, h x (by simp), ih (fun a ha => h a (by simp [ha]))]; rfl

/-- the text of a column's type (for the covered columns `typeText` succeeds) -/
def tyD (db : Db) (c : Column) : Str :=
  match typeText db c with
  | .ok t => t
  | .error _ => []

abbrev NoBreak (l : Str) : Prop := ∀ ch ∈ l, isLineBreak ch = false

/-- the tables the reader theorem covers: at least one column, no comment, note or index on the table; no comment or
    note on a column; no line break in any text; no double quote in a column name; no blank in a type text.  Any
    primary-key layout: none, one column, several columns. -/
structure Readable (db : Db) (t : Table) : Prop where
  cols : t.columns ≠ []
  comment : t.comment = none
  indexes : t.indexes = []
  note : t.note = []
  names : NoBreak t.schema ∧ NoBreak t.name
  colPlain : ∀ c ∈ t.columns, c.comment = none ∧ c.note = []
  colType : ∀ c ∈ t.columns, typeText db c = .ok (tyD db c)
  colRead : ∀ c ∈ t.columns, '"' ∉ c.name ∧ ' ' ∉ tyD db c
  colLines : ∀ c ∈ t.columns, NoBreak c.name ∧ NoBreak (tyD db c) ∧ ∀ d, c.default = some d → NoBreak (defaultSql d)

theorem noBreak_nl (l : Str) (h : NoBreak l) : '\n' ∉ l := by
  intro hm
  have := h _ hm
  simp [isLineBreak] at this

theorem flagsTail_noBreak (pk ai uq nn : Bool) (d : Option Str) (hd : ∀ t, d = some t → NoBreak t) :
    NoBreak (flagsTail pk ai uq nn d) := by
  intro ch hch
  unfold flagsTail at hch
  simp only [List.mem_append] at hch
  rcases hch with (((h | h) | h) | h) | h
  · cases pk <;> simp at h; exact (by decide : ∀ c ∈ lit " PRIMARY KEY", isLineBreak c = false) ch h
  · cases ai <;> simp at h; exact (by decide : ∀ c ∈ lit " AUTOINCREMENT", isLineBreak c = false) ch h
  · cases uq <;> simp at h; exact (by decide : ∀ c ∈ lit " UNIQUE", isLineBreak c = false) ch h
  · cases nn <;> simp at h; exact (by decide : ∀ c ∈ lit " NOT NULL", isLineBreak c = false) ch h
  · cases d with
    | none => simp at h
    | some t =>
      simp only [List.mem_append] at h
      rcases h with h | h
      · exact (by decide : ∀ c ∈ lit " DEFAULT ", isLineBreak c = false) ch h
      · exact hd t rfl ch h

theorem colLine_noBreak (ty : Str) (cpk : Bool) (c : Column) (hn : NoBreak c.name) (ht : NoBreak ty)
    (hd : ∀ d, c.default = some d → NoBreak (defaultSql d)) : NoBreak (colLine ty cpk c) := by
  intro ch hch
  have e : colLine ty cpk c = ['"'] ++ c.name ++ ['"', ' '] ++ ty
      ++ flagsTail (c.pk && !cpk) c.autoinc c.unique c.notNull (c.default.map defaultSql) := by simp [colLine]
  rw [e] at hch
  simp only [List.mem_append] at hch
  rcases hch with (((h | h) | h) | h) | h
  · exact (by decide : ∀ c ∈ ['"'], isLineBreak c = false) ch h
  · exact hn ch h
  · exact (by decide : ∀ c ∈ ['"', ' '], isLineBreak c = false) ch h
  · exact ht ch h
  · refine flagsTail_noBreak _ _ _ _ _ ?_ ch h
    intro t htd
    cases hdf : c.default with
    | none => simp [hdf] at htd
    | some d =>
      simp [hdf] at htd
      subst htd
      exact hd d hdf

theorem joinWith_noBreak (sep : Str) (hsep : NoBreak sep) : ∀ (l : List Str), (∀ x ∈ l, NoBreak x) → NoBreak (joinWith sep l) := by
  intro l
  induction l with
  | nil => intro _ ch hch; simp [joinWith] at hch
  | cons a r ih =>
    intro hl
    cases r with
    | nil => simpa [joinWith] using hl a (by simp)
    | cons b r2 =>
      have e : joinWith sep (a :: b :: r2) = a ++ sep ++ joinWith sep (b :: r2) := rfl
      rw [e]
      intro ch hch
      rw [List.mem_append, List.mem_append] at hch
      rcases hch with (h | h) | h
      · exact hl a (by simp) ch h
      · exact hsep ch h
      · exact ih (fun n hn' => hl n (by simp [hn'])) ch h

theorem pkLine_noBreak (names : List Str) (hn : ∀ n ∈ names, NoBreak n) : NoBreak (pkLine names) := by
  have hj : NoBreak (joinWith (lit ", ") (names.map fun n => '"' :: n ++ ['"'])) := by
    apply joinWith_noBreak _ (by decide : ∀ c ∈ lit ", ", isLineBreak c = false)
    intro x hx
    obtain ⟨a, ha, rfl⟩ := List.mem_map.mp hx
    intro ch hch
    have e : '"' :: a ++ ['"'] = ['"'] ++ (a ++ ['"']) := by simp
    rw [e, List.mem_append, List.mem_append] at hch
    rcases hch with h | h | h
    · exact (by decide : ∀ c ∈ ['"'], isLineBreak c = false) ch h
    · exact hn a ha ch h
    · exact (by decide : ∀ c ∈ ['"'], isLineBreak c = false) ch h
  intro ch hch
  unfold pkLine at hch
  rw [List.mem_append, List.mem_append] at hch
  rcases hch with (h | h) | h
  · exact (by decide : ∀ c ∈ lit "  PRIMARY KEY (", isLineBreak c = false) ch h
  · exact hj ch h
  · exact (by decide : ∀ c ∈ [')'], isLineBreak c = false) ch h

/-- the table-level clause of a table: present exactly when several columns are pk -/
def compOf (t : Table) : List Str :=
  if hasCompositePk t then [pkLine ((t.columns.filter (·.pk)).map (·.name))] else []

/-- the lines the table renderer writes for a covered table -/
def tableLines (db : Db) (t : Table) : List Str :=
  [lit "CREATE TABLE " ++ qualName t.schema t.name ++ lit " ("]
    ++ commaLines ((t.columns.map fun c => ' ' :: ' ' :: colLine (tyD db c) (hasCompositePk t) c) ++ compOf t) ++ [lit ");"]

theorem renderTable_lines (db : Db) (t : Table) (h : Readable db t) :
    renderTableWith db t [] = .ok (joinNL (tableLines db t)) := by
  have hcols : (t.columns.mapM fun c => do pure (indent2 (← renderColumn db (hasCompositePk t) c)))
      = .ok (t.columns.map fun c => ' ' :: ' ' :: colLine (tyD db c) (hasCompositePk t) c) := by
    apply mapM_ok_map_mem'
    intro c hc
    rw [renderColumn_line db _ c (tyD db c) (h.colType c hc) (h.colPlain c hc).1]
    have hl := h.colLines c hc
    simp only [bind, Except.bind, pure, Except.pure]
    rw [indent2_line (colLine (tyD db c) _ c) (colLine_noBreak _ _ _ hl.1 hl.2.1 hl.2.2) '"' _ rfl (by decide)]
    rfl
  simp only [bind, Except.bind, pure, Except.pure] at hcols
  have hcomp : (if hasCompositePk t then
        [lit "  PRIMARY KEY (" ++ joinWith (lit ", ") ((t.columns.filter (·.pk)).map fun c => '"' :: c.name ++ ['"']) ++ [')']]
      else []) = compOf t := by
    unfold compOf pkLine
    simp [List.map_map, Function.comp_def]
  have hbody : createBody db t [] = .ok (joinNL (commaLines
      ((t.columns.map fun c => ' ' :: ' ' :: colLine (tyD db c) (hasCompositePk t) c) ++ compOf t))) := by
    unfold createBody
    simp only [bind, Except.bind, pure, Except.pure, hcols, h.indexes, List.filter_nil, List.mapM_nil, List.map_nil,
      List.append_nil, hcomp, joinWith_commaNL]
  have hnotes : (t.columns.filter (!·.note.isEmpty)) = [] := by
    rw [List.filter_eq_nil_iff]
    intro c hc
    simp [(h.colPlain c hc).2]
  unfold renderTableWith
  simp only [hbody, bind, Except.bind, pure, Except.pure, h.indexes, List.filter_nil, List.mapM_nil, h.comment, h.note,
    hnotes, List.flatMap_nil, List.append_nil, List.nil_append, List.isEmpty_nil, ↓reduceIte]
  have hne : commaLines ((t.columns.map fun c => ' ' :: ' ' :: colLine (tyD db c) (hasCompositePk t) c) ++ compOf t) ≠ [] :=
    commaLines_ne _ (by simpa using fun hc => absurd hc h.cols)
  have e2 : joinNL (tableLines db t) = (lit "CREATE TABLE " ++ qualName t.schema t.name ++ lit " (") ++ '\n' ::
      (joinNL (commaLines ((t.columns.map fun c => ' ' :: ' ' :: colLine (tyD db c) (hasCompositePk t) c) ++ compOf t))
        ++ '\n' :: lit ");") := by
    unfold tableLines
    rw [List.append_assoc, joinNL_append _ _ (by simp) (by simp), joinNL_append _ _ hne (by simp)]
    rfl
  rw [e2]
  simp [joinNL]

theorem mapM_map_ok {α β γ ε} (f : α → Except ε β) (g : β → γ) : ∀ (l : List α) (r : List β), l.mapM f = .ok r →
    l.mapM (fun i => do pure (g (← f i))) = .ok (r.map g) := by
  intro l
  induction l with
  | nil => intro r h; simp [List.mapM_nil, pure, Except.pure] at h; subst h; rfl
  | cons x xs ih =>
    intro r h
    rw [List.mapM_cons] at h
    cases hx : f x with
    | error e => simp [hx, bind, Except.bind] at h
    | ok y =>
      cases hxs : xs.mapM f with
      | error e => simp [hx, hxs, bind, Except.bind] at h
      | ok ys =>
        simp [hx, hxs, bind, Except.bind, pure, Except.pure] at h
        subst h
        rw [List.mapM_cons, ih ys hxs]
        simp [hx, bind, Except.bind, pure, Except.pure]

theorem joinNL_append_flat (A X : List Str) (hA : A ≠ []) : joinNL (A ++ X) = joinNL A ++ X.flatMap (fun l => '\n' :: l) := by
  induction X generalizing A with
  | nil => simp
  | cons x xs ih =>
    have : A ++ x :: xs = (A ++ [x]) ++ xs := by simp
    rw [this, ih (A ++ [x]) (by simp), joinNL_append A [x] hA (by simp)]
    simp [joinNL]

/-- a table of the covered kind that also has indexes, none of them a pk index -/
def ReadableIx (db : Db) (t : Table) : Prop := Readable db { t with indexes := [] } ∧ ∀ ix ∈ t.indexes, ix.pk = false

/-- the table statement followed by its index statements: `render_table` appends each non-pk index after an empty line -/
theorem renderTable_lines_ix (db : Db) (t : Table) (h : ReadableIx db t) (ixl : List Str)
    (hix : t.indexes.mapM (renderIndex t) = .ok ixl) :
    renderTableWith db t [] = .ok (joinNL (tableLines db t) ++ (ixl.map fun l => '\n' :: l).flatMap (fun l => '\n' :: l)) := by
  obtain ⟨h0, hpk⟩ := h
  have hbase := renderTable_lines db { t with indexes := [] } h0
  have hf1 : t.indexes.filter (·.pk) = [] := by
    rw [List.filter_eq_nil_iff]; intro ix hi; simp [hpk ix hi]
  have hf2 : t.indexes.filter (!·.pk) = t.indexes := by
    rw [List.filter_eq_self]; intro ix hi; simp [hpk ix hi]
  have hbody : createBody db t [] = createBody db { t with indexes := [] } [] := by
    unfold createBody
    simp only [hf1, List.filter_nil, List.mapM_nil]
    rfl
  have hnp := mapM_map_ok (renderIndex t) (fun l => '\n' :: l) t.indexes ixl hix
  simp only [bind, Except.bind, pure, Except.pure] at hnp
  unfold renderTableWith at hbase ⊢
  rw [hbody]
  cases hb : createBody db { t with indexes := [] } [] with
  | error e => simp [hb, bind, Except.bind] at hbase
  | ok body =>
    simp only [hb, bind, Except.bind, pure, Except.pure, List.filter_nil, List.mapM_nil, List.append_nil] at hbase
    simp only [bind, Except.bind, pure, Except.pure, hf2, hnp]
    have hcm : t.comment = none := h0.comment
    have hnote : t.note = [] := h0.note
    have hnotes : (t.columns.filter (!·.note.isEmpty)) = [] := by
      rw [List.filter_eq_nil_iff]
      intro c hc
      simp [(h0.colPlain c hc).2]
    simp only [hcm, hnote, hnotes, List.flatMap_nil, List.append_nil, List.nil_append, List.isEmpty_nil, ↓reduceIte] at hbase ⊢
    have hb2 : joinNL [lit "CREATE TABLE " ++ qualName t.schema t.name ++ lit " (", body, lit ");"]
        = joinNL (tableLines db t) := by
      have := hbase
      simp only [Except.ok.injEq] at this
      exact this
    rw [joinNL_append_flat _ _ (by simp), hb2]

theorem qualName_noBreak (sch n : Str) (hs : NoBreak sch) (hn : NoBreak n) : NoBreak (qualName sch n) := by
  intro ch hch
  unfold qualName at hch
  split at hch
  · have e : '"' :: n ++ ['"'] = ['"'] ++ n ++ ['"'] := by simp
    rw [e] at hch
    simp only [List.mem_append] at hch
    rcases hch with (h | h) | h
    · exact (by decide : ∀ c ∈ ['"'], isLineBreak c = false) ch h
    · exact hn ch h
    · exact (by decide : ∀ c ∈ ['"'], isLineBreak c = false) ch h
  · have e : '"' :: sch ++ lit "\".\"" ++ n ++ ['"'] = ['"'] ++ sch ++ ['"', '.', '"'] ++ n ++ ['"'] := by simp [lit]
    rw [e] at hch
    simp only [List.mem_append] at hch
    rcases hch with (((h | h) | h) | h) | h
    · exact (by decide : ∀ c ∈ ['"'], isLineBreak c = false) ch h
    · exact hs ch h
    · exact (by decide : ∀ c ∈ ['"', '.', '"'], isLineBreak c = false) ch h
    · exact hn ch h
    · exact (by decide : ∀ c ∈ ['"'], isLineBreak c = false) ch h

theorem tableLines_no_nl (db : Db) (t : Table) (h : Readable db t) : ∀ l ∈ tableLines db t, '\n' ∉ l := by
  intro l hl
  apply noBreak_nl
  unfold tableLines at hl
  simp only [List.mem_append, List.mem_singleton] at hl
  rcases hl with (h1 | h1) | h1
  · subst h1
    intro ch hch
    simp only [List.mem_append] at hch
    rcases hch with (h2 | h2) | h2
    · exact (by decide : ∀ c ∈ lit "CREATE TABLE ", isLineBreak c = false) ch h2
    · exact qualName_noBreak _ _ h.names.1 h.names.2 ch h2
    · exact (by decide : ∀ c ∈ lit " (", isLineBreak c = false) ch h2
  · obtain ⟨y, hy, hxy⟩ := mem_commaLines _ _ h1
    have h2 : NoBreak y := by
      simp only [List.mem_append, List.mem_map] at hy
      rcases hy with ⟨c, hc, rfl⟩ | hy
      · have hl := h.colLines c hc
        have hcl := colLine_noBreak (tyD db c) (hasCompositePk t) c hl.1 hl.2.1 hl.2.2
        intro ch hch
        simp only [List.mem_cons] at hch
        rcases hch with h3 | h3 | h3
        · subst h3; decide
        · subst h3; decide
        · exact hcl ch h3
      · unfold compOf at hy
        split at hy
        · simp only [List.mem_singleton] at hy
          subst hy
          apply pkLine_noBreak
          intro n hn
          obtain ⟨c, hc, rfl⟩ := List.mem_map.mp hn
          exact (h.colLines c (List.mem_filter.mp hc).1).1
        · cases hy
    rcases hxy with rfl | rfl
    · exact h2
    · intro ch hch
      simp only [List.mem_append, List.mem_singleton] at hch
      rcases hch with h3 | h3
      · exact h2 ch h3
      · subst h3; decide
  · subst h1
    exact (by decide : ∀ c ∈ lit ");", isLineBreak c = false)

/-- what the model says about a table -/
def tabDescOf (db : Db) (t : Table) : TabDesc :=
  { qname := qualName t.schema t.name,
    cols := t.columns.map fun c => descOf (tyD db c) (hasCompositePk t) c,
    key := keyOf (hasCompositePk t) t.columns }

theorem readTableLines_ok (db : Db) (t : Table) (h : Readable db t) :
    readTableLines (tableLines db t) = some (tabDescOf db t) := by
  unfold readTableLines
  have hq : (qualName t.schema t.name ++ lit " (").getLast? = some '(' := by simp [lit]
  have hq2 : (qualName t.schema t.name ++ lit " (").dropLast.getLast? = some ' ' := by
    rw [show qualName t.schema t.name ++ lit " (" = (qualName t.schema t.name ++ [' ']) ++ ['('] by simp [lit]]
    simp
  have hq3 : (qualName t.schema t.name ++ lit " (").dropLast.dropLast = qualName t.schema t.name := by
    rw [show qualName t.schema t.name ++ lit " (" = (qualName t.schema t.name ++ [' ']) ++ ['('] by simp [lit]]
    simp
  have hr1 : ∀ L : List Str, (L ++ [lit ");"]).getLast? = some (lit ");") := by intro L; simp
  have hr2 : ∀ L : List Str, (L ++ [lit ");"]).dropLast = L := by intro L; simp
  simp only [tableLines, List.append_assoc, List.cons_append, stripKw_append]
  simp only [List.nil_append, hq, hq2, hq3, hr1, hr2, and_self, ↓reduceIte]
  have hcomp : (compOf t = [] ∧ keyOf (hasCompositePk t) t.columns = none)
      ∨ (∃ names, compOf t = [pkLine names] ∧ keyOf (hasCompositePk t) t.columns = some names ∧ names ≠ []
          ∧ ∀ n ∈ names, '"' ∉ n) := by
    unfold compOf keyOf
    cases hc : hasCompositePk t with
    | false => exact Or.inl ⟨by simp, by simp⟩
    | true =>
      refine Or.inr ⟨(t.columns.filter (·.pk)).map (·.name), by simp, by simp, ?_, ?_⟩
      · intro he
        unfold hasCompositePk at hc
        have := congrArg List.length he
        simp only [List.length_map, List.length_nil] at this
        simp [this] at hc
      · intro n hn
        obtain ⟨c, hc', rfl⟩ := List.mem_map.mp hn
        exact (h.colRead c (List.mem_filter.mp hc').1).1
  rw [readBody_commaLines (hasCompositePk t) (tyD db) (compOf t) _ hcomp t.columns h.cols h.colRead]
  rfl

/-- **the reader inverts the table renderer**: from the rendered statement of a covered table the reader recovers the
    table name exactly as qualified by `get_full_name_for_sql` and, in order, every column with its name, its type text,
    AUTOINCREMENT, UNIQUE, NOT NULL exactly when set, the DEFAULT text whenever a default is set (also 0, false, the
    empty string), PRIMARY KEY on the column exactly when it is the table's only key column, and ONE table-level clause
    naming the key columns in order exactly when there are several - and nothing else: the number of columns read is the
    number of columns of the model. -/
theorem read_render_table (db : Db) (t : Table) (h : Readable db t) :
    ∃ text, renderTableWith db t [] = .ok text ∧ readTable text = some (tabDescOf db t) := by
  refine ⟨_, renderTable_lines db t h, ?_⟩
  unfold readTable
  rw [C14.splitNL_joinNL (tableLines db t) (by simp [tableLines]) (tableLines_no_nl db t h)]
  exact readTableLines_ok db t h

/-- what is read determines what was rendered: two covered tables with the same DDL agree on the qualified name and on
    every column, setting by setting, and on the key -/
theorem same_ddl_same_content (db : Db) (t1 t2 : Table) (h1 : Readable db t1) (h2 : Readable db t2)
    (h : renderTableWith db t1 [] = renderTableWith db t2 []) : tabDescOf db t1 = tabDescOf db t2 := by
  obtain ⟨x1, hr1, hd1⟩ := read_render_table db t1 h1
  obtain ⟨x2, hr2, hd2⟩ := read_render_table db t2 h2
  rw [hr1, hr2] at h
  have : x1 = x2 := by injection h
  subst this
  rw [hd1] at hd2
  exact Option.some.inj hd2

/-! ### scripts -/

/-- blocks of lines joined with an empty line between them -/
def interBlank : List (List Str) → List Str
  | [] => []
  | [A] => A
  | A :: B :: r => A ++ [] :: interBlank (B :: r)

theorem interBlank_ne (Ts : List (List Str)) (hne : Ts ≠ []) (hT : ∀ A ∈ Ts, A ≠ []) : interBlank Ts ≠ [] := by
  cases Ts with
  | nil => exact absurd rfl hne
  | cons A r =>
    cases r with
    | nil => simpa [interBlank] using hT A (by simp)
    | cons B r2 => simp [interBlank]

theorem joinWith_blocks : ∀ (Ts : List (List Str)), (∀ A ∈ Ts, A ≠ []) →
    joinWith (lit "\n\n") (Ts.map joinNL) = joinNL (interBlank Ts) := by
  intro Ts
  induction Ts with
  | nil => intro _; rfl
  | cons A r ih =>
    intro hT
    cases r with
    | nil => rfl
    | cons B r2 =>
      have hrest : interBlank (B :: r2) ≠ [] := interBlank_ne _ (by simp) (fun X hX => hT X (by simp [hX]))
      have e : joinWith (lit "\n\n") ((A :: B :: r2).map joinNL) = joinNL A ++ lit "\n\n" ++ joinWith (lit "\n\n") ((B :: r2).map joinNL) := rfl
      rw [e, ih (fun X hX => hT X (by simp [hX]))]
      show _ = joinNL (A ++ [] :: interBlank (B :: r2))
      rw [joinNL_append A _ (hT A (by simp)) (by simp), joinNL_cons [] _ hrest]
      simp [lit]

theorem splitBlocks_plain : ∀ (A : List Str), (∀ l ∈ A, l ≠ []) → splitBlocks A = [A] := by
  intro A
  induction A with
  | nil => intro _; rfl
  | cons l r ih =>
    intro h
    rw [splitBlocks, ih (fun x hx => h x (by simp [hx]))]
    simp [h l (by simp)]

theorem splitBlocks_append : ∀ (A B : List Str), (∀ l ∈ A, l ≠ []) → splitBlocks (A ++ [] :: B) = A :: splitBlocks B := by
  intro A
  induction A with
  | nil =>
    intro B _
    rw [List.nil_append, splitBlocks]
    cases hb : splitBlocks B with
    | nil =>
      exfalso
      cases B with
      | nil => simp [splitBlocks] at hb
      | cons x xs =>
        rw [splitBlocks] at hb
        split at hb <;> (try split at hb) <;> simp at hb
    | cons b bs => simp
  | cons l r ih =>
    intro B h
    rw [List.cons_append, splitBlocks, ih B (fun x hx => h x (by simp [hx]))]
    simp [h l (by simp)]

theorem splitBlocks_interBlank : ∀ (Ts : List (List Str)), Ts ≠ [] → (∀ A ∈ Ts, ∀ l ∈ A, l ≠ []) →
    splitBlocks (interBlank Ts) = Ts := by
  intro Ts
  induction Ts with
  | nil => intro h; exact absurd rfl h
  | cons A r ih =>
    intro _ hT
    cases r with
    | nil => exact splitBlocks_plain A (hT A (by simp))
    | cons B r2 =>
      show splitBlocks (A ++ [] :: interBlank (B :: r2)) = _
      rw [splitBlocks_append A _ (hT A (by simp)), ih (by simp) (fun X hX => hT X (by simp [hX]))]

theorem tableLines_nonempty (db : Db) (t : Table) : ∀ l ∈ tableLines db t, l ≠ [] := by
  intro l hl
  unfold tableLines at hl
  simp only [List.mem_append, List.mem_singleton] at hl
  rcases hl with (h1 | h1) | h1
  · subst h1; simp [lit]
  · obtain ⟨y, hy, hxy⟩ := mem_commaLines _ _ h1
    have hyne : y ≠ [] := by
      simp only [List.mem_append, List.mem_map] at hy
      rcases hy with ⟨c, _, rfl⟩ | hy
      · simp
      · unfold compOf at hy
        split at hy
        · simp only [List.mem_singleton] at hy
          subst hy
          simp [pkLine, lit]
        · cases hy
    rcases hxy with rfl | rfl
    · exact hyne
    · simp
  · subst h1; simp [lit]

/-- **the reader inverts the script renderer** for databases of covered tables (no enums, no references): the script
    holds one statement per table, in the order of declaration, each read back to exactly what the model says of that
    table; no other table appears and every table appears exactly once. -/
theorem read_render_script (db : Db) (hen : db.enums = []) (hrefs : db.refs = []) (hne : db.tables ≠ [])
    (h : ∀ t ∈ db.tables, Readable db t) :
    ∃ text, renderDb db = .ok text ∧ readScript text = some (db.tables.map (tabDescOf db)) := by
  have horder : reorderIdx db.tables db.refs = List.range db.tables.length := by
    apply C18.order_identity_without_hosts
    intro i
    unfold C18.hosted countFor
    rw [hrefs]
    cases db.tables[i]? <;> rfl
  have htabs : (List.range db.tables.length).mapM (renderTable db) = .ok (db.tables.map fun t => joinNL (tableLines db t)) := by
    have h1 := C02.range_mapM_getD_idx db.tables "table position" (fun i t => do
        let refs ← (inlineRefsFor db i t).mapM (renderInlineRef db)
        renderTableWith db t refs) (fun t => renderTableWith db t [])
      (by
        intro i t _
        have hin : inlineRefsFor db i t = [] := by
          unfold inlineRefsFor
          rw [hrefs]
          split <;> rfl
        simp only [hin, List.mapM_nil, bind, Except.bind, pure, Except.pure])
    unfold renderTable
    rw [h1]
    exact mapM_ok_map_mem' _ _ db.tables (fun t ht => renderTable_lines db t (h t ht))
  have htext : renderDb db = .ok (joinNL (interBlank (db.tables.map (tableLines db)))) := by
    rw [hrefs] at horder
    unfold renderDb
    simp only [hen, hrefs, horder, htabs, List.map_nil, List.filter_nil, List.mapM_nil, bind, Except.bind, pure, Except.pure,
      List.nil_append, List.append_nil]
    rw [← joinWith_blocks (db.tables.map (tableLines db)) (by
      intro A hA
      obtain ⟨t, _, rfl⟩ := List.mem_map.mp hA
      simp [tableLines]), List.map_map]
    rfl
  refine ⟨_, htext, ?_⟩
  unfold readScript
  have hnl : ∀ l ∈ interBlank (db.tables.map (tableLines db)), '\n' ∉ l := by
    have : ∀ (Ts : List (List Str)), (∀ A ∈ Ts, ∀ l ∈ A, '\n' ∉ l) → ∀ l ∈ interBlank Ts, '\n' ∉ l := by
      intro Ts
      induction Ts with
      | nil => intro _ l hl; simp [interBlank] at hl
      | cons A r ih =>
        intro hT l hl
        cases r with
        | nil => exact hT A (by simp) l (by simpa [interBlank] using hl)
        | cons B r2 =>
          simp only [interBlank, List.mem_append, List.mem_cons] at hl
          rcases hl with h1 | h1 | h1
          · exact hT A (by simp) l h1
          · subst h1; simp
          · exact ih (fun X hX => hT X (by simp [hX])) l h1
    apply this
    intro A hA
    obtain ⟨t, ht, rfl⟩ := List.mem_map.mp hA
    exact tableLines_no_nl db t (h t ht)
  rw [C14.splitNL_joinNL _ (interBlank_ne _ (by simpa using hne) (by
      intro A hA
      obtain ⟨t, _, rfl⟩ := List.mem_map.mp hA
      simp [tableLines])) hnl,
    splitBlocks_interBlank _ (by simpa using hne) (by
      intro A hA
      obtain ⟨t, _, rfl⟩ := List.mem_map.mp hA
      exact tableLines_nonempty db t), List.mapM_map]
  have : ∀ (l : List Table), (∀ t ∈ l, Readable db t) →
      l.mapM (readTableLines ∘ tableLines db) = some (l.map (tabDescOf db)) := by
    intro l
    induction l with
    | nil => intro _; rfl
    | cons t r ih =>
      intro hl
      rw [List.mapM_cons, Function.comp, readTableLines_ok db t (hl t (by simp)), ih (fun x hx => hl x (by simp [hx]))]
      rfl
  exact this db.tables h

/-- a table of the covered kind, with a composite key, a default of 0 and one of the empty string -/
def exTable : Table := { name := lit "t", columns := [
  { name := lit "a", type := .plain (lit "int"), pk := true, notNull := true },
  { name := lit "b", type := .plain (lit "int"), pk := true, default := some (.int (lit "0")) },
  { name := lit "c", type := .plain (lit "varchar(9)"), unique := true, default := some (.str []) }] }

/-- its DDL and what the reader makes of it (a test of the statement on one literal) -/
example :
    (renderTableWith {} exTable []).toOption = some (lit "CREATE TABLE \"t\" (\n  \"a\" int NOT NULL,\n  \"b\" int DEFAULT 0,\n  \"c\" varchar(9) UNIQUE DEFAULT ,\n  PRIMARY KEY (\"a\", \"b\")\n);")
    ∧ readTable (lit "CREATE TABLE \"t\" (\n  \"a\" int NOT NULL,\n  \"b\" int DEFAULT 0,\n  \"c\" varchar(9) UNIQUE DEFAULT ,\n  PRIMARY KEY (\"a\", \"b\")\n);")
      = some ⟨lit "\"t\"", [⟨lit "a", lit "int", false, false, false, true, none⟩, ⟨lit "b", lit "int", false, false, false, false, some (lit "0")⟩,
          ⟨lit "c", lit "varchar(9)", false, false, true, false, some []⟩], some [lit "a", lit "b"]⟩ := by
  decide +kernel

/-- non-vacuity: the example table meets the hypotheses of the theorem -/
example : Readable {} exTable := by
  refine ⟨by decide, rfl, rfl, rfl, ⟨by decide, by decide⟩, ?_, ?_, ?_, ?_⟩
  · intro c hc
    simp only [exTable, List.mem_cons, List.mem_nil_iff, or_false] at hc
    rcases hc with rfl | rfl | rfl <;> exact ⟨rfl, rfl⟩
  · intro c hc
    simp only [exTable, List.mem_cons, List.mem_nil_iff, or_false] at hc
    rcases hc with rfl | rfl | rfl <;> rfl
  · intro c hc
    simp only [exTable, List.mem_cons, List.mem_nil_iff, or_false] at hc
    rcases hc with rfl | rfl | rfl <;> decide +kernel
  · intro c hc
    simp only [exTable, List.mem_cons, List.mem_nil_iff, or_false] at hc
    rcases hc with rfl | rfl | rfl
    · exact ⟨by decide, by decide +kernel, fun d hd => by cases hd⟩
    · refine ⟨by decide, by decide +kernel, fun d hd => ?_⟩
      cases hd; decide +kernel
    · refine ⟨by decide, by decide +kernel, fun d hd => ?_⟩
      cases hd; decide +kernel

end C03
end PyDBML
