/-
C02/C01/C05 — documents of plain tables FOLLOWED BY standalone references between their columns, end to end:
the references are written with names, parsed, and resolved by the build back to the very positions they
were rendered from (`refs_roundtrip_partial`).
-/
import PyDBMLProofs.Props.C02Tables
namespace PyDBML
namespace C02
open Lex Grammar Build

/-! ### one reference in block form: `Ref {` LF `    "t1"."c1" > "t2"."c2"` LF `}` -/

/-- a reference written by names: kind, table/column of each side -/
structure RText where
  kind : RefKind
  t1 : Str
  c1 : Str
  t2 : Str
  c2 : Str

def sideText (t c : Str) (post : Str) : Str := '"' :: (t ++ '"' :: '.' :: '"' :: (c ++ '"' :: post))

def refTextP (r : RText) (post : Str) : Str :=
  'R' :: 'e' :: 'f' :: ' ' :: '{' :: '\n' :: ' ' :: ' ' :: ' ' :: ' ' ::
    sideText r.t1 r.c1 (' ' :: (r.kind.sym ++ ' ' :: sideText r.t2 r.c2 ('\n' :: '}' :: post)))

def refBp (r : RText) : Bp.RefBp :=
  { kind := r.kind, inline := false, table1 := some r.t1, col1 := some r.c1, table2 := some r.t2, col2 := some r.c2 }

def RTextOK (r : RText) : Prop := NameOK r.t1 ∧ NameOK r.c1 ∧ NameOK r.t2 ∧ NameOK r.c2

/-- `ref_cols` on `"t"."c"` followed by something that does not start (after blanks) with a dot -/
theorem refCols_ok (c : Cur) (t col after : Str) (hn : (skipWs c).rest = sideText t col after)
    (hdot : ∀ d : Cur, d.rest = after → sym "." d = .fail)
    (ht : NameOK t) (hc : NameOK col) (hp : c.pastEnd = false) :
    ∃ c', refCols c = .ok (none, t, col) c' ∧ c'.rest = after ∧ c'.pastEnd = false := by
  obtain ⟨c1, hnm1, hr1, hp1⟩ := name_quoted_ok c t _ hn ht hp
  have hN1 : Next c1 '.' ('"' :: (col ++ '"' :: after)) := skipWs_rest_head c1 '.' _ hr1 (by decide)
  obtain ⟨c2, hdt, hr2, hp2⟩ := sym_ok "." '.' rfl c1 _ hN1 hp1
  have hN2 : (skipWs c2).rest = '"' :: (col ++ '"' :: after) := skipWs_rest_head c2 '"' _ hr2 (by decide)
  obtain ⟨c3, hnm2, hr3, hp3⟩ := name_quoted_ok c2 col _ hN2 hc hp2
  have hnodot : sym "." c3 = .fail := hdot c3 hr3
  refine ⟨c3, ?_, hr3, hp3⟩
  unfold refCols alt nameOrComposite alt
  simp only [bind, pbind, hnm1, hdt, hnm2, hnodot, pure, ppure]

theorem relation_ok (c : Cur) (k : RefKind) (post : Str) (hn : (skipWs c).rest = k.sym ++ ' ' :: post)
    (hp : c.pastEnd = false) : ∃ c', relation c = .ok k c' ∧ c'.rest = ' ' :: post ∧ c'.pastEnd = false := by
  cases k with
  | manyToOne =>
    refine ⟨advance (skipWs c) 1, ?_, by rw [C13.advance_rest, hn]; rfl, by rw [C13.advance_pastEnd]; exact hp⟩
    unfold relation; simp [hp, hn, RefKind.sym]
  | oneToMany =>
    refine ⟨advance (skipWs c) 1, ?_, by rw [C13.advance_rest, hn]; rfl, by rw [C13.advance_pastEnd]; exact hp⟩
    unfold relation; simp [hp, hn, RefKind.sym]
  | oneToOne =>
    refine ⟨advance (skipWs c) 1, ?_, by rw [C13.advance_rest, hn]; rfl, by rw [C13.advance_pastEnd]; exact hp⟩
    unfold relation; simp [hp, hn, RefKind.sym]
  | manyToMany =>
    refine ⟨advance (skipWs c) 2, ?_, by rw [C13.advance_rest, hn]; rfl, by rw [C13.advance_pastEnd]; exact hp⟩
    unfold relation; simp [hp, hn, RefKind.sym]

theorem sym_dot_fail_of_next (d : Cur) (x : Char) (r : Str) (hn : Next d x r) (hx : x ≠ '.') : sym "." d = .fail :=
  sym_fail "." d x r hn (by simp [startsWith, Ne.symm hx])

theorem kind_sym_head (k : RefKind) : ∃ y r, k.sym = y :: r ∧ y ≠ '.' ∧ isWs y = false := by
  cases k <;> simp [RefKind.sym] <;> decide

/-- the body of a reference: both sides and the kind -/
theorem refBody_ok (c : Cur) (r : RText) (post : Str)
    (hn : (skipWs c).rest = sideText r.t1 r.c1 (' ' :: (r.kind.sym ++ ' ' :: sideText r.t2 r.c2 ('\n' :: post))))
    (hok : RTextOK r) (hp : c.pastEnd = false) :
    ∃ c', refBody none [] c = .ok (refBp r) c' ∧ c'.rest = '\n' :: post ∧ c'.pastEnd = false := by
  obtain ⟨y, yr, hy, hyd, hyw⟩ := kind_sym_head r.kind
  obtain ⟨c1, hs1, hr1, hp1⟩ := refCols_ok c r.t1 r.c1 _ hn (by
    intro d hd
    have : Next d y (yr ++ ' ' :: sideText r.t2 r.c2 ('\n' :: post)) :=
      skipWs_rest_spaces d 1 y _ (by rw [hd, hy]; rfl) hyw
    exact sym_dot_fail_of_next d y _ this hyd) hok.1 hok.2.1 hp
  have hN1 : (skipWs c1).rest = r.kind.sym ++ ' ' :: sideText r.t2 r.c2 ('\n' :: post) := by
    have := skipWs_rest_spaces c1 1 y (yr ++ ' ' :: sideText r.t2 r.c2 ('\n' :: post)) (by rw [hr1, hy]; rfl) hyw
    rw [this, hy]; rfl
  obtain ⟨c2, hrel, hr2, hp2⟩ := relation_ok c1 r.kind _ hN1 hp1
  have hN2 : (skipWs c2).rest = sideText r.t2 r.c2 ('\n' :: post) :=
    skipWs_rest_spaces c2 1 '"' _ (by rw [hr2]; rfl) (by decide)
  obtain ⟨c3, hs2, hr3, hp3⟩ := refCols_ok c2 r.t2 r.c2 _ hN2 (by
    intro d hd
    have : Next d '\n' post := skipWs_rest_head d '\n' _ hd (by decide)
    exact sym_dot_fail_of_next d '\n' _ this (by decide)) hok.2.2.1 hok.2.2.2 hp2
  have hN3 : Next c3 '\n' post := skipWs_rest_head c3 '\n' _ hr3 (by decide)
  have hcm : cOpt c3 = .ok none c3 := by
    unfold cOpt opt
    rw [comment_fail c3 '\n' post hN3 (by decide)]
  have hst : opt refSettings c3 = .ok none c3 := by
    unfold opt refSettings
    simp only [bind, pbind, sym_fail "[" c3 '\n' post hN3 (by simp [startsWith])]
  refine ⟨c3, ?_, hr3, hp3⟩
  unfold refBody
  simp only [bind, pbind, hs1, cut, hrel, hs2, hcm, hst, pure, ppure, refBp, joinBefore]
  rfl

theorem tableRule_fail' (props : Bool) (c c0 : Cur) (bs : List Str) (hb : cBefore c = .ok bs c0) (hk : ckw "table" c0 = .fail) :
    tableRule props c = .fail := by
  unfold tableRule; simp only [bind, pbind, hb, hk]

/-- what follows the keyword of a reference in block form -/
def refAfterKw (r : RText) (post : Str) : Str :=
  ' ' :: '{' :: '\n' :: ' ' :: ' ' :: ' ' :: ' ' ::
    sideText r.t1 r.c1 (' ' :: (r.kind.sym ++ ' ' :: sideText r.t2 r.c2 ('\n' :: '}' :: post)))

/-- the reference rule (block form) once its keyword - in whatever letter case - has been read -/
theorem refRule_from (c c0 c1 : Cur) (r : RText) (post : Str) (Q : Cur → Prop)
    (hb : cBefore c = .ok [] c0) (hk : clit "ref" c0 = .ok () c1) (hr1 : c1.rest = refAfterKw r post)
    (hp1 : c1.pastEnd = false) (hok : RTextOK r)
    (hend : ∀ c7 : Cur, c7.rest = post → c7.pastEnd = false → ∃ c9, (alt lineEnd stringEnd) c7 = .ok () c9 ∧ Q c9) :
    ∃ c9, refRule c = .ok (refBp r) c9 ∧ Q c9 := by
  -- `Ref {`: no name, no colon
  have hN1 : Next c1 '{' _ := skipWs_rest_spaces c1 1 '{' _ (by rw [hr1]; rfl) (by decide)
  have hnm : opt name c1 = .ok none c1 := by
    unfold opt; rw [name_fail c1 '{' _ hN1 (by decide) (by decide)]
  have hcolon : sym ":" c1 = .fail := sym_fail ":" c1 '{' _ hN1 (by simp [startsWith])
  have hshort : refShort c = .fail := by
    unfold refShort; simp only [bind, pbind, hb, hk, hnm, hcolon]
  obtain ⟨q1, q2⟩ := quiet_of_next c1 '{' _ hN1 (by decide) (by decide)
  have hs1 : skipNl c1 = .ok () c1 := skipNl_stay c1 q1 q2
  obtain ⟨c2, hbr, hr2, hp2⟩ := sym_ok "{" '{' rfl c1 _ hN1 hp1
  -- line break, body
  have hN2 : Next c2 '\n' _ := skipWs_rest_head c2 '\n' _ hr2 (by decide)
  obtain ⟨c3, hs2, hr3, hp3⟩ := skipNl_one c2 _ hN2 hp2 (by
    intro d hd _
    have : Next d '"' _ := skipWs_rest_spaces d 4 '"' _ (by rw [hd]; rfl) (by decide)
    exact quiet_of_next d '"' _ this (by decide) (by decide))
  have hN3 : (skipWs c3).rest = sideText r.t1 r.c1 (' ' :: (r.kind.sym ++ ' ' :: sideText r.t2 r.c2 ('\n' :: '}' :: post))) :=
    skipWs_rest_spaces c3 4 '"' _ (by rw [hr3]; rfl) (by decide)
  obtain ⟨c4, hbody, hr4, hp4⟩ := refBody_ok c3 r ('}' :: post) hN3 hok hp3
  have hN4 : Next c4 '\n' ('}' :: post) := skipWs_rest_head c4 '\n' _ hr4 (by decide)
  obtain ⟨c5, hs4, hr5, hp5⟩ := skipNl_one c4 ('}' :: post) hN4 hp4 (by
    intro d hd _
    have : Next d '}' post := skipWs_rest_head d '}' _ hd (by decide)
    exact quiet_of_next d '}' _ this (by decide) (by decide))
  have hN5 : Next c5 '}' post := skipWs_rest_head c5 '}' _ hr5 (by decide)
  obtain ⟨c6, hcl, hr6, hp6⟩ := sym_ok "}" '}' rfl c5 _ hN5 hp5
  obtain ⟨c9, hend9, hQ⟩ := hend c6 hr6 hp6
  refine ⟨c9, ?_, hQ⟩
  have hlong : refLong c = .ok (refBp r) c9 := by
    unfold refLong
    simp only [bind, pbind, hb, hk, hs1, hnm, hbr, hs2, cut, hbody, hs4, hcl, hend9, pure, ppure]
  unfold refRule alt
  simp only [hshort, hlong]

/-- the reference rule (block form) on `refTextP`, after the blank lines before it -/
theorem refRule_okP (c c0 : Cur) (r : RText) (post : Str) (Q : Cur → Prop)
    (hb : cBefore c = .ok [] c0) (hc : c0.rest = refTextP r post) (hp : c0.pastEnd = false) (hok : RTextOK r)
    (hend : ∀ c7 : Cur, c7.rest = post → c7.pastEnd = false → ∃ c9, (alt lineEnd stringEnd) c7 = .ok () c9 ∧ Q c9) :
    ∃ c9, refRule c = .ok (refBp r) c9 ∧ Q c9 := by
  have hN : Next c0 'R' _ := skipWs_rest_head c0 'R' _ (by rw [hc]; rfl) (by decide)
  obtain ⟨c1, hk, hr1, hp1⟩ := clit_ok "ref" c0 ['R', 'e', 'f'] _ hN (by decide) (by simp [startsWithCaseless]; decide) hp
  exact refRule_from c c0 c1 r post Q hb hk hr1 hp1 hok hend

/-! ### the references part of a document -/

def refsTail : List RText → Str
  | [] => []
  | r :: rs => '\n' :: '\n' :: refTextP r (refsTail rs)

def refsAfter : List RText → Str
  | [] => []
  | r :: rs => '\n' :: refTextP r (refsTail rs)

def mkRefElem (r : RText) : Bp.Elem := Bp.Elem.ref (refBp r)

theorem refEnd_eof (c7 : Cur) (hr : c7.rest = []) (hp : c7.pastEnd = false) :
    ∃ c9, (alt lineEnd stringEnd) c7 = .ok () c9 ∧ c9.rest = [] ∧ c9.pastEnd = true := by
  obtain ⟨c8, hle, hr8, hp8⟩ := lineEnd_eof c7 (skipWs_rest_nil c7 hr) hp
  exact ⟨c8, by simp only [alt, hle], hr8, hp8⟩

theorem refEnd_nl (c7 : Cur) (r : Str) (hr : c7.rest = '\n' :: r) (hp : c7.pastEnd = false) :
    ∃ c9, (alt lineEnd stringEnd) c7 = .ok () c9 ∧ c9.rest = r ∧ c9.pastEnd = false := by
  obtain ⟨c8, hle, hr8, hp8⟩ := lineEnd_nl c7 r (skipWs_rest_head c7 '\n' r hr (by decide)) hp
  exact ⟨c8, by simp only [alt, hle], hr8, hp8⟩

theorem quiet_refTextP (r : RText) (post : Str) (d : Cur) (hd : d.rest = refTextP r post) :
    sym "\n" d = .fail ∧ comment d = .fail := by
  have : Next d 'R' _ := skipWs_rest_head d 'R' _ (by rw [hd]; rfl) (by decide)
  exact quiet_of_next d 'R' _ this (by decide) (by decide)

theorem element_ref_after (ap : Bool) (c : Cur) (r : RText) (rs : List RText) (hok : RTextOK r)
    (hc : c.rest = refsAfter (r :: rs)) (hp : c.pastEnd = false) :
    ∃ c9, element ap c = .ok (mkRefElem r) c9 ∧ c9.rest = refsAfter rs ∧ c9.pastEnd = rs.isEmpty := by
  obtain ⟨c0, hb, hr0, hp0, _⟩ := cBefore_nl c (refTextP r (refsTail rs)) (by rw [hc]; rfl) hp
    (fun d hd _ => quiet_refTextP _ _ d hd)
  have hN0 : Next c0 'R' _ := skipWs_rest_head c0 'R' _ (by rw [hr0]; rfl) (by decide)
  have htab : tableRule ap c = .fail :=
    tableRule_fail' ap c c0 [] hb (ckw_fail _ c0 _ _ hN0 (swc_ne 'R' _ "table" 't' _ rfl (by decide)))
  obtain ⟨c9, hrule, hQ⟩ := refRule_okP c c0 r (refsTail rs) (fun c9 => c9.rest = refsAfter rs ∧ c9.pastEnd = rs.isEmpty)
    hb hr0 hp0 hok (by
      intro c7 hr7 hp7
      cases rs with
      | nil =>
        obtain ⟨c9, h1, h2, h3⟩ := refEnd_eof c7 (by simpa [refsTail] using hr7) hp7
        exact ⟨c9, h1, by simpa [refsAfter] using h2, by simpa using h3⟩
      | cons r2 rs2 =>
        obtain ⟨c9, h1, h2, h3⟩ := refEnd_nl c7 (refsAfter (r2 :: rs2)) (by rw [hr7]; simp [refsTail, refsAfter]) hp7
        exact ⟨c9, h1, h2, by simpa using h3⟩)
  refine ⟨c9, ?_, hQ.1, hQ.2⟩
  unfold element alt mkRefElem
  simp only [bind, pbind, htab, hrule, pure, ppure]

theorem refsAfter_length (rs : List RText) : rs.length ≤ (refsAfter rs).length := by
  induction rs with
  | nil => simp [refsAfter]
  | cons r t ih =>
    cases t with
    | nil => simp [refsAfter, refTextP]
    | cons r2 t2 =>
      simp only [refsAfter, refsTail, refTextP, sideText, List.length_cons, List.length_append] at ih ⊢
      omega

theorem many_refs (ap : Bool) : ∀ (rs : List RText) (fuel : Nat) (c : Cur), rs.length < fuel →
    (∀ r ∈ rs, RTextOK r) → c.rest = refsAfter rs → c.pastEnd = rs.isEmpty →
    ∃ c', many (element ap) fuel c = .ok (rs.map mkRefElem) c' ∧ c'.rest = [] ∧ c'.pastEnd = true := by
  intro rs
  induction rs with
  | nil =>
    intro fuel c hf _ hc hp
    obtain ⟨f, rfl⟩ : ∃ f, fuel = f + 1 := ⟨fuel - 1, by simp at hf; omega⟩
    have hp' : c.pastEnd = true := by simpa using hp
    refine ⟨c, ?_, by simpa [refsAfter] using hc, hp'⟩
    rw [many]
    simp [element_fail_pastEnd ap c hp']
  | cons r t ih =>
    intro fuel c hf hok hc hp
    obtain ⟨f, rfl⟩ : ∃ f, fuel = f + 1 := ⟨fuel - 1, by simp at hf; omega⟩
    have hp' : c.pastEnd = false := by simpa using hp
    obtain ⟨c1, hel, hr1, hp1⟩ := element_ref_after ap c r t (hok r (by simp)) hc hp'
    obtain ⟨c2, hm, hr2, hp2⟩ := ih f c1 (by simp at hf; omega) (fun q hq => hok q (by simp [hq])) hr1 hp1
    refine ⟨c2, ?_, hr2, hp2⟩
    have hlen : c1.rest.length ≠ c.rest.length := by
      rw [hr1, hc]
      have := refsAfter_length t
      cases t with
      | nil => simp [refsAfter, refTextP]
      | cons r2 t2 => simp only [refsAfter, refsTail, refTextP, sideText, List.length_cons, List.length_append]; omega
    rw [many]
    simp only [hel, hlen, decide_false, Bool.false_and, Bool.false_eq_true, ↓reduceIte, hm, List.map_cons]

/-! ### tables followed by references -/

def docTailR : List TSpec → List RText → Str
  | [], rs => refsTail rs
  | t :: ts, rs => '\n' :: '\n' :: tableTextP t.1 t.2 (docTailR ts rs)

def afterR : List TSpec → List RText → Str
  | [], rs => refsAfter rs
  | t :: ts, rs => '\n' :: tableTextP t.1 t.2 (docTailR ts rs)

def docTextR : List TSpec → List RText → Str
  | [], _ => []
  | t :: ts, rs => tableTextP t.1 t.2 (docTailR ts rs)

theorem docTailR_cases (ts : List TSpec) (rs : List RText) :
    (ts = [] ∧ rs = [] ∧ docTailR ts rs = []) ∨ docTailR ts rs = '\n' :: afterR ts rs := by
  cases ts with
  | nil =>
    cases rs with
    | nil => left; exact ⟨rfl, rfl, rfl⟩
    | cons r t => right; simp [docTailR, afterR, refsTail, refsAfter]
  | cons t r => right; simp [docTailR, afterR]

theorem element_table_afterR (ap : Bool) (c : Cur) (t : TSpec) (ts : List TSpec) (rs : List RText) (ht : TSpecOK t)
    (hc : c.rest = afterR (t :: ts) rs) (hp : c.pastEnd = false) :
    ∃ c9, element ap c = .ok (mkElem t) c9 ∧ c9.rest = afterR ts rs ∧ c9.pastEnd = (ts.isEmpty && rs.isEmpty) := by
  obtain ⟨c0, hb, hr0, hp0, hpv0⟩ := cBefore_nl c (tableTextP t.1 t.2 (docTailR ts rs)) (by rw [hc]; rfl) hp
    (fun d hd _ => quiet_tableTextP _ _ _ d hd)
  obtain ⟨c9, hrule, hQ⟩ := tableRule_okP ap c c0 t.1 t.2 (docTailR ts rs)
    (fun c9 => c9.rest = afterR ts rs ∧ c9.pastEnd = (ts.isEmpty && rs.isEmpty)) hb hr0 hp0
    (by intro p hpp; rw [hpv0] at hpp; cases hpp; decide) ht.1 ht.2.1 ht.2.2
    (by
      intro c7 hr7 hp7
      rcases docTailR_cases ts rs with ⟨h1, h2, h3⟩ | h
      · subst h1; subst h2
        obtain ⟨c9, e1, e2, e3⟩ := endRule_eof c7 (by rw [hr7, h3]) hp7
        exact ⟨c9, e1, by simpa [afterR, refsAfter] using e2, by simpa using e3⟩
      · obtain ⟨c9, e1, e2, e3⟩ := endRule_nl c7 (afterR ts rs) (by rw [hr7, h]) hp7
        refine ⟨c9, e1, e2, ?_⟩
        rw [e3]
        cases ts with
        | nil =>
          cases rs with
          | nil => simp [docTailR, refsTail] at h
          | cons r t => simp
        | cons t' r' => simp)
  refine ⟨c9, ?_, hQ.1, hQ.2⟩
  unfold element alt mkElem
  simp only [bind, pbind, hrule, pure, ppure]

theorem afterR_length (ts : List TSpec) (rs : List RText) : ts.length + rs.length ≤ (afterR ts rs).length := by
  induction ts with
  | nil => simpa [afterR] using refsAfter_length rs
  | cons t r ih =>
    have hd : (afterR r rs).length ≤ (docTailR r rs).length := by
      rcases docTailR_cases r rs with ⟨h1, h2, _⟩ | h
      · subst h1; subst h2; simp [afterR, refsAfter]
      · rw [h]; simp
    rw [show afterR (t :: r) rs = '\n' :: tableTextP t.1 t.2 (docTailR r rs) from rfl]
    simp only [tableTextP, List.length_cons, List.length_append]
    omega

theorem many_docR (ap : Bool) (rs : List RText) (hrs : ∀ r ∈ rs, RTextOK r) :
    ∀ (ts : List TSpec) (fuel : Nat) (c : Cur), ts.length + rs.length < fuel →
    (∀ t ∈ ts, TSpecOK t) → c.rest = afterR ts rs → c.pastEnd = (ts.isEmpty && rs.isEmpty) →
    ∃ c', many (element ap) fuel c = .ok (ts.map mkElem ++ rs.map mkRefElem) c' ∧ c'.rest = [] ∧ c'.pastEnd = true := by
  intro ts
  induction ts with
  | nil =>
    intro fuel c hf _ hc hp
    have := many_refs ap rs fuel c (by simpa using hf) hrs (by simpa [afterR] using hc) (by simpa using hp)
    simpa using this
  | cons t r ih =>
    intro fuel c hf hok hc hp
    obtain ⟨f, rfl⟩ : ∃ f, fuel = f + 1 := ⟨fuel - 1, by simp at hf; omega⟩
    have hp' : c.pastEnd = false := by simpa using hp
    obtain ⟨c1, hel, hr1, hp1⟩ := element_table_afterR ap c t r rs (hok t (by simp)) hc hp'
    obtain ⟨c2, hm, hr2, hp2⟩ := ih f c1 (by simp at hf; omega) (fun q hq => hok q (by simp [hq])) hr1 hp1
    refine ⟨c2, ?_, hr2, hp2⟩
    have hlen : c1.rest.length ≠ c.rest.length := by
      rw [hr1, hc]
      have hd : (afterR r rs).length ≤ (docTailR r rs).length := by
        rcases docTailR_cases r rs with ⟨h1, h2, _⟩ | h
        · subst h1; subst h2; simp [afterR, refsAfter]
        · rw [h]; simp
      rw [show afterR (t :: r) rs = '\n' :: tableTextP t.1 t.2 (docTailR r rs) from rfl]
      simp only [tableTextP, List.length_cons, List.length_append]
      omega
    rw [many]
    simp only [hel, hlen, decide_false, Bool.false_and, Bool.false_eq_true, ↓reduceIte, hm, List.map_cons, List.cons_append]

/-! ### parse of the whole document (tables, then references) -/

theorem sideText_no_tab (t c : Str) (post : Str) (ht : NameOK t) (hc : NameOK c) (hpost : ∀ x ∈ post, x ≠ '\t') :
    ∀ x ∈ sideText t c post, x ≠ '\t' := by
  intro x hx
  have e : sideText t c post = ['"'] ++ t ++ ['"', '.', '"'] ++ c ++ ['"'] ++ post := by simp [sideText]
  rw [e] at hx
  simp only [List.mem_append] at hx
  rcases hx with ((((h | h) | h) | h) | h) | h
  · exact (by decide : ∀ c ∈ ['"'], c ≠ '\t') x h
  · exact (ht x h).2.2.2
  · exact (by decide : ∀ c ∈ ['"', '.', '"'], c ≠ '\t') x h
  · exact (hc x h).2.2.2
  · exact (by decide : ∀ c ∈ ['"'], c ≠ '\t') x h
  · exact hpost x h

theorem kind_sym_no_tab (k : RefKind) : ∀ x ∈ k.sym, x ≠ '\t' := by
  cases k <;> simp [RefKind.sym]

theorem refTextP_no_tab (r : RText) (post : Str) (hok : RTextOK r) (hpost : ∀ x ∈ post, x ≠ '\t') :
    ∀ x ∈ refTextP r post, x ≠ '\t' := by
  intro x hx
  have e : refTextP r post = ['R', 'e', 'f', ' ', '{', '\n', ' ', ' ', ' ', ' '] ++
      sideText r.t1 r.c1 (' ' :: (r.kind.sym ++ ' ' :: sideText r.t2 r.c2 ('\n' :: '}' :: post))) := by simp [refTextP]
  rw [e] at hx
  rcases List.mem_append.mp hx with h | h
  · exact (by decide : ∀ c ∈ ['R', 'e', 'f', ' ', '{', '\n', ' ', ' ', ' ', ' '], c ≠ '\t') x h
  · refine sideText_no_tab _ _ _ hok.1 hok.2.1 ?_ x h
    intro y hy
    rcases List.mem_cons.mp hy with rfl | hy
    · decide
    · rcases List.mem_append.mp hy with hy | hy
      · exact kind_sym_no_tab _ y hy
      · rcases List.mem_cons.mp hy with rfl | hy
        · decide
        · refine sideText_no_tab _ _ _ hok.2.2.1 hok.2.2.2 ?_ y hy
          intro z hz
          rcases List.mem_cons.mp hz with rfl | hz
          · decide
          · rcases List.mem_cons.mp hz with rfl | hz
            · decide
            · exact hpost z hz

theorem refsTail_no_tab : ∀ (rs : List RText), (∀ r ∈ rs, RTextOK r) → ∀ x ∈ refsTail rs, x ≠ '\t' := by
  intro rs
  induction rs with
  | nil => intro _ x hx; simp [refsTail] at hx
  | cons r t ih =>
    intro hok x hx
    simp only [refsTail, List.mem_cons] at hx
    rcases hx with rfl | rfl | hx
    · decide
    · decide
    · exact refTextP_no_tab r _ (hok r (by simp)) (ih (fun q hq => hok q (by simp [hq]))) x hx

theorem docTailR_no_tab (rs : List RText) (hrs : ∀ r ∈ rs, RTextOK r) :
    ∀ (ts : List TSpec), (∀ t ∈ ts, TSpecOK t) → ∀ x ∈ docTailR ts rs, x ≠ '\t' := by
  intro ts
  induction ts with
  | nil => intro _ x hx; exact refsTail_no_tab rs hrs x (by simpa [docTailR] using hx)
  | cons t r ih =>
    intro hok x hx
    have e : docTailR (t :: r) rs = ['\n', '\n'] ++ tableText t.1 t.2 ++ docTailR r rs := by
      simp [docTailR, tableTextP, tableText]
    rw [e] at hx
    simp only [List.mem_append] at hx
    rcases hx with (h | h) | h
    · exact (by decide : ∀ c ∈ ['\n', '\n'], c ≠ '\t') x h
    · exact tableText_no_tab t.1 t.2 (hok t (by simp)).1 (hok t (by simp)).2.1 x h
    · exact ih (fun q hq => hok q (by simp [hq])) x h

theorem parseDoc_tables_refs (ap : Bool) (ts : List TSpec) (rs : List RText) (hok : ∀ t ∈ ts, TSpecOK t)
    (hrs : ∀ r ∈ rs, RTextOK r) (hne : ts ≠ []) :
    ∃ c', parseDoc ap (docTextR ts rs) = .ok (ts.map mkElem ++ rs.map mkRefElem) c' := by
  obtain ⟨t, r, rfl⟩ : ∃ t r, ts = t :: r := by
    cases ts with
    | nil => exact absurd rfl hne
    | cons a as => exact ⟨a, as, rfl⟩
  have ht := hok t (by simp)
  have hnotab : ∀ x ∈ docTextR (t :: r) rs, x ≠ '\t' := by
    intro x hx
    have e : docTextR (t :: r) rs = tableText t.1 t.2 ++ docTailR r rs := by simp [docTextR, tableTextP, tableText]
    rw [e] at hx
    rcases List.mem_append.mp hx with h | h
    · exact tableText_no_tab t.1 t.2 ht.1 ht.2.1 x h
    · exact docTailR_no_tab rs hrs r (fun q hq => hok q (by simp [hq])) x h
  unfold parseDoc expandTabs
  rw [expandTabsAux_plain 0 _ hnotab]
  let c0 : Cur := { rest := docTextR (t :: r) rs }
  obtain ⟨q1, q2⟩ := quiet_tableTextP t.1 t.2 (docTailR r rs) c0 rfl
  have hb : cBefore c0 = .ok [] c0 := cBefore_stay c0 q1 q2
  obtain ⟨c1, hrule, hr1, hp1⟩ := tableRule_okP ap c0 c0 t.1 t.2 (docTailR r rs)
    (fun c9 => c9.rest = afterR r rs ∧ c9.pastEnd = (r.isEmpty && rs.isEmpty)) hb rfl rfl
    (by intro p hpp; cases hpp) ht.1 ht.2.1 ht.2.2
    (by
      intro c7 hr7 hp7
      rcases docTailR_cases r rs with ⟨h1, h2, h3⟩ | h
      · subst h1; subst h2
        obtain ⟨c9, e1, e2, e3⟩ := endRule_eof c7 (by rw [hr7, h3]) hp7
        exact ⟨c9, e1, by simpa [afterR, refsAfter] using e2, by simpa using e3⟩
      · obtain ⟨c9, e1, e2, e3⟩ := endRule_nl c7 (afterR r rs) (by rw [hr7, h]) hp7
        refine ⟨c9, e1, e2, ?_⟩
        rw [e3]
        cases r with
        | nil =>
          cases rs with
          | nil => simp [docTailR, refsTail] at h
          | cons r2 t2 => simp
        | cons t' r' => simp)
  have hel : element ap c0 = .ok (mkElem t) c1 := by
    unfold element alt mkElem
    simp only [bind, pbind, hrule, pure, ppure]
  have hd : (afterR r rs).length ≤ (docTailR r rs).length := by
    rcases docTailR_cases r rs with ⟨h1, h2, _⟩ | h
    · subst h1; subst h2; simp [afterR, refsAfter]
    · rw [h]; simp
  have hlen0 : (afterR r rs).length < (docTextR (t :: r) rs).length := by
    rw [show docTextR (t :: r) rs = tableTextP t.1 t.2 (docTailR r rs) from rfl]
    simp only [tableTextP, List.length_cons, List.length_append]
    omega
  have hfuel : r.length + rs.length < c0.rest.length + 1 := by
    have := afterR_length r rs
    show r.length + rs.length < (docTextR (t :: r) rs).length + 1
    omega
  obtain ⟨c2, hm, hr2, hp2⟩ := many_docR ap rs hrs r (c0.rest.length + 1) c1 hfuel (fun q hq => hok q (by simp [hq])) hr1 hp1
  have hmany : manyF (element ap) c0 = .ok ((t :: r).map mkElem ++ rs.map mkRefElem) c2 := by
    unfold manyF fuelOf
    have hlen : c1.rest.length ≠ c0.rest.length := by
      rw [hr1]
      show (afterR r rs).length ≠ (docTextR (t :: r) rs).length
      omega
    rw [many]
    simp only [hel, hlen, decide_false, Bool.false_and, Bool.false_eq_true, ↓reduceIte, hm, List.map_cons, List.cons_append]
  obtain ⟨c9, hse⟩ := stringEnd_eof c2 (skipWs_rest_nil c2 hr2)
  refine ⟨c9, ?_⟩
  show document ap c0 = _
  unfold document
  simp only [bind, pbind, hmany, skipNl_pastEnd c2 hp2, hse, pure, ppure]

/-! ### the build: names are resolved back to the positions they were written from -/

/-- a reference between columns given by POSITION: (table, column) of each side -/
structure RSpec where
  kind : RefKind
  t1 : Nat
  c1 : Nat
  t2 : Nat
  c2 : Nat
  deriving DecidableEq

def tname (ts : List TSpec) (i : Nat) : Str := ((ts[i]?).map (·.1)).getD []
def cname (ts : List TSpec) (i j : Nat) : Str := (((ts[i]?).bind fun t => t.2[j]?).map (·.1)).getD []

/-- the names a positional reference is written with -/
def rtext (ts : List TSpec) (r : RSpec) : RText :=
  { kind := r.kind, t1 := tname ts r.t1, c1 := cname ts r.t1 r.c1, t2 := tname ts r.t2, c2 := cname ts r.t2 r.c2 }

def mkRef (r : RSpec) : Ref := { kind := r.kind, t1 := r.t1, col1 := [r.c1], t2 := r.t2, col2 := [r.c2] }

/-- what makes names resolvable: exactly the recorded findings are excluded -/
structure Resolvable (ts : List TSpec) : Prop where
  /-- table names are pairwise different -/
  tnames : ts.Pairwise (fun a b => a.1 ≠ b.1)
  /-- no dot in a table name (KF-C01-dotted-quoted-name / alias shadowing of `schema.name` keys) -/
  nodot : ∀ t ∈ ts, '.' ∉ t.1
  /-- column names of one table are pairwise different (DuplicateColumnName) -/
  cnames : ∀ t ∈ ts, t.2.Pairwise (fun a b => a.1 ≠ b.1)
  /-- a column name is one piece and survives `strip('() ')` (KF-C01-ref-column-split) -/
  cplain : ∀ t ∈ ts, ∀ c ∈ t.2, splitComma c.1 = [c.1] ∧ stripParenSpace c.1 = c.1

def RSpecIn (ts : List TSpec) (r : RSpec) : Prop :=
  ∃ ta tb, ts[r.t1]? = some ta ∧ ts[r.t2]? = some tb ∧ r.c1 < ta.2.length ∧ r.c2 < tb.2.length

theorem find_unique (n : Nat) (p : Nat → Bool) (i : Nat) (hi : i < n) (hp : p i = true)
    (hu : ∀ j, j < n → p j = true → j = i) : (List.range n).reverse.find? p = some i := by
  cases hf : (List.range n).reverse.find? p with
  | none =>
    rw [List.find?_eq_none] at hf
    have := hf i (by simp [hi])
    simp [hp] at this
  | some x =>
    have hx := List.find?_some hf
    have hm := List.mem_of_find?_eq_some hf
    simp at hm
    rw [hu x hm hx]

theorem fullName_public_ne (a b : Str) (hb : '.' ∉ b) : fullName (lit "public") a ≠ b := by
  intro h
  apply hb
  rw [← h]
  simp [fullName, lit]

theorem findKey_plain (ts : List TSpec) (hr : Resolvable ts) (i : Nat) (t : TSpec) (hi : ts[i]? = some t) :
    findKey (ts.map mkTable) t.1 = none ∧ findKey (ts.map mkTable) (fullName (lit "public") t.1) = some i := by
  have hlen : i < ts.length := by
    rcases Nat.lt_or_ge i ts.length with h | h
    · exact h
    · rw [List.getElem?_eq_none h] at hi; cases hi
  have htm : t ∈ ts := List.mem_of_getElem? hi
  constructor
  · unfold findKey
    rw [List.find?_eq_none]
    intro j hj
    simp only [List.mem_reverse, List.mem_range, List.length_map] at hj
    simp only [List.getElem?_map, List.getElem?_eq_getElem hj, Option.map_some, mkTable, plainTableM, Table.fullName]
    simp only [Bool.or_eq_true, beq_iff_eq, not_or]
    exact ⟨fullName_public_ne _ _ (hr.nodot t htm), by simp⟩
  · unfold findKey
    rw [List.length_map]
    apply find_unique ts.length _ i hlen
    · simp [List.getElem?_map, hi, mkTable, plainTableM, Table.fullName]
    · intro j hj hpj
      simp only [List.getElem?_map, List.getElem?_eq_getElem hj, Option.map_some, mkTable, plainTableM, Table.fullName,
        Bool.or_eq_true, beq_iff_eq] at hpj
      rcases hpj with h | h
      · have hname : ts[j].1 = t.1 := fullName_inj _ _ h
        have hti : ts[i]'hlen = t := by
          have := List.getElem?_eq_getElem hlen
          rw [this] at hi; exact Option.some.inj hi
        rcases Nat.lt_trichotomy j i with hlt | heq | hgt
        · have := (List.pairwise_iff_getElem.mp hr.tnames) j i hj hlen hlt
          exact absurd (by rw [hname, hti]) this
        · exact heq
        · have := (List.pairwise_iff_getElem.mp hr.tnames) i j hlen hj hgt
          exact absurd (by rw [hname, hti]) this
      · cases h

theorem locateTable_plain (ts : List TSpec) (hr : Resolvable ts) (i : Nat) (t : TSpec) (hi : ts[i]? = some t) :
    locateTable (ts.map mkTable) (lit "public") t.1 = .ok i := by
  obtain ⟨h1, h2⟩ := findKey_plain ts hr i t hi
  unfold locateTable
  simp [h1, h2, pure, Except.pure]

theorem findIdx_unique {α} (l : List α) (p : α → Bool) (j : Nat) (hj : j < l.length) (hp : p l[j] = true)
    (hu : ∀ k (hk : k < l.length), p l[k] = true → k = j) : l.findIdx? p = some j := by
  rw [List.findIdx?_eq_some_iff_getElem]
  refine ⟨hj, hp, ?_⟩
  intro k hk
  have hk' : k < l.length := Nat.lt_trans hk hj
  cases hpk : p l[k] with
  | false => simp
  | true => exact absurd (hu k hk' hpk) (Nat.ne_of_lt hk)

theorem colsAt_plain (ts : List TSpec) (hr : Resolvable ts) (i j : Nat) (t : TSpec) (c : Str × Str)
    (hi : ts[i]? = some t) (hj : t.2[j]? = some c) : colsAt (ts.map mkTable) i c.1 = .ok [j] := by
  have htm : t ∈ ts := List.mem_of_getElem? hi
  have hcm : c ∈ t.2 := List.mem_of_getElem? hj
  obtain ⟨hsplit, hstrip⟩ := hr.cplain t htm c hcm
  have hjl : j < t.2.length := by
    rcases Nat.lt_or_ge j t.2.length with h | h
    · exact h
    · rw [List.getElem?_eq_none h] at hj; cases hj
  have hcj : t.2[j]'hjl = c := by
    have := List.getElem?_eq_getElem hjl
    rw [this] at hj; exact Option.some.inj hj
  unfold colsAt
  simp only [List.getElem?_map, hi, Option.map_some]
  unfold locateCols
  rw [hsplit]
  simp only [List.mapM_cons, List.mapM_nil, hstrip]
  have hfind : (mkTable t).columns.findIdx? (fun x => x.name == c.1) = some j := by
    simp only [mkTable, plainTableM]
    apply findIdx_unique _ _ j (by simpa using hjl)
    · simp [plainColumn, hcj]
    · intro k hk hpk
      have hk' : k < t.2.length := by simpa using hk
      simp only [List.getElem_map, plainColumn, beq_iff_eq] at hpk
      rcases Nat.lt_trichotomy k j with hlt | heq | hgt
      · have := (List.pairwise_iff_getElem.mp (hr.cnames t htm)) k j hk' hjl hlt
        exact absurd (by rw [hpk, hcj]) this
      · exact heq
      · have := (List.pairwise_iff_getElem.mp (hr.cnames t htm)) j k hjl hk' hgt
        exact absurd (by rw [hpk, hcj]) this
  rw [hfind]
  rfl

/-- **names resolve to the positions they were written from** -/
theorem buildRef_plain (ts : List TSpec) (hr : Resolvable ts) (r : RSpec) (hin : RSpecIn ts r) (db : Db)
    (hdb : db.tables = ts.map mkTable) : buildRef db (refBp (rtext ts r)) = .ok (mkRef r) := by
  obtain ⟨ta, tb, h1, h2, hc1, hc2⟩ := hin
  have hca : ta.2[r.c1]? = some ta.2[r.c1] := List.getElem?_eq_getElem hc1
  have hcb : tb.2[r.c2]? = some tb.2[r.c2] := List.getElem?_eq_getElem hc2
  have e1 : tname ts r.t1 = ta.1 := by simp [tname, h1]
  have e2 : tname ts r.t2 = tb.1 := by simp [tname, h2]
  have e3 : cname ts r.t1 r.c1 = (ta.2[r.c1]).1 := by simp [cname, h1, hca]
  have e4 : cname ts r.t2 r.c2 = (tb.2[r.c2]).1 := by simp [cname, h2, hcb]
  unfold buildRef
  simp only [refBp, rtext, hdb, e1, e2, e3, e4, locateTable_plain ts hr r.t1 ta h1, locateTable_plain ts hr r.t2 tb h2,
    colsAt_plain ts hr r.t1 r.c1 ta _ h1 hca, colsAt_plain ts hr r.t2 r.c2 tb _ h2 hcb, bind, Except.bind, pure, Except.pure]
  rfl

/-! ### duplicates: two written references are equal only when they are the same -/

theorem colEq_plain (ts : List TSpec) (hr : Resolvable ts) (db : Db) (hdb : db.tables = ts.map mkTable)
    (ti ci tj cj : Nat) (ta tb : TSpec) (hi : ts[ti]? = some ta) (hj : ts[tj]? = some tb)
    (hci : ci < ta.2.length) (hcj : cj < tb.2.length) (h : Dbml.colEq db ti ci tj cj = true) : ti = tj ∧ ci = cj := by
  unfold Dbml.colEq at h
  simp only [Bool.or_eq_true, Bool.and_eq_true, beq_iff_eq] at h
  rcases h with h | h
  · exact h
  · rw [hdb] at h
    simp only [List.getElem?_map, hi, hj, Option.map_some, Bool.and_eq_true, beq_iff_eq] at h
    obtain ⟨hfn, hcols⟩ := h
    have hil : ti < ts.length := by
      rcases Nat.lt_or_ge ti ts.length with h' | h'
      · exact h'
      · rw [List.getElem?_eq_none h'] at hi; cases hi
    have hjl : tj < ts.length := by
      rcases Nat.lt_or_ge tj ts.length with h' | h'
      · exact h'
      · rw [List.getElem?_eq_none h'] at hj; cases hj
    have hta : ts[ti]'hil = ta := by have := List.getElem?_eq_getElem hil; rw [this] at hi; exact Option.some.inj hi
    have htb : ts[tj]'hjl = tb := by have := List.getElem?_eq_getElem hjl; rw [this] at hj; exact Option.some.inj hj
    have hname : ta.1 = tb.1 := by
      simp only [mkTable, plainTableM, Table.fullName] at hfn
      exact fullName_inj _ _ hfn
    have htt : ti = tj := by
      rcases Nat.lt_trichotomy ti tj with hlt | heq | hgt
      · exact absurd (by rw [hta, htb]; exact hname) ((List.pairwise_iff_getElem.mp hr.tnames) ti tj hil hjl hlt)
      · exact heq
      · exact absurd (by rw [hta, htb]; exact hname.symm) ((List.pairwise_iff_getElem.mp hr.tnames) tj ti hjl hil hgt)
    subst htt
    have hab : ta = tb := by rw [hi] at hj; exact Option.some.inj hj
    subst hab
    refine ⟨rfl, ?_⟩
    simp only [mkTable, plainTableM, List.getElem?_map, List.getElem?_eq_getElem hci, List.getElem?_eq_getElem hcj,
      Option.map_some, beq_iff_eq] at hcols
    have hcn : (ta.2[ci]).1 = (ta.2[cj]).1 := by
      have := congrArg Column.name hcols
      simpa [plainColumn] using this
    have htm : ta ∈ ts := List.mem_of_getElem? hi
    rcases Nat.lt_trichotomy ci cj with hlt | heq | hgt
    · exact absurd hcn ((List.pairwise_iff_getElem.mp (hr.cnames ta htm)) ci cj hci hcj hlt)
    · exact heq
    · exact absurd hcn.symm ((List.pairwise_iff_getElem.mp (hr.cnames ta htm)) cj ci hcj hci hgt)

theorem refEq_plain (ts : List TSpec) (hr : Resolvable ts) (db : Db) (hdb : db.tables = ts.map mkTable)
    (r m : RSpec) (hr1 : RSpecIn ts r) (hm1 : RSpecIn ts m) (h : refEq db (mkRef r) (mkRef m) = true) : r = m := by
  obtain ⟨ra, rb, h1, h2, h3, h4⟩ := hr1
  obtain ⟨ma, mb, g1, g2, g3, g4⟩ := hm1
  unfold refEq at h
  simp only [mkRef, Bool.and_eq_true, beq_iff_eq, List.zip_cons_cons, List.zip_nil_right, List.all_cons, List.all_nil,
    Bool.and_true] at h
  obtain ⟨⟨⟨⟨⟨⟨⟨hk, _⟩, _⟩, _⟩, _⟩, _⟩, hc1⟩, hc2⟩ := h
  obtain ⟨e1, e2⟩ := colEq_plain ts hr db hdb _ _ _ _ ra ma h1 g1 h3 g3 hc1
  obtain ⟨e3, e4⟩ := colEq_plain ts hr db hdb _ _ _ _ rb mb h2 g2 h4 g4 hc2
  cases r; cases m
  simp_all

theorem foldlM_refs (ts : List TSpec) (hr : Resolvable ts) (db1 : Db) (hdb : db1.tables = ts.map mkTable) :
    ∀ (todo done : List RSpec), (∀ r ∈ done ++ todo, RSpecIn ts r) → (done ++ todo).Nodup →
    (todo.map fun r => refBp (rtext ts r)).foldlM (refStep db1) (done.map mkRef) = .ok ((done ++ todo).map mkRef) := by
  intro todo
  induction todo with
  | nil => intro done _ _; simp [pure, Except.pure]
  | cons r t ih =>
    intro done hin hnd
    rw [List.map_cons, List.foldlM_cons]
    have hrin : RSpecIn ts r := hin r (by simp)
    have hstep : refStep db1 (done.map mkRef) (refBp (rtext ts r)) = .ok ((done ++ [r]).map mkRef) := by
      unfold refStep
      rw [buildRef_plain ts hr r hrin db1 hdb]
      simp only [bind, Except.bind]
      have hno : (done.map mkRef).any (fun m => refEq { db1 with refs := done.map mkRef } (mkRef r) m) = false := by
        rw [List.any_eq_false]
        intro m hm
        obtain ⟨d, hd, rfl⟩ := List.mem_map.mp hm
        intro heq
        have := refEq_plain ts hr { db1 with refs := done.map mkRef } hdb r d hrin (hin d (by simp [hd])) heq
        subst this
        have := List.nodup_append.mp hnd
        exact this.2.2 r hd r (by simp) rfl
      simp [hno, pure, Except.pure]
    rw [hstep]
    simp only [bind, Except.bind]
    have := ih (done ++ [r]) (by simpa using hin) (by simpa using hnd)
    simpa using this

/-! ### the database that is built -/

def mkDb (ap : Bool) (ts : List TSpec) (rs : List RSpec) : Db :=
  { tables := ts.map mkTable, refs := rs.map mkRef, allowProps := ap }

theorem build_tables_refs (ap : Bool) (ts : List TSpec) (rs : List RSpec) (hr : Resolvable ts)
    (hin : ∀ r ∈ rs, RSpecIn ts r) (hnd : rs.Nodup) :
    buildDatabase ap (ts.map mkElem ++ (rs.map (rtext ts)).map mkRefElem) = .ok (mkDb ap ts rs) := by
  have hT : tableBps (ts.map mkElem ++ (rs.map (rtext ts)).map mkRefElem) = ts.map fun t => plainTable t.1 t.2 := by
    simp [tableBps, mkElem, mkRefElem, List.filterMap_append, List.filterMap_map, Function.comp_def]
  have hE : enumBps (ts.map mkElem ++ (rs.map (rtext ts)).map mkRefElem) = [] := by
    simp [enumBps, mkElem, mkRefElem, List.filterMap_append, List.filterMap_map, Function.comp_def]
  have hG : groupBps (ts.map mkElem ++ (rs.map (rtext ts)).map mkRefElem) = [] := by
    simp [groupBps, mkElem, mkRefElem, List.filterMap_append, List.filterMap_map, Function.comp_def]
  have hS : stickyBps (ts.map mkElem ++ (rs.map (rtext ts)).map mkRefElem) = [] := by
    simp [stickyBps, mkElem, mkRefElem, List.filterMap_append, List.filterMap_map, Function.comp_def]
  have hP : projectBp (ts.map mkElem ++ (rs.map (rtext ts)).map mkRefElem) = none := by
    simp [projectBp, mkElem, mkRefElem, List.filterMap_append, List.filterMap_map, Function.comp_def]
  have hR : refBlueprints (ts.map mkElem ++ (rs.map (rtext ts)).map mkRefElem) = rs.map fun r => refBp (rtext ts r) := by
    have h1 : refBlueprints (ts.map mkElem) = [] := by
      simp only [refBlueprints, mkElem, List.flatMap_map, List.flatMap_eq_nil_iff]
      intro t _
      simp only [plainTable, List.flatMap_map, List.flatMap_eq_nil_iff]
      intro p hp
      obtain ⟨q, _, rfl⟩ := List.mem_map.mp hp
      rfl
    have h2 : ∀ l : List RText, refBlueprints (l.map mkRefElem) = l.map refBp := by
      intro l
      induction l with
      | nil => rfl
      | cons x xs ih =>
        simp only [refBlueprints, List.map_cons, List.flatMap_cons, mkRefElem] at ih ⊢
        rw [ih]
        rfl
    have h3 : ∀ a b : List Bp.Elem, refBlueprints (a ++ b) = refBlueprints a ++ refBlueprints b := by
      intro a b; simp [refBlueprints, List.flatMap_append]
    rw [h3, h1, h2]
    simp [List.map_map, Function.comp_def]
  have hF := foldlM_tables ts [] (by simpa using hr.tnames)
  simp only [List.map_nil, List.nil_append] at hF
  have hRf := foldlM_refs ts hr { tables := ts.map mkTable, enums := [], allowProps := ap, groups := [], sticky := [], project := none }
    rfl rs [] (by simpa using hin) (by simpa using hnd)
  simp only [List.map_nil, List.nil_append] at hRf
  unfold buildDatabase
  simp only [hT, hE, hG, hS, hP, hR, List.foldlM_nil, pure, Except.pure, bind, Except.bind, hF, buildProject, List.map_nil]
  rw [hRf]
  rfl

/-! ### the rendering of tables and references -/

theorem renderColumn_plain' (ap : Bool) (tbls : List Table) (refs : List Ref) (hni : ∀ r ∈ refs, r.inline = false)
    (ti ci : Nat) (p : Str × Str) :
    Dbml.renderColumn { tables := tbls, refs := refs, allowProps := ap } ti ci (plainColumn p) = .ok (colStr p) := by
  have hf : Dbml.inlineRefsOfColumn { tables := tbls, refs := refs, allowProps := ap } ti ci = [] := by
    unfold Dbml.inlineRefsOfColumn
    rw [List.filter_eq_nil_iff]
    intro r hr
    simp [hni r hr]
  simp [Dbml.renderColumn, Sql.typeText, hf, plainColumn, colStr, Dbml.optComment, bind, Except.bind, pure, Except.pure, lit]

theorem renderTableBody_plain' (ap : Bool) (tbls : List Table) (refs : List Ref) (hni : ∀ r ∈ refs, r.inline = false)
    (ti : Nat) (tn : Str) (cs : List (Str × Str)) (hcs : ColsOK cs) (hne : cs ≠ []) :
    Dbml.renderTableBody { tables := tbls, refs := refs, allowProps := ap } ti (plainTableM tn cs) = .ok (tableText tn cs) := by
  have hcols : (List.range (plainTableM tn cs).columns.length).mapM (fun ci => do
      let c ← getD? (plainTableM tn cs).columns ci "column position"
      Dbml.renderColumn { tables := tbls, refs := refs, allowProps := ap } ti ci c) = .ok (cs.map colStr) := by
    have : ∀ ci, (do
        let c ← getD? (plainTableM tn cs).columns ci "column position"
        Dbml.renderColumn { tables := tbls, refs := refs, allowProps := ap } ti ci c)
        = (do let c ← getD? (plainTableM tn cs).columns ci "column position"; (fun c => Except.ok (colStr (c.name, match c.type with | .plain s => s | _ => []))) c) := by
      intro ci
      cases hg : getD? (plainTableM tn cs).columns ci "column position" with
      | error e => rfl
      | ok c =>
        simp only [bind, Except.bind]
        have hm : c ∈ (plainTableM tn cs).columns := by
          unfold getD? at hg
          split at hg
          · rename_i a hx; cases hg; exact List.mem_of_getElem? hx
          · cases hg
        simp only [plainTableM, List.mem_map] at hm
        obtain ⟨p, _, rfl⟩ := hm
        rw [renderColumn_plain' ap tbls refs hni]
        rfl
    simp only [this]
    rw [range_mapM_getD]
    simp only [plainTableM, List.mapM_map]
    exact mapM_ok_map _ _ (fun p => rfl) cs
  have hbody : Dbml.indent4 (joinNL (cs.map colStr)) ++ ['\n'] = colsText cs := by
    rw [colsText_flatMap]
    apply indent4_lines
    · simpa using hne
    · intro l hl
      obtain ⟨p, hp, rfl⟩ := List.mem_map.mp hl
      exact colStr_ok p (hcs p hp).1 (hcs p hp).2
    · intro l hl
      obtain ⟨p, hp, rfl⟩ := List.mem_map.mp hl
      exact ⟨'"', _, rfl, by decide⟩
  unfold Dbml.renderTableBody
  rw [hcols]
  simp [plainTableM, truthy, Dbml.optComment, qualName, bind, Except.bind, pure, Except.pure, tableText, lit] at hbody ⊢
  rw [← hbody]
  simp

/-- the text of one reference, without anything after it -/
def refText (r : RText) : Str := refTextP r []

theorem refTextP_append (r : RText) (post : Str) : refTextP r post = refText r ++ post := by
  simp [refTextP, refText, sideText]

theorem renderRef_plain (ap : Bool) (ts : List TSpec) (rs : List RSpec) (r : RSpec) (hin : RSpecIn ts r) :
    Dbml.renderRef (mkDb ap ts rs) (mkRef r) = .ok (refText (rtext ts r)) := by
  obtain ⟨ta, tb, h1, h2, hc1, hc2⟩ := hin
  have hca : ta.2[r.c1]? = some ta.2[r.c1] := List.getElem?_eq_getElem hc1
  have hcb : tb.2[r.c2]? = some tb.2[r.c2] := List.getElem?_eq_getElem hc2
  have g1 : getD? (mkDb ap ts rs).tables r.t1 "ref table position" = .ok (mkTable ta) := by
    simp [getD?, mkDb, List.getElem?_map, h1]
  have g2 : getD? (mkDb ap ts rs).tables r.t2 "ref table position" = .ok (mkTable tb) := by
    simp [getD?, mkDb, List.getElem?_map, h2]
  have k1 : Dbml.renderCols (mkTable ta) [r.c1] = .ok ('"' :: ((ta.2[r.c1]).1 ++ ['"'])) := by
    simp [Dbml.renderCols, getD?, mkTable, plainTableM, List.getElem?_map, hca, plainColumn, bind, Except.bind, pure, Except.pure]
  have k2 : Dbml.renderCols (mkTable tb) [r.c2] = .ok ('"' :: ((tb.2[r.c2]).1 ++ ['"'])) := by
    simp [Dbml.renderCols, getD?, mkTable, plainTableM, List.getElem?_map, hcb, plainColumn, bind, Except.bind, pure, Except.pure]
  unfold Dbml.renderRef
  have hinl : (mkRef r).inline = false := by simp [mkRef, Ref.inline]
  simp only [hinl, Bool.false_eq_true, ↓reduceIte]
  show (getD? (mkDb ap ts rs).tables r.t1 "ref table position" >>= fun t1 => _) = _
  rw [g1]
  show (getD? (mkDb ap ts rs).tables r.t2 "ref table position" >>= fun t2 => _) = _
  rw [g2]
  simp only [mkRef] at k1 k2 ⊢
  simp only [bind, Except.bind, k1, k2, pure, Except.pure]
  simp [refText, refTextP, sideText, rtext, tname, cname, h1, h2, hca, hcb, truthy, Dbml.optComment, qualName, mkTable, plainTableM, lit]

theorem joinWith_append_docs (a b : List Str) (ha : a ≠ []) (hb : b ≠ []) :
    joinWith (lit "\n\n") (a ++ b) = joinWith (lit "\n\n") a ++ lit "\n\n" ++ joinWith (lit "\n\n") b := by
  induction a with
  | nil => exact absurd rfl ha
  | cons x xs ih =>
    cases xs with
    | nil =>
      cases b with
      | nil => exact absurd rfl hb
      | cons y ys => simp [joinWith]
    | cons x2 xs2 =>
      have := ih (by simp)
      simp only [List.cons_append, joinWith] at this ⊢
      rw [this]
      simp

theorem joinWith_refs : ∀ (rs : List RText), rs ≠ [] →
    lit "\n\n" ++ joinWith (lit "\n\n") (rs.map refText) = refsTail rs := by
  intro rs
  induction rs with
  | nil => intro h; exact absurd rfl h
  | cons r t ih =>
    intro _
    cases t with
    | nil => simp [joinWith, refsTail, refTextP_append, lit]
    | cons r2 t2 =>
      have := ih (by simp)
      simp only [List.map_cons, joinWith, refsTail, refTextP_append] at this ⊢
      rw [← this]
      simp [lit]

theorem docTailR_eq (rs : List RText) : ∀ (ts : List TSpec), docTailR ts rs = docTail ts ++ refsTail rs := by
  intro ts
  induction ts with
  | nil => simp [docTailR, docTail]
  | cons t r ih => simp [docTailR, docTail, ih, tableTextP_append]

theorem docTail_eq_join : ∀ (ts : List TSpec), ts ≠ [] → joinWith (lit "\n\n") (ts.map fun t => tableText t.1 t.2) = docText ts :=
  fun ts _ => joinWith_tables ts

theorem docTextR_eq (ts : List TSpec) (rs : List RText) (hts : ts ≠ []) (hrs : rs ≠ []) :
    joinWith (lit "\n\n") ((ts.map fun t => tableText t.1 t.2) ++ rs.map refText) = docTextR ts rs := by
  rw [joinWith_append_docs _ _ (by simpa using hts) (by simpa using hrs), joinWith_tables, List.append_assoc, joinWith_refs rs hrs]
  cases ts with
  | nil => exact absurd rfl hts
  | cons t r => simp [docText, docTextR, docTailR_eq, tableTextP_append]

theorem renderDb_tables_refs (ap : Bool) (ts : List TSpec) (rs : List RSpec) (hok : ∀ t ∈ ts, TSpecOK t)
    (hin : ∀ r ∈ rs, RSpecIn ts r) (hts : ts ≠ []) (hrs : rs ≠ []) :
    Dbml.renderDb (mkDb ap ts rs) = .ok (docTextR ts (rs.map (rtext ts))) := by
  have hni : ∀ r ∈ (mkDb ap ts rs).refs, r.inline = false := by
    intro r hr
    simp only [mkDb, List.mem_map] at hr
    obtain ⟨q, _, rfl⟩ := hr
    simp [mkRef, Ref.inline]
  have htabs : (List.range (mkDb ap ts rs).tables.length).mapM (Dbml.renderTable (mkDb ap ts rs))
      = .ok (ts.map fun t => tableText t.1 t.2) := by
    have := range_mapM_getD_idx (mkDb ap ts rs).tables "table position"
      (fun i t => Dbml.renderTableBody (mkDb ap ts rs) i t)
      (fun t => Except.ok (tableText t.name (t.columns.map fun c => (c.name, match c.type with | .plain s => s | _ => []))))
      (by
        intro i x hx
        simp only [mkDb, List.mem_map] at hx
        obtain ⟨t, ht, rfl⟩ := hx
        have := renderTableBody_plain' ap (ts.map mkTable) (rs.map mkRef) (by simpa [mkDb] using hni) i t.1 t.2 (hok t ht).2.1 (hok t ht).2.2
        simp only [mkDb, mkTable] at this ⊢
        rw [this]
        simp [plainTableM, plainColumn, List.map_map, Function.comp_def])
    unfold Dbml.renderTable
    rw [this]
    simp only [mkDb, List.mapM_map]
    refine mapM_ok_map _ _ ?_ ts
    intro t
    simp [mkTable, plainTableM, plainColumn, List.map_map, Function.comp_def]
  have hrefs : ((mkDb ap ts rs).refs.filter (!·.inline)).mapM (Dbml.renderRef (mkDb ap ts rs))
      = .ok ((rs.map (rtext ts)).map refText) := by
    have hfil : (mkDb ap ts rs).refs.filter (!·.inline) = (mkDb ap ts rs).refs := by
      rw [List.filter_eq_self]
      intro r hr
      simp [hni r hr]
    rw [hfil]
    simp only [mkDb, List.mapM_map, List.map_map]
    have : ∀ l : List RSpec, (∀ r ∈ l, RSpecIn ts r) →
        l.mapM (Dbml.renderRef { tables := ts.map mkTable, refs := rs.map mkRef, allowProps := ap } ∘ mkRef)
          = .ok (l.map (refText ∘ rtext ts)) := by
      intro l
      induction l with
      | nil => intro _; rfl
      | cons x xs ih =>
        intro h
        rw [List.mapM_cons]
        have hx := renderRef_plain ap ts rs x (h x (by simp))
        simp only [mkDb] at hx
        simp only [Function.comp, hx, bind, Except.bind]
        have := ih (fun q hq => h q (by simp [hq]))
        rw [this]
        rfl
    exact this rs hin
  unfold Dbml.renderDb Dbml.renderProjectList
  simp only [bind, Except.bind, htabs, hrefs]
  have hd := docTextR_eq ts (rs.map (rtext ts)) hts (by simpa using hrs)
  rw [List.map_map] at hd
  simp [mkDb, pure, Except.pure, hd]

/-- **C02 / C05 for documents of tables and references, end to end.**  A database holding any positive number of
    plain tables (as in `tables_roundtrip_partial`) and any positive number of pairwise different standalone
    single-column references between their columns is rendered to DBML and parsed back to exactly the same
    database: every reference is resolved - by table name and column name - to the very positions it was written
    from.  The hypotheses on names (`Resolvable`) are exactly the recorded findings: no dot in a table name, no
    comma / framing parentheses or blanks in a column name, no two columns of a table with one name. -/
theorem refs_roundtrip_partial (ap : Bool) (ts : List TSpec) (rs : List RSpec)
    (hok : ∀ t ∈ ts, TSpecOK t) (hts : ts ≠ []) (hres : Resolvable ts)
    (hin : ∀ r ∈ rs, RSpecIn ts r) (hrs : rs ≠ []) (hnd : rs.Nodup) :
    ∃ text, Dbml.renderDb (mkDb ap ts rs) = .ok text ∧ Build.parse ap text = .ok (mkDb ap ts rs) := by
  refine ⟨docTextR ts (rs.map (rtext ts)), renderDb_tables_refs ap ts rs hok hin hts hrs, ?_⟩
  have hrok : ∀ r ∈ rs.map (rtext ts), RTextOK r := by
    intro x hx
    obtain ⟨r, hr, rfl⟩ := List.mem_map.mp hx
    obtain ⟨ta, tb, h1, h2, hc1, hc2⟩ := hin r hr
    have hta := hok ta (List.mem_of_getElem? h1)
    have htb := hok tb (List.mem_of_getElem? h2)
    have hca : ta.2[r.c1]? = some ta.2[r.c1] := List.getElem?_eq_getElem hc1
    have hcb : tb.2[r.c2]? = some tb.2[r.c2] := List.getElem?_eq_getElem hc2
    refine ⟨?_, ?_, ?_, ?_⟩
    · simpa [rtext, tname, h1] using hta.1
    · simpa [rtext, cname, h1, hca] using (hta.2.1 _ (List.getElem_mem hc1)).1
    · simpa [rtext, tname, h2] using htb.1
    · simpa [rtext, cname, h2, hcb] using (htb.2.1 _ (List.getElem_mem hc2)).1
  obtain ⟨c', hp⟩ := parseDoc_tables_refs ap ts (rs.map (rtext ts)) hok hrok hts
  unfold Build.parse
  have hbom : removeBom (docTextR ts (rs.map (rtext ts))) = docTextR ts (rs.map (rtext ts)) := by
    cases ts with
    | nil => exact absurd rfl hts
    | cons t r => simp [removeBom, docTextR, tableTextP]
  rw [hbom, hp]
  simp only []
  rw [build_tables_refs ap ts rs hres hin hnd]

end C02
end PyDBML
