/-
C02/C01 — column settings in the round trip: inline references, `pk`, `increment`, an integer default, `unique`,
`not null`, a note, properties - in the renderer's order.
`flags_table_roundtrip_partial`: one table, any positive number of columns, each with any subset of the four flags.
-/
import PyDBMLProofs.Props.C02Form
import PyDBMLProofs.Props.C02Refs
namespace PyDBML
namespace C02
open Lex Grammar Build

inductive Flag where | pk | increment | unique | notNull | note (t : Str) | prop (k v : Str) | defInt (d : Str)
  | ref (k : RefKind) (tn cn : Str) | defStr (t : Str) | defExpr (e : Str)
  deriving DecidableEq

def Flag.text : Flag → Str
  | .pk => ['p', 'k']
  | .increment => ['i', 'n', 'c', 'r', 'e', 'm', 'e', 'n', 't']
  | .unique => ['u', 'n', 'i', 'q', 'u', 'e']
  | .notNull => ['n', 'o', 't', ' ', 'n', 'u', 'l', 'l']
  | .note t => 'n' :: 'o' :: 't' :: 'e' :: ':' :: ' ' :: '\'' :: (prepareTextForDbml t ++ ['\''])
  | .prop k v => k ++ ':' :: ' ' :: '\'' :: (prepareTextForDbml v ++ ['\''])
  | .defInt d => 'd' :: 'e' :: 'f' :: 'a' :: 'u' :: 'l' :: 't' :: ':' :: ' ' :: d
  | .ref k tn cn => IRefT.text { kind := k, tn := tn, cn := cn }
  | .defStr t => 'd' :: 'e' :: 'f' :: 'a' :: 'u' :: 'l' :: 't' :: ':' :: ' ' :: '\'' :: (prepareTextForDbml t ++ ['\''])
  | .defExpr e => 'd' :: 'e' :: 'f' :: 'a' :: 'u' :: 'l' :: 't' :: ':' :: ' ' :: '`' :: (e ++ ['`'])

/-- the words a setting may begin with: a property key beginning with one of them is read as that setting
    (KF-C01-prop-key-kw-prefix) -/
def settingWords : List String :=
  ["not null", "null", "primary key", "pk", "unique", "increment", "note:", "ref:", "default:"]

/-- a property key: a bare identifier that no setting word is a caseless prefix of, whatever follows it -/
def KeyOK (k : Str) : Prop :=
  k ≠ [] ∧ k.all isNameChar = true ∧ ∀ kw ∈ settingWords, ∀ r, startsWithCaseless (k ++ r) kw.toList = false

/-- an integer default the round trip covers: decimal digits, no leading zero (so not `0`, which `if model.default:`
    takes for "no default" - FalsyDefault), at most 4300 of them (KF-C08-huge-int) -/
def DigitsOK (d : Str) : Prop := d ≠ [] ∧ d.all isDigit = true ∧ d.head? ≠ some '0' ∧ d.length ≤ 4300

/-- a string default the round trip covers: one plain line, not empty (`if model.default:` takes '' for "no default"),
    no triple quote, and not one of the words `default_to_str` writes bare (`null`, `true`, `false` in any case) -/
def DStrOK (t : Str) : Prop :=
  Plain t ∧ hasTriple t = false ∧ t ≠ [] ∧ lowerAscii t ≠ lit "null" ∧ lowerAscii t ≠ lit "true" ∧ lowerAscii t ≠ lit "false"

/-- an expression default the round trip covers: not empty, no backtick, no line break, no tab -/
def DExprOK (e : Str) : Prop := e ≠ [] ∧ ∀ ch ∈ e, ch ≠ '`' ∧ isLineBreak ch = false ∧ ch ≠ '\t'

/-- what a settings item must satisfy: a note is one plain line without a triple quote -/
def Flag.ok (props : Bool) : Flag → Prop
  | .note t => Plain t ∧ hasTriple t = false
  | .prop k v => props = true ∧ KeyOK k ∧ Plain v ∧ hasTriple v = false
  | .defInt d => DigitsOK d
  | .ref _ tn cn => NameOK tn ∧ NameOK cn
  | .defStr t => DStrOK t
  | .defExpr e => DExprOK e
  | _ => True

def Flag.setting : Flag → ColSetting
  | .pk => .pk
  | .increment => .increment
  | .unique => .unique
  | .notNull => .notNull true
  | .note t => .note t
  | .prop k v => .prop k v
  | .defInt d => .default (.int d)
  | .ref k tn cn => .ref (IRefT.bp { kind := k, tn := tn, cn := cn })
  | .defStr t => .default (.str t)
  | .defExpr e => .default (.expr e)

theorem swc_ne2 (x y : Char) (r : Str) (s : String) (k1 k2 : Char) (ks : Str) (hs : s.toList = k1 :: k2 :: ks)
    (h : (pyUpper1 k2 == pyUpper1 y) = false) : startsWithCaseless (x :: y :: r) s.toList = false := by
  rw [hs]; simp [startsWithCaseless, h]

theorem swc_ne4 (a b c d : Char) (r : Str) (s : String) (k1 k2 k3 k4 : Char) (ks : Str)
    (hs : s.toList = k1 :: k2 :: k3 :: k4 :: ks) (h : (pyUpper1 k4 == pyUpper1 d) = false) :
    startsWithCaseless (a :: b :: c :: d :: r) s.toList = false := by
  rw [hs]; simp [startsWithCaseless, h]

/-- `col_name` of an inline reference on `"t"."c"` followed by something that does not start (after blanks) with a dot -/
theorem colName_ok (c : Cur) (t col after : Str) (hn : (skipWs c).rest = sideText t col after)
    (hdot : ∀ d : Cur, d.rest = after → sym "." d = .fail)
    (ht : NameOK t) (hc : NameOK col) (hp : c.pastEnd = false) :
    ∃ c', colName c = .ok (none, t, col) c' ∧ c'.rest = after ∧ c'.pastEnd = false := by
  obtain ⟨c1, hnm1, hr1, hp1⟩ := name_quoted_ok c t _ hn ht hp
  have hN1 : Next c1 '.' ('"' :: (col ++ '"' :: after)) := skipWs_rest_head c1 '.' _ hr1 (by decide)
  obtain ⟨c2, hdt, hr2, hp2⟩ := sym_ok "." '.' rfl c1 _ hN1 hp1
  have hN2 : (skipWs c2).rest = '"' :: (col ++ '"' :: after) := skipWs_rest_head c2 '"' _ hr2 (by decide)
  obtain ⟨c3, hnm2, hr3, hp3⟩ := name_quoted_ok c2 col _ hN2 hc hp2
  have hnodot : sym "." c3 = .fail := hdot c3 hr3
  refine ⟨c3, ?_, hr3, hp3⟩
  unfold colName alt
  simp only [bind, pbind, hnm1, hdt, hnm2, hnodot, pure, ppure]

/-- `expression_literal` on `` `e` `` -/
theorem expressionLiteral_ok (c : Cur) (e r : Str) (hn : (skipWs c).rest = '`' :: (e ++ '`' :: r)) (hq : ∀ ch ∈ e, ch ≠ '`')
    (hp : c.pastEnd = false) : ∃ c', expressionLiteral c = .ok e c' ∧ c'.rest = r ∧ c'.pastEnd = false := by
  refine ⟨curAfter (skipWs c) r, ?_, ?_, ?_⟩
  · unfold expressionLiteral
    have htw : (e ++ '`' :: r).takeWhile (fun x => decide (x ≠ '`')) = e :=
      takeWhile_append_stop _ e ('`' :: r) (by simpa using hq) (by intro y hy; simp at hy; subst hy; simp)
    simp only [skipWs_pastEnd, hp, Bool.false_eq_true, ↓reduceIte, hn, htw, List.drop_left']
  · exact C13.curAfter_rest (skipWs c) ('`' :: e ++ ['`']) r (by rw [hn]; simp)
  · unfold curAfter; rw [C13.advance_pastEnd]; exact hp

/-- one setting word, followed by a comma or the closing bracket -/
theorem columnSetting_flag (c : Cur) (w : Flag) (x : Char) (rest : Str) (hn : (skipWs c).rest = w.text ++ x :: rest)
    (hx : x = ',' ∨ x = ']') (hp : c.pastEnd = false) (props : Bool) (hw : w.ok props)
    (hnp : ∀ k v, w ≠ Flag.prop k v) :
    ∃ c', columnSetting c = .ok w.setting c' ∧ c'.rest = x :: rest ∧ c'.pastEnd = false := by
  have hxw : isWs x = false := by rcases hx with rfl | rfl <;> decide
  have hxn : x ≠ '\n' := by rcases hx with rfl | rfl <;> decide
  have hxs : x ≠ '/' := by rcases hx with rfl | rfl <;> decide
  have after : ∀ d : Cur, d.rest = x :: rest → skipNl d = .ok () d := by
    intro d hd
    have : Next d x rest := skipWs_rest_head d x rest hd hxw
    obtain ⟨q1, q2⟩ := quiet_of_next d x rest this hxn hxs
    exact skipNl_stay d q1 q2
  cases w with
  | pk =>
    have hN : Next c 'p' ('k' :: x :: rest) := hn
    obtain ⟨q1, q2⟩ := quiet_of_next c 'p' _ hN (by decide) (by decide)
    have hs0 := skipNl_stay c q1 q2
    obtain ⟨c1, hk, hr1, hp1⟩ := clit_ok "pk" c ['p', 'k'] (x :: rest) hn (by decide) (by simp [startsWithCaseless] <;> decide) hp
    refine ⟨c1, ?_, hr1, hp1⟩
    unfold columnSetting
    simp only [bind, pbind, hs0, alt,
      clit_fail "not null" c _ _ hN (swc_ne 'p' _ "not null" 'n' _ rfl (by decide)),
      clit_fail "null" c _ _ hN (swc_ne 'p' _ "null" 'n' _ rfl (by decide)),
      clit_fail "primary key" c _ _ hN (swc_ne2 'p' 'k' _ "primary key" 'p' 'r' _ rfl (by decide)),
      hk, after c1 hr1, pure, ppure, Flag.setting]
  | increment =>
    have hN : Next c 'i' ('n' :: 'c' :: 'r' :: 'e' :: 'm' :: 'e' :: 'n' :: 't' :: x :: rest) := hn
    obtain ⟨q1, q2⟩ := quiet_of_next c 'i' _ hN (by decide) (by decide)
    have hs0 := skipNl_stay c q1 q2
    obtain ⟨c1, hk, hr1, hp1⟩ := clit_ok "increment" c ['i', 'n', 'c', 'r', 'e', 'm', 'e', 'n', 't'] (x :: rest) hn (by decide)
      (by simp [startsWithCaseless] <;> decide) hp
    refine ⟨c1, ?_, hr1, hp1⟩
    unfold columnSetting
    simp only [bind, pbind, hs0, alt,
      clit_fail "not null" c _ _ hN (swc_ne 'i' _ "not null" 'n' _ rfl (by decide)),
      clit_fail "null" c _ _ hN (swc_ne 'i' _ "null" 'n' _ rfl (by decide)),
      clit_fail "primary key" c _ _ hN (swc_ne 'i' _ "primary key" 'p' _ rfl (by decide)),
      clit_fail "pk" c _ _ hN (swc_ne 'i' _ "pk" 'p' _ rfl (by decide)),
      clit_fail "unique" c _ _ hN (swc_ne 'i' _ "unique" 'u' _ rfl (by decide)),
      hk, after c1 hr1, pure, ppure, Flag.setting]
  | unique =>
    have hN : Next c 'u' ('n' :: 'i' :: 'q' :: 'u' :: 'e' :: x :: rest) := hn
    obtain ⟨q1, q2⟩ := quiet_of_next c 'u' _ hN (by decide) (by decide)
    have hs0 := skipNl_stay c q1 q2
    obtain ⟨c1, hk, hr1, hp1⟩ := clit_ok "unique" c ['u', 'n', 'i', 'q', 'u', 'e'] (x :: rest) hn (by decide)
      (by simp [startsWithCaseless] <;> decide) hp
    refine ⟨c1, ?_, hr1, hp1⟩
    unfold columnSetting
    simp only [bind, pbind, hs0, alt,
      clit_fail "not null" c _ _ hN (swc_ne 'u' _ "not null" 'n' _ rfl (by decide)),
      clit_fail "null" c _ _ hN (swc_ne 'u' _ "null" 'n' _ rfl (by decide)),
      clit_fail "primary key" c _ _ hN (swc_ne 'u' _ "primary key" 'p' _ rfl (by decide)),
      clit_fail "pk" c _ _ hN (swc_ne 'u' _ "pk" 'p' _ rfl (by decide)),
      hk, after c1 hr1, pure, ppure, Flag.setting]
  | notNull =>
    have hN : Next c 'n' ('o' :: 't' :: ' ' :: 'n' :: 'u' :: 'l' :: 'l' :: x :: rest) := hn
    obtain ⟨q1, q2⟩ := quiet_of_next c 'n' _ hN (by decide) (by decide)
    have hs0 := skipNl_stay c q1 q2
    obtain ⟨c1, hk, hr1, hp1⟩ := clit_ok "not null" c ['n', 'o', 't', ' ', 'n', 'u', 'l', 'l'] (x :: rest) hn (by decide)
      (by simp [startsWithCaseless] <;> decide) hp
    refine ⟨c1, ?_, hr1, hp1⟩
    unfold columnSetting
    simp only [bind, pbind, hs0, alt, hk, after c1 hr1, pure, ppure, Flag.setting]
  | note t =>
    obtain ⟨ht, h3⟩ := hw
    have h1 : C13.oneLine t = true := by
      simp only [C13.oneLine, Bool.not_eq_true', List.any_eq_false, Bool.or_eq_true, decide_eq_true_eq, not_or]
      intro ch hch
      have := (ht ch hch).1
      constructor <;> (rintro rfl; simp [isLineBreak] at this)
    have hn' : (skipWs c).rest = ['n', 'o', 't', 'e', ':'] ++ ' ' :: '\'' :: (prepareTextForDbml t ++ '\'' :: x :: rest) := by
      rw [hn]; simp [Flag.text]
    have hN : Next c 'n' ('o' :: 't' :: 'e' :: ':' :: ' ' :: '\'' :: (prepareTextForDbml t ++ '\'' :: x :: rest)) := hn'
    obtain ⟨q1, q2⟩ := quiet_of_next c 'n' _ hN (by decide) (by decide)
    have hs0 := skipNl_stay c q1 q2
    obtain ⟨c1, hk, hr1, hp1⟩ := clit_ok "note:" c ['n', 'o', 't', 'e', ':'] _ hn' (by decide)
      (by simp [startsWithCaseless] <;> decide) hp
    have hN1 : Next c1 '\'' (prepareTextForDbml t ++ '\'' :: x :: rest) :=
      skipWs_rest_spaces c1 1 '\'' _ (by rw [hr1]; rfl) (by decide)
    obtain ⟨q3, q4⟩ := quiet_of_next c1 '\'' _ hN1 (by decide) (by decide)
    have hs1 := skipNl_stay c1 q3 q4
    obtain ⟨c2, hsl, hr2, hp2⟩ := stringLiteral_ok c1 t (x :: rest) hN1 hp1 h1 h3
      (Or.inr (by rcases hx with rfl | rfl <;> simp))
    have hnote : noteRule c = .ok t c2 := by
      unfold noteRule
      simp only [bind, pbind, hk, cut, hs1, hsl]
    refine ⟨c2, ?_, hr2, hp2⟩
    unfold columnSetting
    simp only [bind, pbind, hs0, alt,
      clit_fail "not null" c _ _ hN (swc_ne4 'n' 'o' 't' 'e' _ "not null" 'n' 'o' 't' ' ' _ rfl (by decide)),
      clit_fail "null" c _ _ hN (swc_ne2 'n' 'o' _ "null" 'n' 'u' _ rfl (by decide)),
      clit_fail "primary key" c _ _ hN (swc_ne 'n' _ "primary key" 'p' _ rfl (by decide)),
      clit_fail "pk" c _ _ hN (swc_ne 'n' _ "pk" 'p' _ rfl (by decide)),
      clit_fail "unique" c _ _ hN (swc_ne 'n' _ "unique" 'u' _ rfl (by decide)),
      clit_fail "increment" c _ _ hN (swc_ne 'n' _ "increment" 'i' _ rfl (by decide)),
      hnote, after c2 hr2, pure, ppure, Flag.setting]
  | defStr t =>
    obtain ⟨ht, h3, hne, _⟩ := hw
    have h1 : C13.oneLine t = true := by
      simp only [C13.oneLine, Bool.not_eq_true', List.any_eq_false, Bool.or_eq_true, decide_eq_true_eq, not_or]
      intro ch hch
      have := (ht ch hch).1
      constructor <;> (rintro rfl; simp [isLineBreak] at this)
    have hn' : (skipWs c).rest = ['d', 'e', 'f', 'a', 'u', 'l', 't', ':'] ++ ' ' :: '\'' :: (prepareTextForDbml t ++ '\'' :: x :: rest) := by
      rw [hn]; simp [Flag.text]
    have hN : Next c 'd' ('e' :: 'f' :: 'a' :: 'u' :: 'l' :: 't' :: ':' :: ' ' :: '\'' :: (prepareTextForDbml t ++ '\'' :: x :: rest)) := hn'
    obtain ⟨q1, q2⟩ := quiet_of_next c 'd' _ hN (by decide) (by decide)
    have hs0 := skipNl_stay c q1 q2
    obtain ⟨c1, hk, hr1, hp1⟩ := clit_ok "default:" c ['d', 'e', 'f', 'a', 'u', 'l', 't', ':'] _ hn' (by decide)
      (by simp [startsWithCaseless] <;> decide) hp
    have hN1 : Next c1 '\'' (prepareTextForDbml t ++ '\'' :: x :: rest) :=
      skipWs_rest_spaces c1 1 '\'' _ (by rw [hr1]; rfl) (by decide)
    obtain ⟨q3, q4⟩ := quiet_of_next c1 '\'' _ hN1 (by decide) (by decide)
    have hs1 := skipNl_stay c1 q3 q4
    obtain ⟨c2, hsl, hr2, hp2⟩ := stringLiteral_ok c1 t (x :: rest) hN1 hp1 h1 h3 (Or.inl hne)
    have hdef : defaultRule c = .ok (Bp.DefaultBp.str t) c2 := by
      unfold defaultRule
      simp only [bind, pbind, hk, cut, hs1, alt, hsl, pure, ppure]
    refine ⟨c2, ?_, hr2, hp2⟩
    unfold columnSetting
    simp only [bind, pbind, hs0, alt,
      clit_fail "not null" c _ _ hN (swc_ne 'd' _ "not null" 'n' _ rfl (by decide)),
      clit_fail "null" c _ _ hN (swc_ne 'd' _ "null" 'n' _ rfl (by decide)),
      clit_fail "primary key" c _ _ hN (swc_ne 'd' _ "primary key" 'p' _ rfl (by decide)),
      clit_fail "pk" c _ _ hN (swc_ne 'd' _ "pk" 'p' _ rfl (by decide)),
      clit_fail "unique" c _ _ hN (swc_ne 'd' _ "unique" 'u' _ rfl (by decide)),
      clit_fail "increment" c _ _ hN (swc_ne 'd' _ "increment" 'i' _ rfl (by decide)),
      show noteRule c = .fail by
        unfold noteRule; simp only [bind, pbind, clit_fail "note:" c _ _ hN (swc_ne 'd' _ "note:" 'n' _ rfl (by decide))],
      show refInline c = .fail by
        unfold refInline; simp only [bind, pbind, clit_fail "ref:" c _ _ hN (swc_ne 'd' _ "ref:" 'r' _ rfl (by decide))],
      hdef, after c2 hr2, pure, ppure, Flag.setting]
  | defExpr e =>
    obtain ⟨hne, hall⟩ := hw
    have hn' : (skipWs c).rest = ['d', 'e', 'f', 'a', 'u', 'l', 't', ':'] ++ ' ' :: '`' :: (e ++ '`' :: x :: rest) := by
      rw [hn]; simp [Flag.text]
    have hN : Next c 'd' ('e' :: 'f' :: 'a' :: 'u' :: 'l' :: 't' :: ':' :: ' ' :: '`' :: (e ++ '`' :: x :: rest)) := hn'
    obtain ⟨q1, q2⟩ := quiet_of_next c 'd' _ hN (by decide) (by decide)
    have hs0 := skipNl_stay c q1 q2
    obtain ⟨c1, hk, hr1, hp1⟩ := clit_ok "default:" c ['d', 'e', 'f', 'a', 'u', 'l', 't', ':'] _ hn' (by decide)
      (by simp [startsWithCaseless] <;> decide) hp
    have hN1 : Next c1 '`' (e ++ '`' :: x :: rest) :=
      skipWs_rest_spaces c1 1 '`' _ (by rw [hr1]; rfl) (by decide)
    obtain ⟨q3, q4⟩ := quiet_of_next c1 '`' _ hN1 (by decide) (by decide)
    have hs1 := skipNl_stay c1 q3 q4
    have hp1' : (skipWs c1).pastEnd = false := by simpa using hp1
    have hsl : stringLiteral c1 = .fail := by
      unfold stringLiteral
      simp only [hp1', Bool.false_eq_true, ↓reduceIte, show (skipWs c1).rest = '`' :: (e ++ '`' :: x :: rest) from hN1]
      split
      · rename_i heq; simp at heq
      · rename_i heq; simp at heq
      · rfl
    obtain ⟨c2, hel, hr2, hp2⟩ := expressionLiteral_ok c1 e (x :: rest) hN1 (fun ch hch => (hall ch hch).1) hp1
    have hdef : defaultRule c = .ok (Bp.DefaultBp.expr e) c2 := by
      unfold defaultRule
      simp only [bind, pbind, hk, cut, hs1, alt, hsl, hel, pure, ppure]
    refine ⟨c2, ?_, hr2, hp2⟩
    unfold columnSetting
    simp only [bind, pbind, hs0, alt,
      clit_fail "not null" c _ _ hN (swc_ne 'd' _ "not null" 'n' _ rfl (by decide)),
      clit_fail "null" c _ _ hN (swc_ne 'd' _ "null" 'n' _ rfl (by decide)),
      clit_fail "primary key" c _ _ hN (swc_ne 'd' _ "primary key" 'p' _ rfl (by decide)),
      clit_fail "pk" c _ _ hN (swc_ne 'd' _ "pk" 'p' _ rfl (by decide)),
      clit_fail "unique" c _ _ hN (swc_ne 'd' _ "unique" 'u' _ rfl (by decide)),
      clit_fail "increment" c _ _ hN (swc_ne 'd' _ "increment" 'i' _ rfl (by decide)),
      show noteRule c = .fail by
        unfold noteRule; simp only [bind, pbind, clit_fail "note:" c _ _ hN (swc_ne 'd' _ "note:" 'n' _ rfl (by decide))],
      show refInline c = .fail by
        unfold refInline; simp only [bind, pbind, clit_fail "ref:" c _ _ hN (swc_ne 'd' _ "ref:" 'r' _ rfl (by decide))],
      hdef, after c2 hr2, pure, ppure, Flag.setting]
  | prop k v => exact absurd rfl (hnp k v)
  | ref k tn cn =>
    obtain ⟨htn, hcn⟩ := hw
    have hn' : (skipWs c).rest = ['r', 'e', 'f', ':'] ++ ' ' :: (k.sym ++ ' ' :: sideText tn cn (x :: rest)) := by
      rw [hn]; simp [Flag.text, IRefT.text, sideText]
    have hN : Next c 'r' ('e' :: 'f' :: ':' :: ' ' :: (k.sym ++ ' ' :: sideText tn cn (x :: rest))) := hn'
    obtain ⟨q1, q2⟩ := quiet_of_next c 'r' _ hN (by decide) (by decide)
    have hs0 := skipNl_stay c q1 q2
    obtain ⟨c1, hk, hr1, hp1⟩ := clit_ok "ref:" c ['r', 'e', 'f', ':'] _ hn' (by decide)
      (by simp [startsWithCaseless] <;> decide) hp
    obtain ⟨y, yr, hy, hyd, hyw⟩ := kind_sym_head k
    have hN1 : (skipWs c1).rest = k.sym ++ ' ' :: sideText tn cn (x :: rest) := by
      have := skipWs_rest_spaces c1 1 y (yr ++ ' ' :: sideText tn cn (x :: rest)) (by rw [hr1, hy]; rfl) hyw
      rw [this, hy]; rfl
    obtain ⟨c2, hrel, hr2, hp2⟩ := relation_ok c1 k _ hN1 hp1
    have hN2 : (skipWs c2).rest = sideText tn cn (x :: rest) :=
      skipWs_rest_spaces c2 1 '"' _ (by rw [hr2]; rfl) (by decide)
    obtain ⟨c3, hcol, hr3, hp3⟩ := colName_ok c2 tn cn (x :: rest) hN2
      (fun d hd => sym_dot_fail_of_next d x rest (skipWs_rest_head d x rest hd hxw) (by rcases hx with rfl | rfl <;> decide))
      htn hcn hp2
    have href : refInline c = .ok (IRefT.bp { kind := k, tn := tn, cn := cn }) c3 := by
      unfold refInline
      simp only [bind, pbind, hk, cut, hrel, hcol, pure, ppure, IRefT.bp, Option.getD_none]
    refine ⟨c3, ?_, hr3, hp3⟩
    unfold columnSetting
    simp only [bind, pbind, hs0, alt,
      clit_fail "not null" c _ _ hN (swc_ne 'r' _ "not null" 'n' _ rfl (by decide)),
      clit_fail "null" c _ _ hN (swc_ne 'r' _ "null" 'n' _ rfl (by decide)),
      clit_fail "primary key" c _ _ hN (swc_ne 'r' _ "primary key" 'p' _ rfl (by decide)),
      clit_fail "pk" c _ _ hN (swc_ne 'r' _ "pk" 'p' _ rfl (by decide)),
      clit_fail "unique" c _ _ hN (swc_ne 'r' _ "unique" 'u' _ rfl (by decide)),
      clit_fail "increment" c _ _ hN (swc_ne 'r' _ "increment" 'i' _ rfl (by decide)),
      show noteRule c = .fail by
        unfold noteRule; simp only [bind, pbind, clit_fail "note:" c _ _ hN (swc_ne 'r' _ "note:" 'n' _ rfl (by decide))],
      href, after c3 hr3, pure, ppure, Flag.setting]
  | defInt d =>
    obtain ⟨hne, hall, hhead, hlen⟩ := hw
    obtain ⟨d0, ds, rfl⟩ : ∃ d0 ds, d = d0 :: ds := by
      cases d with
      | nil => exact absurd rfl hne
      | cons a as => exact ⟨a, as, rfl⟩
    have hd0 : isDigit d0 = true := by simp only [List.all_cons, Bool.and_eq_true] at hall; exact hall.1
    have hd0n : isNameChar d0 = true := by simp [isNameChar, isAlnum, hd0]
    have hn' : (skipWs c).rest = ['d', 'e', 'f', 'a', 'u', 'l', 't', ':'] ++ ' ' :: ((d0 :: ds) ++ x :: rest) := by
      rw [hn]; simp [Flag.text]
    have hN : Next c 'd' ('e' :: 'f' :: 'a' :: 'u' :: 'l' :: 't' :: ':' :: ' ' :: ((d0 :: ds) ++ x :: rest)) := hn'
    obtain ⟨q1, q2⟩ := quiet_of_next c 'd' _ hN (by decide) (by decide)
    have hs0 := skipNl_stay c q1 q2
    obtain ⟨c1, hk, hr1, hp1⟩ := clit_ok "default:" c ['d', 'e', 'f', 'a', 'u', 'l', 't', ':'] _ hn' (by decide)
      (by simp [startsWithCaseless] <;> decide) hp
    have hN1 : Next c1 d0 (ds ++ x :: rest) :=
      skipWs_rest_spaces c1 1 d0 _ (by rw [hr1]; rfl) (nameChar_facts d0 hd0n).1
    obtain ⟨q3, q4⟩ := quiet_of_next c1 d0 _ hN1 (nameChar_facts d0 hd0n).2.1 (nameChar_facts d0 hd0n).2.2
    have hs1 := skipNl_stay c1 q3 q4
    have hd0q : d0 ≠ '\'' ∧ d0 ≠ '"' ∧ d0 ≠ '`' := by
      refine ⟨?_, ?_, ?_⟩ <;> (rintro rfl; simp [isDigit] at hd0)
    have hp1' : (skipWs c1).pastEnd = false := by simpa using hp1
    have hsl : stringLiteral c1 = .fail := by
      unfold stringLiteral
      simp only [hp1', Bool.false_eq_true, ↓reduceIte, show (skipWs c1).rest = d0 :: (ds ++ x :: rest) from hN1]
      split
      · rename_i heq; simp at heq; exact absurd heq.1 hd0q.1
      · rename_i heq; simp at heq; exact absurd heq.1 hd0q.2.1
      · rfl
    have hel : expressionLiteral c1 = .fail := by
      unfold expressionLiteral
      simp only [hp1', Bool.false_eq_true, ↓reduceIte, show (skipWs c1).rest = d0 :: (ds ++ x :: rest) from hN1]
      split
      · rename_i heq; simp at heq; exact absurd heq.1 hd0q.2.2
      · rfl
    have hupper : ∀ k : Char, k ∈ ['t', 'f', 'N'] → (pyUpper1 k == pyUpper1 d0) = false := by
      intro k hk
      have hd : d0.toNat - 48 < 10 ∧ 48 ≤ d0.toNat := by
        simp only [isDigit, Bool.and_eq_true, decide_eq_true_eq] at hd0
        have h1 : ('0' : Char).toNat ≤ d0.toNat := hd0.1
        have h2 : d0.toNat ≤ ('9' : Char).toNat := hd0.2
        simp at h1 h2; omega
      have e : d0 = Char.ofNat d0.toNat := (Char.ofNat_toNat d0).symm
      have : d0.toNat ∈ [48, 49, 50, 51, 52, 53, 54, 55, 56, 57] := by
        simp only [List.mem_cons, List.mem_nil_iff, or_false]; omega
      simp only [List.mem_cons, List.mem_nil_iff, or_false] at this hk
      rcases this with h' | h' | h' | h' | h' | h' | h' | h' | h' | h' <;>
        (rw [h'] at e; subst e; rcases hk with rfl | rfl | rfl <;> decide)
    have hbl : booleanLiteral c1 = .fail := by
      unfold booleanLiteral alt
      simp only [bind, pbind,
        clit_fail "true" c1 _ _ hN1 (swc_ne d0 _ "true" 't' _ rfl (hupper 't' (by simp))),
        clit_fail "false" c1 _ _ hN1 (swc_ne d0 _ "false" 'f' _ rfl (hupper 'f' (by simp))),
        clit_fail "NULL" c1 _ _ hN1 (swc_ne d0 _ "NULL" 'N' _ rfl (hupper 'N' (by simp)))]
    have hxd : isDigit x = false := by rcases hx with rfl | rfl <;> decide
    have htw : ((d0 :: ds) ++ x :: rest).takeWhile isDigit = d0 :: ds :=
      takeWhile_append_stop isDigit (d0 :: ds) (x :: rest) hall (by intro y hy; simp at hy; subst hy; exact hxd)
    have hnum : numberLiteral c1 = .ok (d0 :: ds) (advance (skipWs c1) (d0 :: ds).length) := by
      unfold numberLiteral
      simp only [hp1', Bool.false_eq_true, ↓reduceIte, show (skipWs c1).rest = (d0 :: ds) ++ x :: rest from hN1, htw]
      simp only [List.isEmpty_cons, Bool.false_eq_true, ↓reduceIte, List.drop_left']
      rcases hx with rfl | rfl <;> rfl
    have hnv : numberValue (d0 :: ds) = ppure (Bp.DefaultBp.int (d0 :: ds)) := by
      unfold numberValue
      have hnodot : (d0 :: ds).contains '.' = false := by
        rw [List.contains_eq_mem, decide_eq_false_iff_not]
        intro hm
        have := List.all_eq_true.mp hall '.' hm
        simp [isDigit] at this
      simp only [hnodot, Bool.false_eq_true, ↓reduceIte]
      have : ¬ (d0 :: ds).length > 4300 := by omega
      simp only [this, ↓reduceIte]
    have hr2 : (advance (skipWs c1) (d0 :: ds).length).rest = x :: rest := by
      rw [C13.advance_rest, show (skipWs c1).rest = (d0 :: ds) ++ x :: rest from hN1]; simp
    have hp2 : (advance (skipWs c1) (d0 :: ds).length).pastEnd = false := by
      rw [C13.advance_pastEnd]; exact hp1'
    have hdef : defaultRule c = .ok (Bp.DefaultBp.int (d0 :: ds)) (advance (skipWs c1) (d0 :: ds).length) := by
      unfold defaultRule
      simp only [bind, pbind, hk, cut, hs1, alt, hsl, hel, hbl, hnum, hnv, ppure]
    refine ⟨_, ?_, hr2, hp2⟩
    unfold columnSetting
    simp only [bind, pbind, hs0, alt,
      clit_fail "not null" c _ _ hN (swc_ne 'd' _ "not null" 'n' _ rfl (by decide)),
      clit_fail "null" c _ _ hN (swc_ne 'd' _ "null" 'n' _ rfl (by decide)),
      clit_fail "primary key" c _ _ hN (swc_ne 'd' _ "primary key" 'p' _ rfl (by decide)),
      clit_fail "pk" c _ _ hN (swc_ne 'd' _ "pk" 'p' _ rfl (by decide)),
      clit_fail "unique" c _ _ hN (swc_ne 'd' _ "unique" 'u' _ rfl (by decide)),
      clit_fail "increment" c _ _ hN (swc_ne 'd' _ "increment" 'i' _ rfl (by decide)),
      show noteRule c = .fail by
        unfold noteRule; simp only [bind, pbind, clit_fail "note:" c _ _ hN (swc_ne 'd' _ "note:" 'n' _ rfl (by decide))],
      show refInline c = .fail by
        unfold refInline; simp only [bind, pbind, clit_fail "ref:" c _ _ hN (swc_ne 'd' _ "ref:" 'r' _ rfl (by decide))],
      hdef, after _ hr2, pure, ppure, Flag.setting]

theorem oneLine_of_plain (t : Str) (ht : Plain t) : C13.oneLine t = true := by
  simp only [C13.oneLine, Bool.not_eq_true', List.any_eq_false, Bool.or_eq_true, decide_eq_true_eq, not_or]
  intro ch hch
  have := (ht ch hch).1
  constructor <;> (rintro rfl; simp [isLineBreak] at this)

/-- a property key is not read as a setting -/
theorem columnSetting_key_fail (c : Cur) (k r : Str) (hk : KeyOK k) (hn : (skipWs c).rest = k ++ r) :
    columnSetting c = .fail := by
  obtain ⟨hne, hall, hkw⟩ := hk
  obtain ⟨x, xs, rfl⟩ : ∃ x xs, k = x :: xs := by
    cases k with
    | nil => exact absurd rfl hne
    | cons a as => exact ⟨a, as, rfl⟩
  have hx : isNameChar x = true := by simp only [List.all_cons, Bool.and_eq_true] at hall; exact hall.1
  have hN : Next c x (xs ++ r) := hn
  obtain ⟨q1, q2⟩ := quiet_of_next c x _ hN (nameChar_facts x hx).2.1 (nameChar_facts x hx).2.2
  have hs0 := skipNl_stay c q1 q2
  have hf : ∀ kw ∈ settingWords, clit kw c = .fail := fun kw hkwm => clit_fail kw c x (xs ++ r) hN (hkw kw hkwm r)
  have hnote : noteRule c = .fail := by
    unfold noteRule; simp only [bind, pbind, hf "note:" (by simp [settingWords])]
  have href : refInline c = .fail := by
    unfold refInline; simp only [bind, pbind, hf "ref:" (by simp [settingWords])]
  have hdef : defaultRule c = .fail := by
    unfold defaultRule; simp only [bind, pbind, hf "default:" (by simp [settingWords])]
  unfold columnSetting
  simp only [bind, pbind, hs0, alt, hf "not null" (by simp [settingWords]), hf "null" (by simp [settingWords]),
    hf "primary key" (by simp [settingWords]), hf "pk" (by simp [settingWords]), hf "unique" (by simp [settingWords]),
    hf "increment" (by simp [settingWords]), hnote, href, hdef]

/-- `key: 'value'`, followed by a comma or the closing bracket -/
theorem prop_ok (c : Cur) (k v : Str) (x : Char) (rest : Str)
    (hn : (skipWs c).rest = k ++ ':' :: ' ' :: '\'' :: (prepareTextForDbml v ++ '\'' :: x :: rest))
    (hx : x = ',' ∨ x = ']') (hp : c.pastEnd = false) (hk : KeyOK k) (hv : Plain v) (h3 : hasTriple v = false) :
    ∃ c', prop c = .ok (k, v) c' ∧ c'.rest = x :: rest ∧ c'.pastEnd = false := by
  obtain ⟨c1, hnm, hr1, hp1⟩ := name_ok c k _ hn hk.1 hk.2.1 (by intro y hy; simp at hy; subst hy; decide) hp
  have hN1 : Next c1 ':' (' ' :: '\'' :: (prepareTextForDbml v ++ '\'' :: x :: rest)) :=
    skipWs_rest_head c1 ':' _ hr1 (by decide)
  obtain ⟨c2, hcol, hr2, hp2⟩ := sym_ok ":" ':' rfl c1 _ hN1 hp1
  have hN2 : (skipWs c2).rest = '\'' :: (prepareTextForDbml v ++ '\'' :: x :: rest) :=
    skipWs_rest_spaces c2 1 '\'' _ (by rw [hr2]; rfl) (by decide)
  obtain ⟨c3, hsl, hr3, hp3⟩ := stringLiteral_ok c2 v (x :: rest) hN2 hp2 (oneLine_of_plain v hv) h3
    (Or.inr (by rcases hx with rfl | rfl <;> simp))
  refine ⟨c3, ?_, hr3, hp3⟩
  unfold prop
  simp only [bind, pbind, hnm, hcol, hsl, pure, ppure]

theorem columnSetting_wp (c c' : Cur) (s : ColSetting) (h : columnSetting c = .ok s c') :
    columnSettingWithProperty c = .ok s c' := by
  unfold columnSettingWithProperty alt; simp only [h]

/-- one item of the settings list, in the grammar chosen by the properties switch -/
theorem item_ok (props : Bool) (c : Cur) (w : Flag) (x : Char) (rest : Str)
    (hn : (skipWs c).rest = w.text ++ x :: rest) (hx : x = ',' ∨ x = ']') (hp : c.pastEnd = false) (hw : w.ok props) :
    ∃ c', (if props then columnSettingWithProperty else columnSetting) c = .ok w.setting c'
      ∧ c'.rest = x :: rest ∧ c'.pastEnd = false := by
  have key : (∀ k v, w ≠ Flag.prop k v) → ∃ c', (if props then columnSettingWithProperty else columnSetting) c
      = .ok w.setting c' ∧ c'.rest = x :: rest ∧ c'.pastEnd = false := by
    intro hnp
    obtain ⟨c', h, hr, hp'⟩ := columnSetting_flag c w x rest hn hx hp props hw hnp
    refine ⟨c', ?_, hr, hp'⟩
    cases props
    · exact h
    · exact columnSetting_wp c c' _ h
  cases w with
  | prop k v =>
    obtain ⟨rfl, hk, hv, h3⟩ := hw
    have hn' : (skipWs c).rest = k ++ ':' :: ' ' :: '\'' :: (prepareTextForDbml v ++ '\'' :: x :: rest) := by
      rw [hn]; simp [Flag.text]
    obtain ⟨c', hpr, hr, hp'⟩ := prop_ok c k v x rest hn' hx hp hk hv h3
    refine ⟨c', ?_, hr, hp'⟩
    simp only [↓reduceIte]
    unfold columnSettingWithProperty alt
    simp only [columnSetting_key_fail c k _ hk hn', bind, pbind, hpr, pure, ppure, Flag.setting]
  | pk => exact key (by intro k v h; cases h)
  | increment => exact key (by intro k v h; cases h)
  | unique => exact key (by intro k v h; cases h)
  | notNull => exact key (by intro k v h; cases h)
  | note t => exact key (by intro k v h; cases h)
  | defInt d => exact key (by intro k v h; cases h)
  | ref k' tn cn => exact key (by intro k v h; cases h)
  | defStr t => exact key (by intro k v h; cases h)
  | defExpr e => exact key (by intro k v h; cases h)

/-! ### the settings list: `[w1, w2, …]` -/

/-- the text after the first word: `, w` for each further word -/
def moreFlags : List Flag → Str
  | [] => []
  | w :: ws => ',' :: ' ' :: (w.text ++ moreFlags ws)

theorem flag_text_head (props : Bool) (w : Flag) (hw : w.ok props) :
    ∃ y r, w.text = y :: r ∧ isWs y = false ∧ y ≠ '\n' ∧ y ≠ '/' := by
  cases w with
  | prop k v =>
    obtain ⟨_, ⟨hne, hall, _⟩, _, _⟩ := hw
    obtain ⟨a, as, rfl⟩ : ∃ a as, k = a :: as := by
      cases k with
      | nil => exact absurd rfl hne
      | cons a as => exact ⟨a, as, rfl⟩
    have ha : isNameChar a = true := by simp only [List.all_cons, Bool.and_eq_true] at hall; exact hall.1
    exact ⟨a, _, rfl, nameChar_facts a ha⟩
  | pk => exact ⟨'p', _, rfl, by decide, by decide, by decide⟩
  | increment => exact ⟨'i', _, rfl, by decide, by decide, by decide⟩
  | unique => exact ⟨'u', _, rfl, by decide, by decide, by decide⟩
  | notNull => exact ⟨'n', _, rfl, by decide, by decide, by decide⟩
  | note t => exact ⟨'n', _, rfl, by decide, by decide, by decide⟩
  | defInt d => exact ⟨'d', _, rfl, by decide, by decide, by decide⟩
  | defStr t => exact ⟨'d', _, rfl, by decide, by decide, by decide⟩
  | defExpr e => exact ⟨'d', _, rfl, by decide, by decide, by decide⟩
  | ref k tn cn => exact ⟨'r', _, rfl, by decide, by decide, by decide⟩

theorem many_flags (props : Bool) (ws : List Flag) (post : Str) (hws : ∀ w ∈ ws, w.ok props) :
    ∀ (fuel : Nat) (c : Cur), ws.length < fuel → c.rest = moreFlags ws ++ ']' :: post → c.pastEnd = false →
      ∃ c', many (pbind (sym ",") fun _ => (if props then columnSettingWithProperty else columnSetting)) fuel c
          = .ok (ws.map Flag.setting) c'
        ∧ c'.rest = ']' :: post ∧ c'.pastEnd = false := by
  induction ws with
  | nil =>
    intro fuel c hf hc hp
    obtain ⟨f, rfl⟩ : ∃ f, fuel = f + 1 := ⟨fuel - 1, by simp at hf; omega⟩
    have hN : Next c ']' post := skipWs_rest_head c ']' _ (by simpa [moreFlags] using hc) (by decide)
    refine ⟨c, ?_, by simpa [moreFlags] using hc, hp⟩
    rw [many]
    simp [pbind, sym_fail "," c ']' post hN (by simp [startsWith])]
  | cons w r ih =>
    intro fuel c hf hc hp
    obtain ⟨f, rfl⟩ : ∃ f, fuel = f + 1 := ⟨fuel - 1, by simp at hf; omega⟩
    have hN : Next c ',' (' ' :: (w.text ++ moreFlags r ++ ']' :: post)) :=
      skipWs_rest_head c ',' _ (by rw [hc]; simp [moreFlags]) (by decide)
    obtain ⟨c1, hcm, hr1, hp1⟩ := sym_ok "," ',' rfl c _ hN hp
    obtain ⟨y, yr, hy, hyw, _, _⟩ := flag_text_head props w (hws w (by simp))
    -- what follows the word: a comma (more words) or the closing bracket
    obtain ⟨x, rest, hrest, hx⟩ : ∃ x rest, moreFlags r ++ ']' :: post = x :: rest ∧ (x = ',' ∨ x = ']') := by
      cases r with
      | nil => exact ⟨']', post, rfl, Or.inr rfl⟩
      | cons w2 r2 => exact ⟨',', ' ' :: (w2.text ++ moreFlags r2 ++ ']' :: post), by simp [moreFlags], Or.inl rfl⟩
    have hN1 : (skipWs c1).rest = w.text ++ x :: rest := by
      have := skipWs_rest_spaces c1 1 y (yr ++ (moreFlags r ++ ']' :: post)) (by rw [hr1, hy]; simp) hyw
      rw [this, hy, hrest]; simp
    obtain ⟨c2, hset, hr2, hp2⟩ := item_ok props c1 w x rest hN1 hx hp1 (hws w (by simp))
    obtain ⟨c3, hm, hr3, hp3⟩ := ih (fun q hq => hws q (by simp [hq])) f c2 (by simp at hf; omega) (by rw [hr2, hrest]) hp2
    refine ⟨c3, ?_, hr3, hp3⟩
    have hlen : c2.rest.length ≠ c.rest.length := by
      rw [hr2, hc, ← hrest]; simp [moreFlags]; omega
    rw [many]
    simp only [pbind, hcm, hset, hlen, decide_false, Bool.false_and, Bool.false_eq_true, ↓reduceIte, hm,
      List.map_cons]

theorem moreFlags_length (ws : List Flag) : ws.length ≤ (moreFlags ws).length := by
  induction ws with
  | nil => simp [moreFlags]
  | cons a b ih => simp [moreFlags]; omega

/-- `[w, ws…]` followed by a line break, in both grammars (with and without properties) -/
theorem settings_ok (props : Bool) (c : Cur) (w : Flag) (ws : List Flag) (rest : Str)
    (hn : (skipWs c).rest = '[' :: (w.text ++ moreFlags ws ++ ']' :: '\n' :: rest)) (hp : c.pastEnd = false)
    (hw : w.ok props) (hws : ∀ q ∈ ws, q.ok props) :
    ∃ c', (if props then columnSettingsWithProperties else columnSettings) c
        = .ok (foldColSettings ((w :: ws).map Flag.setting) none) c' ∧ c'.rest = '\n' :: rest ∧ c'.pastEnd = false := by
  obtain ⟨c1, hbr, hr1, hp1⟩ := sym_ok "[" '[' rfl c _ hn hp
  obtain ⟨y, yr, hy, hyw, hyn1, hyn2⟩ := flag_text_head props w hw
  obtain ⟨x, r', hrest, hx⟩ : ∃ x r', moreFlags ws ++ ']' :: '\n' :: rest = x :: r' ∧ (x = ',' ∨ x = ']') := by
    cases ws with
    | nil => exact ⟨']', '\n' :: rest, rfl, Or.inr rfl⟩
    | cons w2 r2 => exact ⟨',', ' ' :: (w2.text ++ moreFlags r2 ++ ']' :: '\n' :: rest), by simp [moreFlags], Or.inl rfl⟩
  have hN0 : Next c1 y (yr ++ (moreFlags ws ++ ']' :: '\n' :: rest)) :=
    skipWs_rest_head c1 y _ (by rw [hr1, hy]; simp) hyw
  have hN1 : (skipWs c1).rest = w.text ++ x :: r' := by
    rw [show (skipWs c1).rest = _ from hN0, hy, hrest]; simp
  have hq1 : skipNl c1 = .ok () c1 := by
    obtain ⟨q1, q2⟩ := quiet_of_next c1 y _ hN0 hyn1 hyn2
    exact skipNl_stay c1 q1 q2
  obtain ⟨c2, hset, hr2, hp2⟩ := item_ok props c1 w x r' hN1 hx hp1 hw
  have hq2 : skipNl c2 = .ok () c2 := by
    have hxw : isWs x = false := by rcases hx with rfl | rfl <;> decide
    have hN : Next c2 x r' := skipWs_rest_head c2 x r' hr2 hxw
    have hxn : x ≠ '\n' ∧ x ≠ '/' := by rcases hx with rfl | rfl <;> exact ⟨by decide, by decide⟩
    obtain ⟨q1, q2⟩ := quiet_of_next c2 x r' hN hxn.1 hxn.2
    exact skipNl_stay c2 q1 q2
  have hfuel : ws.length < c2.rest.length + 2 := by
    have := moreFlags_length ws
    rw [hr2, ← hrest]; simp only [List.length_append, List.length_cons]; omega
  have hN3 : ∀ c3 : Cur, c3.rest = ']' :: '\n' :: rest → Next c3 ']' ('\n' :: rest) :=
    fun c3 h => skipWs_rest_head c3 ']' _ h (by decide)
  cases props with
  | false =>
    obtain ⟨c3, hm, hr3, hp3⟩ := many_flags false ws ('\n' :: rest) hws (c2.rest.length + 2) c2
      hfuel (by rw [hr2, hrest]) hp2
    simp only [Bool.false_eq_true, ↓reduceIte] at hm hset
    obtain ⟨c4, hcl, hr4, hp4⟩ := sym_ok "]" ']' rfl c3 _ (hN3 c3 hr3) hp3
    have hN4 : Next c4 '\n' rest := skipWs_rest_head c4 '\n' _ hr4 (by decide)
    have hcm : cOpt c4 = .ok none c4 := by
      unfold cOpt opt
      rw [comment_fail c4 '\n' rest hN4 (by decide)]
    have hmF : manyF (pbind (sym ",") fun _ => columnSetting) c2 = .ok (ws.map Flag.setting) c3 := by
      unfold manyF fuelOf; exact hm
    refine ⟨c4, ?_, hr4, hp4⟩
    simp only [Bool.false_eq_true, ↓reduceIte]
    unfold columnSettings
    simp only [bind, pbind, hbr, cut, hset, hmF, hcl, hcm, pure, ppure, List.map_cons]
  | true =>
    obtain ⟨c3, hm, hr3, hp3⟩ := many_flags true ws ('\n' :: rest) hws
      (c2.rest.length + 2) c2 hfuel (by rw [hr2, hrest]) hp2
    simp only [↓reduceIte] at hm hset
    obtain ⟨c4, hcl, hr4, hp4⟩ := sym_ok "]" ']' rfl c3 _ (hN3 c3 hr3) hp3
    have hN4 : Next c4 '\n' rest := skipWs_rest_head c4 '\n' _ hr4 (by decide)
    have hcm : cOpt c4 = .ok none c4 := by
      unfold cOpt opt
      rw [comment_fail c4 '\n' rest hN4 (by decide)]
    have hmF : manyF (pbind (sym ",") fun _ => columnSettingWithProperty) c2 = .ok (ws.map Flag.setting) c3 := by
      unfold manyF fuelOf; exact hm
    refine ⟨c4, ?_, hr4, hp4⟩
    simp only [↓reduceIte]
    unfold columnSettingsWithProperties
    simp only [bind, pbind, hbr, cut, hq1, hset, hq2, hmF, hcl, hcm, pure, ppure, List.map_cons]

/-! ### one column line with settings: `    "name" type [w, ws…]` + LF -/

/-- `column_type` on a one-word type followed by a space -/
theorem columnType_word_sp (c : Cur) (ty r : Str) (hn : (skipWs c).rest = ty ++ ' ' :: r) (hty : TypeOK ty)
    (hp : c.pastEnd = false) : ∃ c', columnType c = .ok ty c' ∧ c'.rest = ' ' :: r ∧ c'.pastEnd = false := by
  obtain ⟨t0, ts, rfl⟩ : ∃ t0 ts, ty = t0 :: ts := by
    cases ty with
    | nil => exact absurd rfl hty.1
    | cons a as => exact ⟨a, as, rfl⟩
  have ht0 : isNameChar t0 = true := by have := hty.2; simp only [List.all_cons, Bool.and_eq_true] at this; exact this.1
  have ht0w : isWs t0 = false := (nameChar_facts t0 ht0).1
  have hsk : (skipWs (skipWs c)).rest = (t0 :: ts) ++ ' ' :: r := by rw [skipWs_idem]; exact hn
  obtain ⟨c2, hnm, hr2, hp2⟩ := name_ok (skipWs c) (t0 :: ts) (' ' :: r) hsk (by simp) hty.2
    (by intro x hx; simp at hx; subst hx; decide) (by simpa using hp)
  have hraw : nameRaw (skipWs c) = .ok (t0 :: ts) c2 := by
    unfold nameRaw
    rw [hn]
    simp only [List.cons_append, ht0w, Bool.false_eq_true, ↓reduceIte]
    exact hnm
  have hb1 : litRaw ['[', ']'] c2 = .fail := litRaw_fail _ c2 (by rw [hr2]; simp [startsWith])
  have hb2 : litRaw ['.'] c2 = .fail := litRaw_fail _ c2 (by rw [hr2]; simp [startsWith])
  have hb3 : typeArgs c2 = .fail := by
    unfold typeArgs
    rw [litRaw_fail ['('] c2 (by rw [hr2]; simp [startsWith])]
  refine ⟨c2, ?_, hr2, hp2⟩
  unfold columnType
  simp only [alt, bind, pbind, hraw, hb1, hb2, opt, hb3, pure, ppure, Option.getD_none, List.append_nil]

/-- what `parse_column` makes of a column whose only extras are its settings -/
def colOfSettings (nm ty : Str) (S : ColSettings) : Bp.ColBp :=
  { name := nm, type := ty, unique := false || S.unique, notNull := S.notNull, pk := false || S.pk,
    autoinc := S.autoinc, default := S.default, note := S.note, refs := S.refs,
    comment := (match S.comment with | some x => some x | none => joinBefore []), props := S.props }

def flagsText : List Flag → Str
  | [] => []
  | w :: ws => ' ' :: '[' :: (w.text ++ moreFlags ws ++ [']'])

theorem tableColumn_settings (props : Bool) (c : Cur) (cn ty : Str) (w : Flag) (ws : List Flag) (rest : Str)
    (hc : c.rest = ' ' :: ' ' :: ' ' :: ' ' :: '"' :: (cn ++ '"' :: ' ' :: (ty ++ flagsText (w :: ws) ++ '\n' :: rest)))
    (hp : c.pastEnd = false) (hcn : NameOK cn) (hty : TypeOK ty) (hw : w.ok props) (hws : ∀ q ∈ ws, q.ok props) :
    ∃ c', tableColumn props c = .ok (colOfSettings cn ty (foldColSettings ((w :: ws).map Flag.setting) none)) c'
      ∧ c'.rest = rest ∧ c'.pastEnd = false := by
  have hfl : ty ++ flagsText (w :: ws) ++ '\n' :: rest
      = ty ++ ' ' :: '[' :: (w.text ++ moreFlags ws ++ ']' :: '\n' :: rest) := by
    simp [flagsText]
  rw [hfl] at hc
  have hN : Next c '"' (cn ++ '"' :: ' ' :: (ty ++ ' ' :: '[' :: (w.text ++ moreFlags ws ++ ']' :: '\n' :: rest))) :=
    skipWs_rest_spaces c 4 '"' _ (by rw [hc]; rfl) (by decide)
  obtain ⟨q1, q2⟩ := quiet_of_next c '"' _ hN (by decide) (by decide)
  have hb : cBefore c = .ok [] c := cBefore_stay c q1 q2
  obtain ⟨c1, hnm, hr1, hp1⟩ := name_quoted_ok c cn _ hN hcn hp
  obtain ⟨t0, ts, hty0⟩ : ∃ t0 ts, ty = t0 :: ts := by
    cases ty with
    | nil => exact absurd rfl hty.1
    | cons a as => exact ⟨a, as, rfl⟩
  have ht0 : isNameChar t0 = true := by
    have := hty.2; rw [hty0] at this; simp only [List.all_cons, Bool.and_eq_true] at this; exact this.1
  have hN1 : (skipWs c1).rest = ty ++ ' ' :: '[' :: (w.text ++ moreFlags ws ++ ']' :: '\n' :: rest) :=
    skipWs_rest_spaces c1 1 t0 (ts ++ ' ' :: '[' :: (w.text ++ moreFlags ws ++ ']' :: '\n' :: rest))
      (by rw [hr1, hty0]; rfl) (nameChar_facts t0 ht0).1 |>.trans (by rw [hty0]; rfl)
  obtain ⟨c2, hct, hr2, hp2⟩ := columnType_word_sp c1 ty _ hN1 hty hp1
  have hN2 : Next c2 '[' (w.text ++ moreFlags ws ++ ']' :: '\n' :: rest) :=
    skipWs_rest_spaces c2 1 '[' _ (by rw [hr2]; rfl) (by decide)
  have hcons : manyF (alt (pbind (clit "unique") fun _ => ppure Constraint.unique)
      (pbind (clit "pk") fun _ => ppure Constraint.pk)) c2 = .ok [] c2 := by
    apply manyF_fail
    simp only [alt, pbind,
      clit_fail "unique" c2 _ _ hN2 (swc_ne '[' _ "unique" 'u' _ rfl (by decide)),
      clit_fail "pk" c2 _ _ hN2 (swc_ne '[' _ "pk" 'p' _ rfl (by decide))]
  have hcm : cOpt c2 = .ok none c2 := by
    unfold cOpt opt
    rw [comment_fail c2 '[' _ hN2 (by decide)]
  obtain ⟨c3, hset, hr3, hp3⟩ := settings_ok props c2 w ws rest hN2 hp2 hw hws
  have hs1 : opt (if props then columnSettingsWithProperties else columnSettings) c2
      = .ok (some (foldColSettings ((w :: ws).map Flag.setting) none)) c3 := by
    unfold opt; rw [hset]
  have hN3 : Next c3 '\n' rest := skipWs_rest_head c3 '\n' _ hr3 (by decide)
  obtain ⟨c4, hle, hr4, hp4⟩ := lineEnd_nl c3 rest hN3 hp3
  refine ⟨c4, ?_, hr4, hp4⟩
  unfold tableColumn
  simp only [bind, pbind, hb, hnm, hct, hcons, hcm, hs1, hle, pure, ppure, colOfSettings]
  rfl

/-! ### the form: a column with any subset of the four flags, possibly a note, and any number of properties -/

structure FCol where
  name : Str
  type : Str
  pk : Bool := false
  increment : Bool := false
  unique : Bool := false
  notNull : Bool := false
  /-- the empty text means: no note -/
  note : Str := []
  /-- arbitrary properties, in order -/
  props : List (Str × Str) := []
  /-- an integer default, as decimal digits; empty means: no default -/
  dflt : Str := []
  /-- the inline references the column declares (kind, names of the target table and column) -/
  irefs : List IRefT := []
  /-- a string default; empty means: none (at most one of `dflt`, `dstr`, `dexpr` is set) -/
  dstr : Str := []
  /-- an expression default (written between backticks); empty means: none -/
  dexpr : Str := []

/-- the ordinary settings in the order the renderer writes them -/
def FCol.base (s : FCol) : List Flag :=
  (if s.pk then [Flag.pk] else []) ++ (if s.increment then [Flag.increment] else [])
    ++ (if s.dflt.isEmpty then [] else [Flag.defInt s.dflt])
    ++ (if s.dstr.isEmpty then [] else [Flag.defStr s.dstr])
    ++ (if s.dexpr.isEmpty then [] else [Flag.defExpr s.dexpr])
    ++ (if s.unique then [Flag.unique] else []) ++ (if s.notNull then [Flag.notNull] else [])
    ++ (if s.note.isEmpty then [] else [Flag.note s.note])

def propFlags (ps : List (Str × Str)) : List Flag := ps.map fun kv => Flag.prop kv.1 kv.2
def refFlags (rs : List IRefT) : List Flag := rs.map fun r => Flag.ref r.kind r.tn r.cn

/-- all the settings in the renderer's order: the inline references, the ordinary ones, the properties -/
def FCol.flags (s : FCol) : List Flag := refFlags s.irefs ++ (s.base ++ propFlags s.props)

def FCol.str (s : FCol) : Str := '"' :: (s.name ++ '"' :: ' ' :: (s.type ++ flagsText s.flags))

def FCol.bp (s : FCol) : Bp.ColBp :=
  { name := s.name, type := s.type, unique := s.unique, notNull := s.notNull, pk := s.pk, autoinc := s.increment,
    note := if s.note.isEmpty then none else some s.note,
    props := if s.props.isEmpty then none else some s.props,
    default := if s.dflt.isEmpty then (if s.dstr.isEmpty then (if s.dexpr.isEmpty then none else some (.expr s.dexpr)) else some (.str s.dstr))
      else some (.int s.dflt),
    refs := s.irefs.map IRefT.bp }

def FCol.col (s : FCol) : Column :=
  { name := s.name, type := .plain s.type, unique := s.unique, notNull := s.notNull, pk := s.pk, autoinc := s.increment,
    note := s.note, props := s.props,
    default := if s.dflt.isEmpty then (if s.dstr.isEmpty then (if s.dexpr.isEmpty then none else some (.expr s.dexpr)) else some (.str s.dstr))
      else some (.int s.dflt) }

/-- a quoted name, a one-word type, a note that is one plain normalised line without a triple quote; properties
    only with the switch on, their keys pairwise different bare identifiers that are not read as settings, their
    values plain lines -/
structure FCol.ok (ap : Bool) (s : FCol) : Prop where
  name : NameOK s.name
  type : TypeOK s.type
  notePlain : Plain s.note
  noteTriple : hasTriple s.note = false
  noteNorm : norm s.note = s.note
  propsOn : s.props = [] ∨ ap = true
  keys : ∀ kv ∈ s.props, KeyOK kv.1
  values : ∀ kv ∈ s.props, Plain kv.2 ∧ hasTriple kv.2 = false
  distinct : s.props.Pairwise (fun a b => a.1 ≠ b.1)
  digits : s.dflt = [] ∨ DigitsOK s.dflt
  dstrOK : s.dstr = [] ∨ DStrOK s.dstr
  dexprOK : s.dexpr = [] ∨ DExprOK s.dexpr
  oneDefault : (s.dstr = [] ∧ s.dexpr = []) ∨ (s.dflt = [] ∧ s.dexpr = []) ∨ (s.dflt = [] ∧ s.dstr = [])
  refNames : ∀ r ∈ s.irefs, NameOK r.tn ∧ NameOK r.cn

theorem FCol.flags_ok (ap : Bool) (s : FCol) (hok : s.ok ap) : ∀ w ∈ s.flags, w.ok ap := by
  intro w hw
  simp only [FCol.flags, FCol.base, propFlags, refFlags, List.mem_append, List.mem_map] at hw
  rcases hw with ⟨r, hr, rfl⟩ | (((((((h | h) | h) | h) | h) | h) | h) | h) | ⟨kv, hkv, rfl⟩
  · exact hok.refNames r hr
  · split at h <;> simp at h; subst h; trivial
  · split at h <;> simp at h; subst h; trivial
  · split at h
    · simp at h
    · rename_i hne
      simp at h; subst h
      rcases hok.digits with hd | hd
      · rw [hd] at hne; simp at hne
      · exact hd
  · split at h
    · simp at h
    · rename_i hne
      simp at h; subst h
      rcases hok.dstrOK with hd | hd
      · rw [hd] at hne; simp at hne
      · exact hd
  · split at h
    · simp at h
    · rename_i hne
      simp at h; subst h
      rcases hok.dexprOK with hd | hd
      · rw [hd] at hne; simp at hne
      · exact hd
  · split at h <;> simp at h; subst h; trivial
  · split at h <;> simp at h; subst h; trivial
  · split at h <;> simp at h; subst h; exact ⟨hok.notePlain, hok.noteTriple⟩
  · have hap : ap = true := by
      rcases hok.propsOn with h | h
      · rw [h] at hkv; cases hkv
      · exact h
    exact ⟨hap, hok.keys kv hkv, hok.values kv hkv⟩

/-! #### `parse_column_settings` on ordinary settings followed by properties -/

def propItems (ps : List (Str × Str)) : List ColSetting := ps.map fun kv => ColSetting.prop kv.1 kv.2

def refItems (rs : List IRefT) : List ColSetting := rs.map fun r => ColSetting.ref r.bp

theorem map_setting_flags (s : FCol) :
    s.flags.map Flag.setting = refItems s.irefs ++ (s.base.map Flag.setting ++ propItems s.props) := by
  simp [FCol.flags, propFlags, propItems, refFlags, refItems, Flag.setting, Function.comp_def]

theorem foldl_refItems {β} (f : β → ColSetting → β) (hf : ∀ a r, f a (ColSetting.ref r) = a) (rs : List IRefT)
    (a : β) : (refItems rs).foldl f a = a := by
  induction rs generalizing a with
  | nil => rfl
  | cons p r ih => simp only [refItems, List.map_cons, List.foldl_cons, hf]; exact ih a

theorem any_refItems (f : ColSetting → Bool) (hf : ∀ r, f (ColSetting.ref r) = false) (rs : List IRefT) :
    (refItems rs).any f = false := by
  induction rs with
  | nil => rfl
  | cons p r ih => simp only [refItems, List.map_cons, List.any_cons, hf, Bool.false_or]; exact ih

theorem filterMap_refItems_none {β} (f : ColSetting → Option β) (hf : ∀ r, f (ColSetting.ref r) = none)
    (rs : List IRefT) : (refItems rs).filterMap f = [] := by
  induction rs with
  | nil => rfl
  | cons p r ih => simp only [refItems, List.map_cons, List.filterMap_cons, hf]; exact ih

theorem filterMap_refItems_some (f : ColSetting → Option Bp.RefBp) (hf : ∀ r, f (ColSetting.ref r) = some r)
    (rs : List IRefT) : (refItems rs).filterMap f = rs.map IRefT.bp := by
  induction rs with
  | nil => rfl
  | cons p r ih =>
    simp only [refItems, List.map_cons, List.filterMap_cons, hf]
    exact congrArg _ ih

/-- the settings dict of inline references followed by other settings: the references only add to `refs` -/
theorem fold_prefix_refs (rs : List IRefT) (B : List ColSetting) (cm : Option Str) :
    foldColSettings (refItems rs ++ B) cm
      = { foldColSettings B cm with refs := rs.map IRefT.bp ++ (foldColSettings B cm).refs } := by
  unfold foldColSettings
  simp only [List.foldl_append, List.any_append, List.filterMap_append]
  rw [foldl_refItems _ (fun _ _ => rfl), foldl_refItems _ (fun _ _ => rfl), foldl_refItems _ (fun _ _ => rfl),
    any_refItems _ (fun _ => rfl), any_refItems _ (fun _ => rfl), any_refItems _ (fun _ => rfl),
    filterMap_refItems_some _ (fun _ => rfl), filterMap_refItems_none _ (fun _ => rfl)]
  simp

theorem foldl_propItems {β} (f : β → ColSetting → β) (hf : ∀ a k v, f a (ColSetting.prop k v) = a) (ps : List (Str × Str))
    (a : β) : (propItems ps).foldl f a = a := by
  induction ps generalizing a with
  | nil => rfl
  | cons p r ih => simp only [propItems, List.map_cons, List.foldl_cons, hf]; exact ih a

theorem any_propItems (f : ColSetting → Bool) (hf : ∀ k v, f (ColSetting.prop k v) = false) (ps : List (Str × Str)) :
    (propItems ps).any f = false := by
  induction ps with
  | nil => rfl
  | cons p r ih => simp only [propItems, List.map_cons, List.any_cons, hf, Bool.false_or]; exact ih

theorem filterMap_propItems_none {β} (f : ColSetting → Option β) (hf : ∀ k v, f (ColSetting.prop k v) = none)
    (ps : List (Str × Str)) : (propItems ps).filterMap f = [] := by
  induction ps with
  | nil => rfl
  | cons p r ih => simp only [propItems, List.map_cons, List.filterMap_cons, hf]; exact ih

theorem filterMap_propItems_some (f : ColSetting → Option (Str × Str)) (hf : ∀ k v, f (ColSetting.prop k v) = some (k, v))
    (ps : List (Str × Str)) : (propItems ps).filterMap f = ps := by
  induction ps with
  | nil => rfl
  | cons p r ih =>
    simp only [propItems, List.map_cons, List.filterMap_cons, hf]
    exact congrArg _ ih

/-- the settings dict of ordinary settings followed by properties: the ordinary part decides everything but `props` -/
theorem filterMap_none_append {α β} (A : List α) (f : α → Option β) (ps : List β) (h : ∀ x ∈ A, f x = none) :
    A.filterMap f ++ ps = ps := by
  rw [List.filterMap_eq_nil_iff.mpr h]; rfl

theorem fold_append_props (A : List ColSetting) (ps : List (Str × Str))
    (hA : ∀ x ∈ A, ∀ k v, x ≠ ColSetting.prop k v) :
    foldColSettings (A ++ propItems ps) none
      = { foldColSettings A none with props := if ps.isEmpty then none else some (Bp.dictOf ps) } := by
  unfold foldColSettings
  simp only [List.foldl_append, List.any_append, List.filterMap_append]
  rw [foldl_propItems _ (fun _ _ _ => rfl), foldl_propItems _ (fun _ _ _ => rfl), foldl_propItems _ (fun _ _ _ => rfl),
    any_propItems _ (fun _ _ => rfl), any_propItems _ (fun _ _ => rfl), any_propItems _ (fun _ _ => rfl),
    filterMap_propItems_some _ (fun _ _ => rfl), filterMap_propItems_none _ (fun _ _ => rfl),
    filterMap_none_append A _ ps (fun x hx => by
      cases x with
      | prop k v => exact absurd rfl (hA _ hx k v)
      | _ => rfl)]
  simp

theorem dictSet_new (d : List (Str × Str)) (k v : Str) (h : ∀ p ∈ d, p.1 ≠ k) : Bp.dictSet d k v = d ++ [(k, v)] := by
  unfold Bp.dictSet
  have : d.any (fun p => p.1 == k) = false := by
    rw [List.any_eq_false]; intro p hp; simpa using h p hp
  simp [this]

theorem dictOf_distinct (ps : List (Str × Str)) (h : ps.Pairwise (fun a b => a.1 ≠ b.1)) : Bp.dictOf ps = ps := by
  have key : ∀ (ps d : List (Str × Str)), (d ++ ps).Pairwise (fun a b => a.1 ≠ b.1) →
      ps.foldl (fun d p => Bp.dictSet d p.1 p.2) d = d ++ ps := by
    intro ps
    induction ps with
    | nil => intro d _; simp
    | cons p r ih =>
      intro d hd
      rw [List.foldl_cons, dictSet_new d p.1 p.2 (by
        intro q hq
        have := List.pairwise_append.mp hd
        exact this.2.2 q hq p (by simp))]
      have := ih (d ++ [p]) (by simpa using hd)
      simpa using this
  unfold Bp.dictOf
  simpa using key ps [] (by simpa using h)

theorem FCol.base_no_prop (s : FCol) : ∀ x ∈ s.base.map Flag.setting, ∀ k v, x ≠ ColSetting.prop k v := by
  intro x hx k v h
  simp only [List.mem_map] at hx
  obtain ⟨w, hw, rfl⟩ := hx
  simp only [FCol.base, List.mem_append] at hw
  rcases hw with ((((((h' | h') | h') | h') | h') | h') | h') | h' <;> (split at h' <;> simp at h'; subst h'; simp [Flag.setting] at h)

theorem FCol.base_refs (s : FCol) : (foldColSettings (s.base.map Flag.setting) none).refs = [] := by
  show (s.base.map Flag.setting).filterMap (fun x => match x with | .ref r => some r | _ => none) = []
  rw [List.filterMap_eq_nil_iff]
  intro x hx
  obtain ⟨w, hw, rfl⟩ := List.mem_map.mp hx
  simp only [FCol.base, List.mem_append] at hw
  rcases hw with ((((((h' | h') | h') | h') | h') | h') | h') | h' <;> (split at h' <;> simp at h'; subst h'; rfl)

theorem map_ite1 {α β} (c : Prop) [Decidable c] (x : α) (f : α → β) : (if c then [x] else []).map f = if c then [f x] else [] := by
  split <;> rfl
theorem map_ite0 {α β} (c : Prop) [Decidable c] (x : α) (f : α → β) : (if c then [] else [x]).map f = if c then [] else [f x] := by
  split <;> rfl
theorem foldl_ite1 {α β} (c : Prop) [Decidable c] (x : α) (f : β → α → β) (a : β) : (if c then [x] else []).foldl f a = if c then f a x else a := by
  split <;> rfl
theorem foldl_ite0 {α β} (c : Prop) [Decidable c] (x : α) (f : β → α → β) (a : β) : (if c then [] else [x]).foldl f a = if c then a else f a x := by
  split <;> rfl
theorem any_ite1 {α} (c : Prop) [Decidable c] (x : α) (p : α → Bool) : (if c then [x] else []).any p = (decide c && p x) := by
  split <;> simp [*]
theorem any_ite0 {α} (c : Prop) [Decidable c] (x : α) (p : α → Bool) : (if c then [] else [x]).any p = (!decide c && p x) := by
  split <;> simp [*]
theorem filterMap_ite1 {α β} (c : Prop) [Decidable c] (x : α) (f : α → Option β) : (if c then [x] else []).filterMap f = if c then (f x).toList else [] := by
  split <;> simp [List.filterMap_cons]; cases f x <;> rfl
theorem filterMap_ite0 {α β} (c : Prop) [Decidable c] (x : α) (f : α → Option β) : (if c then [] else [x]).filterMap f = if c then [] else (f x).toList := by
  split <;> simp [List.filterMap_cons]; cases f x <;> rfl

theorem base_fold (s : FCol) :
    foldColSettings (s.base.map Flag.setting) none
      = { notNull := s.notNull, pk := s.pk, unique := s.unique, autoinc := s.increment,
          note := if s.note.isEmpty then none else some s.note,
          default := if s.dexpr.isEmpty then (if s.dstr.isEmpty then (if s.dflt.isEmpty then none else some (.int s.dflt)) else some (.str s.dstr))
                     else some (.expr s.dexpr),
          refs := [], comment := none, props := none } := by
  unfold foldColSettings FCol.base
  simp only [List.map_append, map_ite1, map_ite0, List.foldl_append, foldl_ite1, foldl_ite0, List.any_append, any_ite1, any_ite0,
    List.filterMap_append, filterMap_ite1, filterMap_ite0, Flag.setting]
  simp
  cases s.notNull <;> rfl

theorem FCol.settings_bp (s : FCol) (w : Flag) (ws : List Flag) (h : s.flags = w :: ws)
    (hd : s.props.Pairwise (fun a b => a.1 ≠ b.1))
    (hone : (s.dstr = [] ∧ s.dexpr = []) ∨ (s.dflt = [] ∧ s.dexpr = []) ∨ (s.dflt = [] ∧ s.dstr = [])) :
    colOfSettings s.name s.type (foldColSettings ((w :: ws).map Flag.setting) none) = s.bp := by
  rw [← h, map_setting_flags, fold_prefix_refs, fold_append_props _ _ (FCol.base_no_prop s), base_fold]
  have hdict := dictOf_distinct s.props hd
  simp only [colOfSettings, FCol.bp, hdict, List.append_nil]
  rcases hone with ⟨h1, h2⟩ | ⟨h1, h2⟩ | ⟨h1, h2⟩ <;> simp [h1, h2, joinBefore]

theorem FCol.plain_bp (s : FCol) (h : s.flags = []) : plainCol s.name s.type = s.bp := by
  obtain ⟨n, t, a, b, c, d, e, ps, dd, rr, ds, de⟩ := s
  cases rr with
  | cons p r => exfalso; simp [FCol.flags, refFlags] at h
  | nil =>
  cases ps with
  | cons p r => exfalso; simp [FCol.flags, propFlags] at h
  | nil =>
    cases dd <;> cases ds <;> cases de <;> cases e <;> cases a <;> cases b <;> cases c <;> cases d <;>
      first | rfl | (exfalso; simp [FCol.flags, FCol.base, propFlags, refFlags] at h)

/-! #### the rendered line -/

theorem flag_text_line (ap : Bool) (w : Flag) (hw : w.ok ap) : LineOK w.text ∧ ∀ ch ∈ w.text, ch ≠ '\t' := by
  have quoted : ∀ (pre t : Str), Plain t → (∀ c ∈ pre, isLineBreak c = false ∧ c ≠ '\t') →
      LineOK (pre ++ '\'' :: (prepareTextForDbml t ++ ['\''])) ∧ ∀ ch ∈ pre ++ '\'' :: (prepareTextForDbml t ++ ['\'']), ch ≠ '\t' := by
    intro pre t ht hpre
    have e : pre ++ '\'' :: (prepareTextForDbml t ++ ['\'']) = pre ++ ['\''] ++ prepareTextForDbml t ++ ['\''] := by simp
    rw [e]
    constructor
    · intro c hc
      simp only [List.mem_append] at hc
      rcases hc with ((h | h) | h) | h
      · exact (hpre c h).1
      · exact (by decide : ∀ c ∈ ['\''], isLineBreak c = false) c h
      · rcases prepare_mem _ c h with h' | rfl
        · exact (ht c h').1
        · decide
      · exact (by decide : ∀ c ∈ ['\''], isLineBreak c = false) c h
    · intro c hc
      simp only [List.mem_append] at hc
      rcases hc with ((h | h) | h) | h
      · exact (hpre c h).2
      · exact (by decide : ∀ c ∈ ['\''], c ≠ '\t') c h
      · rcases prepare_mem _ c h with h' | rfl
        · exact (ht c h').2
        · decide
      · exact (by decide : ∀ c ∈ ['\''], c ≠ '\t') c h
  cases w with
  | note t =>
    obtain ⟨ht, _⟩ := hw
    have := quoted ['n', 'o', 't', 'e', ':', ' '] t ht (by decide)
    simpa [Flag.text] using this
  | defStr t =>
    obtain ⟨ht, _⟩ := hw
    have := quoted ['d', 'e', 'f', 'a', 'u', 'l', 't', ':', ' '] t ht (by decide)
    simpa [Flag.text] using this
  | defExpr e =>
    obtain ⟨_, hall⟩ := hw
    have e1 : (Flag.defExpr e).text = ['d', 'e', 'f', 'a', 'u', 'l', 't', ':', ' ', '`'] ++ e ++ ['`'] := by simp [Flag.text]
    constructor
    · intro c hc
      rw [e1] at hc; simp only [List.mem_append] at hc
      rcases hc with (h | h) | h
      · exact (by decide : ∀ c ∈ ['d', 'e', 'f', 'a', 'u', 'l', 't', ':', ' ', '`'], isLineBreak c = false) c h
      · exact (hall c h).2.1
      · exact (by decide : ∀ c ∈ ['`'], isLineBreak c = false) c h
    · intro c hc
      rw [e1] at hc; simp only [List.mem_append] at hc
      rcases hc with (h | h) | h
      · exact (by decide : ∀ c ∈ ['d', 'e', 'f', 'a', 'u', 'l', 't', ':', ' ', '`'], c ≠ '\t') c h
      · exact (hall c h).2.2
      · exact (by decide : ∀ c ∈ ['`'], c ≠ '\t') c h
  | prop k v =>
    obtain ⟨_, ⟨_, hall, _⟩, hv, _⟩ := hw
    have hk : ∀ c ∈ k ++ [':', ' '], isLineBreak c = false ∧ c ≠ '\t' := by
      intro c hc
      simp only [List.mem_append] at hc
      rcases hc with h | h
      · have hc' : isNameChar c = true := by simp only [List.all_eq_true] at hall; exact hall c h
        exact ⟨nameChar_not_lineBreak c hc', nameChar_not_tab c hc'⟩
      · exact (by decide : ∀ c ∈ [':', ' '], isLineBreak c = false ∧ c ≠ '\t') c h
    have := quoted (k ++ [':', ' ']) v hv hk
    simpa [Flag.text] using this
  | defInt d =>
    obtain ⟨_, hall, _, _⟩ := hw
    have e : (Flag.defInt d).text = ['d', 'e', 'f', 'a', 'u', 'l', 't', ':', ' '] ++ d := by simp [Flag.text]
    have hd : ∀ c ∈ d, isNameChar c = true := by
      intro c hc
      have := List.all_eq_true.mp hall c hc
      simp [isNameChar, isAlnum, this]
    constructor
    · intro c hc
      rw [e] at hc
      rcases List.mem_append.mp hc with h | h
      · exact (by decide : ∀ c ∈ ['d', 'e', 'f', 'a', 'u', 'l', 't', ':', ' '], isLineBreak c = false) c h
      · exact nameChar_not_lineBreak c (hd c h)
    · intro c hc
      rw [e] at hc
      rcases List.mem_append.mp hc with h | h
      · exact (by decide : ∀ c ∈ ['d', 'e', 'f', 'a', 'u', 'l', 't', ':', ' '], c ≠ '\t') c h
      · exact nameChar_not_tab c (hd c h)
  | ref k tn cn =>
    obtain ⟨htn, hcn⟩ := hw
    have e : (Flag.ref k tn cn).text = ['r', 'e', 'f', ':', ' '] ++ k.sym ++ [' ', '"'] ++ tn ++ ['"', '.', '"'] ++ cn ++ ['"'] := by
      simp [Flag.text, IRefT.text]
    have hk : ∀ c ∈ k.sym, isLineBreak c = false ∧ c ≠ '\t' := by cases k <;> decide
    constructor
    · intro c hc
      rw [e] at hc; simp only [List.mem_append] at hc
      rcases hc with (((((h | h) | h) | h) | h) | h) | h
      · exact (by decide : ∀ c ∈ ['r', 'e', 'f', ':', ' '], isLineBreak c = false) c h
      · exact (hk c h).1
      · exact (by decide : ∀ c ∈ [' ', '"'], isLineBreak c = false) c h
      · exact (htn c h).2.2.1
      · exact (by decide : ∀ c ∈ ['"', '.', '"'], isLineBreak c = false) c h
      · exact (hcn c h).2.2.1
      · exact (by decide : ∀ c ∈ ['"'], isLineBreak c = false) c h
    · intro c hc
      rw [e] at hc; simp only [List.mem_append] at hc
      rcases hc with (((((h | h) | h) | h) | h) | h) | h
      · exact (by decide : ∀ c ∈ ['r', 'e', 'f', ':', ' '], c ≠ '\t') c h
      · exact (hk c h).2
      · exact (by decide : ∀ c ∈ [' ', '"'], c ≠ '\t') c h
      · exact (htn c h).2.2.2
      · exact (by decide : ∀ c ∈ ['"', '.', '"'], c ≠ '\t') c h
      · exact (hcn c h).2.2.2
      · exact (by decide : ∀ c ∈ ['"'], c ≠ '\t') c h
  | pk => exact ⟨by intro c hc; revert c; decide, by intro c hc; revert c; decide⟩
  | increment => exact ⟨by intro c hc; revert c; decide, by intro c hc; revert c; decide⟩
  | unique => exact ⟨by intro c hc; revert c; decide, by intro c hc; revert c; decide⟩
  | notNull => exact ⟨by intro c hc; revert c; decide, by intro c hc; revert c; decide⟩

theorem moreFlags_line (ap : Bool) (ws : List Flag) (hws : ∀ w ∈ ws, w.ok ap) :
    LineOK (moreFlags ws) ∧ ∀ ch ∈ moreFlags ws, ch ≠ '\t' := by
  induction ws with
  | nil => exact ⟨by intro c hc; simp [moreFlags] at hc, by intro c hc; simp [moreFlags] at hc⟩
  | cons w r ih =>
    have ih := ih (fun q hq => hws q (by simp [hq]))
    have hw := hws w (by simp)
    have e : moreFlags (w :: r) = [',', ' '] ++ w.text ++ moreFlags r := by simp [moreFlags]
    constructor
    · intro c hc
      rw [e] at hc; simp only [List.mem_append] at hc
      rcases hc with (h | h) | h
      · exact (by decide : ∀ c ∈ [',', ' '], isLineBreak c = false) c h
      · exact (flag_text_line ap w hw).1 c h
      · exact ih.1 c h
    · intro c hc
      rw [e] at hc; simp only [List.mem_append] at hc
      rcases hc with (h | h) | h
      · exact (by decide : ∀ c ∈ [',', ' '], c ≠ '\t') c h
      · exact (flag_text_line ap w hw).2 c h
      · exact ih.2 c h

theorem flagsText_line (ap : Bool) (ws : List Flag) (hws : ∀ w ∈ ws, w.ok ap) :
    LineOK (flagsText ws) ∧ ∀ ch ∈ flagsText ws, ch ≠ '\t' := by
  cases ws with
  | nil => exact ⟨by intro c hc; simp [flagsText] at hc, by intro c hc; simp [flagsText] at hc⟩
  | cons w r =>
    have hw := hws w (by simp)
    have hr := moreFlags_line ap r (fun q hq => hws q (by simp [hq]))
    have e : flagsText (w :: r) = [' ', '['] ++ w.text ++ moreFlags r ++ [']'] := by simp [flagsText]
    constructor
    · intro c hc
      rw [e] at hc; simp only [List.mem_append] at hc
      rcases hc with ((h | h) | h) | h
      · exact (by decide : ∀ c ∈ [' ', '['], isLineBreak c = false) c h
      · exact (flag_text_line ap w hw).1 c h
      · exact hr.1 c h
      · exact (by decide : ∀ c ∈ [']'], isLineBreak c = false) c h
    · intro c hc
      rw [e] at hc; simp only [List.mem_append] at hc
      rcases hc with ((h | h) | h) | h
      · exact (by decide : ∀ c ∈ [' ', '['], c ≠ '\t') c h
      · exact (flag_text_line ap w hw).2 c h
      · exact hr.2 c h
      · exact (by decide : ∀ c ∈ [']'], c ≠ '\t') c h

theorem FCol.str_split (s : FCol) : s.str = colStr (s.name, s.type) ++ flagsText s.flags := by
  simp [FCol.str, colStr]

theorem containsChar_plain (t : Str) (ht : Plain t) : containsChar '\n' t = false := by
  unfold containsChar
  rw [List.any_eq_false]
  intro c hc
  have := (ht c hc).1
  intro h
  simp at h
  subst h
  simp [isLineBreak] at this

theorem joinWith_flags (w : Flag) (ws : List Flag) :
    joinWith [',', ' '] ((w :: ws).map Flag.text) = w.text ++ moreFlags ws := by
  induction ws generalizing w with
  | nil => simp [joinWith, moreFlags]
  | cons a r ih =>
    have := ih a
    simp only [List.map_cons] at this ⊢
    rw [joinWith.eq_3 _ _ _ (by simp), this]
    simp [moreFlags]

/-- the bracket the renderer writes for a list of option texts -/
theorem flagsText_eq (ws : List Flag) :
    flagsText ws = if (ws.map Flag.text).isEmpty then [] else lit " [" ++ joinWith (lit ", ") (ws.map Flag.text) ++ [']'] := by
  cases ws with
  | nil => rfl
  | cons w r =>
    have := joinWith_flags w r
    simp only [List.map_cons] at this
    simp [flagsText, lit, this]

theorem stripLeadingZeros_digits (d : Str) (h : DigitsOK d) : stripLeadingZeros d = d := by
  obtain ⟨hne, _, hhead, _⟩ := h
  cases d with
  | nil => exact absurd rfl hne
  | cons x xs =>
    have hx : x ≠ '0' := by intro e; subst e; simp at hhead
    simp [stripLeadingZeros, List.dropWhile, hx]

theorem truthy_digits (d : Str) (h : DigitsOK d) : (DefaultVal.int d).truthy = true := by
  obtain ⟨hne, _, hhead, _⟩ := h
  cases d with
  | nil => exact absurd rfl hne
  | cons x xs =>
    have hx : x ≠ '0' := by intro e; subst e; simp at hhead
    simp [DefaultVal.truthy, hx]

theorem FCol.render (db : Db) (ti ci : Nat) (s : FCol) (hok : s.ok db.allowProps)
    (hinl : (Dbml.inlineRefsOfColumn db ti ci).mapM (Dbml.renderInlineRef db) = .ok (s.irefs.map IRefT.text)) :
    Dbml.renderColumn db ti ci s.col = .ok s.str := by
  generalize hap : db.allowProps = ap at hok
  have hnl := containsChar_plain s.note hok.notePlain
  have hdig := hok.digits
  have hprops : (if ap then s.props.map (fun (kv : Str × Str) => kv.1 ++ lit ": " ++ quoteString kv.2) else [])
      = (propFlags s.props).map Flag.text := by
    rcases hok.propsOn with h | h
    · rw [h]; cases ap <;> rfl
    · subst h
      simp only [↓reduceIte, propFlags, List.map_map]
      apply List.map_congr_left
      intro kv hkv
      have := containsChar_plain kv.2 (hok.values kv hkv).1
      simp [quoteString, this, Flag.text, lit]
  have hopts : (s.irefs.map IRefT.text)
      ++ (if s.col.pk then [lit "pk"] else [])
      ++ (if s.col.autoinc then [lit "increment"] else [])
      ++ (match s.col.default with
          | some d => if d.truthy then [lit "default: " ++ Dbml.defaultToStr d] else []
          | none => [])
      ++ (if s.col.unique then [lit "unique"] else [])
      ++ (if s.col.notNull then [lit "not null"] else [])
      ++ (if s.col.note.isEmpty then [] else [noteOptionToDbml s.col.note])
      ++ (if ap then s.col.props.map fun (x : Str × Str) => x.fst ++ lit ": " ++ quoteString x.snd else [])
      = s.flags.map Flag.text := by
    have e : (if ap then s.col.props.map fun (x : Str × Str) => x.fst ++ lit ": " ++ quoteString x.snd else [])
        = (propFlags s.props).map Flag.text := hprops
    rw [e]
    have hrf : s.irefs.map IRefT.text = (refFlags s.irefs).map Flag.text := by
      simp [refFlags, Flag.text, Function.comp_def]
    rw [hrf]
    simp only [FCol.flags, List.map_append, List.append_assoc]
    congr 1
    simp only [← List.append_assoc]
    congr 1
    have hone := hok.oneDefault
    have hds := hok.dstrOK
    obtain ⟨n, t, a, b, c, d, e', ps, dd, rr, ds, de⟩ := s
    rcases hone with ⟨h1, h2⟩ | ⟨h1, h2⟩ | ⟨h1, h2⟩
    · simp only at h1 h2
      subst h1; subst h2
      cases dd with
      | nil =>
        cases e' <;> cases a <;> cases b <;> cases c <;> cases d <;>
          simp [FCol.col, FCol.base, Flag.text, lit, noteOptionToDbml] <;> simp [hnl] at *
      | cons x0 xs0 =>
        have ht := truthy_digits (x0 :: xs0) (by simpa using hdig)
        cases e' <;> cases a <;> cases b <;> cases c <;> cases d <;>
          simp [FCol.col, FCol.base, Flag.text, lit, noteOptionToDbml, ht, Dbml.defaultToStr] <;> simp [hnl] at *
    · simp only at h1 h2
      subst h1; subst h2
      cases ds with
      | nil =>
        cases e' <;> cases a <;> cases b <;> cases c <;> cases d <;>
          simp [FCol.col, FCol.base, Flag.text, lit, noteOptionToDbml] <;> simp [hnl] at *
      | cons y0 ys0 =>
        have hq : Dbml.defaultToStr (DefaultVal.str (y0 :: ys0)) = '\'' :: prepareTextForDbml (y0 :: ys0) ++ ['\''] := by
          rcases hds with h0 | ⟨_, _, _, h1, h2, h3⟩
          · cases h0
          · simp [Dbml.defaultToStr, h1, h2, h3]
        cases e' <;> cases a <;> cases b <;> cases c <;> cases d <;>
          simp [FCol.col, FCol.base, Flag.text, lit, noteOptionToDbml, DefaultVal.truthy, hq] <;> simp [hnl] at *
    · simp only at h1 h2
      subst h1; subst h2
      cases de with
      | nil =>
        cases e' <;> cases a <;> cases b <;> cases c <;> cases d <;>
          simp [FCol.col, FCol.base, Flag.text, lit, noteOptionToDbml] <;> simp [hnl] at *
      | cons y0 ys0 =>
        cases e' <;> cases a <;> cases b <;> cases c <;> cases d <;>
          simp [FCol.col, FCol.base, Flag.text, lit, noteOptionToDbml, DefaultVal.truthy, Dbml.defaultToStr] <;> simp [hnl] at *
  have fin : ∀ opts : List Str, opts = s.flags.map Flag.text →
      (Except.ok (Dbml.optComment s.col.comment ++ '"' :: s.col.name ++ lit "\" " ++ s.type ++
        (if opts.isEmpty then [] else lit " [" ++ joinWith (lit ", ") opts ++ [']'])) : R Str) = .ok s.str := by
    intro opts ho
    rw [ho, FCol.str, flagsText_eq]
    simp [FCol.col, Dbml.optComment, lit]
  unfold Dbml.renderColumn
  have hty : Sql.typeText db s.col = .ok s.type := by
    simp [Sql.typeText, FCol.col, pure, Except.pure]
  simp only [hty, hinl, bind, Except.bind, pure, Except.pure, hap]
  exact fin _ hopts

def flagForm : ColForm FCol where
  str := FCol.str
  bp := FCol.bp
  col := FCol.col
  ok := FCol.ok
  quoted := fun s => ⟨_, rfl⟩
  parse := by
    intro props c s rest hc hp hok
    cases hf : s.flags with
    | nil =>
      have := tableColumn_ok props c s.name s.type rest (by rw [hc]; simp [FCol.str, hf, flagsText, colLine]) hp
        hok.name hok.type
      rw [FCol.plain_bp s hf] at this
      exact this
    | cons w ws =>
      have hall := FCol.flags_ok props s hok
      rw [hf] at hall
      have := tableColumn_settings props c s.name s.type w ws rest (by rw [hc]; simp [FCol.str, hf]) hp hok.name hok.type
        (hall w (by simp)) (fun q hq => hall q (by simp [hq]))
      rw [FCol.settings_bp s w ws hf hok.distinct hok.oneDefault] at this
      exact this
  noTab := by
    intro ap s hok ch hch
    rw [FCol.str_split] at hch
    simp only [List.mem_append] at hch
    rcases hch with h | h
    · have e : colStr (s.name, s.type) = ['"'] ++ s.name ++ ['"', ' '] ++ s.type := by simp [colStr]
      rw [e] at h; simp only [List.mem_append] at h
      rcases h with ((h | h) | h) | h
      · exact (by decide : ∀ c ∈ ['"'], c ≠ '\t') ch h
      · exact (hok.name ch h).2.2.2
      · exact (by decide : ∀ c ∈ ['"', ' '], c ≠ '\t') ch h
      · exact typeOK_no_tab s.type hok.type ch h
    · exact (flagsText_line ap s.flags (FCol.flags_ok ap s hok)).2 ch h
  lineOK := by
    intro ap s hok ch hch
    rw [FCol.str_split] at hch
    simp only [List.mem_append] at hch
    rcases hch with h | h
    · exact colStr_ok (s.name, s.type) hok.name hok.type ch h
    · exact (flagsText_line ap s.flags (FCol.flags_ok ap s hok)).1 ch h
  irefs := FCol.irefs
  bp_refs := fun _ => rfl
  build := by
    intro ap enums s hok hres
    have hn := hok.noteNorm
    have hdig := hok.digits
    obtain ⟨n, t, a, b, c, d, e, ps, dd, rr, ds, de⟩ := s
    have hres' : resolveTypePure enums t = ColType.plain t := hres
    cases dd with
    | nil =>
      cases ds <;> cases de <;> cases ps <;> cases e <;>
        simp_all [buildColumn, buildDefault, resolveType, buildNote, FCol.bp, FCol.col,
          bind, Except.bind, pure, Except.pure]
    | cons x0 xs0 =>
      have hs := stripLeadingZeros_digits (x0 :: xs0) (by simpa using hdig)
      cases ps <;> cases e <;>
        simp_all [buildColumn, buildDefault, resolveType, buildNote, FCol.bp, FCol.col,
          bind, Except.bind, pure, Except.pure]
  render := fun db ti ci s hok hinl => FCol.render db ti ci s hok hinl

/-- **C02 (and C15) for a table whose columns carry settings, end to end**: a database holding one table in schema
    public with any positive number of columns, each with a quoted name, a one-word type, ANY SUBSET of the settings
    `pk`, `increment`, `unique`, `not null`, possibly an integer, a one-line string or a backtick-expression default, a one-line note and - when the properties switch is on - any
    number of arbitrary properties `key: 'value'` (keys and values exact, order kept), is rendered to DBML and parsed
    back to exactly the same database.  The settings travel through `column_settings` (switch off) or
    `column_settings_with_properties` (switch on), `parse_column_settings`, `ColumnBlueprint.build` (where the note
    is normalised) and `render_column`. -/
theorem flags_table_roundtrip_partial (ap : Bool) (tn : Str) (cs : List FCol)
    (htn : NameOK tn) (hcs : ∀ s ∈ cs, s.ok ap) (hne : cs ≠ []) (hno : ∀ s ∈ cs, s.irefs = []) :
    ∃ text, Dbml.renderDb { tables := [{ name := tn, columns := cs.map FCol.col }], allowProps := ap } = .ok text
      ∧ Build.parse ap text
          = .ok { tables := [{ name := tn, columns := cs.map FCol.col }], allowProps := ap } :=
  form_roundtrip flagForm ap tn cs htn hcs hne hno

/-- a key whose first letter begins no setting word is a property key -/
theorem keyOK_of_first (x : Char) (xs : Str) (hall : (x :: xs).all isNameChar = true)
    (hx : pyUpper1 x ∉ [pyUpper1 'n', pyUpper1 'p', pyUpper1 'u', pyUpper1 'i', pyUpper1 'r', pyUpper1 'd']) :
    KeyOK (x :: xs) := by
  refine ⟨by simp, hall, ?_⟩
  intro kw hkw r
  simp only [List.mem_cons, List.mem_nil_iff, or_false, not_or] at hx
  simp only [settingWords, List.mem_cons, List.mem_nil_iff, or_false] at hkw
  rcases hkw with rfl | rfl | rfl | rfl | rfl | rfl | rfl | rfl | rfl <;>
    simp [startsWithCaseless, Ne.symm hx.1, Ne.symm hx.2.1, Ne.symm hx.2.2.1, Ne.symm hx.2.2.2.1, Ne.symm hx.2.2.2.2.1,
      Ne.symm hx.2.2.2.2.2]

/-- non-vacuity: a primary key with auto-increment, a unique not-null column with a note and two properties
    (switch on), a column with an integer default -/
example : ∀ s ∈ [({ name := lit "id", type := lit "int", pk := true, increment := true } : FCol),
      { name := lit "e mail", type := lit "varchar", unique := true, notNull := true, note := lit "it's the login",
        props := [(lit "color", lit "red"), (lit "weight", lit "1 kg")] },
      { name := lit "age", type := lit "int", dflt := lit "18" }], s.ok true := by
  intro s hs
  simp at hs
  rcases hs with rfl | rfl | rfl
  · exact ⟨fun c hc => by revert c; decide, ⟨by decide, by decide⟩, fun c hc => by revert c; decide, by decide, by decide,
      Or.inl rfl, (by intro kv h; cases h), (by intro kv h; cases h), by simp, Or.inl rfl, Or.inl rfl, Or.inl rfl, Or.inl ⟨rfl, rfl⟩, (by intro r h; cases h)⟩
  · refine ⟨fun c hc => by revert c; decide, ⟨by decide, by decide⟩, fun c hc => by revert c; decide, by decide, by decide,
      Or.inr rfl, ?_, ?_, by decide, Or.inl rfl, Or.inl rfl, Or.inl rfl, Or.inl ⟨rfl, rfl⟩, (by intro r h; cases h)⟩
    · intro kv h
      simp at h
      rcases h with rfl | rfl
      · exact keyOK_of_first 'c' _ (by decide) (by decide)
      · exact keyOK_of_first 'w' _ (by decide) (by decide)
    · intro kv h
      simp at h
      rcases h with rfl | rfl <;> exact ⟨fun c hc => by revert c; decide, by decide⟩
  · exact ⟨fun c hc => by revert c; decide, ⟨by decide, by decide⟩, fun c hc => by revert c; decide, by decide, by decide,
      Or.inl rfl, (by intro kv h; cases h), (by intro kv h; cases h), by simp, Or.inr ⟨by decide, by decide, by decide, by decide⟩, Or.inl rfl, Or.inl rfl, Or.inl ⟨rfl, rfl⟩, (by intro r h; cases h)⟩

/-- the text of such a table, as the renderer model writes it (a test of the statement on one literal) -/
example : flagForm.tableText (lit "t") [{ name := lit "id", type := lit "int", pk := true, increment := true, dflt := lit "7" },
      { name := lit "m", type := lit "text", unique := true, notNull := true, note := lit "it's",
        props := [(lit "color", lit "red")] }]
    = lit "Table \"t\" {\n    \"id\" int [pk, increment, default: 7]\n    \"m\" text [unique, not null, note: 'it\\'s', color: 'red']\n}" := by
  decide

/-- non-vacuity of the string default: `default: 'it\\'s new'` -/
example : ({ name := lit "st", type := lit "text", dstr := lit "it's new", notNull := true } : FCol).ok false
    ∧ ({ name := lit "st", type := lit "text", dstr := lit "it's new", notNull := true } : FCol).str
        = lit "\"st\" text [default: 'it\\'s new', not null]" := by
  refine ⟨⟨fun c hc => by revert c; decide, ⟨by decide, by decide⟩, fun c hc => by revert c; decide, by decide, by decide,
    Or.inl rfl, (by intro kv h; cases h), (by intro kv h; cases h), by simp, Or.inl rfl,
    Or.inr ⟨fun c hc => by revert c; decide, by decide, by decide, by decide, by decide, by decide⟩, Or.inl rfl,
    Or.inr (Or.inl ⟨rfl, rfl⟩), (by intro r h; cases h)⟩, by decide⟩

/-- non-vacuity of the expression default: `` default: `now()` `` -/
example : ({ name := lit "at", type := lit "timestamp", dexpr := lit "now()" } : FCol).ok false
    ∧ ({ name := lit "at", type := lit "timestamp", dexpr := lit "now()" } : FCol).str = lit "\"at\" timestamp [default: `now()`]" := by
  refine ⟨⟨fun c hc => by revert c; decide, ⟨by decide, by decide⟩, fun c hc => by revert c; decide, by decide, by decide,
    Or.inl rfl, (by intro kv h; cases h), (by intro kv h; cases h), by simp, Or.inl rfl, Or.inl rfl,
    Or.inr ⟨by decide, fun c hc => by revert c; decide⟩, Or.inr (Or.inr ⟨rfl, rfl⟩), (by intro r h; cases h)⟩, by decide⟩

end C02
end PyDBML
