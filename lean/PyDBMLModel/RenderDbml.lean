/-
L6: the default DBML renderer (`pydbml/renderer/dbml/default/*.py`), function for function.
-/
import PyDBMLModel.RenderSql
namespace PyDBML
namespace Dbml

def indent4 (s : Str) : Str := textwrapIndent [' ', ' ', ' ', ' '] s
def indent8 (s : Str) : Str := textwrapIndent (List.replicate 8 ' ') s

def optComment (cm : Option Str) : Str :=
  match cm with
  | some (x :: xs) => commentToDbml (x :: xs)
  | _ => []

/-- `default_to_str`. -/
def defaultToStr : DefaultVal → Str
  | .str s =>
    let l := lowerAscii s
    if l = lit "null" || l = lit "true" || l = lit "false" then l
    else '\'' :: prepareTextForDbml s ++ ['\'']
  | .expr t => '`' :: t ++ ['`']
  | .int r => r
  | .float r => r
  | .bool true => lit "True"
  | .bool false => lit "False"

/-- `render_inline_reference`. -/
def renderInlineRef (db : Db) (r : Ref) : R Str := do
  if r.col2.length > 1 then throw (.lib "DBMLError")
  let t2 ← getD? db.tables r.t2 "ref table position"
  let c ← match r.col2 with
    | [i] => getD? t2.columns i "reference column position"
    | _ => throw (.internal .IndexError)
  pure (lit "ref: " ++ r.kind.sym ++ ' ' :: qualName t2.schema t2.name ++ lit ".\"" ++ c.name ++ ['"'])

/-- `Column.__eq__` between two columns of tables of the same database, at positions
    (`ti`,`ci`) and (`tj`,`cj`): identity, or same owner full name and equal content. -/
def colEq (db : Db) (ti ci tj cj : Nat) : Bool :=
  (ti == tj && ci == cj) ||
  match db.tables[ti]?, db.tables[tj]? with
  | some a, some b =>
    a.fullName == b.fullName &&
    (match a.columns[ci]?, b.columns[cj]? with
     | some x, some y => x == y
     | _, _ => false)
  | _, _ => false

/-- the inline references `render_options` shows on column `ci` of table `ti`:
    `[ref for ref in column.get_refs() if ref.inline]`. -/
def inlineRefsOfColumn (db : Db) (ti ci : Nat) : List Ref :=
  db.refs.filter fun r => r.t1 == ti && r.col1.any (fun k => colEq db ti ci r.t1 k) && r.inline

/-- `render_column`. -/
def renderColumn (db : Db) (ti ci : Nat) (c : Column) : R Str := do
  let ty ← Sql.typeText db c
  let refs ← (inlineRefsOfColumn db ti ci).mapM (renderInlineRef db)
  let opts : List Str :=
    refs
    ++ (if c.pk then [lit "pk"] else [])
    ++ (if c.autoinc then [lit "increment"] else [])
    ++ (match c.default with
        | some d => if d.truthy then [lit "default: " ++ defaultToStr d] else []
        | none => [])
    ++ (if c.unique then [lit "unique"] else [])
    ++ (if c.notNull then [lit "not null"] else [])
    ++ (if c.note.isEmpty then [] else [noteOptionToDbml c.note])
    ++ (if db.allowProps then c.props.map fun (k, v) => k ++ lit ": " ++ quoteString v else [])
  let optStr := if opts.isEmpty then [] else lit " [" ++ joinWith (lit ", ") opts ++ [']']
  pure (optComment c.comment ++ '"' :: c.name ++ lit "\" " ++ ty ++ optStr)

/-- `render_note` (the `Note { … }` block). -/
def renderNote (text : Str) : Str :=
  lit "Note {\n" ++ indent4 (quoteString text) ++ lit "\n}"

def renderSubjects (t : Table) (subs : List Subject) : R Str := do
  let ss ← subs.mapM fun
    | .col i => do let c ← getD? t.columns i "index subject position"; pure c.name
    | .expr e => pure ('`' :: e ++ ['`'])
    | .raw s => pure s
  match ss with
  | [] => throw (.internal .IndexError)
  | [s] => pure s
  | _ => pure ('(' :: joinWith (lit ", ") ss ++ [')'])

/-- `render_index`. -/
def renderIndex (t : Table) (ix : Index) : R Str := do
  let subj ← renderSubjects t ix.subjects
  let opts : List Str :=
    (if truthy ix.name then [lit "name: '" ++ prepareTextForDbml (ix.name.getD []) ++ ['\'']] else [])
    ++ (if ix.pk then [lit "pk"] else [])
    ++ (if ix.unique then [lit "unique"] else [])
    ++ (if truthy ix.type then [lit "type: " ++ ix.type.getD []] else [])
    ++ (if ix.note.isEmpty then [] else [noteOptionToDbml ix.note])
  let optStr := if opts.isEmpty then [] else lit " [" ++ joinWith (lit ", ") opts ++ [']']
  pure (optComment ix.comment ++ subj ++ optStr)

/-- `render_table` for table `t` standing at position `ti` of the database. -/
def renderTableBody (db : Db) (ti : Nat) (t : Table) : R Str := do
  let header := lit "Table " ++ qualName t.schema t.name ++ [' ']
    ++ (if truthy t.alias then lit "as \"" ++ t.alias.getD [] ++ lit "\" " else [])
    ++ (if truthy t.headerColor then lit "[headercolor: " ++ t.headerColor.getD [] ++ lit "] " else [])
  let cols ← (List.range t.columns.length).mapM fun ci => do
    let c ← getD? t.columns ci "column position"
    renderColumn db ti ci c
  let colsStr := indent4 (joinNL cols) ++ ['\n']
  let props :=
    if !t.props.isEmpty && db.allowProps then
      indent4 ('\n' :: joinNL (t.props.map fun (k, v) => k ++ lit ": " ++ quoteString v) ++ ['\n'])
    else []
  let note := if t.note.isEmpty then [] else indent4 (renderNote t.note) ++ ['\n']
  let idx ←
    if t.indexes.isEmpty then pure []
    else do
      let is ← t.indexes.mapM (renderIndex t)
      pure (lit "\n    indexes {\n" ++ indent8 (joinNL is) ++ ['\n'] ++ lit "    }\n")
  pure (optComment t.comment ++ header ++ lit "{\n" ++ colsStr ++ props ++ note ++ idx ++ ['}'])

/-- `render_table`. -/
def renderTable (db : Db) (ti : Nat) : R Str := do
  let t ← getD? db.tables ti "table position"
  renderTableBody db ti t

/-- `render_enum` / `render_enum_item`. -/
def renderEnumItem (i : EnumItem) : Str :=
  optComment i.comment ++ '"' :: i.name ++ ['"']
    ++ (if i.note.isEmpty then [] else lit " [" ++ noteOptionToDbml i.note ++ [']'])

def renderEnum (e : Enum) : Str :=
  optComment e.comment ++ lit "Enum " ++ qualName e.schema e.name ++ lit " {\n"
    ++ indent4 (joinNL (e.items.map renderEnumItem)) ++ lit "\n}"

def renderCols (t : Table) (cols : List Nat) : R Str := do
  let names ← cols.mapM fun i => do
    let c ← getD? t.columns i "reference column position"
    pure ('"' :: c.name ++ ['"'])
  match names with
  | [n] => pure n
  | _ => pure ('(' :: joinWith (lit ", ") names ++ [')'])

/-- `render_not_inline_reference`. -/
def renderRef (db : Db) (r : Ref) : R Str := do
  if r.inline then renderInlineRef db r
  else
    let t1 ← getD? db.tables r.t1 "ref table position"
    let t2 ← getD? db.tables r.t2 "ref table position"
    let c1 ← renderCols t1 r.col1
    let c2 ← renderCols t2 r.col2
    let opts : List Str :=
      (if truthy r.onUpdate then [lit "update: " ++ r.onUpdate.getD []] else [])
      ++ (if truthy r.onDelete then [lit "delete: " ++ r.onDelete.getD []] else [])
    let optStr := if opts.isEmpty then [] else lit " [" ++ joinWith (lit ", ") opts ++ [']']
    pure (optComment r.comment ++ lit "Ref"
      ++ (if truthy r.name then ' ' :: r.name.getD [] else [])
      ++ lit " {\n    " ++ qualName t1.schema t1.name ++ '.' :: c1 ++ ' ' :: r.kind.sym ++ ' ' ::
         qualName t2.schema t2.name ++ '.' :: c2 ++ optStr ++ lit "\n}")

def liftPy (e : Except PyExc Str) : R Str :=
  match e with
  | .ok s => .ok s
  | .error x => .error (.internal x)

/-- `render_table_group`. -/
def renderGroup (db : Db) (g : Group) : R Str := do
  let qn ← liftPy (doublequoteString g.name)
  let items ← g.items.mapM fun i => do
    let t ← getD? db.tables i "group item position"
    pure (lit "    " ++ qualName t.schema t.name ++ ['\n'])
  let note := match g.note with
    | some (x :: xs) => indent4 (renderNote (x :: xs)) ++ ['\n']
    | _ => []
  pure (optComment g.comment ++ lit "TableGroup " ++ qn
    ++ (if truthy g.color then lit " [color: " ++ g.color.getD [] ++ [']'] else [])
    ++ lit " {\n" ++ items.flatten ++ note ++ ['}'])

/-- `render_project` (`render_items` inlined). -/
def renderProject (p : Project) : R Str := do
  let qn ← liftPy (doublequoteString p.name)
  let itemsStr := p.items.flatMap fun (k, v) =>
    if containsChar '\n' v then k ++ lit ": '''" ++ prepareTextForDbml v ++ lit "'''\n"
    else k ++ lit ": '" ++ prepareTextForDbml v ++ lit "'\n"
  let items := indent4 (rstripSet (· = '\n') itemsStr) ++ ['\n']
  let note := if p.note.isEmpty then [] else indent4 (renderNote p.note) ++ ['\n']
  pure (optComment p.comment ++ lit "Project " ++ qn ++ lit " {\n" ++ items ++ note ++ ['}'])

/-- `render_sticky_note`. -/
def renderSticky (s : Sticky) : Str :=
  lit "Note " ++ s.name ++ lit " {\n" ++ indent4 (quoteString s.text) ++ lit "\n}"

/-- `DefaultDBMLRenderer.render_db`. -/
def renderProjectList (db : Db) : R (List Str) :=
  match db.project with
  | some p => (renderProject p).map fun x => [x]
  | none => .ok []

def renderDb (db : Db) : R Str := do
  let proj ← renderProjectList db
  let enums := db.enums.map renderEnum
  let tables ← (List.range db.tables.length).mapM (renderTable db)
  let refs ← (db.refs.filter (!·.inline)).mapM (renderRef db)
  let groups ← db.groups.mapM (renderGroup db)
  let sticky := db.sticky.map renderSticky
  pure (joinWith (lit "\n\n") (proj ++ enums ++ tables ++ refs ++ groups ++ sticky))

end Dbml
end PyDBML
