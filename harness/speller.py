"""A plain Python speller: writes a database spec (the content tree) as DBML text under a vector of
spelling choices (DESIGN 5.2), and says what content the document declares.

`spell(spec, rng, opts)` -> (text, expected, info)
  expected = the content the document declares, in the `observe.dump_db` format, comments included
             where `opts['comments']` places them.
Spelling dimensions: element interleaving, bare/quoted identifiers, keyword case, blanks and blank
lines, comments at discarded positions, string style (' " '''), settings order and line breaks,
note in settings vs body (and `Note:` vs `Note {}`), position of note / indexes block in a table
body, legacy `pk`/`unique` constraints outside brackets, inline / short / block `Ref`, table addressing
by schema.name / bare name / alias, `{` on the same or the next line.
"""
import copy
import json
import re

BARE = re.compile(r'^[A-Za-z0-9_]+$')
COL_SETTING_KW = ('not null', 'null', 'primary key', 'pk', 'unique', 'increment', 'note', 'ref', 'default')
BODY_KW = ('note', 'indexes')


def kw_prefix(name, kws):
    """a bare `name` would be taken for one of the keywords `kws` (CaselessLiteral is a prefix test)"""
    u = name.upper()
    return any(u.startswith(k.upper()) for k in kws)
CASELESS = True


def esc_single(t, q):
    out = []
    for c in t:
        if c == '\\':
            out.append('\\\\')
        elif c == q:
            out.append('\\' + q)
        elif c == '\n':
            out.append('\\n')
        else:
            out.append(c)
    return q + ''.join(out) + q


def esc_triple(t):
    out = []
    for c in t:
        if c == '\\':
            out.append('\\\\')
        elif c == "'":
            out.append("\\'")
        else:
            out.append(c)
    return "'''" + ''.join(out) + "'''"


CM_TEXTS = ['c1', 'a comment', "it's", '{ brace }', 'Table x {', "note: 'x'", '-- sql', 'DROP TABLE t;', 'ünï 日本', '[pk]', 'C:\\dir\\', 'ends with \\',
            '"q"', '`e`', '#fff', '', 'two  spaces', '} ] )', 'Ref: a.b > c.d', "'''", 'x * / y']


class Speller:
    def __init__(self, rng, opts=None):
        import random as _random
        self.rng = rng
        self.crng = _random.Random((opts or {}).get('comment_seed', 0))
        self.captured = {}
        self._ti = self._ii = 0
        o = dict(varied=True, comments=False, props=None, ref_form=None, wild_kw=False, fault=None)
        o.update(opts or {})
        self.o = o
        self.varied = o['varied']
        self.fault = o['fault']          # (kind, k): inject a grammar fault at the k-th opportunity
        self.fault_seen = {}
        self.fault_done = False

    def hit(self, kind):
        """is this the opportunity at which the requested fault is to be injected?"""
        if self.fault is None or self.fault[0] != kind or self.fault_done:
            return False
        n = self.fault_seen.get(kind, 0)
        self.fault_seen[kind] = n + 1
        if n == self.fault[1]:
            self.fault_done = True
            return True
        return False

    # ---- comments (own PRNG: the base spelling does not depend on them) -------------------------------
    def _cm(self, block=None, multiline=False):
        """-> (source text of one comment, captured text)"""
        t = self.crng.choice(CM_TEXTS)
        if block is None:
            block = self.crng.random() < 0.4
        if block:
            if multiline and self.crng.random() < 0.3:
                t = t + '\n  second line'
            pad = self.crng.choice(['', ' ', '  '])
            return '/*' + pad + t + pad + '*/', (pad + t + pad).lstrip(' \t\r')
        pad = self.crng.choice(['', ' ', '   '])
        return '//' + pad + t, t

    def above(self, key, p=0.35):
        """comment lines directly above an element -> source block; records the captured text under `key`
        (key None: the position discards comments)"""
        if not self.o['comments'] or self.crng.random() > p:
            return ''
        texts, src = [], ''
        for _ in range(self.crng.choice([1, 1, 2])):
            s, t = self._cm(multiline=True)
            src += s + '\n'
            texts.append(t)
        if key is not None:
            self.captured.setdefault(key, {})['above'] = '\n'.join(texts)
        return src

    def trailing(self, key, slot, line_ok, p=0.3):
        """a comment on the element's own line (slot 'c1' = before the settings, 'c2' = after them)"""
        if not self.o['comments'] or self.crng.random() > p:
            return ''
        s, t = self._cm(block=None if line_ok else True)
        self.captured.setdefault(key, {})[slot] = t
        return ' ' + s

    def discarded(self, p=0.15):
        """a comment line at a position where the grammar skips comments"""
        if not self.o['comments'] or self.crng.random() > p:
            return ''
        return self._cm(multiline=True)[0] + '\n'

    def comment_of(self, key, order=('c1', 'c2', 'above')):
        got = self.captured.get(key, {})
        for k in order:
            if k in got:
                return got[k]
        return None

    # ---- atoms ----------------------------------------------------------------------------------
    def coin(self, p=0.5):
        return self.varied and self.rng.random() < p

    def kw(self, word, caseless=True):
        if not (self.varied and caseless):
            return word
        k = self.rng.randrange(4)
        if k == 0:
            return word
        if k == 1:
            return word.upper()
        if k == 2:
            return word.lower()
        return ''.join(c.upper() if self.rng.random() < 0.5 else c.lower() for c in word)

    def sp(self, must=False):
        """blanks between tokens"""
        if not self.varied:
            return ' ' if must else ''
        k = self.rng.randrange(6)
        if k < 3:
            return ' ' if must else ''
        return [' ', '  ', ' \t ', ' \r'][k - 3] if must else [' ', '  ', '\t'][k - 3]

    def ident(self, name, force_quote=False):
        if BARE.match(name) and not force_quote and not self.coin(0.3):
            return name
        return '"' + name + '"'

    def string(self, t, allow_multiline=True):
        styles = ["'", '"']
        if '\n' in t:
            if self.coin(0.5) or not allow_multiline:
                return esc_single(t, self.rng.choice(styles) if self.varied else "'")
            return esc_triple(t)
        if not self.varied:
            return esc_single(t, "'")
        k = self.rng.randrange(3)
        return esc_triple(t) if k == 2 else esc_single(t, styles[k])

    def note_literal(self, t):
        """a note's text may be written with extra indentation and blank lines around it"""
        if '\n' in t and self.coin(0.5):
            ind = ' ' * self.rng.choice([2, 4, 6])
            # an empty line may carry up to the block's indentation in blanks (they are cut with the indentation)
            body = '\n'.join((ind + l) if l.strip() else (' ' * self.rng.randint(0, len(ind)) if l == '' and self.coin(0.5) else l)
                             for l in t.split('\n'))
            lead = '\n' * self.rng.choice([1, 2])
            trail = self.rng.choice(['\n', '\n  ', '\n\n'])
            return esc_triple(lead + body + trail)
        return self.string(t)

    def nl(self):
        """a line break position `_`: LF, optionally blank lines / discarded comments"""
        if not self.varied:
            return '\n'
        k = self.rng.randrange(8)
        if k < 5:
            return '\n'
        if k == 5:
            return '\n\n'
        if k == 6:
            return '\n   \n'
        return '\n' if not self.o['comments'] else '\n'

    def ind(self):
        return '    ' if not self.varied else self.rng.choice(['', '  ', '    ', '\t', '        '])

    # ---- settings lists ---------------------------------------------------------------------------
    def merge_keep(self, base, extras):
        """insert `extras` into `base` at random positions, keeping the relative order of both"""
        out = list(base)
        if not self.varied:
            return out + list(extras)
        pos = sorted(self.rng.randrange(len(out) + 1) for _ in extras)
        for k, (p_, x) in enumerate(zip(pos, extras)):
            out.insert(p_ + k, x)
        return out

    def settings(self, items, allow_newlines=True, ordered=()):
        if not items and not ordered:
            return ''
        items = list(items)
        if self.varied:
            self.rng.shuffle(items)
        items = self.merge_keep(items, ordered)
        multi = allow_newlines and self.coin(0.3)
        sep = (',' + self.sp() + ('\n' + self.ind() if multi else ' '))
        body = sep.join(items)
        if multi:
            return '[\n' + self.ind() + body + '\n' + self.ind() + ']'
        return '[' + self.sp() + body + self.sp() + ']'

    # ---- elements --------------------------------------------------------------------------------
    def table_addr(self, spec, ti):
        """the ways a document may address table ti"""
        t = spec['tables'][ti]
        ways = [('full', self.ident(t['schema']) + self.dot() + self.ident(t['name']))]
        if t['schema'] == 'public':
            ways.append(('bare', self.ident(t['name'])))
        if t['alias']:
            ways.append(('alias', self.ident(t['alias'])))
        if not self.varied:
            return ways[1][1] if t['schema'] == 'public' else ways[0][1]
        return self.rng.choice(ways)[1]

    def dot(self):
        return '.'

    def default(self, d):
        k, v = d['k'], d['v']
        if k == 'int':
            return ('0' * self.rng.randrange(3) if self.coin(0.2) else '') + v
        if k == 'float':
            return v
        if k == 'bool':
            return self.kw('true' if v else 'false')
        if k == 'str':
            if v == 'NULL' and self.coin(0.5):
                return self.kw('null')
            return self.string(v, allow_multiline=False) if '\n' not in v else esc_triple(v)
        return '`' + v + '`'

    def column(self, spec, t, ci, c, inline_refs):
        parts = [self.ident(c['name']), self.sp(True)]
        typ = c['type']
        if isinstance(typ, dict):
            e = spec['enums'][typ['enum']]
            if e['schema'] == 'public' and not self.coin(0.3):
                parts.append(self.ident(e['name']))
            else:
                parts.append(self.ident(e['schema']) + '.' + self.ident(e['name']))
        else:
            parts.append(self.type_text(typ))
        no_type = self.hit('col_no_type')
        if no_type:
            parts = parts[:1]      # (and no legacy constraint word, which would be read as the type)
        legacy = []
        st = []
        if c['pk']:
            if not no_type and self.coin(0.2):
                legacy.append(self.kw('pk'))
            else:
                st.append(self.kw('pk') if not self.coin(0.3) else self.kw('primary key'))
        if c['unique']:
            if not no_type and self.coin(0.2):
                legacy.append(self.kw('unique'))
            else:
                st.append(self.kw('unique'))
        if c['not_null']:
            st.append(self.kw('not null'))
        elif self.coin(0.1):
            st.append(self.kw('null'))
        if c['autoinc']:
            st.append(self.kw('increment'))
        if c['default'] is not None:
            st.append(self.kw('default:') + self.sp() + self.default(c['default']))
        if c['note']:
            st.append(self.kw('note:') + self.sp() + self.string(c['note']))
        if self.hit('unknown_setting'):
            pool = ['bogus', 'auto_increment', 'nullable', 'primary', 'default 5', 'note \'x\'']
            if not spec['allow_properties']:    # property syntax is a syntax error while the option is off
                pool += ["bogus: 'x'", 'label: "v"', "zz: '''v'''", "owner: 'me'"]
            st.append(self.rng.choice(pool))
        refs = []
        for r in inline_refs:
            t2 = spec['tables'][r['t2']]
            tgt = self.table_addr(spec, r['t2']) + '.' + self.ident(t2['columns'][r['col2'][0]]['name'])
            refs.append(self.kw('ref:') + self.sp() + r['type'] + self.sp() + tgt)
        props = []
        if spec['allow_properties']:
            for k, v in c['props']:
                props.append(self.ident(k, force_quote=kw_prefix(k, COL_SETTING_KW)) + ':' + self.sp() + self.string(v))
        line = ''.join(parts)
        for l in legacy:
            line += ' ' + l
        key = ('column', spec['tables'].index(t), ci)
        if st or refs or props:
            line += self.trailing(key, 'c1', line_ok=False)
            # properties: only the first setting may be preceded by a line break in this grammar
            line += self.sp(True) + self.settings(st, allow_newlines=not props, ordered=self.merge_keep(refs, props))
            line += self.trailing(key, 'c2', line_ok=True)
        else:
            line += self.trailing(key, 'c1', line_ok=True)
        if '//' not in line and '/*' not in line and "'" * 3 not in line and self.hit('stray_after_column'):
            # a column definition ends with its line: more words on the same line (another definition run together with it,
            # two stray words) are not DBML
            line += ' ' + self.rng.choice(['stray tokens', 'x y', 'other_col int', '"quoted name" varchar(5)', 'b int [pk]',
                                           "zz text [note: 'n']", 'left over'])
        return line

    def type_text(self, typ):
        m = re.match(r'^([A-Za-z0-9_]+)(\[\]|\.[A-Za-z0-9_]+|\(.*\))?$', typ, re.S)
        if m:
            return typ
        return '"' + typ + '"'

    def index(self, t, ix):
        subs = []
        for s in ix['subjects']:
            subs.append(self.ident(t['columns'][s['col']]['name']) if 'col' in s else '`' + s['expr'] + '`')
        if len(subs) == 1 and not self.coin(0.15):
            line = subs[0]
        else:
            line = '(' + self.sp() + (',' + self.sp()).join(subs) + self.sp() + ')'
        st = []
        if ix['name']:
            st.append(self.kw('name:') + self.sp() + self.string(ix['name'], allow_multiline=False))
        if ix['unique']:
            st.append(self.kw('unique'))
        if ix['pk']:
            st.append(self.kw('pk'))
        if ix['type'] or self.hit('unknown_index_type'):
            bad = self.fault_done and self.fault and self.fault[0] == 'unknown_index_type' and not getattr(self, '_uit', False)
            if bad:
                self._uit = True
            st.append(self.kw('type:') + self.sp() + (self.rng.choice(['xtree', 'b-tree', 'fulltext']) if bad else self.kw(ix['type'])))
        if ix['note']:
            st.append(self.kw('note:') + self.sp() + self.string(ix['note']))
        key = ('index', self._ti, self._ii)
        if st:
            line += self.trailing(key, 'c1', line_ok=False)
            line += self.sp(True) + self.settings(st)
            line += self.trailing(key, 'c2', line_ok=True)
        else:
            line += self.trailing(key, 'c1', line_ok=True)
        return line

    def note_block(self, text):
        if self.coin(0.5):
            return self.kw('note:') + self.sp() + self.note_literal(text)
        return self.kw('note') + self.sp() + '{' + self.nl_opt() + self.note_literal(text) + self.nl_opt() + '}'

    def nl_opt(self):
        if not self.varied:
            return '\n'
        return self.rng.choice(['', ' ', '\n', '\n\n', ' \n  '])

    def table(self, spec, ti, inline_by_col):
        t = spec['tables'][ti]
        head = self.kw('table') + self.sp(True)
        if t['schema'] == 'public' and not self.coin(0.3):
            head += self.ident(t['name'])
        else:
            head += self.ident(t['schema']) + self.sp() + '.' + self.sp() + self.ident(t['name'])
        if t['alias']:
            head += ' ' + self.kw('as') + ' ' + self.ident(t['alias'])
        hs = []
        note_in_settings = bool(t['note']) and self.coin(0.4)
        if t['header_color'] or self.hit('bad_colour'):
            bad = self.fault_done and self.fault and self.fault[0] == 'bad_colour' and not getattr(self, '_bc', False)
            if bad:
                self._bc = True
            hs.append(self.kw('headercolor:') + self.sp() + (self.rng.choice(['#ggg', '#ff', '# fff', 'fff', '#12', 'red', '#abcd', '#abcde', '#1234567', '#12345678', '#', '#ab cd']) if bad else t['header_color']))
        if note_in_settings:
            hs.append(self.kw('note:') + self.sp() + self.string(t['note']))
        if hs:
            head += self.sp(True) + self.settings(hs)
        head += self.sp(True) if not self.coin(0.2) else self.nl()
        body = []
        for ci, c in enumerate(t['columns']):
            body.append(self.column(spec, t, ci, c, inline_by_col.get((ti, ci), [])))
        extra = []
        if t['note'] and not note_in_settings:
            extra.append(self.note_block(t['note']))
        if t['indexes']:
            blk = self.kw('indexes') + self.sp() + '{' + self.nl()
            for ii, ix in enumerate(t['indexes']):
                self._ti, self._ii = ti, ii
                blk += self.above(('index', ti, ii)) + self.ind() + self.index(t, ix) + self.nl()
            blk += self.ind() + '}'
            extra.append(blk)
        for x in extra:
            pos = self.rng.randrange(len(body) + 1) if self.varied else len(body)
            body.insert(pos, x)
        if spec['allow_properties']:
            body = self.merge_keep(body, [self.ident(k, force_quote=kw_prefix(k, BODY_KW)) + ':' + self.sp() + self.string(v)
                                          for k, v in t['props']])
        if not spec['allow_properties'] and self.hit('prop_when_off'):
            body = self.merge_keep(body, [self.rng.choice(["owner: 'me'", 'label: "v"', "zz: '''v'''"])])
        out = head + '{' + self.nl()
        for b in body:
            out += self.discarded() + self.ind() + b + self.nl()
        out += self.discarded() + '}'
        return out

    def enum(self, e, ei=0):
        head = self.kw('enum') + self.sp(True)
        if e['schema'] == 'public' and not self.coin(0.3):
            head += self.ident(e['name'])
        else:
            head += self.ident(e['schema']) + '.' + self.ident(e['name'])
        out = head + self.sp(True) + '{'
        for ii, i in enumerate(e['items']):
            key = ('item', ei, ii)
            out += self.nl() + self.above(key) + self.ind() + self.ident(i['name'])
            if i['note']:
                out += self.trailing(key, 'c1', line_ok=False)
                out += self.sp(True) + '[' + self.sp() + self.kw('note:') + self.sp() + self.string(i['note']) + self.sp() + ']'
                out += self.trailing(key, 'c2', line_ok=True)
            else:
                out += self.trailing(key, 'c1', line_ok=True)
        out += '\n' + (self.nl() if self.coin(0.3) else '') + self.discarded() + '}'
        return out

    def ref(self, spec, r, form, ri=0):
        T = spec['tables']

        def side(ti, cols):
            names = [self.ident(T[ti]['columns'][c]['name']) for c in cols]
            if len(names) == 1 and not self.coin(0.1):
                f = names[0]
            else:
                f = '(' + self.sp() + (self.sp() + ',' + self.sp()).join(names) + self.sp() + ')'
            return self.table_addr(spec, ti) + '.' + f
        rel = r['type']
        if self.hit('bad_operator'):
            rel = self.rng.choice(['>>', '=', '->', '<=', '><', '~'])
        body = side(r['t1'], r['col1']) + self.sp(True) + rel + self.sp(True) + side(r['t2'], r['col2'])
        st = []
        if r['on_update']:
            st.append(self.kw('update:') + self.sp() + self.kw(r['on_update']))
        if r['on_delete'] or self.hit('bad_action'):
            bad = self.fault_done and self.fault and self.fault[0] == 'bad_action' and not getattr(self, '_ba', False)
            if bad:
                self._ba = True
            st.append(self.kw('delete:') + self.sp() + (self.rng.choice(['explode', 'set', 'no', 'nullify', 'setnull', 'noaction', 'setdefault', 'set_null', 'no-action', 'cascading']) if bad else self.kw(r['on_delete'])))
        key = ('ref', ri)
        if st:
            body += self.trailing(key, 'c1', line_ok=False)
            body += self.sp(True) + self.settings(st)
            body += self.trailing(key, 'c2', line_ok=True)
        else:
            body += self.trailing(key, 'c1', line_ok=True)
        name = (' ' + self.ident(r['name'])) if r['name'] else ''
        if form == 'short':
            return self.kw('ref') + name + self.sp() + ':' + self.sp() + body
        return self.kw('ref') + name + self.sp(True) + '{' + self.nl() + self.ind() + body + self.nl() + '}'

    def group(self, spec, g):
        head = self.kw('tablegroup') + self.sp(True) + self.ident(g['name'])
        hs = []
        note_in_settings = bool(g['note']) and self.coin(0.4)
        if g['color']:
            hs.append(self.kw('color:') + self.sp() + g['color'])
        if note_in_settings:
            hs.append(self.kw('note:') + self.sp() + self.string(g['note']))
        if hs:
            head += self.sp(True) + self.settings(hs)
        out = head + self.sp(True) + '{' + self.nl()
        body = []
        for ti in g['items']:
            t = spec['tables'][ti]
            force = t['name'].lower() == 'note' or (t['alias'] or '').lower() == 'note'   # KwExactBare
            ways = [self.ident(t['schema']) + '.' + self.ident(t['name'])]
            if t['schema'] == 'public':
                ways.append(self.ident(t['name'], force_quote=force))
            if t['alias']:
                ways.append(self.ident(t['alias'], force_quote=force))
            if t['schema'].lower() == 'note':
                ways[0] = '"' + t['schema'] + '".' + self.ident(t['name'])
            body.append(self.rng.choice(ways) if self.varied else ways[-1 if t['schema'] == 'public' and not t['alias'] else 0])
        if g['note'] and not note_in_settings:
            pos = self.rng.randrange(len(body) + 1) if self.varied else len(body)
            body.insert(pos, self.note_block(g['note']))
        for b in body:
            out += self.ind() + b + self.nl()
        out += '}'
        return out

    def sticky(self, s):
        return self.kw('note') + self.sp(True) + self.ident(s['name']) + self.sp(True) + '{' + self.nl_opt() + \
            self.note_literal(s['text']) + self.nl_opt() + '}'

    def project(self, p):
        out = self.kw('project') + self.sp(True) + self.ident(p['name']) + self.sp(True) + '{' + self.nl()
        body = []
        for k, v in p['items']:
            body.append(self.ident(k, force_quote=k.lower() == 'note') + self.sp() + ':' + self.sp() + self.string(v))
        if p['note']:
            pos = self.rng.randrange(len(body) + 1) if self.varied else len(body)
            body.insert(pos, self.note_block(p['note']))
        for b in body:
            out += self.ind() + b + self.nl()
        out += '}'
        return out


def spellable(spec):
    """can this content be declared by a DBML document at all (hypothesis WF of C01)?"""
    def okname(n):
        return isinstance(n, str) and n != '' and not any(c in n for c in '"\n\r\\')

    def oktext(t):
        return all(c == '\n' or c.isprintable() for c in t)
    for t in spec['tables']:
        if not okname(t['name']) or not okname(t['schema']) or (t['alias'] is not None and not okname(t['alias'])):
            return False
        if t.get('abstract') or not t['columns'] or not oktext(t['note']):
            return False
        for c in t['columns']:
            if not okname(c['name']) or not oktext(c['note']):
                return False
            if isinstance(c['type'], dict):
                if 'enum' not in c['type']:
                    return False
            elif not okname(c['type']) or '.' in c['type'] and not re.match(r'^[A-Za-z0-9_]+\.[A-Za-z0-9_]+$', c['type']):
                return False
            d = c['default']
            if d is not None:
                if d['k'] == 'expr' and '`' in d['v']:
                    return False
                if d['k'] == 'str' and (not oktext(d['v'])):
                    return False
            for k, v in c['props']:
                if not BARE.match(k) or not oktext(v):
                    return False
        for ix in t['indexes']:
            if not ix['subjects'] or any('raw' in s for s in ix['subjects']) or not oktext(ix['note']):
                return False
            if any('expr' in s and '`' in s['expr'] for s in ix['subjects']):
                return False
            if ix['name'] is not None and (not oktext(ix['name']) or '\n' in ix['name']):
                return False
        for k, v in t['props']:
            if not BARE.match(k) or not oktext(v):
                return False
    for e in spec['enums']:
        if not okname(e['name']) or not okname(e['schema']) or not e['items']:
            return False
        if any(not okname(i['name']) or not oktext(i['note']) for i in e['items']):
            return False
    for r in spec['refs']:
        if r['name'] is not None and not okname(r['name']):
            return False
    for g in spec['groups']:
        if not okname(g['name']) or (g['note'] and not oktext(g['note'])):
            return False
    for s in spec['sticky']:
        if not okname(s['name']) or not oktext(s['text']):
            return False
    p = spec['project']
    if p is not None:
        if not okname(p['name']) or not oktext(p['note']) or any(not BARE.match(k) or not oktext(v) for k, v in p['items']):
            return False
    return True


def normalise_for_spelling(spec, norm):
    """Make a generated spec declarable: notes in normal form, no comments, property keys bare,
    things DBML cannot say removed. Returns a new spec."""
    s = copy.deepcopy(spec)

    def n(t):
        try:
            return norm(t) if t else t
        except Exception:  # noqa: BLE001
            return ''
    for t in s['tables']:
        if t['alias'] is not None and any(u is not t and u['name'] == t['alias'] for u in s['tables']):
            t['alias'] = None       # AliasShadow: an alias equal to ANOTHER table's bare name (known finding, wild stream)
    for t in s['tables']:
        t['note'] = n(t['note'])
        t['comment'] = None
        if not s['allow_properties']:
            t['props'] = []
        for c in t['columns']:
            c['note'] = n(c['note'])
            c['comment'] = None
            if not s['allow_properties']:
                c['props'] = []
            if c['default'] is not None and c['default']['k'] == 'str' and c['default']['v'].lower() in ('true', 'false', 'null') \
                    and c['default']['v'] != 'NULL':
                c['default']['v'] = 's_' + c['default']['v']
        for ix in t['indexes']:
            ix['note'] = n(ix['note'])
            ix['comment'] = None
            ix['name'] = ix['name'] or None
    for e in s['enums']:
        e['comment'] = None
        for i in e['items']:
            i['note'] = n(i['note'])
            i['comment'] = None
    seen, uniq = set(), []
    for r in s['refs']:
        r['comment'] = None
        key = json.dumps({k: v for k, v in r.items() if k != 'inline'}, sort_keys=True)
        if key not in seen:        # identical references are a rule violation (C06), not a WF document
            seen.add(key)
            uniq.append(r)
    s['refs'] = uniq
    for g in s['groups']:
        g['comment'] = None
        g['note'] = n(g['note']) if g['note'] else None
    for st in s['sticky']:
        st['text'] = n(st['text'])
    if s['project'] is not None:
        s['project']['note'] = n(s['project']['note'])
        s['project']['comment'] = None
    return s


def spell(spec, rng, opts=None):
    """-> (text, expected content, info). `spec` must be `spellable`."""
    sp = Speller(rng, opts)
    exp = copy.deepcopy(spec)
    # decide the form of every reference
    forms = []
    for r in spec['refs']:
        can_inline = (len(r['col1']) == 1 and len(r['col2']) == 1 and not r['name'] and not r['on_update']
                      and not r['on_delete'])
        f = sp.o['ref_form']
        if f is None:
            if r['inline'] and can_inline:
                f = 'inline'
            else:
                f = rng.choice(['short', 'long']) if sp.varied else 'long'
        elif f == 'inline' and not can_inline:
            f = 'short'
        forms.append(f)
    inline_by_col = {}
    for r, f in zip(spec['refs'], forms):
        if f == 'inline':
            inline_by_col.setdefault((r['t1'], r['col1'][0]), []).append(r)
    # interleave the elements (within-kind order kept)
    seqs = {'enum': list(range(len(spec['enums']))), 'table': list(range(len(spec['tables']))),
            'ref': [i for i, f in enumerate(forms) if f != 'inline'], 'group': list(range(len(spec['groups']))),
            'sticky': list(range(len(spec['sticky']))), 'project': [0] if spec['project'] is not None else []}
    order = []
    if sp.varied:
        pools = {k: list(v) for k, v in seqs.items()}
        while any(pools.values()):
            k = rng.choice([k for k, v in pools.items() if v])
            order.append((k, pools[k].pop(0)))
    else:
        for k in ('project', 'enum', 'table', 'ref', 'group', 'sticky'):
            order += [(k, i) for i in seqs[k]]
    chunks = []
    ref_order = []
    for k, i in order:
        if k == 'enum':
            chunks.append(sp.above(('enum', i)) + sp.enum(spec['enums'][i], i))
        elif k == 'table':
            chunks.append(sp.above(('table', i)) + sp.table(spec, i, inline_by_col))
            for ci in range(len(spec['tables'][i]['columns'])):
                for r in inline_by_col.get((i, ci), []):
                    ref_order.append(next(j for j, x in enumerate(spec['refs']) if x is r))
        elif k == 'ref':
            chunks.append(sp.above(('ref', i)) + sp.ref(spec, spec['refs'][i], forms[i], i))
            ref_order.append(i)
        elif k == 'group':
            chunks.append(sp.above(('group', i)) + sp.group(spec, spec['groups'][i]))
        elif k == 'sticky':
            chunks.append(sp.above(None) + sp.sticky(spec['sticky'][i]))
        else:
            chunks.append(sp.above(('project',)) + sp.project(spec['project']))
    text = ''
    for c in chunks:
        text += c + ('\n' if not sp.varied else rng.choice(['\n', '\n\n', '\n \n\n']))
    if sp.varied and rng.random() < 0.3:
        lead = rng.choice(['\n', '  \n\n', '// leading comment\n'])
        text = ('\n' if sp.o['comments'] and lead.startswith('//') else lead) + text
    if sp.varied and rng.random() < 0.3:
        text = text.rstrip('\n')
    exp['refs'] = []
    for j in ref_order:
        r = copy.deepcopy(spec['refs'][j])
        r['inline'] = forms[j] == 'inline'
        if sp.o['comments']:
            r['comment'] = sp.comment_of(('ref', j))
        exp['refs'].append(r)
    if sp.o['comments']:
        for ti, t in enumerate(exp['tables']):
            t['comment'] = sp.comment_of(('table', ti))
            for ci, c in enumerate(t['columns']):
                c['comment'] = sp.comment_of(('column', ti, ci), order=('c1', 'c2'))
            for ii, ix in enumerate(t['indexes']):
                ix['comment'] = sp.comment_of(('index', ti, ii))
        for ei, e in enumerate(exp['enums']):
            e['comment'] = sp.comment_of(('enum', ei))
            for ii, it in enumerate(e['items']):
                it['comment'] = sp.comment_of(('item', ei, ii), order=('c2', 'c1', 'above'))
        for gi, g in enumerate(exp['groups']):
            g['comment'] = sp.comment_of(('group', gi))
        if exp['project'] is not None:
            exp['project']['comment'] = sp.comment_of(('project',))
    return text, exp, {'forms': forms, 'chunks': chunks, 'fault_done': sp.fault_done}
