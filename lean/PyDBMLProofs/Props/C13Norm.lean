/-
C13 — note normalisation is idempotent (for texts without "exotic" blank lines).
norm = remove_indentation ∘ strip_empty_lines, as `NoteBlueprint._preformat_text` applies them.
-/
import PyDBMLModel
import PyDBMLProofs.Props.C14
namespace PyDBML
namespace C13
open C14

/-! ### lines -/

theorem joinNL_splitNL (s : Str) : joinNL (splitNL s) = s := by
  induction s with
  | nil => rfl
  | cons c r ih =>
    by_cases hc : c = '\n'
    · subst hc
      have : splitNL ('\n' :: r) = [] :: splitNL r := by
        conv => lhs; unfold splitNL
        simp
      rw [this]
      cases h : splitNL r with
      | nil => exact absurd h (splitNL_ne_nil r)
      | cons l ls =>
        rw [h] at ih
        show [] ++ '\n' :: joinNL (l :: ls) = _
        rw [ih]; rfl
    · obtain ⟨l, ls, h1, h2⟩ := splitNL_cons_not_nl c r hc
      rw [h2]
      rw [h1] at ih
      cases ls with
      | nil => simp [joinNL] at ih ⊢; exact ih
      | cons l2 ls2 =>
        show (c :: l) ++ '\n' :: joinNL (l2 :: ls2) = _
        have : l ++ '\n' :: joinNL (l2 :: ls2) = r := ih
        simp [← this]

theorem blankHT_isSpace (c : Char) (h : isBlankHT c = true) : isSpaceChar c = true := by
  simp [isBlankHT] at h
  rcases h with rfl | rfl <;> decide

/-- a `[ \t]*` line is empty or whitespace-only -/
theorem blankLine_cases (l : Str) (h : isBlankLine l = true) : l = [] ∨ isSpaceStr l = true := by
  cases l with
  | nil => exact Or.inl rfl
  | cons a as =>
    right
    simp only [isSpaceStr, List.isEmpty_cons, Bool.not_false, Bool.true_and]
    simp only [isBlankLine, List.all_eq_true] at h ⊢
    intro x hx
    exact blankHT_isSpace x (h x hx)

/-- the lines `remove_indentation` measures: non-empty and not whitespace-only -/
def counted (l : Str) : Bool := !l.isEmpty && !isSpaceStr l

/-- without exotic blank lines, the measured lines are exactly the non-`[ \t]*` lines -/
theorem counted_iff (l : Str) (hx : exoticBlankLine l = false) : counted l = !isBlankLine l := by
  unfold counted
  by_cases hb : isBlankLine l = true
  · rcases blankLine_cases l hb with rfl | hs
    · simp [isBlankLine]
    · simp [hb, hs]
  · have hb' : isBlankLine l = false := by simpa using hb
    have hne : l ≠ [] := by intro e; subst e; simp [isBlankLine] at hb'
    have hs : isSpaceStr l = false := by
      cases hs : isSpaceStr l with
      | false => rfl
      | true =>
        exfalso
        simp only [exoticBlankLine, hs, Bool.true_and, Bool.not_eq_false'] at hx
        simp only [isBlankLine] at hb'
        rw [hx] at hb'
        cases hb'
    cases l with
    | nil => exact absurd rfl hne
    | cons a as => simp [hb', hs]

/-! ### `min` -/

theorem minList_cons (a : Nat) (as : List Nat) :
    minList (a :: as) = match minList as with
      | none => some a
      | some m => some (min a m) := by
  rw [minList]
  cases minList as <;> rfl

theorem minList_none (L : List Nat) (h : minList L = none) : L = [] := by
  cases L with
  | nil => rfl
  | cons a as =>
    rw [minList_cons] at h
    cases hm : minList as <;> simp [hm] at h

theorem minList_mem_le : ∀ (L : List Nat) (k : Nat), minList L = some k → k ∈ L ∧ ∀ x ∈ L, k ≤ x := by
  intro L
  induction L with
  | nil => intro k h; simp [minList] at h
  | cons a as ih =>
    intro k h
    rw [minList_cons] at h
    cases hm : minList as with
    | none =>
      rw [hm] at h
      simp only [Option.some.injEq] at h
      subst h
      have := minList_none as hm
      subst this
      simp
    | some m =>
      rw [hm] at h
      simp only [Option.some.injEq] at h
      subst h
      obtain ⟨hmem, hle⟩ := ih m hm
      refine ⟨?_, ?_⟩
      · by_cases hlt : a ≤ m
        · simp [Nat.min_eq_left hlt]
        · have : m ≤ a := Nat.le_of_not_le hlt
          simp [Nat.min_eq_right this, hmem]
      · intro x hx
        rcases List.mem_cons.mp hx with rfl | hx
        · exact Nat.min_le_left _ _
        · exact Nat.le_trans (Nat.min_le_right _ _) (hle x hx)

theorem minList_ne_nil (L : List Nat) (h : L ≠ []) : ∃ k, minList L = some k := by
  cases L with
  | nil => exact absurd rfl h
  | cons a as =>
    rw [minList_cons]
    cases minList as <;> simp

theorem minList_zero (L : List Nat) (h : 0 ∈ L) : minList L = some 0 := by
  obtain ⟨k, hk⟩ := minList_ne_nil L (by intro e; subst e; simp at h)
  have := (minList_mem_le L k hk).2 0 h
  have : k = 0 := Nat.le_zero.mp this
  subst this
  exact hk

/-! ### dropping the common indentation from one line -/

theorem blank_drop (l : Str) (k : Nat) (h : isBlankLine l = true) : isBlankLine (l.drop k) = true := by
  simp only [isBlankLine, List.all_eq_true] at h ⊢
  intro x hx
  exact h x (List.mem_of_mem_drop hx)

theorem all_of_dropWhile_nil {α} (p : α → Bool) : ∀ (l : List α), l.dropWhile p = [] → ∀ x ∈ l, p x = true := by
  intro l
  induction l with
  | nil => intro _ x hx; simp at hx
  | cons a as ih =>
    intro h x hx
    by_cases ha : p a = true
    · rw [List.dropWhile_cons_of_pos ha] at h
      rcases List.mem_cons.mp hx with rfl | hx
      · exact ha
      · exact ih h x hx
    · rw [List.dropWhile_cons_of_neg ha] at h
      simp at h

theorem counted_split (l : Str) (h : counted l = true) :
    ∃ x rest, l.dropWhile isSpaceChar = x :: rest ∧ isSpaceChar x = false := by
  cases hd : l.dropWhile isSpaceChar with
  | nil =>
    exfalso
    have hall : l.all isSpaceChar = true := by
      rw [List.all_eq_true]
      intro x hx
      exact all_of_dropWhile_nil isSpaceChar l hd x hx
    simp [counted, isSpaceStr, hall] at h
  | cons x rest =>
    refine ⟨x, rest, rfl, ?_⟩
    have := List.head_dropWhile_not isSpaceChar (l := l) (by rw [hd]; simp)
    simpa [hd] using this

theorem counted_drop (l : Str) (k : Nat) (h : counted l = true) (hk : k ≤ leadingSpaces l) :
    counted (l.drop k) = true ∧ leadingSpaces (l.drop k) = leadingSpaces l - k
      ∧ isBlankLine (l.drop k) = false := by
  obtain ⟨x, rest, hd, hx⟩ := counted_split l h
  have hsplit : l = l.takeWhile isSpaceChar ++ x :: rest := by
    rw [← hd]; exact (List.takeWhile_append_dropWhile).symm
  have hdrop : l.drop k = (l.takeWhile isSpaceChar).drop k ++ x :: rest := by
    conv => lhs; rw [hsplit]
    exact List.drop_append_of_le_length hk
  have hall : ∀ y ∈ (l.takeWhile isSpaceChar).drop k, isSpaceChar y = true := by
    intro y hy
    have := List.all_takeWhile (p := isSpaceChar) (l := l)
    rw [List.all_eq_true] at this
    exact this y (List.mem_of_mem_drop hy)
  have htw : (l.drop k).takeWhile isSpaceChar = (l.takeWhile isSpaceChar).drop k := by
    rw [hdrop, List.takeWhile_append_of_pos hall]
    simp [List.takeWhile, hx]
  refine ⟨?_, ?_, ?_⟩
  · rw [hdrop]
    have hne : ((l.takeWhile isSpaceChar).drop k ++ x :: rest).isEmpty = false := by
      cases (l.takeWhile isSpaceChar).drop k <;> rfl
    simp only [counted, isSpaceStr, hne, Bool.not_false, Bool.true_and, List.all_append, List.all_cons, hx,
      Bool.false_and, Bool.and_false]
  · simp only [leadingSpaces, htw, List.length_drop]
  · rw [hdrop]
    simp only [isBlankLine, List.all_append, List.all_cons]
    have : isBlankHT x = false := by
      cases hb : isBlankHT x with
      | false => rfl
      | true => rw [blankHT_isSpace x hb] at hx; cases hx
    simp [this]

/-! ### `remove_indentation` on a list of lines -/

theorem joinNL_ne_nil (M : List Str) (l : Str) (hl : l ∈ M) (hne : l ≠ []) : joinNL M ≠ [] := by
  induction M with
  | nil => simp at hl
  | cons a as ih =>
    cases as with
    | nil =>
      simp at hl
      subst hl
      simpa [joinNL] using hne
    | cons b bs =>
      show a ++ '\n' :: joinNL (b :: bs) ≠ []
      simp

theorem not_counted_drop (l : Str) (k : Nat) (h : counted l = false) : counted (l.drop k) = false := by
  unfold counted at h ⊢
  cases hl : l.isEmpty with
  | true =>
    have : l = [] := List.isEmpty_iff.mp hl
    subst this
    simp
  | false =>
    simp only [hl, Bool.not_false, Bool.true_and, Bool.not_eq_eq_eq_not, Bool.not_false] at h
    -- l is whitespace-only: so is every suffix (or it is empty)
    cases hd : (l.drop k).isEmpty with
    | true => simp
    | false =>
      simp only [Bool.not_false, Bool.true_and, Bool.not_eq_eq_eq_not, Bool.not_false]
      simp only [isSpaceStr, hl, Bool.not_false, Bool.true_and, hd] at h ⊢
      rw [List.all_eq_true] at h ⊢
      intro x hx
      exact h x (List.mem_of_mem_drop hx)

theorem removeIndentation_lines (M : List Str) (hnl : ∀ l ∈ M, '\n' ∉ l) (l0 : Str) (hl0 : l0 ∈ M)
    (hc0 : counted l0 = true) :
    ∃ k, minList ((M.filter counted).map leadingSpaces) = some k
      ∧ removeIndentation (joinNL M) = joinNL (M.map (·.drop k)) := by
  have hne0 : l0 ≠ [] := by intro e; subst e; simp [counted] at hc0
  have hM : M ≠ [] := by intro e; subst e; simp at hl0
  have hj : (joinNL M).isEmpty = false := by
    cases h : joinNL M with
    | nil => exact absurd h (joinNL_ne_nil M l0 hl0 hne0)
    | cons _ _ => rfl
  have hsplit : splitNL (joinNL M) = M := splitNL_joinNL M hM hnl
  have hfilt : (M.filter counted).map leadingSpaces ≠ [] := by
    intro e
    have : l0 ∈ M.filter counted := List.mem_filter.mpr ⟨hl0, hc0⟩
    have : leadingSpaces l0 ∈ (M.filter counted).map leadingSpaces := List.mem_map.mpr ⟨l0, this, rfl⟩
    rw [e] at this
    simp at this
  obtain ⟨k, hk⟩ := minList_ne_nil _ hfilt
  refine ⟨k, hk, ?_⟩
  unfold removeIndentation
  simp only [hj, Bool.false_eq_true, ↓reduceIte, hsplit]
  have : (M.filter fun l => !l.isEmpty && !isSpaceStr l) = M.filter counted := rfl
  rw [this, hk]

/-- `remove_indentation` does not change a text whose smallest indentation is already 0 -/
theorem removeIndentation_fixed (R : List Str) (hnl : ∀ l ∈ R, '\n' ∉ l) (l0 : Str) (hl0 : l0 ∈ R)
    (hc0 : counted l0 = true) (hz : leadingSpaces l0 = 0) :
    removeIndentation (joinNL R) = joinNL R := by
  obtain ⟨k, hk, hr⟩ := removeIndentation_lines R hnl l0 hl0 hc0
  have hmem : (0 : Nat) ∈ (R.filter counted).map leadingSpaces :=
    List.mem_map.mpr ⟨l0, List.mem_filter.mpr ⟨hl0, hc0⟩, hz⟩
  have : k = 0 := by
    have := minList_zero _ hmem
    rw [hk] at this
    exact Option.some.inj this
  subst this
  rw [hr]
  congr 1
  simp

theorem drop_no_nl (l : Str) (k : Nat) (h : '\n' ∉ l) : '\n' ∉ l.drop k :=
  fun hm => h (List.mem_of_mem_drop hm)

/-- after the common indentation `k` has been removed, a second `remove_indentation` changes nothing -/
theorem removeIndentation_after (M : List Str) (hnl : ∀ l ∈ M, '\n' ∉ l) (k : Nat)
    (hk : minList ((M.filter counted).map leadingSpaces) = some k) :
    removeIndentation (joinNL (M.map (·.drop k))) = joinNL (M.map (·.drop k)) := by
  obtain ⟨hmem, hle⟩ := minList_mem_le _ k hk
  obtain ⟨l0, hl0, hl0k⟩ := List.mem_map.mp hmem
  obtain ⟨hl0M, hc0⟩ := List.mem_filter.mp hl0
  obtain ⟨hc', hls, _⟩ := counted_drop l0 k hc0 (by omega)
  refine removeIndentation_fixed (M.map (·.drop k)) ?_ (l0.drop k) (List.mem_map.mpr ⟨l0, hl0M, rfl⟩) hc' (by omega)
  intro l hl
  obtain ⟨l', hl', rfl⟩ := List.mem_map.mp hl
  exact drop_no_nl l' k (hnl l' hl')

/-- `remove_indentation` is idempotent on every text -/
theorem removeIndentation_idem (s : Str) : removeIndentation (removeIndentation s) = removeIndentation s := by
  by_cases hs : s = []
  · subst hs; rfl
  · by_cases hc : ∃ l ∈ splitNL s, counted l = true
    · obtain ⟨l0, hl0, hc0⟩ := hc
      obtain ⟨k, hk, hr⟩ := removeIndentation_lines (splitNL s) (splitNL_no_nl s) l0 hl0 hc0
      rw [joinNL_splitNL] at hr
      rw [hr]
      exact removeIndentation_after (splitNL s) (splitNL_no_nl s) k hk
    · have hnone : (splitNL s).filter counted = [] := by
        rw [List.filter_eq_nil_iff]
        intro l hl hcl
        exact hc ⟨l, hl, hcl⟩
      have : removeIndentation s = s := by
        unfold removeIndentation
        have hse : s.isEmpty = false := by cases s with | nil => exact absurd rfl hs | cons _ _ => rfl
        simp only [hse, Bool.false_eq_true, ↓reduceIte]
        have : ((splitNL s).filter fun l => !l.isEmpty && !isSpaceStr l) = (splitNL s).filter counted := rfl
        rw [this, hnone]
        rfl
      rw [this, this]

/-! ### `strip_empty_lines` -/

theorem mem_of_mem_dropWhile {α} (p : α → Bool) (l : List α) (x : α) (h : x ∈ l.dropWhile p) : x ∈ l :=
  (List.dropWhile_suffix p).subset h

/-- a text whose first and last lines are not `[ \t]*` is left alone -/
theorem strip_fixed (a : Str) (rest : List Str) (y0 : Str) (ys : List Str)
    (hnl : ∀ l ∈ a :: rest, '\n' ∉ l) (ha : isBlankLine a = false)
    (hrev : (a :: rest).reverse = y0 :: ys) (hy : isBlankLine y0 = false) :
    stripEmptyLines (joinNL (a :: rest)) = joinNL (a :: rest) := by
  have hane : a ≠ [] := by intro e; subst e; simp [isBlankLine] at ha
  have hj : (joinNL (a :: rest)).isEmpty = false := by
    cases h : joinNL (a :: rest) with
    | nil => exact absurd h (joinNL_ne_nil _ a (by simp) hane)
    | cons _ _ => rfl
  unfold stripEmptyLines
  simp only [hj, Bool.false_eq_true, ↓reduceIte]
  rw [splitNL_joinNL (a :: rest) (by simp) hnl]
  have h1 : (a :: rest).dropWhile isBlankLine = a :: rest := List.dropWhile_cons_of_neg (by simp [ha])
  rw [h1]
  simp only
  rw [hrev, List.dropWhile_cons_of_neg (by simp [hy]), ← hrev, List.reverse_reverse]

/-- the results `strip_empty_lines` gives on an all-blank text -/
def BlankAtom (u : Str) : Prop := u = ['\n'] ∨ ('\n' ∉ u ∧ isBlankLine u = true ∧ u ≠ [])

theorem blankAtom_fixed (u : Str) (h : BlankAtom u) : stripEmptyLines u = u ∧ removeIndentation u = u := by
  rcases h with rfl | ⟨hnl, hb, hne⟩
  · exact ⟨by decide, by decide⟩
  · have hse : u.isEmpty = false := by cases u with | nil => exact absurd rfl hne | cons _ _ => rfl
    have hsp : splitNL u = [u] := splitNL_no_nl_self u hnl
    refine ⟨?_, ?_⟩
    · unfold stripEmptyLines
      simp only [hse, Bool.false_eq_true, ↓reduceIte, hsp]
      rw [List.dropWhile_cons_of_pos hb]
      rfl
    · unfold removeIndentation
      simp only [hse, Bool.false_eq_true, ↓reduceIte, hsp]
      have hc : counted u = false := by
        rcases blankLine_cases u hb with rfl | hs
        · exact absurd rfl hne
        · simp [counted, hs]
      have : ([u].filter fun l => !l.isEmpty && !isSpaceStr l) = [u].filter counted := rfl
      rw [this]
      simp [hc, minList]

/-! ### the theorem -/

theorem strip_all_blank (s : Str) (hs : s ≠ []) (hX : (splitNL s).dropWhile isBlankLine = []) :
    BlankAtom (stripEmptyLines s) := by
  have hse : s.isEmpty = false := by cases s with | nil => exact absurd rfl hs | cons _ _ => rfl
  have hall : ∀ l ∈ splitNL s, isBlankLine l = true := all_of_dropWhile_nil _ _ hX
  have hnl := splitNL_no_nl s
  unfold stripEmptyLines
  simp only [hse, Bool.false_eq_true, ↓reduceIte, hX]
  cases hr : (splitNL s).reverse with
  | nil =>
    exfalso
    have : splitNL s = [] := by simpa using congrArg List.reverse hr
    exact splitNL_ne_nil s this
  | cons ln tl =>
    have hln : ln ∈ splitNL s := by
      have : ln ∈ (splitNL s).reverse := by rw [hr]; simp
      simpa using this
    cases tl with
    | nil =>
      simp only
      have hsp : splitNL s = [ln] := by simpa using congrArg List.reverse hr
      have : s = ln := by
        have := joinNL_splitNL s
        rw [hsp] at this
        simpa [joinNL] using this.symm
      subst this
      exact Or.inr ⟨hnl _ hln, hall _ hln, hs⟩
    | cons lp tl2 =>
      have hlp : lp ∈ splitNL s := by
        have : lp ∈ (splitNL s).reverse := by rw [hr]; simp
        simpa using this
      simp only
      by_cases h1 : ln.isEmpty = true
      · by_cases h2 : lp.isEmpty = true
        · simp [h1, h2]; exact Or.inl rfl
        · simp only [h1, Bool.not_true, Bool.false_eq_true, ↓reduceIte, h2, Bool.not_false]
          refine Or.inr ⟨hnl _ hlp, hall _ hlp, ?_⟩
          intro e; subst e; simp at h2
      · simp only [h1, Bool.not_false, ↓reduceIte]
        refine Or.inr ⟨hnl _ hln, hall _ hln, ?_⟩
        intro e; subst e; simp at h1

/-- Note and sticky-note normalisation is idempotent on every text without exotic blank lines
    (lines that are whitespace-only without being `[ \t]*`: CR of CRLF files, NBSP, VT, FF …). -/
theorem norm_idem (s : Str) (hx : noExoticBlank s = true) : norm (norm s) = norm s := by
  unfold norm
  by_cases hs : s = []
  · subst hs; decide
  have hse : s.isEmpty = false := by cases s with | nil => exact absurd rfl hs | cons _ _ => rfl
  have hex : ∀ l ∈ splitNL s, exoticBlankLine l = false := by
    intro l hl
    simp only [noExoticBlank, Bool.not_eq_true', List.any_eq_false] at hx
    simpa using hx l hl
  have hnl := splitNL_no_nl s
  cases hX : (splitNL s).dropWhile isBlankLine with
  | nil =>
    obtain ⟨h1, h2⟩ := blankAtom_fixed _ (strip_all_blank s hs hX)
    rw [h2, h1, h2]
  | cons a as =>
    -- the trimmed lines: M = a :: W.reverse, M.reverse = W ++ [a]
    have haX : a ∈ (splitNL s).dropWhile isBlankLine := by rw [hX]; simp
    have haL : a ∈ splitNL s := mem_of_mem_dropWhile _ _ _ haX
    have hab : isBlankLine a = false := by
      have := List.head_dropWhile_not isBlankLine (l := splitNL s) (by rw [hX]; simp)
      simpa [hX] using this
    let W := as.reverse.dropWhile isBlankLine
    have hY : ((a :: as).reverse).dropWhile isBlankLine = W ++ [a] := by
      rw [List.reverse_cons, List.dropWhile_append]
      have : [a].dropWhile isBlankLine = [a] := List.dropWhile_cons_of_neg (by simp [hab])
      by_cases hW : (as.reverse.dropWhile isBlankLine).isEmpty = true
      · have : as.reverse.dropWhile isBlankLine = [] := List.isEmpty_iff.mp hW
        simp [W, this, ‹[a].dropWhile isBlankLine = [a]›]
      · simp [W, hW]
    have hu : stripEmptyLines s = joinNL (a :: W.reverse) := by
      unfold stripEmptyLines
      simp only [hse, Bool.false_eq_true, ↓reduceIte, hX, hY]
      simp
    have hWL : ∀ l ∈ W, l ∈ splitNL s := by
      intro l hl
      have h1 : l ∈ as.reverse := mem_of_mem_dropWhile _ _ _ hl
      have h2 : l ∈ a :: as := by simp at h1; simp [h1]
      rw [← hX] at h2
      exact mem_of_mem_dropWhile _ _ _ h2
    have hML : ∀ l ∈ a :: W.reverse, l ∈ splitNL s := by
      intro l hl
      rcases List.mem_cons.mp hl with rfl | hl
      · exact haL
      · exact hWL l (by simpa using hl)
    have hMnl : ∀ l ∈ a :: W.reverse, '\n' ∉ l := fun l hl => hnl l (hML l hl)
    have hca : counted a = true := by rw [counted_iff a (hex a haL), hab]; rfl
    obtain ⟨k, hk, hr⟩ := removeIndentation_lines (a :: W.reverse) hMnl a (by simp) hca
    obtain ⟨hkmem, hkle⟩ := minList_mem_le _ k hk
    -- norm s = joinNL R
    rw [hu, hr]
    -- R's first and last lines are not blank
    have hdropNB : ∀ l ∈ a :: W.reverse, isBlankLine l = false → isBlankLine (l.drop k) = false := by
      intro l hl hb
      have hc : counted l = true := by rw [counted_iff l (hex l (hML l hl)), hb]; rfl
      have hkl : k ≤ leadingSpaces l :=
        hkle _ (List.mem_map.mpr ⟨l, List.mem_filter.mpr ⟨hl, hc⟩, rfl⟩)
      exact (counted_drop l k hc hkl).2.2
    have hRnl : ∀ l ∈ (a :: W.reverse).map (·.drop k), '\n' ∉ l := by
      intro l hl
      obtain ⟨l', hl', rfl⟩ := List.mem_map.mp hl
      exact drop_no_nl l' k (hMnl l' hl')
    have hstrip : stripEmptyLines (joinNL ((a :: W.reverse).map (·.drop k))) = joinNL ((a :: W.reverse).map (·.drop k)) := by
      cases hW : W with
      | nil =>
        simp only [List.reverse_nil, List.map_cons, List.map_nil]
        exact strip_fixed (a.drop k) [] (a.drop k) []
          (by intro l hl; exact hRnl l (by simpa [hW] using hl))
          (hdropNB a (by simp) hab) rfl (hdropNB a (by simp) hab)
      | cons w0 ws =>
        have hw0b : isBlankLine w0 = false := by
          have := List.head_dropWhile_not isBlankLine (l := as.reverse) (by show W ≠ []; rw [hW]; simp)
          have hW' : as.reverse.dropWhile isBlankLine = w0 :: ws := hW
          simpa [hW'] using this
        have hw0M : w0 ∈ a :: W.reverse := by simp [hW]
        have hrev : ((a.drop k) :: (W.reverse.map (·.drop k))).reverse
            = (w0.drop k) :: ((ws.map (·.drop k)) ++ [a.drop k]) := by
          simp [hW, List.map_reverse]
        have := strip_fixed (a.drop k) (W.reverse.map (·.drop k)) (w0.drop k) ((ws.map (·.drop k)) ++ [a.drop k])
          (by simpa using hRnl) (hdropNB a (by simp) hab) hrev (hdropNB w0 hw0M hw0b)
        simpa [hW] using this
    rw [hstrip]
    exact removeIndentation_after (a :: W.reverse) hMnl k hk

/-- The hypothesis is tight: with a whitespace-only line that is not `[ \t]*` (here a lone CR, as the last line
    of a CRLF text) normalisation is NOT idempotent - in the model and in the code (known finding
    `WhitespaceOnlyLine`, replayed by the check on the implementation). -/
theorem norm_not_idem_exotic : norm (norm (lit " a\n\r")) ≠ norm (lit " a\n\r") := by decide

/-- non-vacuity: an indented multi-line text with blank lines meets the hypothesis and is changed by `norm` -/
example : noExoticBlank (lit "\n\n    a\n\n      b\n  \n") = true
    ∧ norm (lit "\n\n    a\n\n      b\n  \n") = lit "a\n\n  b" := by decide

end C13
end PyDBML
