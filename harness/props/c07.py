"""C07 — malformed text is never accepted: the whole input must be valid DBML."""
import json
import random

from harness import ref_text as RT
from harness import core, gen_db as GD, gen_text as GT, impl_text as IT, speller as SP
from harness import parse_common as PC
from harness.driver import Driver, DriverError

PID = 'C07'
THEOREMS = ['PyDBML.C07.accepts_only_whole_input', 'PyDBML.C07.stringEnd_ok', 'PyDBML.C07.advance_suffix', 'PyDBML.C07.skipWs_suffix',
            'PyDBML.Fuel.many_fuel_irrelevant', 'PyDBML.Fuel.manyF_any_fuel', 'PyDBML.Fuel.document_fuel_irrelevant']
MODULES = ['PyDBMLProofs.Props.C07', 'PyDBMLProofs.Fuel']

FAULTS = ['col_no_type', 'unknown_setting', 'unknown_index_type', 'bad_operator', 'bad_action', 'bad_colour', 'prop_when_off',
          'stray_after_column']
BRACKETS = ['{', '}', '[', ']', '(', ')']
GARBAGE = ['x', '}', ']', ')', '{', 'Table', 'Table t', 'ref', ':', ',', "'unterminated", '"', '`', '#fff', '1', '.', '-', '>',
           'note:', '[pk]', 'indexes', 'as', '*/', '\\', '\x0c', ' x', 'é', '\x00']


def gen_base(seed, varied=True, max_tables=2):
    rng = random.Random(seed)
    spec = SP.normalise_for_spelling(GD.gen_spec(rng, wild=False, max_tables=max_tables), RT.ref_norm)
    if not SP.spellable(spec):
        return None
    text, exp, info = SP.spell(spec, rng, {'varied': varied})
    return rng, spec, text


def fault_job(job):
    """-> list of (fault kind, text, props, impl outcome)"""
    seed, mode = job
    g = gen_base(seed, varied=(mode != 'canon'))
    if g is None:
        return []
    rng, spec, text = g
    props = spec['allow_properties']
    if 'ok' not in PC.impl_parse(text, props):
        return [('base-rejected', text, props, None)]
    out = []
    if mode == 'struct':
        for kind in FAULTS:
            for k in range(3):
                r2 = random.Random(f'{seed}:{kind}:{k}')
                t2, _, info = SP.spell(spec, r2, {'varied': True, 'fault': (kind, k)})
                if info['fault_done']:
                    out.append((kind, t2, props, PC.impl_parse(t2, props)))
    elif mode == 'brackets':
        toks = GT.tokens(text)
        pos = [i for i, t in enumerate(toks) if t in BRACKETS]
        for i in pos:
            t2 = ''.join(toks[:i] + toks[i + 1:])
            out.append(('missing ' + toks[i], t2, props, PC.impl_parse(t2, props)))
        # a bracketed group written twice in a row ("[pk] [not null]", "(a, b)(a, b)", "{ ... }{ ... }")
        close = {'[': ']', '(': ')', '{': '}'}
        for i in pos:
            if toks[i] in close:
                depth, j = 0, i
                while j < len(toks):
                    if toks[j] == toks[i]:
                        depth += 1
                    elif toks[j] == close[toks[i]]:
                        depth -= 1
                        if depth == 0:
                            break
                    j += 1
                if j < len(toks):
                    grp = toks[i:j + 1]
                    for sep in ('', ' '):
                        t2 = ''.join(toks[:j + 1] + [sep] + grp + toks[j + 1:])
                        out.append(('duplicated ' + toks[i] + ' group', t2, props, PC.impl_parse(t2, props)))
        # an identifier or keyword written twice in a row
        words = [i for i, t in enumerate(toks) if t[:1].isalnum() or t[:1] == '_' or t[:1] == '"']
        rng.shuffle(words)
        for i in words[:25]:
            t2 = ''.join(toks[:i + 1] + [' ', toks[i]] + toks[i + 1:])
            out.append(('word-twice', t2, props, PC.impl_parse(t2, props)))
        # words made of characters DBML has no use for (an identifier is letters, digits, underscores - or quoted): a stray
        # one anywhere between tokens, or a line of them where a column / enum item / index / group member would stand
        bounds = [i for i in range(len(toks) + 1) if not (i > 0 and toks[i - 1].startswith('//'))]
        rng.shuffle(bounds)
        for i in bounds[:25]:
            w = rng.choice(['@@', '%%', '$x', 'a@b', '!', 'x=1', '*', '~t', '@@ %%', '&& ||'])
            t2 = ''.join(toks[:i] + [' ', w, ' '] + toks[i:])
            out.append(('symbol-word', t2, props, PC.impl_parse(t2, props)))
        # a byte-order mark is only a byte-order mark at the very start: U+FEFF anywhere else is a stray character
        for i in [i for i in bounds if i > 0][25:37]:
            t2 = ''.join(toks[:i] + [rng.choice(['\ufeff', ' \ufeff ', '\ufeff\n'])] + toks[i:])
            out.append(('stray U+FEFF', t2, props, PC.impl_parse(t2, props)))
        nls = [i for i, t in enumerate(toks) if t == '\n']
        rng.shuffle(nls)
        for i in nls[:15]:
            w = rng.choice(['@@ %%', '$a $b', '!x', '%', 'a@b int', 'x=1 y=2'])
            t2 = ''.join(toks[:i + 1] + ['  ', w, '\n'] + toks[i + 1:])
            out.append(('symbol-line', t2, props, PC.impl_parse(t2, props)))
        bounds = list(range(len(toks) + 1))
        rng.shuffle(bounds)
        for i in bounds[:40]:
            if i > 0 and toks[i - 1].startswith('//'):
                continue        # text appended to a line comment is part of the comment
            b = rng.choice(BRACKETS)
            t2 = ''.join(toks[:i] + [b] + toks[i:])
            out.append(('extra ' + b, t2, props, PC.impl_parse(t2, props)))
    elif mode == 'tail':
        for gbg in GARBAGE:
            sep = rng.choice(['\n', ' ', '\n\n', ''])
            t2 = text + sep + gbg
            if sep == '' and gbg[:1].isalnum() and text[-1:].isalnum():
                continue
            out.append(('trailing garbage', t2, props, PC.impl_parse(t2, props)))
        # a line of stray tokens is not protected by a `//` comment on the line above it, whatever that comment ends
        # with (backslash = no line continuation in DBML)
        toks0 = GT.tokens(text)       # strings, comments and expressions are single tokens: a '\n' token is outside them
        cand = [i for i, t in enumerate(toks0) if t == '\n']
        rng.shuffle(cand)
        for i in cand[:6]:
            for tail in ('\\', ' \\', 'C:\\dir\\', '\\\\'):
                gbg = rng.choice(['} {', ')(', 'Table {', '] [', 'x y z ,'])
                t2 = ''.join(toks0[:i + 1] + ['// see ' + tail, '\n', gbg, '\n'] + toks0[i + 1:])
                out.append(('garbage line after a // comment ending in a backslash', t2, props, PC.impl_parse(t2, props)))
        toks = GT.tokens(text)
        strs = [i for i, t in enumerate(toks) if len(t) >= 2 and t[0] in '\'"' and t[-1] == t[0]]
        if strs:
            i = strs[-1]
            rest = ''.join(toks[i + 1:])
            if "'" not in rest and '"' not in rest:
                q = "'''" if toks[i].startswith("'''") else toks[i][0]
                t2 = ''.join(toks[:i]) + toks[i][:-len(q)] + rest
                out.append(('unterminated string', t2, props, PC.impl_parse(t2, props)))
    return out


def mutation_job(job):
    seed, n = job
    rng = random.Random(seed)
    base = [t for _, t in GT.corpus() if len(t) < 2500]
    for k in range(12):
        g = gen_base(f'{seed}:b{k}', max_tables=3)
        if g:
            base.append(g[2])
    out = []
    for _ in range(n):
        if rng.random() < 0.9:
            t = GT.mutate(rng, rng.choice(base), rng.randint(1, 3))
        else:
            t = GT.soup(rng, rng.randint(1, 12))
        p = rng.random() < 0.5
        out.append((t, p, PC.impl_parse(t, p)))
    return out


def main(tier, seed):
    ctx = core.Ctx(PID, tier, seed, 'translation_validation', THEOREMS, MODULES)
    ctx.build()
    problems = ctx.audit() if ctx.build_ok else ['lake build failed']
    drv = None
    try:
        drv = Driver()
    except DriverError as e:
        ctx.notes.append(str(e))
    n = 60 if not ctx.thorough else 1200
    jobs = [(f'{seed}:{mode}:{k}', mode) for mode in ('struct', 'brackets', 'tail') for k in range(n)]
    res = [x for lst in core.pmap(fault_job, jobs) for x in lst]
    texts = []
    for kind, text, props, r in res:
        if kind == 'base-rejected':
            ctx.count('base-rejected')
            continue
        got = PC.brief(r)
        ctx.case(core.h(text), True, sample={'fault': kind, 'outcome': got, 'text_tail': text[-160:]} if len(ctx.samples) < 6 and kind != 'trailing garbage' else None)
        ctx.count('fault:' + kind.split(' ')[0])
        ctx.count('outcome:' + got.split(':')[0])
        if got == 'ok' and kind not in ('word-twice', 'duplicated ( group'):   # those two can stay valid (verdict correspondence only)
            ctx.fail(f'a document with a provably invalid part ({kind}) is accepted', {'op': 'fault', 'kind': kind, 'text': text, 'props': props})
        texts.append((text, props, r))
    # random mutation stream (verdict correspondence; most mutants are invalid, some stay valid)
    m = 24 if not ctx.thorough else 400
    for lst in core.pmap(mutation_job, [(f'{seed}:mut:{k}', 250) for k in range(m)]):
        for t, p, r in lst:
            ctx.case(core.h(t), True)
            ctx.count('mutant:' + PC.brief(r).split(':')[0])
            texts.append((t, p, r))
    if drv is not None:
        model = drv.ask_many({'op': 'parse', 'text': t, 'allow_properties': p} for t, p, _ in texts)
        for (t, p, r), mo in zip(texts, model):
            if mo.get('err') == 'outOfModel' or r.get('err') == 'recursion':
                ctx.count('model:outOfModel')
                continue
            if not PC.same_parse(mo, r):
                ctx.diverge('parse verdict (malformed / mutated document)', {'op': 'parse', 'text': t, 'props': p}, PC.brief(mo), PC.brief(r))
        drv.close()
    return ctx.finish(
        rule='(a) grammar faults injected by the speller at the k-th opportunity: column without type, unknown setting, unknown '
             'index type, bad relation operator, bad action, malformed colour, a property line with the option off, words after a column definition on its line; (b) every structural bracket deleted, brackets '
             'inserted at 40 random token boundaries, words and lines of characters DBML has no use for (@ % $ ! = * ~ &) at 40 more; (c) 30 kinds of trailing garbage, unterminated last string; each on valid '
             'spelled documents (checked); (d) random token/character mutants of corpus and spelled documents and token soups '
             '(verdict correspondence). Distinct by text hash; every case differs from its valid source',
        explanation='Oracle: a document carrying a fault of a kind no valid spelling contains must not yield a database. '
                    'Correspondence: the Lean character-level parser model returns the same verdict class on every faulty and '
                    'mutated text. Theorems: the model accepts only when the whole input is consumed (accepts_only_whole_input).',
        assumptions=['fault kinds are chosen so that no admissible spelling contains them (unbalanced structural bracket, closed '
                     'sets, missing type, non-blank text after the last element)'],
        trusted_base=['hand-written Lean model of the lexical layer and grammar tied by this correspondence'],
        proof_problems=problems)


def replay(path):
    case = json.load(open(path))
    c = case.get('case', {})
    print(json.dumps({k: v for k, v in case.items() if k != 'case'}, indent=1)[:2000])
    if 'text' in c:
        print(c['text'])
        print('impl:', PC.brief(PC.impl_parse(c['text'], c.get('props', False))))
        with Driver() as d:
            print('model:', PC.brief(d.ask({'op': 'parse', 'text': c['text'], 'allow_properties': c.get('props', False)})))
    return 0
