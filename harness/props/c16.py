"""C16 — element and database renderings agree and use the configured renderers."""
import itertools
import json
import os
import random
import shutil
import sys
import tempfile

from harness import core, gen_db as GD, observe as O
from harness.driver import Driver, DriverError

sys.path.insert(0, '/repo')
from pydbml import PyDBML  # noqa: E402
from pydbml.classes import (Column, Enum, EnumItem, Expression, Index, Note, Project,  # noqa: E402
                            Reference, Table, TableGroup)
from pydbml.database import Database  # noqa: E402
from pydbml.renderer.base import BaseRenderer  # noqa: E402
from pydbml.renderer.sql.default import DefaultSQLRenderer  # noqa: E402
from pydbml.renderer.dbml.default import DefaultDBMLRenderer  # noqa: E402

StickyNote = O.StickyNote
PID = 'C16'
THEOREMS = ['PyDBML.C16.attached_uses_configured', 'PyDBML.C16.detached_uses_default',
            'PyDBML.C16.unsupported_is_empty', 'PyDBML.C16.ownerless_kinds_use_default',
            'PyDBML.C16.dbml_is_join_of_elements', 'PyDBML.C16.project_segment', 'PyDBML.C16.sql_is_join_of_elements']
MODULES = ['PyDBMLProofs.Props.C16']

KIND_CLASS = {'table': Table, 'column': Column, 'index': Index, 'enum': Enum, 'enum_item': EnumItem,
              'reference': Reference, 'note': Note, 'expression': Expression, 'project': Project,
              'group': TableGroup, 'sticky': StickyNote}
KINDS = list(KIND_CLASS)
DBML_ONLY = {'project', 'group', 'sticky'}
SRC = '''Project p1 {
  database_type: 'PostgreSQL'
}
Enum e1 {
  a
  b [note: 'n']
}
Table t1 {
  id int [pk, default: `now()`, note: 'cn']
  e e1
  Note: 'tn'
  indexes {
    id [name: 'ix']
  }
}
Table t2 {
  id int [ref: > t1.id]
  x int
}
Ref r1: t2.x > t1.id
TableGroup g1 {
  t1
}
Note s1 {
  'sticky'
}
'''


def make_renderer(handled, tag):
    class R(BaseRenderer):
        model_renderers = {}

        @classmethod
        def render_db(cls, db):
            return f'<{tag}:db>'
    for kind in handled:
        R.renderer_for(KIND_CLASS[kind])(lambda m, kind=kind: f'<{tag}:{kind}>')
    return R


def elements(db):
    """kind -> list of (element, attached?) from a parsed database"""
    # by name, not by position: where a table stands in db.tables is not this check's business (and a harness that trips over
    # a reordered list would hide the change that reordered it)
    t1 = next(t for t in db.tables if t.name == 't1')
    return {
        'table': t1, 'column': t1.columns[0], 'index': t1.indexes[0], 'enum': db.enums[0],
        'enum_item': db.enums[0].items[1], 'reference': db.refs[-1], 'note': t1.note,
        'expression': t1.columns[0].default, 'project': db.project, 'group': db.table_groups[0],
        'sticky': db.sticky_notes[0],
    }


def detached_elements():
    t = Table('t9')
    c = Column('c9', 'int', default=Expression('1+1'))
    t.add_column(c)
    ix = Index([c])
    t.add_index(ix)
    t.note = Note('tn9')
    u = Table('u9')
    d = Column('d9', 'int')
    u.add_column(d)
    e = Enum('e9', [EnumItem('i9', note='in')])
    return {'table': t, 'column': c, 'index': ix, 'enum': e, 'enum_item': e.items[0],
            'reference': Reference('>', c, d), 'note': t.note, 'expression': c.default,
            'project': Project('p9'), 'group': TableGroup('g9', [t]), 'sticky': StickyNote('s9', 'x')}


def classify_out(out, tag, kind, default_out):
    if out == ('ok', f'<{tag}:{kind}>'):
        return 'marker'
    if out == ('ok', ''):
        return 'empty' if default_out != ('ok', '') else 'empty-or-default'
    if out == default_out:
        return 'default' if out[0] == 'ok' else out[1]
    return 'other:' + repr(out)[:80]


def routes(tmpdir, src, **kw):
    path = os.path.join(tmpdir, 'r.dbml')
    with open(path, 'w', encoding='utf8') as f:
        f.write(src)
    from pathlib import Path
    yield 'PyDBML(str)', lambda: PyDBML(src, **kw)
    yield 'PyDBML.parse', lambda: PyDBML.parse(src, **kw)
    yield 'PyDBML().parse', lambda: PyDBML().parse(src, **kw)
    yield 'PyDBML(Path)', lambda: PyDBML(Path(path), **kw)

    def from_file():
        with open(path, encoding='utf8') as f:
            return PyDBML(f, **kw)
    yield 'PyDBML(file)', from_file


def part_dispatch(ctx, drv):
    rng = ctx.rng
    subsets = [[], KINDS[:], ['table'], ['column'], ['enum', 'reference'], ['project', 'group', 'sticky']]
    n_rand = 20 if not ctx.thorough else 300
    for _ in range(n_rand):
        subsets.append([k for k in KINDS if rng.random() < 0.5])
    tmpdir = tempfile.mkdtemp(prefix='verif_c16_')
    try:
        reqs = []
        obs = []
        for si, handled in enumerate(subsets):
            RS, RD = make_renderer(handled, 'S'), make_renderer(handled, 'D')
            rts = list(routes(tmpdir, SRC, sql_renderer=RS, dbml_renderer=RD))
            # constructor route of Database too
            for rname, mk in rts if (si < 6 or ctx.thorough) else rts[:1 + si % len(rts)]:
                db = mk()
                if db.sql_renderer is not RS or db.dbml_renderer is not RD:
                    ctx.fail(f'route {rname}: renderer classes passed to the parser are not the database\'s', {'op': 'route', 'route': rname, 'handled': handled})
                if O.run(lambda: db.sql) != ('ok', '<S:db>') or O.run(lambda: db.dbml) != ('ok', '<D:db>'):
                    ctx.fail(f'route {rname}: db.sql/db.dbml not produced by the configured renderer', {'op': 'route', 'route': rname, 'handled': handled})
                for attached, els in ((True, elements(db)), (False, detached_elements())):
                    for kind, el in els.items():
                        for sql in (True, False):
                            if sql and kind in DBML_ONLY:
                                continue
                            dflt = DefaultSQLRenderer if sql else DefaultDBMLRenderer
                            default_out = O.run(lambda: dflt.render(el))
                            tag = 'S' if sql else 'D'
                            out = O.run(lambda: el.sql if sql else el.dbml)
                            got = classify_out(out, tag, kind, default_out)
                            reqs.append({'op': 'dispatch', 'what': 'render', 'kind': kind, 'handled': handled, 'unset': [],
                                         'attached': attached, 'sql': sql, 'default_cfg': False})
                            obs.append((rname, kind, attached, sql, handled, got))
        # Database(...) constructor with custom renderers, elements added by hand
        model = drv.ask_many(reqs) if drv is not None else None
        for i, (rname, kind, attached, sql, handled, got) in enumerate(obs):
            ctx.case(core.h(['dispatch', rname, kind, attached, sql, handled]), bool(handled) and len(handled) < len(KINDS),
                     sample={'route': rname, 'kind': kind, 'attached': attached, 'sql': sql, 'handled': handled, 'outcome': got} if i % 997 == 0 else None)
            ctx.count('dispatch:' + got.split(':')[0])
            # the statement, directly
            has_db = kind in ('table', 'column', 'enum', 'reference', 'project', 'group', 'sticky')
            if attached and has_db:
                want = 'marker' if kind in handled else 'empty'
            else:
                want = 'default'
            ok = got == want or (want == 'empty' and got == 'empty-or-default') or \
                (want == 'default' and got in ('empty-or-default', 'lib:UnknownDatabaseError'))
            if not ok:
                ctx.fail(f'{kind}.{"sql" if sql else "dbml"} ({"attached" if attached else "detached"}) does not go through the '
                         f'{"configured" if want != "default" else "default"} renderer',
                         {'op': 'dispatch', 'route': rname, 'kind': kind, 'attached': attached, 'sql': sql, 'handled': handled}, got=got, want=want)
            if model is not None:
                m = model[i].get('ok')
                mm = {'lib:UnknownDatabaseError': 'default'}.get(m, m)
                gg = {'empty-or-default': mm, 'lib:UnknownDatabaseError': 'default'}.get(got, got)
                if mm != gg:
                    ctx.diverge('renderer dispatch outcome', reqs[i], m, got)
        # the caller keeps elements but not the Database: an element's renderings go through the renderers of the database it
        # belongs to, whoever else still refers to that database
        import gc
        for handled in (KINDS[:], ['table', 'enum']):
            RS, RD = make_renderer(handled, 'S'), make_renderer(handled, 'D')
            els = elements(PyDBML(SRC, sql_renderer=RS, dbml_renderer=RD))     # the Database object itself is not kept
            gc.collect()
            for kind, el in els.items():
                if kind not in ('table', 'column', 'enum', 'reference', 'project', 'group', 'sticky'):
                    continue
                for sql in (True, False):
                    if sql and kind in DBML_ONLY:
                        continue
                    tag = 'S' if sql else 'D'
                    out = O.run(lambda: el.sql if sql else el.dbml)
                    want = ('ok', f'<{tag}:{kind}>') if kind in handled else ('ok', '')
                    ctx.case(core.h(['db-dropped', kind, sql, handled]), True,
                             sample={'caller_keeps': 'elements only', 'kind': kind, 'sql': sql, 'outcome': out[1][:40]} if kind == 'table' else None)
                    if out != want:
                        ctx.fail(f'{kind}.{"sql" if sql else "dbml"} of an element whose Database the caller no longer holds does not go '
                                 f'through that database\'s configured renderer', {'op': 'db-dropped', 'kind': kind, 'sql': sql, 'handled': handled},
                                 got=out, want=want)
        # elements deleted from a database configured with custom renderers are detached again
        RS, RD = make_renderer(KINDS[:], 'S'), make_renderer(KINDS[:], 'D')
        db = PyDBML(SRC, sql_renderer=RS, dbml_renderer=RD)
        victims = {'table': db.tables[1], 'enum': db.enums[0], 'reference': db.refs[-1], 'group': db.table_groups[0],
                   'project': db.project, 'sticky': db.sticky_notes[0]}
        db.delete(db.table_groups[0])
        for kind in ('reference', 'sticky', 'project', 'enum'):
            db.delete(victims[kind])
        for r in list(db.refs):
            db.delete(r)
        db.delete(victims['table'])
        for kind, el in victims.items():
            for sql in (True, False):
                if sql and kind in DBML_ONLY:
                    continue
                out = O.run(lambda: el.sql if sql else el.dbml)
                ctx.case(core.h(['deleted', kind, sql]), True)
                if out == ('ok', f'<{"S" if sql else "D"}:{kind}>'):
                    ctx.fail(f'a {kind} deleted from the database still renders through the database\'s configured renderer',
                             {'op': 'deleted-element', 'kind': kind, 'sql': sql})
    finally:
        shutil.rmtree(tmpdir, ignore_errors=True)


def join_job(job):
    seed, wild = job
    rng = random.Random(seed)
    spec = GD.gen_spec(rng, wild=wild, max_tables=4)
    if rng.random() < 0.12:
        # a database without tables (enums, sticky notes, a project only): its renderings are still the join of its elements'
        spec['tables'], spec['refs'], spec['groups'] = [], [], []
        if not spec['enums']:
            spec['enums'] = [{'name': 'only_enum', 'schema': 'public', 'comment': None,
                              'items': [{'name': 'a', 'note': '', 'comment': None}, {'name': 'b', 'note': 'n', 'comment': None}]}]
    try:
        db, hd = GD.build(spec)
        before = O.dump_db(db)
        state0 = O.object_state(db)
    except Exception as e:  # noqa: BLE001
        return {'skip': type(e).__name__}
    fails = []
    # renderings in a random order, some twice
    thunks = [('db.sql', lambda: db.sql), ('db.dbml', lambda: db.dbml)]
    for i, t in enumerate(db.tables):
        thunks.append((f't{i}.sql', lambda t=t: t.sql))
        thunks.append((f't{i}.dbml', lambda t=t: t.dbml))
        for j, c in enumerate(t.columns):
            thunks.append((f't{i}.c{j}.sql', lambda c=c: c.sql))
            thunks.append((f't{i}.c{j}.dbml', lambda c=c: c.dbml))
    for i, e in enumerate(db.enums):
        thunks.append((f'e{i}.sql', lambda e=e: e.sql))
        thunks.append((f'e{i}.dbml', lambda e=e: e.dbml))
    for i, r in enumerate(db.refs):
        thunks.append((f'r{i}.sql', lambda r=r: r.sql))
        thunks.append((f'r{i}.dbml', lambda r=r: r.dbml))
    for i, g in enumerate(db.table_groups):
        thunks.append((f'g{i}.dbml', lambda g=g: g.dbml))
    for i, s in enumerate(db.sticky_notes):
        thunks.append((f's{i}.dbml', lambda s=s: s.dbml))
    if db.project:
        thunks.append(('p.dbml', lambda: db.project.dbml))
    order = thunks + rng.sample(thunks, min(len(thunks), 6))
    rng.shuffle(order)
    seen = {}
    for name, th in order:
        v = O.run(th)
        if name in seen and seen[name] != v:
            fails.append(('a repeated rendering gives a different result', name))
        seen[name] = v
    after = O.dump_db(db)
    if after != before:
        fails.append(('rendering changed the model', None))
    state1 = O.object_state(db)
    if state1 != state0:
        diff = [state1[k][0] for k in state1 if state0.get(k) != state1[k]][:3] + ['(new objects)' for k in state1 if k not in state0][:1]
        fails.append(('rendering left state behind on the model objects (attributes added or changed: a cache)', ', '.join(map(str, diff))))
    # join structure
    if seen['db.dbml'][0] == 'ok':
        parts = []
        if db.project:
            parts.append(seen['p.dbml'])
        parts += [seen[f'e{i}.dbml'] for i in range(len(db.enums))]
        parts += [seen[f't{i}.dbml'] for i in range(len(db.tables))]
        parts += [seen[f'r{i}.dbml'] for i, r in enumerate(db.refs) if not r.inline]
        parts += [seen[f'g{i}.dbml'] for i in range(len(db.table_groups))]
        parts += [seen[f's{i}.dbml'] for i in range(len(db.sticky_notes))]
        if all(p[0] == 'ok' for p in parts):
            if '\n\n'.join(p[1] for p in parts) != seen['db.dbml'][1]:
                fails.append(('db.dbml is not the blank-line join of project, enums, tables, standalone references, groups, sticky notes (each once, verbatim)', None))
        else:
            fails.append(('an element rendering fails although db.dbml succeeds', None))
    if seen['db.sql'][0] == 'ok':
        import re
        heads = re.findall(r'^CREATE TABLE (.*) \($', seen['db.sql'][1], re.M)
        parts = [seen[f'e{i}.sql'] for i in range(len(db.enums))]
        tparts = {f't{i}.sql': seen[f't{i}.sql'] for i in range(len(db.tables))}
        rparts = [seen[f'r{i}.sql'] for i, r in enumerate(db.refs) if not r.inline]
        if all(p[0] == 'ok' for p in parts + list(tparts.values()) + rparts):
            text = seen['db.sql'][1]
            segs = text.split('\n\n') if text else []
            # every element text occurs as a contiguous run of segments exactly once: rebuild greedily
            want_multiset = sorted([p[1] for p in parts] + [p[1] for p in tparts.values()] + [p[1] for p in rparts])
            pos = 0
            used = []
            cand = [p[1] for p in parts] + [None] * len(tparts) + [p[1] for p in rparts]
            remaining_tables = list(tparts.values())
            ok = True
            for slot in cand:
                if slot is None:
                    hit = next((tp for tp in remaining_tables if text.startswith(tp[1], pos)), None)
                    if hit is None:
                        ok = False
                        break
                    remaining_tables.remove(hit)
                    slot = hit[1]
                elif not text.startswith(slot, pos):
                    ok = False
                    break
                used.append(slot)
                pos += len(slot)
                if text.startswith('\n\n', pos):
                    pos += 2
            if not ok or pos != len(text) or sorted(used) != want_multiset:
                fails.append(('db.sql is not the blank-line join of enums, tables (in some order, each once) and standalone references, verbatim', None))
    return {'fails': fails, 'n': len(order), 'features': GD.features(spec)}


def part_join(ctx):
    n = 1500 if not ctx.thorough else 25000
    jobs = [(f'{ctx.seed}:{i}', i % 4 == 3) for i in range(n)]
    res = core.pmap(join_job, jobs)
    for (seed, wild), r in zip(jobs, res):
        if 'skip' in r:
            ctx.count('join:skip:' + r['skip'])
            continue
        ctx.case(core.h(['join', seed, wild]), len(r['features']) >= 2,
                 sample={'part': 'join+purity', 'seed': seed, 'renderings_evaluated': r['n'], 'features': r['features']} if seed.endswith(':11') else None)
        ctx.count('join:renderings', r['n'])
        for what, detail in r['fails']:
            ctx.fail(what, {'op': 'join', 'seed': seed, 'wild': wild}, detail=detail)


def part_derived(ctx):
    """renderer classes DERIVED from the default ones (own registry, inherited render_db): the database-level text must
    be produced through the configured class, element by element"""
    from pydbml.renderer.sql.default import DefaultSQLRenderer
    for base, attr, kinds in ((DefaultSQLRenderer, 'sql', ['table', 'enum', 'reference']),
                              (DefaultDBMLRenderer, 'dbml', ['table', 'enum', 'reference', 'group', 'sticky', 'project'])):
        for kind in kinds:
            D = type('Derived', (base,), {'model_renderers': dict(base.model_renderers)})
            marker = f'<derived:{kind}>'
            D.renderer_for(KIND_CLASS[kind])(lambda m, marker=marker: marker)
            for route, mk in (('parser', lambda: PyDBML(SRC, **{attr + '_renderer': D})),):
                try:
                    db = mk()
                    text = getattr(db, attr)
                except Exception as e:  # noqa: BLE001
                    ctx.fail(f'database with a renderer derived from the default {attr} renderer fails to render', {'op': 'derived', 'kind': kind, 'attr': attr}, exc=O.classify(e))
                    continue
                ctx.case(core.h(['derived', attr, kind, route]), True)
                n_el = {'table': len(db.tables), 'enum': len(db.enums),
                        # DBML writes an inline reference inside its column, through the same handler
                        'reference': len(db.refs) if attr == 'dbml' else sum(1 for r in db.refs if not r.inline),
                        'group': len(db.table_groups), 'sticky': len(db.sticky_notes), 'project': 1}[kind]
                if text.count(marker) != n_el:
                    ctx.fail(f'db.{attr} is not produced by the configured renderer class: the handler a derived class registers for '
                             f'{kind} is used {text.count(marker)} times for {n_el} elements', {'op': 'derived', 'kind': kind, 'attr': attr}, text=text[:400])
                el = elements(db)[kind]
                if O.run(lambda: getattr(el, attr)) != ('ok', marker):
                    ctx.fail(f'{kind}.{attr} of an attached element does not use the configured derived class', {'op': 'derived', 'kind': kind, 'attr': attr})


def main(tier, seed):
    ctx = core.Ctx(PID, tier, seed, 'proof', THEOREMS, MODULES)
    ctx.build()
    problems = ctx.audit() if ctx.build_ok else ['lake build failed']
    drv = None
    try:
        drv = Driver()
    except DriverError as e:
        ctx.notes.append(str(e))
    try:
        part_dispatch(ctx, drv)
        part_join(ctx)
        part_derived(ctx)
    finally:
        if drv is not None:
            drv.close()
    return ctx.finish(
        rule='dispatch: custom renderer classes handling 6 fixed + 20 (thorough 300) random subsets of the 11 element kinds, '
             'passed through 5 parser routes; every element kind x attached/detached x sql/dbml classified as marker / empty / '
             'default. join+purity: random databases, all database/element/column renderings evaluated in a random order with '
             'repeats, model dumped before and after. Non-trivial: proper non-empty handler subset / >=2 features; distinct by hash',
        explanation='Lean theorems state the dispatch logic outright (attached top-level elements and columns use the configured '
                    'classes, detached ones and owner-less kinds the defaults, a missing handler gives the empty string) and the '
                    'join structure of the default database renderings in the model; the dispatch model is tied to the code by '
                    'enumeration, the join structure and purity by oracle on the real renderers.',
        assumptions=['absence of side effects is monitored (snapshot before/after), not proved: it is definitional in Lean'],
        trusted_base=['Lean 4.33 kernel', 'axioms: propext, Classical.choice, Quot.sound only',
                      'hand-written model PyDBMLModel/Dispatch.lean + renderer models tied by correspondence'],
        proof_problems=problems)


def replay(path):
    case = json.load(open(path))
    print(json.dumps(case, indent=1)[:3000])
    c = case.get('case', {})
    if c.get('op') == 'join':
        print(join_job((c['seed'], c['wild'])))
    return 0
