/-
C02/C01 — the NOTE of a table, as `render_table` writes it after the column lines:

    Table "t" {
        "c" int
        Note {
            'text'
        }
    }

`bodyEnd_note`: after the column lines the repetition over the table body reads exactly this note and stops at the
closing brace; `renderNote_block`: the renderer writes exactly this block.  Used by `C02FormTables`.
-/
import PyDBMLProofs.Props.C02Form
import PyDBMLProofs.Props.C02Tables
namespace PyDBML
namespace C02
open Lex Grammar Build

/-- the lines of the note after the columns (nothing for the empty note) -/
def noteBlock (t : Str) : Str :=
  if t.isEmpty then [] else
    ' ' :: ' ' :: ' ' :: ' ' :: 'N' :: 'o' :: 't' :: 'e' :: ' ' :: '{' :: '\n' ::
    ' ' :: ' ' :: ' ' :: ' ' :: ' ' :: ' ' :: ' ' :: ' ' :: '\'' :: (prepareTextForDbml t ++
      '\'' :: '\n' :: ' ' :: ' ' :: ' ' :: ' ' :: '}' :: ['\n'])

def noteElems (t : Str) : List TblElem := if t.isEmpty then [] else [TblElem.note t]

/-- a table note the round trip covers: one plain normalised line without a triple quote (or no note at all) -/
def TNoteOK (t : Str) : Prop := Plain t ∧ hasTriple t = false ∧ norm t = t

theorem tnoteOK_nil : TNoteOK [] := ⟨(by intro c hc; cases hc), (by decide), (by decide)⟩

theorem oneLine_of_plain' (t : Str) (ht : Plain t) : C13.oneLine t = true := by
  simp only [C13.oneLine, Bool.not_eq_true', List.any_eq_false, Bool.or_eq_true, decide_eq_true_eq, not_or]
  intro ch hch
  have := (ht ch hch).1
  constructor <;> (rintro rfl; simp [isLineBreak] at this)

theorem noteBlock_nil : noteBlock [] = [] := rfl
theorem noteElems_nil : noteElems [] = [] := rfl

theorem endOK_note (nt tail : Str) : EndOK (noteBlock nt ++ '}' :: tail) := by
  unfold noteBlock
  split
  · exact endOK_brace tail
  · exact ⟨4, 'N', _, by simp [List.replicate]; rfl, by decide, by decide, by decide⟩

theorem columnType_fail_brace (c : Cur) (r : Str) (hn : Next c '{' r) : columnType c = .fail := by
  have hr : (skipWs c).rest = '{' :: r := hn
  have hnm : name (skipWs c) = .fail := name_fail (skipWs c) '{' r (by unfold Next; rw [skipWs_idem]; exact hr) (by decide) (by decide)
  have hraw : nameRaw (skipWs c) = .fail := by
    unfold nameRaw; rw [hr]; simp [isWs, hnm]
  unfold columnType alt
  simp only [bind, pbind, hraw]

theorem noteBlock_no_tab (t : Str) (ht : Plain t) : ∀ c ∈ noteBlock t, c ≠ '\t' := by
  intro c hc
  unfold noteBlock at hc
  split at hc
  · cases hc
  · have e : ∀ p : Str, (' ' :: ' ' :: ' ' :: ' ' :: 'N' :: 'o' :: 't' :: 'e' :: ' ' :: '{' :: '\n' ::
      ' ' :: ' ' :: ' ' :: ' ' :: ' ' :: ' ' :: ' ' :: ' ' :: '\'' :: (p ++
        '\'' :: '\n' :: ' ' :: ' ' :: ' ' :: ' ' :: '}' :: ['\n']))
        = [' ', ' ', ' ', ' ', 'N', 'o', 't', 'e', ' ', '{', '\n', ' ', ' ', ' ', ' ', ' ', ' ', ' ', ' ', '\''] ++ p
          ++ ['\'', '\n', ' ', ' ', ' ', ' ', '}', '\n'] := by intro p; simp
    rw [e] at hc
    simp only [List.mem_append] at hc
    rcases hc with (h | h) | h
    · exact (by decide : ∀ c ∈ [' ', ' ', ' ', ' ', 'N', 'o', 't', 'e', ' ', '{', '\n', ' ', ' ', ' ', ' ', ' ', ' ', ' ', ' ', '\''], c ≠ '\t') c h
    · rcases prepare_mem _ c h with h' | rfl
      · exact (ht c h').2
      · decide
    · exact (by decide : ∀ c ∈ ['\'', '\n', ' ', ' ', ' ', ' ', '}', '\n'], c ≠ '\t') c h

/-- the note element on its three lines, inside a table body -/
theorem tableElement_note (props : Bool) (c : Cur) (nt tail : Str) (hne : nt.isEmpty = false) (hnt : TNoteOK nt)
    (hc : c.rest = noteBlock nt ++ '}' :: tail) (hp : c.pastEnd = false) :
    ∃ c', tableElement props c = .ok (TblElem.note nt) c' ∧ c'.rest = '}' :: tail ∧ c'.pastEnd = false := by
  have hc' : c.rest = ' ' :: ' ' :: ' ' :: ' ' :: 'N' :: 'o' :: 't' :: 'e' :: ' ' :: '{' :: '\n' ::
      ' ' :: ' ' :: ' ' :: ' ' :: ' ' :: ' ' :: ' ' :: ' ' :: '\'' :: (prepareTextForDbml nt ++
        '\'' :: '\n' :: ' ' :: ' ' :: ' ' :: ' ' :: '}' :: '\n' :: '}' :: tail) := by
    rw [hc]; unfold noteBlock; simp [hne]
  have hN : Next c 'N' _ := skipWs_rest_spaces c 4 'N' _ (by rw [hc']; rfl) (by decide)
  obtain ⟨q1, q2⟩ := quiet_of_next c 'N' _ hN (by decide) (by decide)
  have hs0 : skipNl c = .ok () c := skipNl_stay c q1 q2
  have hb : cBefore c = .ok [] c := cBefore_stay c q1 q2
  -- it is not a column: after the name `Note` no type follows
  obtain ⟨cn, hname, hrn, hpn⟩ := name_ok c ['N', 'o', 't', 'e'] _ hN (by simp) (by decide)
    (by intro x hx; simp at hx; subst hx; decide) hp
  have hNn : Next cn '{' _ := skipWs_rest_spaces cn 1 '{' _ (by rw [hrn]; rfl) (by decide)
  have hcol : tableColumn props c = .fail := by
    unfold tableColumn
    simp only [bind, pbind, hb, hname, columnType_fail_brace cn _ hNn]
  have hrule : noteRule c = .fail := by
    unfold noteRule
    simp only [bind, pbind, clit_fail "note:" c _ _ hN (by simp [startsWithCaseless]; decide)]
  -- the note object
  have hpv : ∀ p, (skipWs c).prev = some p → isKwIdent p = false := by
    intro p hpp
    have : (skipWs c).prev = some ' ' := by
      unfold skipWs; rw [hc']; simp [skipWsList, isWs]
    rw [this] at hpp
    cases hpp; decide
  obtain ⟨c1, hk, hr1, hp1⟩ := ckw_ok' "note" c ['N', 'o', 't', 'e'] _ hN (by decide)
    (by simp [startsWithCaseless]; decide) hp hpv (by intro x hx; simp at hx; subst hx; decide)
  have hN1 : Next c1 '{' _ := skipWs_rest_spaces c1 1 '{' _ (by rw [hr1]; rfl) (by decide)
  obtain ⟨q3, q4⟩ := quiet_of_next c1 '{' _ hN1 (by decide) (by decide)
  have hs1 : skipNl c1 = .ok () c1 := skipNl_stay c1 q3 q4
  obtain ⟨c2, hbr, hr2, hp2⟩ := sym_ok "{" '{' rfl c1 _ hN1 hp1
  have hN2 : Next c2 '\n' _ := skipWs_rest_head c2 '\n' _ hr2 (by decide)
  obtain ⟨c3, hs2, hr3, hp3⟩ := skipNl_one c2 _ hN2 hp2 (by
    intro d hd _
    have : Next d '\'' _ := skipWs_rest_spaces d 8 '\'' _ (by rw [hd]; rfl) (by decide)
    exact quiet_of_next d '\'' _ this (by decide) (by decide))
  have hN3 : (skipWs c3).rest = '\'' :: (prepareTextForDbml nt ++ '\'' :: '\n' :: ' ' :: ' ' :: ' ' :: ' ' :: '}' :: '\n' :: '}' :: tail) :=
    skipWs_rest_spaces c3 8 '\'' _ (by rw [hr3]; rfl) (by decide)
  obtain ⟨c4, hstr, hr4, hp4⟩ := stringLiteral_ok c3 nt _ hN3 hp3 (oneLine_of_plain' nt hnt.1) hnt.2.1 (Or.inr (by simp))
  have hN4 : Next c4 '\n' _ := skipWs_rest_head c4 '\n' _ hr4 (by decide)
  obtain ⟨c5, hs4, hr5, hp5⟩ := skipNl_one c4 _ hN4 hp4 (by
    intro d hd _
    have : Next d '}' _ := skipWs_rest_spaces d 4 '}' _ (by rw [hd]; rfl) (by decide)
    exact quiet_of_next d '}' _ this (by decide) (by decide))
  have hN5 : Next c5 '}' ('\n' :: '}' :: tail) := skipWs_rest_spaces c5 4 '}' _ (by rw [hr5]; rfl) (by decide)
  obtain ⟨c6, hcl, hr6, hp6⟩ := sym_ok "}" '}' rfl c5 _ hN5 hp5
  have hobj : noteObject c = .ok nt c6 := by
    unfold noteObject
    simp only [bind, pbind, hk, hs1, cut, hbr, hs2, hstr, hs4, hcl, pure, ppure]
  have hN6 : Next c6 '\n' ('}' :: tail) := skipWs_rest_head c6 '\n' _ hr6 (by decide)
  obtain ⟨c7, hs6, hr7, hp7⟩ := skipNl_one c6 _ hN6 hp6 (by
    intro d hd _
    have : Next d '}' tail := skipWs_rest_head d '}' _ hd (by decide)
    exact quiet_of_next d '}' _ this (by decide) (by decide))
  refine ⟨c7, ?_, hr7, hp7⟩
  unfold tableElement noteElement
  simp only [bind, pbind, hs0, alt, hcol, hrule, hobj, hs6, pure, ppure]

/-- after the column lines: the note (if any) is read, and the repetition stops at the closing brace -/
theorem bodyEnd_note (props : Bool) (nt tail : Str) (hnt : TNoteOK nt) :
    BodyEnd props (noteBlock nt ++ '}' :: tail) (noteElems nt) tail := by
  cases hne : nt.isEmpty with
  | true =>
    have : nt = [] := by simpa using hne
    subst this
    exact bodyEnd_brace props tail
  | false =>
    intro fuel c hf hc hp
    obtain ⟨f, rfl⟩ : ∃ f, fuel = f + 1 := ⟨fuel - 1, by omega⟩
    obtain ⟨f', rfl⟩ : ∃ f', f = f' + 1 := ⟨f - 1, by omega⟩
    obtain ⟨c1, hel, hr1, hp1⟩ := tableElement_note props c nt tail hne hnt hc hp
    refine ⟨c1, ?_, hr1, hp1⟩
    have hlen : c1.rest.length ≠ c.rest.length := by
      rw [hr1, hc]; unfold noteBlock; simp [hne]; omega
    rw [many]
    simp only [hel, hlen, decide_false, Bool.false_and, Bool.false_eq_true, ↓reduceIte]
    rw [many]
    simp [tableElement_fail_brace props c1 tail hr1, noteElems, hne]

/-! ### the rendering of the note -/

theorem indent4_lineG (l : Str) (hl : ∀ c ∈ l, isLineBreak c = false) (hsp : l.all isSpaceChar = false) :
    Dbml.indent4 l = [' ', ' ', ' ', ' '] ++ l := by
  have hne : l ≠ [] := by rintro rfl; simp at hsp
  unfold Dbml.indent4 textwrapIndent splitLinesKeep
  rw [splitLinesKeepAux_plain [] l hl (Or.inr hne)]
  simp only [List.reverse_nil, List.nil_append, List.flatMap_cons, List.flatMap_nil, hsp, Bool.false_eq_true, ↓reduceIte,
    List.append_nil]

/-- `textwrap.indent` of lines none of which is blank: every line gets the prefix -/
theorem indent4_linesG (ls : List Str) (hne : ls ≠ []) (hok : ∀ l ∈ ls, LineOK l)
    (hst : ∀ l ∈ ls, l.all isSpaceChar = false) :
    Dbml.indent4 (joinNL ls) ++ ['\n'] = ls.flatMap fun l => [' ', ' ', ' ', ' '] ++ l ++ ['\n'] := by
  induction ls with
  | nil => exact absurd rfl hne
  | cons l rest ih =>
    have hx := hst l (by simp)
    cases rest with
    | nil =>
      simp only [joinNL, List.flatMap_cons, List.flatMap_nil, List.append_nil]
      rw [indent4_lineG l (hok l (by simp)) hx]
    | cons l2 rest2 =>
      have ih' := ih (by simp) (fun m hm => hok m (by simp [hm])) (fun m hm => hst m (by simp [hm]))
      simp only [joinNL, List.flatMap_cons] at ih' ⊢
      rw [← ih']
      unfold Dbml.indent4 textwrapIndent splitLinesKeep
      rw [splitLinesKeepAux_line [] l _ (hok l (by simp))]
      have hx' : (l ++ ['\n']).all isSpaceChar = false := by
        rw [List.all_append, hx]; rfl
      simp only [List.reverse_nil, List.nil_append, List.flatMap_cons, hx', Bool.false_eq_true, ↓reduceIte]
      simp

theorem renderNote_block (nt : Str) (hnt : Plain nt) :
    (if nt.isEmpty then [] else Dbml.indent4 (Dbml.renderNote nt) ++ ['\n']) = noteBlock nt := by
  unfold noteBlock
  split
  · rfl
  · have hnl : containsChar '\n' nt = false := by
      simp only [containsChar, List.any_eq_false, beq_iff_eq]
      intro c hc e
      subst e
      have := (hnt _ hc).1
      simp [isLineBreak] at this
    have hq : quoteString nt = '\'' :: prepareTextForDbml nt ++ ['\''] := by
      unfold quoteString; simp [hnl]
    have hqok : ∀ c ∈ ('\'' :: prepareTextForDbml nt ++ ['\'']), isLineBreak c = false := by
      intro c hc
      simp only [List.cons_append, List.mem_cons, List.mem_append, List.mem_singleton] at hc
      rcases hc with rfl | hc | hc
      · decide
      · rcases prepare_mem _ c hc with h | rfl
        · exact (hnt c h).1
        · decide
      · rcases hc with rfl | hc
        · decide
        · cases hc
    have hi : Dbml.indent4 (quoteString nt) = [' ', ' ', ' ', ' '] ++ ('\'' :: prepareTextForDbml nt ++ ['\'']) := by
      rw [hq]; exact indent4_line _ hqok '\'' _ rfl (by decide)
    have hjoin : Dbml.renderNote nt = joinNL [lit "Note {", [' ', ' ', ' ', ' '] ++ ('\'' :: prepareTextForDbml nt ++ ['\'']), ['}']] := by
      unfold Dbml.renderNote; rw [hi]; simp [joinNL, lit]
    rw [hjoin, indent4_linesG _ (by simp)]
    · simp [lit]
    · intro l hl
      simp only [List.mem_cons, List.mem_nil_iff, or_false] at hl
      rcases hl with rfl | rfl | rfl
      · intro c hc; revert c; decide
      · intro c hc
        rcases List.mem_append.mp hc with h | h
        · exact (by decide : ∀ c ∈ [' ', ' ', ' ', ' '], isLineBreak c = false) c h
        · exact hqok c h
      · intro c hc; revert c; decide
    · intro l hl
      simp only [List.mem_cons, List.mem_nil_iff, or_false] at hl
      rcases hl with rfl | rfl | rfl
      · decide
      · simp [isSpaceChar]
      · decide

end C02
end PyDBML
