/-
Model driver: one JSON request per line on stdin, one JSON reply per line on stdout.
-/
import PyDBMLModel
open Lean PyDBML PyDBML.Codec

def textOp (fn : String) (a : Str) (b : Str) : Json :=
  let ok (s : Str) : Json := Json.mkObj [("ok", jstr s)]
  match fn with
  | "comment" => ok (commentLines b a)
  | "tools_indent" => ok (toolsIndent a)
  | "remove_bom" => ok (removeBom a)
  | "strip_empty_lines" => ok (stripEmptyLines a)
  | "remove_indentation" => ok (removeIndentation a)
  | "norm" => ok (norm a)
  | "doublequote_string" => encPy (doublequoteString a)
  | "prepare_text_for_dbml" => ok (prepareTextForDbml a)
  | "quote_string" => ok (quoteString a)
  | "note_option_to_dbml" => ok (noteOptionToDbml a)
  | "prepare_text_for_sql" => ok (prepareTextForSql a)
  | "textwrap_indent" => ok (textwrapIndent b a)
  | "isspace" => Json.mkObj [("ok", .bool (isSpaceStr a))]
  | "splitlines" => Json.mkObj [("ok", .arr ((splitLinesKeep a).map jstr).toArray)]
  | _ => Json.mkObj [("err", "bad-op"), ("why", s!"text fn {fn}")]

def textFns : List String :=
  ["comment", "tools_indent", "remove_bom", "strip_empty_lines", "remove_indentation", "norm",
   "doublequote_string", "prepare_text_for_dbml", "quote_string", "note_option_to_dbml",
   "prepare_text_for_sql", "textwrap_indent", "isspace", "splitlines"]

/-- every L1 function on one string (`b` = the second argument of `comment` / `textwrap.indent`). -/
def textAll (a b : Str) : Json :=
  Json.mkObj (textFns.map fun fn => (fn, textOp fn a b))

open Dispatch in
def sideOf (j : Json) (k : String) : Except String Side := do
  (← arrF j k).mapM fun v => match v with
    | .null => pure none
    | x => do pure (some (← x.getNat?))

open Dispatch in
def encRefOut : RefOut → Json
  | .ok => "ok" | .tableNotFound => "lib:TableNotFoundError" | .dbmlError => "lib:DBMLError"
  | .indexError => "internal"

open Dispatch in
def dispatchOp (j : Json) : Except String Json := do
  let what ← (← j.getObjVal? "what").getStr?
  match what with
  | "render" =>
    let k ← (← j.getObjVal? "kind").getStr?
    let some kind := EKind.ofString k | throw s!"kind {k}"
    let handled ← (← arrF j "handled").mapM fun v => do
      let s ← v.getStr?
      match EKind.ofString s with | some x => pure x | none => throw s!"kind {s}"
    let unset ← (← arrF j "unset").mapM (·.getStr?)
    let cfg : Cfg := if (← boolF j "default_cfg") then .defaultR else .custom handled
    let o := renderOutcome (← boolF j "sql") cfg kind (← boolF j "attached") unset
    pure (Json.mkObj [("ok", match o with
      | .marker => "marker" | .empty => "empty" | .defaultText => "default"
      | .attributeMissing => "lib:AttributeMissingError"
      | .unknownDatabase => "lib:UnknownDatabaseError")])
  | "ref" =>
    let a ← sideOf j "a"
    let b ← sideOf j "b"
    let m2m ← boolF j "m2m"
    let inl ← boolF j "inline"
    pure (Json.mkObj [("sql", encRefOut (refSql m2m a b)), ("dbml", encRefOut (refDbml inl a b)),
                      ("table1", encRefOut (tableProp a b))])
  | "get_refs" =>
    let enc : RefsOut → Json := fun
      | .ok => "ok" | .unknownDatabase => "lib:UnknownDatabaseError" | .tableNotFound => "lib:TableNotFoundError"
    pure (Json.mkObj [("table", enc (tableGetRefs (← boolF j "table_has_db"))),
                      ("column", enc (columnGetRefs (← boolF j "has_table") (← boolF j "table_has_db")))])
  | _ => throw s!"dispatch {what}"

def encPErr : Lex.PErr → Json
  | .noColumns => Json.mkObj [("err", "noColumns")]
  | .internal e => Json.mkObj [("err", "internal"), ("exc", e.name)]
  | .lib n => Json.mkObj [("err", s!"lib:{n}")]
  | .outOfModel w => Json.mkObj [("err", "outOfModel"), ("why", w)]

def encOutcome : Build.Outcome → Json
  | .ok d => Json.mkObj [("ok", encDb d)]
  | .syntax => Json.mkObj [("err", "syntax")]
  | .err e => encPErr e

def handle (j : Json) : Except String Json := do
  let op ← (← j.getObjVal? "op").getStr?
  match op with
  | "ping" => pure (Json.mkObj [("ok", "pong")])
  | "text" =>
    let fn ← (← j.getObjVal? "fn").getStr?
    let a ← strF j "a"
    let b ← strFD j "b"
    pure (textOp fn a b)
  | "site_reason" =>
    let site ← (← j.getObjVal? "site").getStr?
    let t ← strF j "t"
    match Site.ofString site with
    | some s => pure (Json.mkObj [("ok", (siteReason s t).getD "")])
    | none => pure (Json.mkObj [("err", "bad-op"), ("why", site)])
  | "textall" =>
    let a ← strF j "a"
    let b ← strFD j "b"
    pure (textAll a b)
  | "sql" =>
    let d ← Codec.db (← j.getObjVal? "db")
    pure (encR (Sql.renderDb d))
  | "dbml" =>
    let d ← Codec.db (← j.getObjVal? "db")
    pure (encR (Dbml.renderDb d))
  | "sql_elems" =>
    let d ← Codec.db (← j.getObjVal? "db")
    let enums := d.enums.map fun e => encR (pure (Sql.renderEnum e))
    let cols := d.tables.map fun t =>
      Json.arr (t.columns.map fun c => encR (Sql.renderColumn d (Sql.hasCompositePk t) c)).toArray
    let idx := d.tables.map fun t =>
      Json.arr (t.indexes.map fun i => encR (Sql.renderIndex t i)).toArray
    pure (Json.mkObj [("enums", .arr enums.toArray), ("columns", .arr cols.toArray),
                      ("indexes", .arr idx.toArray)])
  | "readsql" =>
    let t ← strF j "text"
    let col (c : C03.ColDesc) : Json := Json.mkObj [("name", jstr c.name), ("type", jstr c.type), ("pk", .bool c.pk),
      ("autoinc", .bool c.autoinc), ("unique", .bool c.unique), ("not_null", .bool c.notNull), ("default", jopt c.default)]
    let tab (d : C03.TabDesc) : Json := Json.mkObj [("qname", jstr d.qname), ("cols", .arr (d.cols.map col).toArray),
      ("key", match d.key with | some ns => .arr (ns.map jstr).toArray | none => .null)]
    pure (Json.mkObj [("ok", match C03.readScript t with
      | some ds => .arr (ds.map tab).toArray
      | none => .null)])
  | "readscript" =>
    let t ← strF j "text"
    let col (c : C03.ColDesc) : Json := Json.mkObj [("name", jstr c.name), ("type", jstr c.type), ("pk", .bool c.pk),
      ("autoinc", .bool c.autoinc), ("unique", .bool c.unique), ("not_null", .bool c.notNull), ("default", jopt c.default)]
    let stmt (s : C03.Stmt) : Json := match s with
      | .enum d => Json.mkObj [("kind", "enum"), ("qname", jstr d.qname), ("items", .arr (d.items.map jstr).toArray)]
      | .table d => Json.mkObj [("kind", "table"), ("qname", jstr d.qname), ("cols", .arr (d.cols.map col).toArray),
          ("key", match d.key with | some ns => .arr (ns.map jstr).toArray | none => .null)]
      | .fk d => Json.mkObj [("kind", "fk"), ("src", jstr d.src), ("constraint", jopt d.constraint),
          ("src_cols", .arr (d.srcCols.map jstr).toArray), ("dst", jstr d.dst), ("dst_cols", .arr (d.dstCols.map jstr).toArray),
          ("actions", jstr d.actions)]
      | .index d => Json.mkObj [("kind", "index"), ("unique", .bool d.unique), ("name", jopt d.name), ("table", jstr d.table),
          ("using", jopt d.method), ("cols", .arr (d.cols.map jstr).toArray)]
    pure (Json.mkObj [("ok", match C03.readScriptAll t with
      | some ds => .arr (ds.map stmt).toArray
      | none => .null)])
  | "readindex" =>
    let t ← strF j "text"
    pure (Json.mkObj [("ok", match C04.readIndex t with
      | some d => Json.mkObj [("unique", .bool d.unique), ("name", jopt d.name), ("table", jstr d.table), ("using", jopt d.method),
          ("cols", .arr (d.cols.map jstr).toArray)]
      | none => .null)])
  | "readcomment" =>
    let t ← strF j "text"
    pure (Json.mkObj [("ok", match C04.readCommentOn t with
      | some d => Json.mkObj [("entity", jstr d.entity), ("path", .arr (d.path.map jstr).toArray), ("text", jstr d.text)]
      | none => .null)])
  | "readfkclause" =>
    let t ← strF j "text"
    pure (Json.mkObj [("ok", match C04.readFkClause t with
      | some d => Json.mkObj [("constraint", jopt d.constraint), ("src_cols", .arr (d.srcCols.map jstr).toArray),
          ("dst", jstr d.dst), ("dst_cols", .arr (d.dstCols.map jstr).toArray), ("actions", jstr d.actions)]
      | none => .null)])
  | "readfk" =>
    let t ← strF j "text"
    pure (Json.mkObj [("ok", match C04.readFk t with
      | some d => Json.mkObj [("src", jstr d.src), ("constraint", jopt d.constraint), ("src_cols", .arr (d.srcCols.map jstr).toArray),
          ("dst", jstr d.dst), ("dst_cols", .arr (d.dstCols.map jstr).toArray), ("actions", jstr d.actions)]
      | none => .null)])
  | "sql_refs" =>
    let d ← Codec.db (← j.getObjVal? "db")
    pure (Json.mkObj [("refs", .arr (d.refs.map fun r => encR (Sql.renderRefTop d r)).toArray)])
  | "parse" =>
    let t ← strF j "text"
    pure (encOutcome (Build.parse (← boolF j "allow_properties") t))
  | "entry" =>
    let r ← (← j.getObjVal? "route").getStr?
    let k ← (← j.getObjVal? "kind").getStr?
    let route ← match r with
      | "ctor" => pure Entry.Route.ctor | "parse" => pure Entry.Route.parseStatic
      | "instance_parse" => pure Entry.Route.instanceParse | "parse_file" => pure Entry.Route.parseFile
      | _ => throw s!"route {r}"
    let kind ← match k with
      | "str" => pure Entry.SourceKind.str | "path" => pure Entry.SourceKind.path
      | "file" => pure Entry.SourceKind.textFile | "path_string" => pure Entry.SourceKind.pathString
      | "other" => pure Entry.SourceKind.other | _ => throw s!"kind {k}"
    let t ← strF j "text"
    let o : Entry.Opts := { allowProps := ← boolF j "allow_properties" }
    match Entry.entry route kind t o with
    | .typeError => pure (Json.mkObj [("err", "TypeError")])
    | .notARoute => pure (Json.mkObj [("err", "notARoute")])
    | .parser _ o' =>
      match Entry.run route kind t o with
      | some out => pure (Json.mkObj [("outcome", encOutcome out), ("allow_properties", .bool o'.allowProps)])
      | none => pure (Json.mkObj [("err", "notARoute")])
  | "hist" => Cont.runHist j
  | "thist" => TCont.runHist j
  | "dispatch" => dispatchOp j
  | "reorder" =>
    let d ← Codec.db (← j.getObjVal? "db")
    pure (Json.mkObj [("ok", jnats (Sql.reorderIdx d.tables d.refs))])
  | _ => pure (Json.mkObj [("err", "bad-op"), ("why", op)])

partial def loop (hin : IO.FS.Stream) (hout : IO.FS.Stream) : IO Unit := do
  let line ← hin.getLine
  if line.isEmpty then return ()
  let reply :=
    match Json.parse line with
    | .error e => Json.mkObj [("err", "bad-json"), ("why", e)]
    | .ok j =>
      match handle j with
      | .ok r => r
      | .error e => Json.mkObj [("err", "bad-request"), ("why", e)]
  hout.putStrLn reply.compress
  hout.flush
  loop hin hout

def main : IO Unit := do
  loop (← IO.getStdin) (← IO.getStdout)
