#!/bin/sh
# run every registered quick check, print the summary line of each
cd "$(dirname "$0")/.." || exit 2
for p in $(python3 -c "import json;print(' '.join(c['property_id'] for c in json.load(open('MANIFEST.json'))['checks']))") "$@"; do
  ./check "$p" --tier "${TIER:-quick}" 2>&1 | grep -E "^\[C|VIOLATION" | tail -3
done
