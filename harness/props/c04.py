"""C04 — every relationship becomes exactly one correctly directed FOREIGN KEY in SQL."""
from harness import core
from harness.props import sqlcommon as SC

PID = 'C04'
THEOREMS = ['PyDBML.C04.inline_site', 'PyDBML.C04.inline_count', 'PyDBML.C04.never_both', 'PyDBML.C04.direction_left', 'PyDBML.C04.direction_right', 'PyDBML.C04.source_is_keyHolder', 'PyDBML.C04.constraint_iff_name', 'PyDBML.C04.actions_iff_set', 'PyDBML.C04.m2m_never_inline']
MODULES = ['PyDBMLProofs.Props.C04']


def main(tier, seed):
    ctx = core.Ctx(PID, tier, seed, 'translation_validation', THEOREMS, MODULES)
    problems = SC.run_sql_check(ctx, PID)
    return ctx.finish(
        rule='random databases with 0-5 references: 4 kinds x inline/standalone x single/composite x self/cross-table/'
             'cross-schema x named/unnamed x 7x7 action pairs; every third spec wild. Non-trivial: >=1 reference; '
             'distinct by dump hash',
        explanation='Correspondence of the FOREIGN KEY lines of db.sql (with their enclosing CREATE TABLE) and of every '
                    'reference.sql with the Lean model; oracle: every FK (clause or ALTER) read back by the independent DDL '
                    'reader with its host, compared as a multiset with the expectation computed from the references; '
                    'join tables of many-to-many references checked column by column.',
        assumptions=['oracle runs on reader-hygienic specs'],
        trusted_base=['Lean 4.33 kernel', 'hand-written model PyDBMLModel/RenderSql.lean tied by this correspondence',
                      'harness/ddl_reader.py', 'harness/sql_oracle.py'],
        proof_problems=problems)


def replay(path):
    return SC.replay_sql(path, PID)
