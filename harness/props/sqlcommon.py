"""Shared runner of the SQL-output checks (C03, C04, C18)."""
import copy
import json

from harness import core, gen_db as GD, observe as O, sql_oracle as SO
from harness.driver import Driver, DriverError


def strip_refs(spec):
    s = copy.deepcopy(spec)
    s['refs'] = []
    return s


def obs_fk(sql):
    """FK observation: (enclosing CREATE TABLE / ALTER line head, line) for every FOREIGN KEY line."""
    out = []
    cur = None
    for line in sql.split('\n'):
        if line.startswith('CREATE TABLE'):
            cur = line
        elif line.startswith(');'):
            cur = None
        if 'FOREIGN KEY' in line:
            out.append([cur, line.strip().rstrip(',')])
    return out


def obs_order(sql):
    return [l for l in sql.split('\n') if l.startswith('CREATE TABLE')]


def gen_edits(rng, spec):
    """a few in-place edits (renames, a type, a schema) and the spec they lead to: the database is asked for its SQL before
    them and again after them - "for every database" includes one that has been rendered before and edited since"""
    s2 = copy.deepcopy(spec)
    edits = []
    for _ in range(rng.randint(1, 3)):
        ti = rng.randrange(len(s2['tables']))
        t = s2['tables'][ti]
        kind = rng.choice(['tname', 'tname', 'cname', 'cname', 'ctype', 'tschema', 'cpk', 'cpk', 'cflag', 'rdel'])
        if kind == 'rdel':
            # a reference is removed between the two renderings: what the script says afterwards is what the remaining model says
            if s2['refs']:
                ri = rng.randrange(len(s2['refs']))
                s2['refs'].pop(ri)
                edits.append(['rdel', ri])
            continue
        if kind == 'tname':
            new = t['name'] + '_v2'
            if any(x['name'] == new for x in s2['tables']):
                continue
            t['name'] = new
            edits.append(['tname', ti, new])
        elif kind == 'tschema':
            new = 'moved'
            if any(x['name'] == t['name'] and x['schema'] == new for x in s2['tables']):
                continue
            t['schema'] = new
            edits.append(['tschema', ti, new])
        elif t['columns']:
            ci = rng.randrange(len(t['columns']))
            c = t['columns'][ci]
            if kind == 'cname':
                new = c['name'] + '_v2'
                if any(x['name'] == new for x in t['columns']):
                    continue
                c['name'] = new
                edits.append(['cname', ti, ci, new])
            elif kind == 'cpk':
                # the key layout after the edit (none / one column / several) differs from the one the table was rendered with
                c['pk'] = not c['pk']
                edits.append(['cattr', ti, ci, 'pk', c['pk']])
            elif kind == 'cflag':
                f = rng.choice(['unique', 'not_null', 'autoinc'])
                c[f] = not c[f]
                edits.append(['cattr', ti, ci, f, c[f]])
            elif not isinstance(c['type'], dict):
                c['type'] = 'bigint'
                edits.append(['ctype', ti, ci, 'bigint'])
    return s2, edits


def impl_job(job):
    """-> dict with impl observations for one spec."""
    pid, spec = job[:2]
    edits = job[2] if len(job) > 2 else None
    try:
        db, hd = GD.build(spec)
        if edits:
            # first reading: every rendering the check looks at is evaluated once before the edits
            O.run(lambda: db.sql)
            for x in hd['refs']:
                O.run(lambda x=x: x.sql)
            for t in hd['tables']:
                O.run(lambda t=t: t.sql)
            live_refs = list(hd['refs'])
            for e in edits:
                if e[0] == 'rdel':
                    db.delete(live_refs.pop(e[1]))
                    hd['refs'] = live_refs
                    continue
                t = hd['tables'][e[1]]
                if e[0] == 'tname':
                    t.name = e[2]
                elif e[0] == 'tschema':
                    t.schema = e[2]
                elif e[0] == 'cname':
                    t.columns[e[2]].name = e[3]
                elif e[0] == 'cattr':
                    setattr(t.columns[e[2]], e[3], e[4])
                else:
                    t.columns[e[2]].type = e[3]
            spec = job[3]
    except Exception as e:  # noqa: BLE001
        return {'skip': 'build:' + type(e).__name__}
    try:
        dump = O.dump_db(db)
    except O.OutOfModel as e:
        return {'skip': 'outOfModel:' + str(e)}
    r = {'dump': dump}
    if edits:
        r['history'] = {'spec_before': job[1], 'edits': edits}
    r['sql'] = O.run(lambda: db.sql)
    if pid == 'C03':
        r['elems'] = {
            'enums': [O.run(lambda e=e: e.sql) for e in hd['enums']],
            'columns': [[O.run(lambda c=c: c.sql) for c in t.columns] for t in hd['tables']],
            'indexes': [[O.run(lambda i=i: i.sql) for i in t.indexes] for t in hd['tables']],
        }
    if pid == 'C04':
        r['refs'] = [O.run(lambda x=x: x.sql) for x in hd['refs']]
    if pid == 'C18':
        try:
            from pydbml.renderer.sql.default.utils import reorder_tables_for_sql
            order = reorder_tables_for_sql(db.tables, db.refs)
            r['order'] = [O._idx_is(db.tables, t) for t in order]
        except Exception:  # noqa: BLE001  monitor only
            r['order'] = None
    if r['sql'][0] == 'ok' and SO.hygienic(spec):
        r['oracle'] = SO.check_sql(spec, r['sql'][1])[pid]
    if pid == 'C18':
        # "depends only on the model": rendering leaves the model as it is, and a database with a history is ordered like a
        # freshly built one with the same content
        r['tables_kept'] = len(db.tables) == len(hd['tables']) and all(a is b for a, b in zip(db.tables, hd['tables']))
        if edits and r['sql'][0] == 'ok':
            try:
                fresh, _ = GD.build(spec)
                fs = O.run(lambda: fresh.sql)
                r['fresh_order'] = obs_order(fs[1]) if fs[0] == 'ok' else None
            except Exception:  # noqa: BLE001
                r['fresh_order'] = None
    return r


def same_outcome(model, impl):
    """model reply {ok|err...} vs impl ('ok', text)|('err', class)."""
    if impl[0] == 'ok':
        return model.get('ok') == impl[1]
    if 'err' not in model:
        return False
    if model['err'] == 'internal':
        return impl[1].startswith('internal')
    return model['err'] == impl[1]


def gen_specs(ctx, pid):
    rng = ctx.rng
    n = {'C03': (4000, 60000), 'C04': (4000, 60000), 'C18': (5000, 80000)}[pid][1 if ctx.thorough else 0]
    specs = []
    for i in range(n):
        wild = i % 3 == 2
        spec = GD.gen_spec(rng, wild=wild, max_tables=6 if pid != 'C18' else 7)
        if pid == 'C03' and i % 2 == 0:
            # half of the databases without references (tables/columns/indexes in isolation), half with: "each table
            # exactly once" is stated for every database
            spec = strip_refs(spec)
        if wild and pid in ('C03', 'C18') and i % 4 == 2:
            # a table without columns can be built through the API; it is still a table of the database
            spec['tables'].insert(rng.randrange(len(spec['tables']) + 1) if not spec['refs'] and not spec['groups'] else len(spec['tables']),
                                  {'name': 'empty_%d' % (i % 7), 'schema': rng.choice(['public', 'hr']), 'alias': None, 'columns': [],
                                   # ... and may still carry an index over an expression
                                   'indexes': ([{'subjects': [{'expr': 'lower(x)'}], 'name': rng.choice([None, 'ix_empty']), 'unique': rng.random() < 0.5,
                                                 'type': None, 'pk': False, 'note': '', 'comment': None}] if rng.random() < 0.5 else []),
                                   'note': '', 'header_color': None, 'comment': None, 'abstract': False, 'props': []})
        if wild and i % 5 == 2:
            # the empty schema is a schema like any other (only `public` is left out of qualified names): a namesake of a
            # public table living there is another table
            import copy as _copy
            pub = [t for t in spec['tables'] if t['schema'] == 'public']
            if pub and not any(t['schema'] == '' for t in spec['tables']):
                twin = _copy.deepcopy(rng.choice(pub))
                twin.update(schema='', alias=None, indexes=[])
                spec['tables'].append(twin)
                if rng.random() < 0.5 and pid != 'C03':
                    # and something refers to it
                    ti = len(spec['tables']) - 1
                    src = rng.randrange(ti)
                    spec['refs'].append({'type': rng.choice(['>', '<', '-']), 't1': src, 'col1': [0], 't2': ti, 'col2': [0], 'name': None,
                                         'comment': None, 'on_update': None, 'on_delete': None, 'inline': rng.random() < 0.6})
        if i % 5 == 1 and not wild:
            # a declared table that bears the bare name of a many-to-many reference's join table, in another schema: it is a
            # table of the database like any other (by position, without a draw)
            mm = [x for x in spec['refs'] if x['type'] == '<>']
            if mm:
                t1, t2 = spec['tables'][mm[0]['t1']], spec['tables'][mm[0]['t2']]
                nm, sch = f"{t1['name']}_{t2['name']}", ('audit' if t1['schema'] != 'audit' else 'audit2')
                if not any(t['name'] == nm for t in spec['tables']):
                    spec['tables'].append({'name': nm, 'schema': sch, 'alias': None,
                                           'columns': [{'name': 'id', 'type': 'int', 'pk': False, 'unique': False, 'not_null': False,
                                                        'autoinc': False, 'default': None, 'note': '', 'comment': None, 'props': []}],
                                           'indexes': [], 'note': '', 'header_color': None, 'comment': None, 'abstract': False, 'props': []})
        if i % 7 == 3:
            # only the schema spelt exactly `public` is the default one: another spelling of the word is a schema like
            # `hr` (chosen by position, without a draw: the other choices stay what they were)
            alt = ('PUBLIC', 'Public', 'pUBLIC', ' public')[(i // 7) % 4]
            for el in spec['tables'] + spec['enums']:
                if el['schema'] == 'hr':
                    el['schema'] = alt
        if pid == 'C18':
            # more inline references, fewer distractions
            for r in spec['refs']:
                if rng.random() < 0.6:
                    r['inline'] = True
        specs.append(spec)
    return specs


def run_sql_check(ctx, pid, extra_parts=None):
    ctx.build()
    problems = ctx.audit() if ctx.build_ok else ['lake build failed']
    drv = None
    try:
        drv = Driver()
    except DriverError as e:
        ctx.notes.append(str(e))
    specs = gen_specs(ctx, pid)
    jobs = []
    for i, s_ in enumerate(specs):
        if i % 4 == 1 and s_['tables']:
            s2, edits = gen_edits(ctx.rng, s_)
            if edits:
                jobs.append((pid, s_, edits, s2))
                specs[i] = s2       # what the database is after the edits: the oracle and the model speak about that
                ctx.count('history:rendered-edited-rendered')
                continue
        jobs.append((pid, s_))
    res = core.pmap(impl_job, jobs)
    ok_items = [(s, r) for s, r in zip(specs, res) if 'skip' not in r]
    for s, r in zip(specs, res):
        if 'skip' in r:
            ctx.count('skip:' + r['skip'])
    model = None
    if drv is not None:
        model = drv.ask_many({'op': 'sql', 'db': r['dump']} for _, r in ok_items)
        if pid == 'C18':
            model_order = drv.ask_many({'op': 'reorder', 'db': r['dump']} for _, r in ok_items)
        if pid == 'C03':
            model_el = drv.ask_many({'op': 'sql_elems', 'db': r['dump']} for _, r in ok_items)
        if pid == 'C04':
            model_refs = drv.ask_many({'op': 'sql_refs', 'db': r['dump']} for _, r in ok_items)
    for k, (spec, r) in enumerate(ok_items):
        feats = GD.features(spec)
        if pid == 'C03':
            nontrivial = len(spec['tables']) >= 1 and len(feats) >= 2
        else:
            nontrivial = len(spec['refs']) >= 1 and (pid != 'C18' or any(SO.is_inline(x) for x in spec['refs']))
        ctx.case(core.h(r['dump']), nontrivial,
                 sample={'features': feats, 'tables': [t['name'] for t in spec['tables']],
                         'refs': [[x['type'], x['t1'], x['col1'], x['t2'], x['col2'], x['inline']] for x in spec['refs']]}
                 if nontrivial and k % 50 == 0 else None)
        for f in feats:
            ctx.count('feature:' + f)
        ctx.count('sql:' + (r['sql'][0] if r['sql'][0] == 'ok' else r['sql'][1]))
        if pid == 'C18':
            case18 = {'op': 'sql', 'spec': spec, 'history': r.get('history')}
            if r.get('tables_kept') is False:
                ctx.fail('rendering .sql changed db.tables (the order of the model depends on whether it has been rendered)', case18,
                         sql=r['sql'][1])
            if r.get('fresh_order') is not None and r['sql'][0] == 'ok' and obs_order(r['sql'][1]) != r['fresh_order']:
                ctx.fail('the CREATE TABLE order of an edited database differs from that of a freshly built database with the same '
                         'content (the order does not depend on the model alone)', case18,
                         detail={'edited': obs_order(r['sql'][1]), 'fresh': r['fresh_order']})
        # oracle
        if r['sql'][0] == 'err' and str(r['sql'][1]).startswith('internal'):
            # "for every database, .sql contains ...": a database whose script cannot be had at all (KeyError, ValueError,
            # IndexError ... - not one of the library's own refusals, which are C17's subject) contains none of it
            ctx.fail('db.sql raises an exception that is not one of the library\'s own for a database built through the public classes',
                     {'op': 'sql', 'spec': spec, 'history': r.get('history')}, detail=r['sql'][1])
        if 'oracle' in r:
            ctx.count('oracle:read-back')
            for what, detail, reason in r['oracle']:
                if reason == 'HostsFirst' and model is not None and 'ok' in model[k] \
                        and (obs_order(model[k]['ok']) != obs_order(r['sql'][1]) or obs_fk(model[k]['ok']) != obs_fk(r['sql'][1])):
                    # not the recorded finding: the order is not the model's hosts-first order, or the FOREIGN KEY clauses do not
                    # sit in the CREATE TABLE statements where the model (and C04) put them
                    reason = None
                ctx.fail(what, {'op': 'sql', 'spec': spec, 'history': r.get('history')}, reason=reason, detail=detail, sql=r['sql'][1])
        else:
            ctx.count('oracle:not-readable(wild spec or error)')
        # correspondence
        if model is not None:
            m = model[k]
            if m.get('err') == 'outOfModel':
                ctx.count('model:outOfModel')
                continue
            if pid == 'C03':
                if not same_outcome(m, r['sql']):
                    ctx.diverge('sql(db without references)', {'op': 'sql', 'db': r['dump']}, m, r['sql'])
                me = model_el[k]
                for kind in ('enums', 'columns', 'indexes'):
                    mi = me.get(kind)
                    ii = r['elems'][kind]
                    flat_m = mi if kind == 'enums' else [x for row in mi for x in row]
                    flat_i = ii if kind == 'enums' else [x for row in ii for x in row]
                    if len(flat_m) != len(flat_i) or not all(same_outcome(a, b) for a, b in zip(flat_m, flat_i)):
                        ctx.diverge(f'element sql ({kind})', {'op': 'sql_elems', 'db': r['dump']}, mi, ii)
            elif pid == 'C04':
                if (m.get('ok') is None) != (r['sql'][0] != 'ok'):
                    ctx.diverge('sql outcome', {'op': 'sql', 'db': r['dump']}, m, r['sql'])
                elif r['sql'][0] == 'ok':
                    if obs_fk(m['ok']) != obs_fk(r['sql'][1]):
                        ctx.diverge('FOREIGN KEY lines of db.sql', {'op': 'sql', 'db': r['dump']}, obs_fk(m['ok']), obs_fk(r['sql'][1]))
                elif not same_outcome(m, r['sql']):
                    ctx.diverge('sql error class', {'op': 'sql', 'db': r['dump']}, m, r['sql'])
                mr = model_refs[k].get('refs', [])
                if len(mr) != len(r['refs']) or not all(same_outcome(a, b) for a, b in zip(mr, r['refs'])):
                    ctx.diverge('reference.sql', {'op': 'sql_refs', 'db': r['dump']}, mr, r['refs'])
            elif pid == 'C18':
                if r['sql'][0] == 'ok' and 'ok' in m:
                    if obs_order(m['ok']) != obs_order(r['sql'][1]):
                        ctx.diverge('CREATE TABLE order of db.sql', {'op': 'sql', 'db': r['dump']}, obs_order(m['ok']), obs_order(r['sql'][1]))
                    elif obs_fk(m['ok']) != obs_fk(r['sql'][1]):
                        ctx.diverge('which CREATE TABLE holds which FOREIGN KEY clause', {'op': 'sql', 'db': r['dump']}, obs_fk(m['ok']), obs_fk(r['sql'][1]))
                if r.get('order') is not None:
                    mo = model_order[k].get('ok')
                    if mo != r['order']:
                        ctx.diverge('reorder_tables_for_sql', {'op': 'reorder', 'db': r['dump']}, mo, r['order'])
    if extra_parts:
        extra_parts(ctx, drv)
    if drv is not None:
        drv.close()
    return problems


def replay_sql(path, pid):
    case = json.load(open(path))
    c = case.get('case', {})
    print(json.dumps({k: v for k, v in case.items() if k != 'case'}, indent=1)[:3000])
    spec = c.get('spec') or c.get('db')
    if spec:
        h = c.get('history')
        r = impl_job((pid, h['spec_before'], h['edits'], spec)) if h else impl_job((pid, spec))
        if h:
            print('history: build, render, then edits', h['edits'])
        print('impl sql:', r.get('sql'))
        print('oracle:', r.get('oracle'))
        with Driver() as d:
            print('model:', d.ask({'op': 'sql', 'db': r.get('dump', spec)}))
    return 0
