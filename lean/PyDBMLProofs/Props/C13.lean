/-
C13 — free text survives.  Property theorems (helper lemmas live in PyDBMLProofs/Lemmas).
-/
import PyDBMLModel
namespace PyDBML
namespace C13

/-- SQL note text never contains a single quote: the literal `'…'` cannot be ended early. -/
theorem sql_text_no_quote (t : Str) : '\'' ∉ prepareTextForSql t := by
  unfold prepareTextForSql replaceChar
  intro h
  rw [List.mem_flatMap] at h
  obtain ⟨c, _, hc⟩ := h
  by_cases hq : c = '\''
  · simp [hq] at hc
  · simp [hq] at hc
    exact hq hc.symm

/-- a `COMMENT ON` statement is exactly `… IS '` + neutralised text + `';`. -/
theorem sql_note_literal (entity name t : Str) :
    Sql.commentOn entity name t =
      lit "COMMENT ON " ++ entity ++ lit " \"" ++ name ++ lit "\" IS '" ++ prepareTextForSql t ++ lit "';" := rfl

/-- expression defaults are passed through verbatim inside parentheses. -/
theorem sql_expr_verbatim (t : Str) : Sql.defaultSql (.expr t) = '(' :: t ++ [')'] := rfl

example : prepareTextForSql (lit "it's a \\\nb") = lit "it\"s a b" := by decide

end C13
end PyDBML
