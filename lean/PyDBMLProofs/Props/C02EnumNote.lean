/-
C01/C02 — enums whose items may carry a note: `"item" [note: 'text']` (generalising C02Enum.lean / the enum part of
C02DocMore.lean).  An item is a pair (name, note text); the empty text means: no note.
-/
import PyDBMLProofs.Props.C02DocMore
import PyDBMLProofs.Props.C02Flags
namespace PyDBML
namespace C02
open Lex Grammar Build

/-- the settings of an item: nothing, or ` [note: 'text']` -/
def itemNoteText (t : Str) : Str :=
  if t.isEmpty then [] else ' ' :: '[' :: 'n' :: 'o' :: 't' :: 'e' :: ':' :: ' ' :: '\'' :: (prepareTextForDbml t ++ ['\'', ']'])

def itemStrN (it : Str × Str) : Str := '"' :: (it.1 ++ '"' :: itemNoteText it.2)

def itemLineN (it : Str × Str) : Str := '\n' :: ' ' :: ' ' :: ' ' :: ' ' :: itemStrN it

def itemsTextN : List (Str × Str) → Str
  | [] => []
  | it :: r => itemLineN it ++ itemsTextN r

def noteItem (it : Str × Str) : Bp.EnumItemBp := { name := it.1, note := if it.2.isEmpty then none else some it.2 }

def ItemOK (it : Str × Str) : Prop := NameOK it.1 ∧ Plain it.2 ∧ hasTriple it.2 = false ∧ norm it.2 = it.2

theorem itemsN_next (is : List (Str × Str)) (tail : Str) :
    ∃ r, itemsTextN is ++ '\n' :: '}' :: tail = '\n' :: r
      ∧ ∀ d : Cur, d.rest = r → d.pastEnd = false → sym "\n" d = .fail ∧ comment d = .fail := by
  cases is with
  | nil =>
    refine ⟨'}' :: tail, rfl, ?_⟩
    intro d hd _
    have : Next d '}' tail := skipWs_rest_head d '}' _ hd (by decide)
    exact quiet_of_next d '}' _ this (by decide) (by decide)
  | cons it r =>
    refine ⟨' ' :: ' ' :: ' ' :: ' ' :: '"' :: (it.1 ++ '"' :: itemNoteText it.2 ++ (itemsTextN r ++ '\n' :: '}' :: tail)),
      by simp [itemsTextN, itemLineN, itemStrN], ?_⟩
    intro d hd _
    have : Next d '"' _ := skipWs_rest_spaces d 4 '"' _ (by rw [hd]; rfl) (by decide)
    exact quiet_of_next d '"' _ this (by decide) (by decide)

/-- one item, with or without a note -/
theorem enumItem_okN (c : Cur) (it : Str × Str) (is : List (Str × Str)) (tail : Str)
    (hc : c.rest = itemLineN it ++ (itemsTextN is ++ '\n' :: '}' :: tail)) (hp : c.pastEnd = false) (hit : ItemOK it) :
    ∃ c', enumItem c = .ok (noteItem it) c' ∧ c'.rest = itemsTextN is ++ '\n' :: '}' :: tail ∧ c'.pastEnd = false := by
  obtain ⟨n, t⟩ := it
  obtain ⟨hn, ht, h3, _⟩ := hit
  obtain ⟨c0, hb, hr0, hp0, _⟩ := cBefore_nl c (' ' :: ' ' :: ' ' :: ' ' :: '"' :: (n ++ '"' :: (itemNoteText t ++ (itemsTextN is ++ '\n' :: '}' :: tail))))
    (by rw [hc]; simp [itemLineN, itemStrN]) hp (by
      intro d hd _
      have : Next d '"' _ := skipWs_rest_spaces d 4 '"' _ (by rw [hd]; rfl) (by decide)
      exact quiet_of_next d '"' _ this (by decide) (by decide))
  have hN0 : (skipWs c0).rest = '"' :: (n ++ '"' :: (itemNoteText t ++ (itemsTextN is ++ '\n' :: '}' :: tail))) :=
    skipWs_rest_spaces c0 4 '"' _ (by rw [hr0]; rfl) (by decide)
  obtain ⟨c1, hnm, hr1, hp1⟩ := name_quoted_ok c0 n _ hN0 hn hp0
  obtain ⟨r, he, hq⟩ := itemsN_next is tail
  cases t with
  | nil =>
    have hr1' : c1.rest = '\n' :: r := by rw [hr1, ← he]; simp [itemNoteText]
    have hN1 : Next c1 '\n' r := skipWs_rest_head c1 '\n' r hr1' (by decide)
    have hcm : cOpt c1 = .ok none c1 := by
      unfold cOpt opt
      rw [comment_fail c1 '\n' r hN1 (by decide)]
    have hst : opt enumSettings c1 = .ok none c1 := by
      unfold opt
      rw [enumSettings_fail c1 (sym_fail "[" c1 '\n' r hN1 (by simp [startsWith]))]
    refine ⟨c1, ?_, by rw [hr1]; simp [itemNoteText], hp1⟩
    unfold enumItem
    simp only [bind, pbind, hb, hnm, hcm, hst, pure, ppure, noteItem, joinBefore]
    rfl
  | cons t0 ts =>
    have hr1' : c1.rest = ' ' :: '[' :: 'n' :: 'o' :: 't' :: 'e' :: ':' :: ' ' :: '\'' ::
        (prepareTextForDbml (t0 :: ts) ++ '\'' :: ']' :: (itemsTextN is ++ '\n' :: '}' :: tail)) := by
      rw [hr1]; simp [itemNoteText]
    have hN1 : Next c1 '[' _ := skipWs_rest_spaces c1 1 '[' _ (by rw [hr1']; rfl) (by decide)
    have hcm : cOpt c1 = .ok none c1 := by
      unfold cOpt opt
      rw [comment_fail c1 '[' _ hN1 (by decide)]
    obtain ⟨c2, hbr, hr2, hp2⟩ := sym_ok "[" '[' rfl c1 _ hN1 hp1
    have hN2 : (skipWs c2).rest = ['n', 'o', 't', 'e', ':'] ++ ' ' :: '\'' :: (prepareTextForDbml (t0 :: ts) ++ '\'' :: ']' :: (itemsTextN is ++ '\n' :: '}' :: tail)) := by
      rw [skipWs_rest_head c2 'n' _ (by rw [hr2]) (by decide)]; rfl
    have hN2' : Next c2 'n' _ := hN2
    obtain ⟨q1, q2⟩ := quiet_of_next c2 'n' _ hN2' (by decide) (by decide)
    have hs2 := skipNl_stay c2 q1 q2
    obtain ⟨c3, hk, hr3, hp3⟩ := clit_ok "note:" c2 ['n', 'o', 't', 'e', ':'] _ hN2 (by decide)
      (by simp [startsWithCaseless] <;> decide) hp2
    have hN3 : Next c3 '\'' (prepareTextForDbml (t0 :: ts) ++ '\'' :: ']' :: (itemsTextN is ++ '\n' :: '}' :: tail)) :=
      skipWs_rest_spaces c3 1 '\'' _ (by rw [hr3]; rfl) (by decide)
    obtain ⟨q3, q4⟩ := quiet_of_next c3 '\'' _ hN3 (by decide) (by decide)
    have hs3 := skipNl_stay c3 q3 q4
    obtain ⟨c4, hsl, hr4, hp4⟩ := stringLiteral_ok c3 (t0 :: ts) (']' :: (itemsTextN is ++ '\n' :: '}' :: tail)) hN3 hp3
      (oneLine_of_plain _ ht) h3 (Or.inl (by simp))
    have hnote : noteRule c2 = .ok (t0 :: ts) c4 := by
      unfold noteRule
      simp only [bind, pbind, hk, cut, hs3, hsl]
    have hN4 : Next c4 ']' (itemsTextN is ++ '\n' :: '}' :: tail) := skipWs_rest_head c4 ']' _ hr4 (by decide)
    obtain ⟨q5, q6⟩ := quiet_of_next c4 ']' _ hN4 (by decide) (by decide)
    have hs4 := skipNl_stay c4 q5 q6
    obtain ⟨c5, hcl, hr5, hp5⟩ := sym_ok "]" ']' rfl c4 _ hN4 hp4
    have hN5 : Next c5 '\n' r := skipWs_rest_head c5 '\n' r (by rw [hr5, he]) (by decide)
    have hcm5 : cOpt c5 = .ok none c5 := by
      unfold cOpt opt
      rw [comment_fail c5 '\n' r hN5 (by decide)]
    have hst : opt enumSettings c1 = .ok (some (t0 :: ts, none)) c5 := by
      unfold opt enumSettings
      simp only [bind, pbind, hbr, hs2, cut, hnote, hs4, hcl, hcm5, pure, ppure]
    refine ⟨c5, ?_, hr5, hp5⟩
    unfold enumItem
    simp only [bind, pbind, hb, hnm, hcm, hst, pure, ppure, noteItem, joinBefore]
    rfl

theorem many_itemsN (is : List (Str × Str)) (tail : Str) (his : ∀ it ∈ is, ItemOK it) :
    ∀ (fuel : Nat) (c : Cur), is.length < fuel → c.rest = itemsTextN is ++ '\n' :: '}' :: tail → c.pastEnd = false →
      ∃ c', many enumItem fuel c = .ok (is.map noteItem) c' ∧ c'.rest = '\n' :: '}' :: tail ∧ c'.pastEnd = false := by
  induction is with
  | nil =>
    intro fuel c hf hc hp
    obtain ⟨f, rfl⟩ : ∃ f, fuel = f + 1 := ⟨fuel - 1, by simp at hf; omega⟩
    refine ⟨c, ?_, by simpa [itemsTextN] using hc, hp⟩
    rw [many]
    simp [enumItem_fail_close c tail (by simpa [itemsTextN] using hc) hp]
  | cons it r ih =>
    intro fuel c hf hc hp
    obtain ⟨f, rfl⟩ : ∃ f, fuel = f + 1 := ⟨fuel - 1, by simp at hf; omega⟩
    obtain ⟨c1, hel, hr1, hp1⟩ := enumItem_okN c it r tail (by rw [hc]; simp [itemsTextN]) hp (his it (by simp))
    obtain ⟨c2, hm, hr2, hp2⟩ := ih (fun q hq => his q (by simp [hq])) f c1 (by simp at hf; omega) hr1 hp1
    refine ⟨c2, ?_, hr2, hp2⟩
    have hlen : c1.rest.length ≠ c.rest.length := by
      rw [hr1, hc]; simp [itemsTextN, itemLineN]; omega
    rw [many]
    simp only [hel, hlen, decide_false, Bool.false_and, Bool.false_eq_true, ↓reduceIte, hm, List.map_cons]

theorem itemsTextN_length (is : List (Str × Str)) : is.length ≤ (itemsTextN is).length := by
  induction is with
  | nil => simp [itemsTextN]
  | cons it r ih => simp [itemsTextN, itemLineN]; omega

def enumTextN (en : Str) (is : List (Str × Str)) : Str :=
  'E' :: 'n' :: 'u' :: 'm' :: ' ' :: '"' :: (en ++ '"' :: ' ' :: '{' :: (itemsTextN is ++ ['\n', '}']))

def enumBpN (en : Str) (is : List (Str × Str)) : Bp.EnumBp := { name := en, items := is.map noteItem }

/-- the enum rule on the rendered text of an enum whose items may carry notes -/
theorem enumRule_okPN (c c0 : Cur) (en : Str) (is : List (Str × Str)) (post : Str) (Q : Cur → Prop)
    (hb : cBefore c = .ok [] c0) (hc : c0.rest = enumTextN en is ++ post) (hp : c0.pastEnd = false)
    (hen : NameOK en) (his : ∀ it ∈ is, ItemOK it) (hne : is ≠ [])
    (hend : ∀ c7 : Cur, c7.rest = post → c7.pastEnd = false → ∃ c9, endRule c7 = .ok () c9 ∧ Q c9) :
    ∃ c9, enumRule c = .ok (enumBpN en is) c9 ∧ Q c9 := by
  have hc' : c0.rest = 'E' :: 'n' :: 'u' :: 'm' :: ' ' :: '"' :: (en ++ '"' :: ' ' :: '{' :: (itemsTextN is ++ '\n' :: '}' :: post)) := by
    rw [hc]; simp [enumTextN]
  have hN : Next c0 'E' _ := skipWs_rest_head c0 'E' _ (by rw [hc']) (by decide)
  obtain ⟨c1, hk, hr1, hp1⟩ := clit_ok "enum" c0 ['E', 'n', 'u', 'm']
    (' ' :: '"' :: (en ++ '"' :: ' ' :: '{' :: (itemsTextN is ++ '\n' :: '}' :: post))) hN (by decide)
    (by simp [startsWithCaseless]; decide) hp
  have hN1 : (skipWs c1).rest = '"' :: (en ++ '"' :: (' ' :: '{' :: (itemsTextN is ++ '\n' :: '}' :: post))) :=
    skipWs_rest_spaces c1 1 '"' _ (by rw [hr1]; rfl) (by decide)
  obtain ⟨c2, hnm, hr2, hp2⟩ := enumName_ok c1 en _ '{' _ hN1 rfl (by decide) hen hp1
  have hN2 : Next c2 '{' (itemsTextN is ++ '\n' :: '}' :: post) := skipWs_rest_spaces c2 1 '{' _ (by rw [hr2]; rfl) (by decide)
  obtain ⟨q3, q4⟩ := quiet_of_next c2 '{' _ hN2 (by decide) (by decide)
  have hs2 : skipNl c2 = .ok () c2 := skipNl_stay c2 q3 q4
  obtain ⟨c3, hbr, hr3, hp3⟩ := sym_ok "{" '{' rfl c2 _ hN2 hp2
  obtain ⟨i0, ir, rfl⟩ : ∃ i0 ir, is = i0 :: ir := by
    cases is with
    | nil => exact absurd rfl hne
    | cons a as => exact ⟨a, as, rfl⟩
  obtain ⟨c4, hit, hr4, hp4⟩ := enumItem_okN c3 i0 ir post (by rw [hr3]; simp [itemsTextN]) hp3 (his i0 (by simp))
  have hfuel : ir.length < c4.rest.length + 2 := by
    rw [hr4]; have := itemsTextN_length ir; simp; omega
  obtain ⟨c5, hm, hr5, hp5⟩ := many_itemsN ir post (fun q hq => his q (by simp [hq])) (c4.rest.length + 2) c4 hfuel hr4 hp4
  have hmany1 : many1 enumItem c3 = .ok ((i0 :: ir).map noteItem) c5 := by
    unfold many1 manyF fuelOf
    simp only [bind, pbind, hit, hm, pure, ppure, List.map_cons]
  have hN5 : (skipWs c5).rest = '\n' :: '}' :: post := skipWs_rest_head c5 '\n' _ hr5 (by decide)
  obtain ⟨c6, hle, hr6, hp6⟩ := lineEnd_nl c5 ('}' :: post) hN5 hp5
  have hN6 : Next c6 '}' post := skipWs_rest_head c6 '}' _ hr6 (by decide)
  obtain ⟨q5, q6⟩ := quiet_of_next c6 '}' _ hN6 (by decide) (by decide)
  have hs6 : skipNl c6 = .ok () c6 := skipNl_stay c6 q5 q6
  obtain ⟨c7, hcl, hr7, hp7⟩ := sym_ok "}" '}' rfl c6 _ hN6 hp6
  obtain ⟨c9, hend9, hQ⟩ := hend c7 hr7 hp7
  refine ⟨c9, ?_, hQ⟩
  unfold enumRule
  simp only [bind, pbind, hb, hk, cut, hnm, hs2, hbr, hmany1, hle, hs6, hcl, hend9, pure, ppure, enumBpN, joinBefore]
  rfl

/-! ### the element form -/

/-- an enum: a quoted name and its items (name, note text - empty for none) -/
abbrev ESpecN := Str × List (Str × Str)

def ESpecNOK (e : ESpecN) : Prop := NameOK e.1 ∧ (∀ it ∈ e.2, ItemOK it) ∧ e.2 ≠ []

def mkEnumElemN (e : ESpecN) : Bp.Elem := Bp.Elem.enum (enumBpN e.1 e.2)

theorem itemStrN_line (it : Str × Str) (h : ItemOK it) : LineOK (itemStrN it) ∧ ∀ c ∈ itemStrN it, c ≠ '\t' := by
  obtain ⟨n, t⟩ := it
  obtain ⟨hn, ht, _, _⟩ := h
  have e : itemStrN (n, t) = ['"'] ++ n ++ ['"'] ++ itemNoteText t := by simp [itemStrN]
  have hnote : (∀ c ∈ itemNoteText t, isLineBreak c = false) ∧ ∀ c ∈ itemNoteText t, c ≠ '\t' := by
    unfold itemNoteText
    split
    · exact ⟨(by intro c hc; cases hc), (by intro c hc; cases hc)⟩
    · have e2 : (' ' :: '[' :: 'n' :: 'o' :: 't' :: 'e' :: ':' :: ' ' :: '\'' :: (prepareTextForDbml t ++ ['\'', ']']))
          = [' ', '[', 'n', 'o', 't', 'e', ':', ' ', '\''] ++ prepareTextForDbml t ++ ['\'', ']'] := by simp
      rw [e2]
      constructor
      · intro c hc
        simp only [List.mem_append] at hc
        rcases hc with (h | h) | h
        · exact (by decide : ∀ c ∈ [' ', '[', 'n', 'o', 't', 'e', ':', ' ', '\''], isLineBreak c = false) c h
        · rcases prepare_mem _ c h with h' | rfl
          · exact (ht c h').1
          · decide
        · exact (by decide : ∀ c ∈ ['\'', ']'], isLineBreak c = false) c h
      · intro c hc
        simp only [List.mem_append] at hc
        rcases hc with (h | h) | h
        · exact (by decide : ∀ c ∈ [' ', '[', 'n', 'o', 't', 'e', ':', ' ', '\''], c ≠ '\t') c h
        · rcases prepare_mem _ c h with h' | rfl
          · exact (ht c h').2
          · decide
        · exact (by decide : ∀ c ∈ ['\'', ']'], c ≠ '\t') c h
  rw [e]
  constructor
  · intro c hc
    simp only [List.mem_append] at hc
    rcases hc with ((h | h) | h) | h
    · exact (by decide : ∀ c ∈ ['"'], isLineBreak c = false) c h
    · exact (hn c h).2.2.1
    · exact (by decide : ∀ c ∈ ['"'], isLineBreak c = false) c h
    · exact hnote.1 c h
  · intro c hc
    simp only [List.mem_append] at hc
    rcases hc with ((h | h) | h) | h
    · exact (by decide : ∀ c ∈ ['"'], c ≠ '\t') c h
    · exact (hn c h).2.2.2
    · exact (by decide : ∀ c ∈ ['"'], c ≠ '\t') c h
    · exact hnote.2 c h

theorem itemsTextN_no_tab : ∀ (is : List (Str × Str)), (∀ it ∈ is, ItemOK it) → ∀ c ∈ itemsTextN is, c ≠ '\t' := by
  intro is
  induction is with
  | nil => intro _ c hc; simp [itemsTextN] at hc
  | cons it r ih =>
    intro h c hc
    have e : itemsTextN (it :: r) = ['\n', ' ', ' ', ' ', ' '] ++ itemStrN it ++ itemsTextN r := by simp [itemsTextN, itemLineN]
    rw [e] at hc
    simp only [List.mem_append] at hc
    rcases hc with (h' | h') | h'
    · exact (by decide : ∀ c ∈ ['\n', ' ', ' ', ' ', ' '], c ≠ '\t') c h'
    · exact (itemStrN_line it (h it (by simp))).2 c h'
    · exact ih (fun q hq => h q (by simp [hq])) c h'

def enumEN (ap : Bool) (e : ESpecN) (he : ESpecNOK e) : EForm ap where
  pre := none
  head := 'E'
  body := (enumTextN e.1 e.2).tail
  elem := mkEnumElemN e
  headOK := by decide
  headAscii := by decide
  preOK := trivial
  noTab := by
    intro c hc
    have e1 : 'E' :: (enumTextN e.1 e.2).tail = ['E', 'n', 'u', 'm', ' ', '"'] ++ e.1 ++ ['"', ' ', '{'] ++ itemsTextN e.2 ++ ['\n', '}'] := by
      simp [enumTextN]
    rw [e1] at hc
    simp only [List.mem_append] at hc
    rcases hc with (((h | h) | h) | h) | h
    · exact (by decide : ∀ c ∈ ['E', 'n', 'u', 'm', ' ', '"'], c ≠ '\t') c h
    · exact (he.1 c h).2.2.2
    · exact (by decide : ∀ c ∈ ['"', ' ', '{'], c ≠ '\t') c h
    · exact itemsTextN_no_tab e.2 he.2.1 c h
    · exact (by decide : ∀ c ∈ ['\n', '}'], c ≠ '\t') c h
  parse := by
    intro c c0 post hb hr0 hp0 _ hends
    have hr0' : c0.rest = enumTextN e.1 e.2 ++ post := by rw [hr0]; simp [enumTextN]
    have hN0 : Next c0 'E' _ := skipWs_rest_head c0 'E' _ (by rw [hr0]) (by decide)
    have htab : tableRule ap c = .fail :=
      tableRule_fail' ap c c0 [] hb (ckw_fail _ c0 _ _ hN0 (swc_ne 'E' _ "table" 't' _ rfl (by decide)))
    have href : refRule c = .fail :=
      refRule_fail' c c0 [] hb (clit_fail _ c0 _ _ hN0 (swc_ne 'E' _ "ref" 'r' _ rfl (by decide)))
    obtain ⟨c9, hrule, hQ⟩ := enumRule_okPN c c0 e.1 e.2 post (After post) hb hr0' hp0 he.1 he.2.1 he.2.2
      (fun c7 hr7 hp7 => endRule_afterE c7 post hends hr7 hp7)
    refine ⟨c9, ?_, hQ⟩
    unfold element alt mkEnumElemN
    simp only [bind, pbind, htab, href, hrule, pure, ppure]

theorem enumEN_text (ap : Bool) (e : ESpecN) (he : ESpecNOK e) : (enumEN ap e he).text = enumTextN e.1 e.2 := by
  simp [EForm.text, enumEN, commentText, enumTextN]

/-! ### build and rendering -/

def mkEnumN (e : ESpecN) : Enum :=
  { name := e.1, schema := lit "public", items := e.2.map fun it => { name := it.1, note := it.2 } }

theorem buildEnum_N (e : ESpecN) (he : ESpecNOK e) : buildEnum (enumBpN e.1 e.2) = .ok (mkEnumN e) := by
  have : (e.2.map noteItem).map buildEnumItem = e.2.map fun it => ({ name := it.1, note := it.2 } : EnumItem) := by
    rw [List.map_map]
    apply List.map_congr_left
    intro it hit
    obtain ⟨_, _, _, hn⟩ := he.2.1 it hit
    cases ht : it.2 with
    | nil => simp [noteItem, buildEnumItem, noteText, ht]
    | cons a b =>
      rw [ht] at hn
      simp [noteItem, buildEnumItem, noteText, ht, hn]
  simp [buildEnum, enumBpN, mkEnumN, this, pure, Except.pure]

theorem itemsTextN_flatMap (is : List (Str × Str)) :
    '\n' :: ((is.map itemStrN).flatMap fun l => [' ', ' ', ' ', ' '] ++ l ++ ['\n']) = itemsTextN is ++ ['\n'] := by
  induction is with
  | nil => rfl
  | cons it r ih =>
    simp only [List.map_cons, List.flatMap_cons, itemsTextN, itemLineN] at ih ⊢
    simp only [List.cons_append, List.append_assoc, List.nil_append, List.cons.injEq, true_and]
    rw [← ih]
    simp

theorem renderEnum_N (e : ESpecN) (he : ESpecNOK e) : Dbml.renderEnum (mkEnumN e) = enumTextN e.1 e.2 := by
  obtain ⟨en, is⟩ := e
  obtain ⟨_, his, hne⟩ := he
  have hitems : (mkEnumN (en, is)).items.map Dbml.renderEnumItem = is.map itemStrN := by
    simp only [mkEnumN, List.map_map]
    apply List.map_congr_left
    intro it hit
    obtain ⟨_, ht, _, _⟩ := his it hit
    have hnl := containsChar_plain it.2 ht
    cases h2 : it.2 with
    | nil => simp [Dbml.renderEnumItem, Dbml.optComment, itemStrN, itemNoteText, h2]
    | cons a b =>
      rw [h2] at hnl
      simp only [Function.comp, Dbml.renderEnumItem, Dbml.optComment, itemStrN, itemNoteText, h2, noteOptionToDbml, hnl,
        List.isEmpty_cons, Bool.false_eq_true, ↓reduceIte, List.nil_append]
      simp [lit]
  have hbody : Dbml.indent4 (joinNL (is.map itemStrN)) ++ ['\n'] = (is.map itemStrN).flatMap fun l => [' ', ' ', ' ', ' '] ++ l ++ ['\n'] := by
    apply indent4_lines
    · simpa using hne
    · intro l hl
      obtain ⟨it, hit, rfl⟩ := List.mem_map.mp hl
      exact (itemStrN_line it (his it hit)).1
    · intro l hl
      obtain ⟨it, _, rfl⟩ := List.mem_map.mp hl
      exact ⟨'"', _, rfl, by decide⟩
  unfold Dbml.renderEnum
  rw [hitems]
  have h2 := itemsTextN_flatMap is
  rw [← hbody] at h2
  have e1 : enumTextN en is = lit "Enum " ++ ('"' :: en ++ ['"']) ++ lit " {" ++ ((itemsTextN is ++ ['\n']) ++ ['}']) := by
    simp [enumTextN, lit]
  simp only
  rw [e1, ← h2]
  simp [mkEnumN, Dbml.optComment, qualName, lit]

end C02
end PyDBML
