"""C05 — a parsed database is one consistently linked object graph."""
import json
import random
import sys

from harness import ref_text as RT
from harness import core, gen_db as GD, gen_text as GT, impl_text as IT, observe as O, speller as SP
from harness import parse_common as PC
from harness.driver import Driver, DriverError

sys.path.insert(0, '/repo')
from pydbml import PyDBML  # noqa: E402
from pydbml.classes import Column, Enum  # noqa: E402

PID = 'C05'
THEOREMS = ['PyDBML.C05.build_refs_in_range', 'PyDBML.C05.locateTable_in_range', 'PyDBML.C05.locateCols_in_range',
            'PyDBML.C05.findKey_in_range',
            'PyDBML.C05.resolveType_sound', 'PyDBML.C05.resolveType_complete', 'PyDBML.C05.locateCols_sound', 'PyDBML.C05.buildRef_sound',
            'PyDBML.C02.ColForm.buildRef_ok', 'PyDBML.C02.ColForm.buildRefB_ok', 'PyDBML.C02.ColForm.foldlM_refsB',
            'PyDBML.C02.ColForm.inline_rendered', 'PyDBML.C02.ColForm.irefs_eq', 'PyDBML.C02.foldlM_groupStep', 'PyDBML.C02.flags_document_roundtrip_partial']
MODULES = ['PyDBMLProofs.Props.C05', 'PyDBMLProofs.Props.C05Link', 'PyDBMLProofs.Props.C02FormRefs', 'PyDBMLProofs.Props.C02Group',
           'PyDBMLProofs.Props.C02Inline', 'PyDBMLProofs.Props.C02Project', 'PyDBMLProofs.Props.C02EnumNote', 'PyDBMLProofs.Props.C02TableNote', 'PyDBMLProofs.Props.C02Document']


def isin(x, lst):
    return any(x is y for y in lst)


def link_violations(db):
    """identity facts of the statement, evaluated on the real graph -> list of (what, reason)"""
    v = []
    T = db.tables
    for i, t in enumerate(T):
        if t.database is not db:
            v.append(('table does not point back to the database', None))
        if db[i] is not t or db[t.full_name] is not t or (t.alias and db[t.alias] is not t):
            v.append(('lookup by index / full name / alias returns another object', None))
        if t.note.parent is not t:
            v.append(('table note does not point back to the table', None))
        for c in t.columns:
            if c.table is not t:
                v.append(('column does not point back to its table', None))
            if c.note.parent is not c:
                v.append(('column note does not point back to the column', None))
            if isinstance(c.type, Enum) and not isin(c.type, db.enums):
                v.append(('enum-typed column holds an Enum that is not the database\'s', None))
            if c.database is not db:
                v.append(('column.database is not the database', None))
        for ix in t.indexes:
            if ix.table is not t:
                v.append(('index does not point back to its table', None))
            if ix.note.parent is not ix:
                v.append(('index note does not point back to the index', None))
            for s in ix.subjects:
                if isinstance(s, Column) and not isin(s, t.columns):
                    v.append(('index subject is not a Column object of the owning table', None))
        want = [r for r in db.refs if r.col1 and r.col1[0].table is t]
        got = t.get_refs()
        if len(got) != len(want) or any(a is not b for a, b in zip(got, want)):
            v.append(('get_refs is not exactly the references whose left side is the table', None))
    for e in db.enums:
        if e.database is not db:
            v.append(('enum does not point back to the database', None))
        for it in e.items:
            if it.note.parent is not it:
                v.append(('enum item note does not point back to the item', None))
    for r in db.refs:
        if r.database is not db:
            v.append(('reference does not point back to the database', None))
        for c in r.col1 + r.col2:
            if c.table is None or not isin(c.table, T):
                v.append(('reference endpoint belongs to a table that is not in the database', None))
            elif not isin(c, c.table.columns):
                v.append(('reference endpoint is not the very Column object held by the table', None))
    try:
        from pydbml.renderer.sql.default.table import get_references_for_sql
        for r in db.refs:
            if r.type != '<>':
                n = sum(1 for t in T if isin(r, get_references_for_sql(t)))
                if n != 1:
                    v.append((f'a non-many-to-many reference is assigned to {n} tables as SQL key holder', None))
    except ImportError:
        pass
    for g in db.table_groups:
        if g.database is not db:
            v.append(('table group does not point back to the database', None))
        for t in g.items:
            if not isin(t, T):
                v.append(('table group holds something that is not a Table object of the database', None))
        if g.note is not None and getattr(g.note, 'parent', None) is not g:
            v.append(('table group note does not point back to the group', 'GroupNoteParent'))
    for s in db.sticky_notes:
        if s.database is not db:
            v.append(('sticky note does not point back to the database', None))
    if db.project is not None:
        if db.project.database is not db:
            v.append(('project does not point back to the database', None))
        if db.project.note.parent is not db.project:
            v.append(('project note does not point back to the project', None))
    return v


def job(seed):
    rng = random.Random(seed)
    spec = SP.normalise_for_spelling(GD.gen_spec(rng, wild=False, max_tables=4), RT.ref_norm)
    namesake = rng.random() < 0.25 and GD.add_namesake_case(rng, spec)
    if namesake:
        spec = SP.normalise_for_spelling(spec, RT.ref_norm)
    if not SP.spellable(spec):
        return None
    text, exp, info = SP.spell(spec, rng, {'varied': True})
    try:
        db = PyDBML(text, allow_properties=spec['allow_properties'])
    except Exception as e:  # noqa: BLE001
        return {'text': text, 'props': spec['allow_properties'], 'err': O.classify(e)}
    out = {'text': text, 'props': spec['allow_properties'], 'viol': link_violations(db),
           'features': GD.features(spec) + (['namesake-in-other-schema'] if namesake else [])}
    try:
        d = O.dump_db(db)
        out['dump_ok'] = True
        # endpoints resolved as declared, whatever the addressing; inline references start at the declaring column
        e, g = O.strip_comments(exp), O.strip_comments(d)
        if e['refs'] != g['refs'] or e['groups'] != g['groups']:
            out['viol'].append(('reference endpoints / group members are not the declared ones', None))
        for ti, t in enumerate(e['tables']):
            for ci, c in enumerate(t['columns']):
                if c['type'] != g['tables'][ti]['columns'][ci]['type']:
                    out['viol'].append(('column type / enum link is not the declared one', None))
    except O.OutOfModel as ex:
        out['viol'].append(('links leave the database: ' + str(ex), None))
    return out


def main(tier, seed):
    ctx = core.Ctx(PID, tier, seed, 'translation_validation', THEOREMS, MODULES)
    ctx.build()
    problems = ctx.audit() if ctx.build_ok else ['lake build failed']
    n = 2000 if not ctx.thorough else 30000
    res = [r for r in core.pmap(job, [f'{seed}:{k}' for k in range(n)]) if r is not None]
    for name, text in GT.corpus():
        try:
            db = PyDBML(text)
            res.append({'text': text, 'props': False, 'viol': link_violations(db), 'features': ['corpus:' + name, 'corpus']})
        except Exception:  # noqa: BLE001
            pass
    drv = None
    try:
        drv = Driver()
    except DriverError as e:
        ctx.notes.append(str(e))
    for k, r in enumerate(res):
        if 'err' in r:
            ctx.count('rejected:' + r['err'])
            continue
        f = r['features']
        nontrivial = any(x.startswith('ref') or x in ('enumtype', 'group', 'corpus') for x in f)
        ctx.case(core.h(r['text']), nontrivial, sample={'features': f, 'violations': r['viol'][:2]} if k % 400 == 3 else None)
        for what, reason in r['viol'][:3]:
            ctx.fail(what, {'op': 'links', 'text': r['text'], 'props': r['props']}, reason=reason)
    # the model's build gives the same linked content (positions = identities) — correspondence via C01's dump
    if drv is not None:
        sub = [r for r in res if 'err' not in r][:600 if not ctx.thorough else 6000]
        ms = drv.ask_many({'op': 'parse', 'text': r['text'], 'allow_properties': r['props']} for r in sub)
        for r, m in zip(sub, ms):
            i = PC.impl_parse(r['text'], r['props'])
            if m.get('err') != 'outOfModel' and not PC.same_parse(m, i):
                ctx.diverge('parse+build (links as positions)', {'op': 'parse', 'text': r['text'], 'props': r['props']}, PC.brief(m), PC.brief(i))
        drv.close()

    def kf_replay(f):
        db = PyDBML(f['witness']['text'])
        return any(reason == f['reason'] for _, reason in link_violations(db))

    return ctx.finish(
        rule='spelled documents (tables addressed by schema.name, bare name or alias; inline, short and block references; '
             'enum-typed columns with and without schema; groups; project; sticky notes) and the corpus. Non-trivial: at least one '
             'cross-object link (reference, enum-typed column or group); distinct by document hash',
        explanation='Oracle: the identity facts of the statement evaluated with `is` on the real graph (endpoints are the very '
                    'Column objects, back-pointers, index subjects, enum links, group members, lookup agreement, get_refs, unique '
                    'SQL key holder) and the declared endpoints compared by position. Theorems: every reference/group position the '
                    'model\'s build produces is in range (links never dangle); the model is tied by the parse correspondence.',
        assumptions=['identity is observed through `is`; in the model links are positions into the owning lists'],
        trusted_base=['Lean 4.33 kernel', 'hand-written Build model tied by correspondence', 'harness/speller.py'],
        kf_replay=kf_replay, proof_problems=problems)


def replay(path):
    case = json.load(open(path))
    c = case.get('case', {})
    print(json.dumps({k: v for k, v in case.items() if k != 'case'}, indent=1)[:2000])
    if 'text' in c:
        print(c['text'])
        print(link_violations(PyDBML(c['text'], allow_properties=c.get('props', False))))
    return 0
