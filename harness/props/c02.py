"""C02 — DBML round trip: parse(render(db)) equals db and rendering is a fixpoint."""
import copy
import json
import random

from harness import ref_text as RT
from harness import core, expressible as EX, gen_db as GD, gen_text as GT, impl_text as IT, observe as O, speller as SP
from harness import parse_common as PC
from harness.driver import Driver, DriverError

PID = 'C02'
THEOREMS = ['PyDBML.C02.renderNote_block', 'PyDBML.C02.bodyEnd_note', 'PyDBML.C02.renderProject_ok', 'PyDBML.C02.flags_document_roundtrip_partial', 'PyDBML.C02.document_roundtrip', 'PyDBML.C02.flags_refs_roundtrip_partial', 'PyDBML.C02.flags_tables_roundtrip_partial', 'PyDBML.C02.form_refs_roundtrip', 'PyDBML.C02.form_tables_roundtrip',
            'PyDBML.C02.flags_table_roundtrip_partial', 'PyDBML.C02.form_roundtrip', 'PyDBML.C02.settings_ok', 'PyDBML.C02.refs_roundtrip_partial', 'PyDBML.C02.renderDb_tables_refs', 'PyDBML.C02.tables_roundtrip_partial', 'PyDBML.C02.enum_roundtrip_partial', 'PyDBML.C02.renderDb_tables', 'PyDBML.C02.table_roundtrip_partial', 'PyDBML.C02.sticky_roundtrip_partial', 'PyDBML.C02.renderDb_table', 'PyDBML.C02.renderDb_sticky',
            'PyDBML.C02.tableRule_ok', 'PyDBML.C02.many_body', 'PyDBML.C02.stickyNoteRule_ok']
MODULES = ['PyDBMLProofs.Props.C02Sticky', 'PyDBMLProofs.Props.C02Table', 'PyDBMLProofs.Props.C02Tables', 'PyDBMLProofs.Props.C02Enum', 'PyDBMLProofs.Props.C02Refs', 'PyDBMLProofs.Props.C02Form', 'PyDBMLProofs.Props.C02Flags', 'PyDBMLProofs.Props.C02Comment', 'PyDBMLProofs.Props.C02FormTables', 'PyDBMLProofs.Props.C02FormRefs', 'PyDBMLProofs.Props.C02FlagsTables', 'PyDBMLProofs.Props.C02Doc', 'PyDBMLProofs.Props.C02DocMore', 'PyDBMLProofs.Props.C02Group', 'PyDBMLProofs.Props.C02Inline', 'PyDBMLProofs.Props.C02Project', 'PyDBMLProofs.Props.C02EnumNote', 'PyDBMLProofs.Props.C02TableNote', 'PyDBMLProofs.Props.C02Document']


def canonical_ref_order(spec):
    """reorder the references of a spec the way a DBML document must declare them"""
    s = copy.deepcopy(spec)
    order = []
    for ti, t in enumerate(s['tables']):
        for ci in range(len(t['columns'])):
            for j, r in enumerate(s['refs']):
                if EX.eff_inline(r) and r['t1'] == ti and r['col1'][:1] == [ci]:
                    order.append(j)
    order += [j for j, r in enumerate(s['refs']) if not EX.eff_inline(r)]
    s['refs'] = [s['refs'][j] for j in order]
    return s


def make_expressible(spec):
    """push a generated hygienic spec into the Expressible domain (what the generator claims)"""
    s = SP.normalise_for_spelling(spec, RT.ref_norm)
    for t in s['tables']:
        for c in t['columns']:
            d = c['default']
            if d is not None:
                if (d['k'] == 'int' and d['v'] == '0') or (d['k'] == 'float' and d['v'] == '0.0') or \
                        (d['k'] == 'bool' and d['v'] is False) or (d['k'] == 'str' and d['v'] == ''):
                    c['default'] = None
            if c['note'] and '\n' in c['note']:
                c['note'] = c['note'].replace('\n', ' ')
            c['props'] = [[k, v.replace('\n', ' ')] for k, v in c['props'] if EX.BARE.match(k)]
            if not isinstance(c['type'], dict) and not EX.type_ok(c['type']):
                c['type'] = 'text'
        for ix in t['indexes']:
            if ix['note'] and '\n' in ix['note']:
                ix['note'] = ix['note'].replace('\n', ' ')
        t['props'] = [[k, v.replace('\n', ' ')] for k, v in t['props'] if EX.BARE.match(k)]
    for e in s['enums']:
        for i in e['items']:
            if i['note'] and '\n' in i['note']:
                i['note'] = i['note'].replace('\n', ' ')
    for r in s['refs']:
        if EX.eff_inline(r) and (len(r['col1']) > 1 or len(r['col2']) > 1 or r['name'] or r['on_update'] or r['on_delete']):
            r['inline'] = False
        if r['type'] == '<>':
            r['inline'] = False
        if r['name'] is not None and not EX.BARE.match(r['name']):
            r['name'] = 'fk_x'
    for st in s['sticky']:
        if not EX.BARE.match(st['name']):
            st['name'] = 'sn'
    if s['project'] is not None:
        s['project']['items'] = [[k, v.replace('\n', ' ')] for k, v in s['project']['items'] if EX.BARE.match(k)]
    def fix_text(x):
        if isinstance(x, str):
            return x.replace("'''", "''")
        return x

    def walk(o):
        if isinstance(o, dict):
            for k in list(o):
                if k in ('note', 'text') and isinstance(o[k], str):
                    o[k] = fix_text(o[k])
                elif k == 'default' and isinstance(o[k], dict) and o[k]['k'] == 'str':
                    o[k]['v'] = fix_text(o[k]['v'])
                elif k in ('props', 'items') and isinstance(o[k], list) and o[k] and isinstance(o[k][0], list):
                    o[k] = [[('p_' + kk) if any(kk.upper().startswith(w.upper()) for w in EX.COL_SETTING_KW + ('indexes',)) else kk, fix_text(vv)]
                            for kk, vv in o[k]]
                else:
                    walk(o[k])
        elif isinstance(o, list):
            for x in o:
                walk(x)
    walk(s)
    for t in s['tables']:
        for ix in t['indexes']:
            ix['subjects'] = [sb if 'col' not in sb or EX.BARE.match(t['columns'][sb['col']]['name']) else {'expr': 'x + 1'}
                              for sb in ix['subjects']]
            if ix['name']:
                ix['name'] = fix_text(ix['name'])
    return canonical_ref_order(s)


def roundtrip(db):
    """-> (ok, how, detail, dump) on the real code"""
    try:
        d1 = O.dump_db(db)
    except O.OutOfModel as e:
        return None, 'outOfModel', str(e), None
    except O.NotADatabase as e:
        # e.g. a section list that holds objects of another kind after an earlier rendering
        return False, 'not-a-database', str(e), None
    try:
        text = db.dbml
    except Exception as e:  # noqa: BLE001
        return False, 'render-raises', O.classify(e), d1
    try:
        again = db.dbml
        d1b = O.dump_db(db)
    except Exception as e:  # noqa: BLE001
        return False, 'render-again-raises', O.classify(e), d1
    if again != text:
        return False, 'same-database-renders-differently', {'first': text, 'second': again}, d1
    if d1b != d1:
        diff = PC.first_diff(d1, d1b)
        return False, 'rendering-changed-the-database', {'path': diff[0], 'before': diff[1], 'after': diff[2]}, d1
    r2 = PC.impl_parse(text, d1['allow_properties'])
    if 'ok' not in r2:
        return False, 'reparse-raises:' + r2['err'], {'dbml': text}, d1
    c1, c2 = EX.canon(d1), EX.canon(r2['ok'])
    if c1 != c2:
        diff = PC.first_diff(c1, c2)
        return False, 'content-differs', {'path': diff[0], 'before': diff[1], 'after': diff[2], 'dbml': text}, d1
    from pydbml import PyDBML
    try:
        db2 = PyDBML(text, allow_properties=d1['allow_properties'])
        t2 = db2.dbml
        if t2 != text:
            return False, 'second-render-differs', {'first': text, 'second': t2}, d1
        db3 = PyDBML(t2, allow_properties=d1['allow_properties'])
        if db3.dbml != t2:
            return False, 'third-render-differs', {'second': t2, 'third': db3.dbml}, d1
    except Exception as e:  # noqa: BLE001
        return False, 'second-cycle-raises', O.classify(e), d1
    return True, 'ok', {'dbml': text}, d1


def warm_and_edit(rng, db):
    """The database is rendered once and then edited in place through plain attribute assignment / public methods: it is still
    a database built through the public classes, and what is rendered next must be what it holds NOW. -> list of edits"""
    from pydbml.classes import Column, Note
    O.run(lambda: db.dbml)
    done = []
    for _ in range(rng.randint(1, 3)):
        if not db.tables:
            break
        t = rng.choice(list(db.tables))
        kind = rng.choice(['tname', 'addcol', 'cnote', 'cflag', 'cname', 'tnote'])
        if kind == 'tname':
            new = t.name + '_v2'
            if not any(x.name == new for x in db.tables):
                t.name = new
                done.append(kind)
        elif kind == 'addcol':
            new = f'added_{len(t.columns)}'
            if not any(c.name == new for c in t.columns):
                t.add_column(Column(new, 'int'))
                done.append(kind)
        elif kind == 'tnote':
            t.note = Note('edited table note')
            done.append(kind)
        elif t.columns:
            c = rng.choice(list(t.columns))
            if kind == 'cnote':
                c.note = Note('edited')
            elif kind == 'cflag':
                c.unique = not c.unique
            else:
                new = c.name + '_v2'
                if any(x.name == new for x in t.columns):
                    continue
                c.name = new
            done.append(kind)
    return done


def job(j):
    kind, seed = j
    rng = random.Random(seed)
    from pydbml import PyDBML
    try:
        if kind == 'parsed':
            spec = GD.gen_spec(rng, wild=False, max_tables=4)
            spec = make_expressible(spec) if rng.random() < 0.75 else SP.normalise_for_spelling(spec, RT.ref_norm)
            if not SP.spellable(spec):
                return {'skip': 'unspellable'}
            text, _, _ = SP.spell(spec, rng, {'varied': True})
            db = PyDBML(text, allow_properties=spec['allow_properties'])
            src = {'kind': kind, 'text': text, 'props': spec['allow_properties']}
        elif kind == 'api':
            spec = make_expressible(GD.gen_spec(rng, wild=False, max_tables=4))
            db, _ = GD.build(spec)
            src = {'kind': kind, 'spec': spec}
        else:
            spec = GD.gen_spec(rng, wild=True, max_tables=3)
            db, _ = GD.build(spec)
            src = {'kind': kind, 'spec': spec}
        if rng.random() < 0.3:
            # a third of the databases has a history: rendered before, edited since (job = [kind, seed] replays it)
            src['history'] = warm_and_edit(rng, db)
            src['job'] = [kind, seed]
    except Exception as e:  # noqa: BLE001
        return {'skip': f'{kind}-source:' + type(e).__name__}
    ok, how, detail, d1 = roundtrip(db)
    if ok is None:
        return {'skip': how}
    if d1 is None:
        d1 = {'tables': [], 'refs': [], 'enums': [], 'groups': [], 'sticky': [], 'project': None,
              'allow_properties': False, 'undumpable': str(detail)}
        detail = {'why': str(detail)}
    out = {'ok': ok, 'how': how, 'detail': detail if not ok else None, 'dump': d1, 'src': src,
           'reasons': sorted(EX.reasons(d1)), 'dbml': detail.get('dbml') if ok else None,
           'features': GD.features(d1)}
    return out


def witness_spec(reason):
    """a minimal API-built database showing one excluded region"""
    col = lambda n, **kw: dict({'name': n, 'type': 'int', 'unique': False, 'not_null': False, 'pk': False, 'autoinc': False,  # noqa: E731
                                'default': None, 'note': '', 'comment': None, 'props': []}, **kw)
    tab = lambda n, **kw: dict({'name': n, 'schema': 'public', 'alias': None, 'columns': [col('id'), col('x')], 'indexes': [],  # noqa: E731
                                'note': '', 'header_color': None, 'comment': None, 'abstract': False, 'props': []}, **kw)
    s = {'tables': [tab('a'), tab('b')], 'refs': [], 'enums': [], 'groups': [], 'sticky': [], 'project': None,
         'allow_properties': False}
    ref = {'type': '>', 't1': 0, 'col1': [0], 't2': 1, 'col2': [0], 'name': None, 'comment': None, 'on_update': None,
           'on_delete': None, 'inline': False}
    W = {
        'NeedsQuoting': lambda: s['refs'].append(dict(ref, name='my ref')),
        'TypeNeedsQuoting': lambda: s['tables'][0]['columns'][0].update(type='character varying'),
        'FalsyDefault': lambda: s['tables'][0]['columns'][0].update(default={'k': 'int', 'v': '0'}),
        'NegativeNumber': lambda: s['tables'][0]['columns'][0].update(default={'k': 'int', 'v': '-5'}),
        'FloatRepr': lambda: s['tables'][0]['columns'][0].update(default={'k': 'float', 'v': '1e-05'}),
        'StringLooksLikeLiteral': lambda: s['tables'][0]['columns'][0].update(default={'k': 'str', 'v': 'true'}),
        'MultilineDefault': lambda: s['tables'][0]['columns'][0].update(default={'k': 'str', 'v': 'a\nb'}),
        'MultilineSetting': lambda: s['tables'][0]['columns'][0].update(note='a\nb'),
        'TripleQuote': lambda: s['tables'][0].update(note="a'''b"),
        'WhitespaceOnlyLine': lambda: s['tables'][0].update(note='a\n  \nb'),
        'RefOrderNotCanonical': lambda: s['refs'].extend([dict(ref, col1=[1]), dict(ref, inline=True)]),
        'InlineRefLosesSettings': lambda: s['refs'].append(dict(ref, inline=True, on_delete='cascade')),
        'NameNeedsEscape': lambda: s['tables'][0].update(name='a"b'),
        'DuplicateColumnName': lambda: (s['tables'][1]['columns'].append(col('id', type='text')),
                                        s['tables'][0]['indexes'].append(None), s['tables'][0]['indexes'].pop(),
                                        s['refs'].append(dict(ref, col2=[2]))),
        'TypeShadowsEnum': lambda: (s['enums'].append({'name': 'st', 'schema': 'public', 'items': [{'name': 'x', 'note': '', 'comment': None}], 'comment': None}),
                                    s['tables'][0]['columns'][0].update(type='st')),
        'MultilineRaw': lambda: s.update(project={'name': 'p', 'items': [['k', 'a\nb']], 'note': '', 'comment': None}),
        'MultilineProp': lambda: (s.update(allow_properties=True), s['tables'][0].update(props=[['k', 'a\nb']])),
        'PropsHidden': lambda: s['tables'][0].update(props=[['k', 'v']]),
        'PropKeyKwPrefix': lambda: (s.update(allow_properties=True), s['tables'][0]['columns'][0].update(props=[['pk1', 'v']])),
        'AliasShadow': lambda: (s['tables'][1].update(alias='a', schema='s'), s['refs'].append(dict(ref, t1=1, t2=0))),
        'IndexTypeCase': lambda: s['tables'][0]['indexes'].append({'subjects': [{'col': 0}], 'name': None, 'unique': False, 'type': 'BTREE', 'pk': False, 'note': '', 'comment': None}),
        'ActionCase': lambda: s['refs'].append(dict(ref, on_delete='CASCADE')),
        'ExprBacktick': lambda: s['tables'][0]['columns'][0].update(default={'k': 'expr', 'v': 'a`b'}),
        'MultilineExpr': lambda: s['tables'][0]['columns'][0].update(default={'k': 'expr', 'v': 'multi\nline'}),
        'NotPrintable': lambda: s['tables'][0].update(note='a\tb'),
        'NotNormal': lambda: s['tables'][0].update(note='  indented'),
    }
    if reason not in W:
        return None
    W[reason]()
    return s


def kf_replay(f):
    spec = f['witness']['spec']
    db, _ = GD.build(spec)
    ok, how, detail, d1 = roundtrip(db)
    return ok is False


def main(tier, seed):
    ctx = core.Ctx(PID, tier, seed, 'translation_validation', THEOREMS, MODULES)
    ctx.build()
    problems = ctx.audit() if ctx.build_ok else ['lake build failed']
    drv = None
    try:
        drv = Driver()
    except DriverError as e:
        ctx.notes.append(str(e))
    n = 1500 if not ctx.thorough else 25000
    jobs = []
    for k in range(n):
        jobs.append((['parsed', 'api', 'wild'][k % 3], f'{seed}:{k}'))
    res = core.pmap(job, jobs)
    # corpus
    from pydbml import PyDBML
    for name, text in GT.corpus():
        try:
            db = PyDBML(text)
        except Exception:  # noqa: BLE001
            continue
        ok, how, detail, d1 = roundtrip(db)
        if ok is None:
            continue
        jobs.append(('corpus', name))
        res.append({'ok': ok, 'how': how, 'detail': detail if not ok else None, 'dump': d1, 'src': {'kind': 'corpus', 'name': name},
                    'reasons': sorted(EX.reasons(d1)), 'dbml': detail.get('dbml') if ok else None, 'features': GD.features(d1)})
    ok_items = [(j, r) for j, r in zip(jobs, res) if 'skip' not in r]
    for r in res:
        if 'skip' in r:
            ctx.count('skip:' + r['skip'])
    mr = mp = None
    if drv is not None:
        mr = drv.ask_many({'op': 'dbml', 'db': r['dump']} for _, r in ok_items)
    texts = []
    for k, (j, r) in enumerate(ok_items):
        kind = r['src']['kind']
        ctx.case(core.h(r['dump']), len(r['dump']['tables']) >= 1 and len(r['features']) >= 2,
                 sample={'kind': kind, 'features': r['features'], 'reasons': r['reasons'], 'roundtrip': r['how']} if k % 200 == 0 else None)
        ctx.count('source:' + kind)
        if r['src'].get('history'):
            ctx.count('history:rendered-edited-rendered')
        for rs in r['reasons'] or ['in-domain']:
            ctx.count('reason:' + rs)
        # values DBML has no syntax for are outside the statement only for API-built databases: a database obtained
        # by PARSING must round-trip whatever it holds (the parser never produces such values)
        if not r['ok'] and kind in ('api', 'wild') and set(r['reasons']) & EX.OUTSIDE_STATEMENT:
            ctx.count('outside-statement(values DBML cannot express)')
        elif not r['ok']:
            reasons = r['reasons']
            listed = [x for x in reasons if x in ctx.open_reasons]
            what = f'DBML round trip fails ({r["how"]})'
            case = {'op': 'roundtrip', 'src': r['src']}
            if listed:
                ctx.fail(what, case, reason=listed[0], how=r['how'].split(':')[0])
            else:
                ctx.fail(what + (f' [outside Expressible: {reasons}, not a listed finding]' if reasons else ''), case, detail=r['detail'])
        elif r['reasons']:
            ctx.count('out-of-domain-but-survived')
        # correspondence: rendering
        if mr is not None and kind != 'wild':
            m = mr[k]
            it = r['dbml'] if r['ok'] else (r['detail'] or {}).get('dbml') if isinstance(r['detail'], dict) else None
            if it is not None and m.get('ok') != it and m.get('err') != 'outOfModel':
                ctx.diverge('db.dbml', {'op': 'dbml', 'db': r['dump']}, m, it)
        if r['ok']:
            texts.append((r['dbml'], r['dump']['allow_properties'], r['dump']))
    # correspondence: the model parses the rendered text to the same content
    if drv is not None:
        mp = drv.ask_many({'op': 'parse', 'text': t, 'allow_properties': p} for t, p, _ in texts)
        for (t, p, dump), m in zip(texts, mp):
            if m.get('err') == 'outOfModel':
                continue
            if 'ok' not in m or EX.canon(m['ok']) != EX.canon(dump):
                ctx.diverge('model parse of rendered DBML', {'op': 'parse', 'text': t, 'props': p}, PC.brief(m), 'ok (equal content)')
        drv.close()
    return ctx.finish(
        rule='databases from three sources: parsed from spelled documents, built through the public classes from Expressible '
             'values, and wild API-built ones (named reasons outside Expressible), plus the corpus; each rendered, re-parsed, '
             're-rendered twice. Non-trivial: >=1 table and >=2 features; distinct by content hash',
        explanation='Theorem flags_document_roundtrip_partial (C02Document.lean): WHOLE DOCUMENTS - any number of enums, any positive number of tables '
                    '(each possibly under a one-line comment, columns with any subset of pk / increment / unique / not null, possibly an integer default, '
                    'a one-line note and - switch on - properties), any number of different single-column references between their columns, each written inline among the settings of its first column or standalone, any number of table groups over these tables and any number of '
                    'sticky notes - are rendered and read back to exactly the same database; an instance of document_roundtrip, proved over a generic '
                    'notion of element form (parseDoc_elems: the document rule reads any list of element forms as their blueprints, in order). '
                    'Theorem flags_refs_roundtrip_partial (C02FlagsTables.lean): ANY positive number of tables with pairwise different names, each with any '
                    'positive number of columns carrying any subset of pk / increment / unique / not null, possibly an integer default, a one-line note and (switch on) any '
                    'number of properties, FOLLOWED BY any positive number of pairwise different standalone single-column references between their '
                    'columns, round-trips exactly (tables, columns, settings, notes, properties, references resolved by name back to the positions they '
                    'were written from); an instance of form_refs_roundtrip / form_tables_roundtrip, which are generic in the form of the column lines. '
                    'Theorem flags_table_roundtrip_partial (one table whose columns carry ANY SUBSET of the settings pk, increment, unique, '
                    'not null, possibly a one-line note and (switch on) any number of properties key: \'value\' round-trips, with the properties switch on or off: the settings list goes through column_settings / '
                    'column_settings_with_properties, parse_column_settings, ColumnBlueprint.build and render_column; it is an instance of '
                    'form_roundtrip, which carries any column FORM that is read back through the table rule, the document, the build and '
                    'the renderer). Theorem refs_roundtrip_partial (a database of any positive number of plain tables and any positive number of pairwise '
                    'different standalone single-column references between their columns round-trips: every reference is resolved, by table and '
                    'column NAME, back to the very positions it was written from; the hypotheses on names are exactly the recorded findings: no '
                    'dot in a table name, no comma/framing parentheses or blanks in a column name, no two columns of one table with one name). '
                    'Theorems tables_roundtrip_partial (a database holding ANY positive number of tables with pairwise different names, '
                    'each with ANY positive number of columns with a quoted name and a one-word type, is rendered by the renderer model and '
                    'read back by the character-level parser model + build model to exactly the same database - same tables, same columns, '
                    'same order: two nested inductions through the fuelled `many`, the end rule between elements, the uniqueness folds of '
                    'build_database), table_roundtrip_partial (the one-table case) and sticky_roundtrip_partial (one sticky note, bare name, one-line text), by symbolic execution of the grammar model '
                    'with general per-primitive lemmas. They are PARTIAL: settings, notes, indexes, enums, references, groups, the '
                    'project and several elements per document are decided by the oracle and the correspondence below, not by a theorem. Oracle on the real code: content(parse(db.dbml)) == content(db) and the second and third renderings are '
                    'byte-identical. Correspondence: the Lean DBML renderer gives the same text and the Lean parser model reads '
                    'it back to the same content. The domain predicate Expressible (harness/expressible.py, DESIGN 5.3) names '
                    'every excluded region; each has a committed witness in known_findings.json.',
        assumptions=['comments are not part of the compared content (C14)', 'inline-ness is compared as the effective Reference.inline'],
        trusted_base=['Lean 4.33 kernel', 'axioms: propext, Classical.choice, Quot.sound only', 'hand-written Lean models of renderer and parser tied by this correspondence', 'harness/expressible.py'],
        kf_replay=kf_replay, proof_problems=problems)


def replay(path):
    case = json.load(open(path))
    print(json.dumps(case, indent=1)[:5000])
    src = case.get('case', {}).get('src', {})
    if src.get('job'):
        r = job(tuple(src['job']))
        print('replayed job', src['job'], '->', {k: r.get(k) for k in ('ok', 'how', 'detail')})
    return 0
