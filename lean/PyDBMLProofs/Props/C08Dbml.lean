/-
C08, `.dbml` of a parsed database.  NOT total: two known findings make it raise
(KF-C08-name-with-newline, KF-C08-inline-composite).  Proved: those are the only ways -
`parsed_dbml_total_partial` - for ANY input text.
-/
import PyDBMLProofs.Props.C08Render
import PyDBMLProofs.Props.C06Grammar
namespace PyDBML
namespace C08
open Lex Build

/-! ### indexes of a parsed database have subjects -/

theorem mapM_length {α β ε} (f : α → Except ε β) :
    ∀ (l : List α) (r : List β), l.mapM f = .ok r → r.length = l.length := by
  intro l
  induction l with
  | nil => intro r h; simp [List.mapM_nil, pure, Except.pure] at h; subst h; rfl
  | cons x xs ih =>
    intro r h
    rw [List.mapM_cons] at h
    obtain ⟨y, _, h⟩ := C06.bind_ok _ _ _ h
    obtain ⟨ys, hys, h⟩ := C06.bind_ok _ _ _ h
    simp only [pure, Except.pure, Except.ok.injEq] at h
    subst h
    simp [ih ys hys]

theorem mapM_mem {α β ε} (f : α → Except ε β) :
    ∀ (l : List α) (r : List β), l.mapM f = .ok r → ∀ b ∈ r, ∃ a ∈ l, f a = .ok b := by
  intro l
  induction l with
  | nil => intro r h; simp [List.mapM_nil, pure, Except.pure] at h; subst h; simp
  | cons x xs ih =>
    intro r h
    rw [List.mapM_cons] at h
    obtain ⟨y, hy, h⟩ := C06.bind_ok _ _ _ h
    obtain ⟨ys, hys, h⟩ := C06.bind_ok _ _ _ h
    simp only [pure, Except.pure, Except.ok.injEq] at h
    subst h
    intro b hb
    rcases List.mem_cons.mp hb with rfl | hb
    · exact ⟨x, by simp, hy⟩
    · obtain ⟨a, ha, hfa⟩ := ih ys hys b hb
      exact ⟨a, by simp [ha], hfa⟩

theorem buildIndex_subjects (cols : List Column) (ib : Bp.IdxBp) (ix : Index) (h : buildIndex cols ib = .ok ix) :
    ix.subjects.length = ib.subjects.length := by
  unfold buildIndex at h
  obtain ⟨n, _, h⟩ := C06.bind_ok _ _ _ h
  obtain ⟨ss, hss, h⟩ := C06.bind_ok _ _ _ h
  simp only [pure, Except.pure, Except.ok.injEq] at h
  subst h
  exact mapM_length _ _ _ hss

theorem buildTable_indexes (enums : List Enum) (tb : Bp.TableBp) (t : Table) (h : buildTable enums tb = .ok t)
    (hb : C06.TableBpOK tb) : ∀ ix ∈ t.indexes, ix.subjects ≠ [] := by
  unfold buildTable at h
  obtain ⟨n, _, h⟩ := C06.bind_ok _ _ _ h
  obtain ⟨cols, hcols, h⟩ := C06.bind_ok _ _ _ h
  obtain ⟨idx, hidx, h⟩ := C06.bind_ok _ _ _ h
  simp only [pure, Except.pure, Except.ok.injEq] at h
  subst h
  intro ix hix
  obtain ⟨ib, hib, hbi⟩ := mapM_mem _ _ _ hidx ix hix
  have hlen := buildIndex_subjects _ _ _ hbi
  cases hti : tb.indexes with
  | none => simp [hti] at hib
  | some ixs =>
    simp only [hti, Option.getD_some] at hib
    have := hb.2 ixs hti ib hib
    intro he
    apply this
    rw [he] at hlen
    exact List.eq_nil_of_length_eq_zero hlen.symm

theorem foldlM_inv_mem {α β ε} (f : β → α → Except ε β) (Inv : β → Prop) :
    ∀ (l : List α), (∀ b a b', a ∈ l → Inv b → f b a = .ok b' → Inv b') →
    ∀ (b b' : β), Inv b → l.foldlM f b = .ok b' → Inv b' := by
  intro l
  induction l with
  | nil =>
    intro _ b b' hb h
    simp [List.foldlM_nil, pure, Except.pure] at h
    subst h; exact hb
  | cons x xs ih =>
    intro hstep b b' hb h
    rw [List.foldlM_cons] at h
    obtain ⟨y, hy, h⟩ := C06.bind_ok _ _ _ h
    exact ih (fun b a b' ha => hstep b a b' (by simp [ha])) y b' (hstep _ _ _ (by simp) hb hy) h

theorem build_indexes_nonempty (ap : Bool) (es : List Bp.Elem) (db : Db)
    (hes : ∀ e ∈ es, C06.ElemOK e) (h : buildDatabase ap es = .ok db) :
    ∀ t ∈ db.tables, ∀ ix ∈ t.indexes, ix.subjects ≠ [] := by
  unfold buildDatabase at h
  obtain ⟨enums, hE, h⟩ := C06.bind_ok _ _ _ h
  obtain ⟨tables, hT, h⟩ := C06.bind_ok _ _ _ h
  obtain ⟨groups, hG, h⟩ := C06.bind_ok _ _ _ h
  obtain ⟨project, hP, h⟩ := C06.bind_ok _ _ _ h
  obtain ⟨refs, hR, h⟩ := C06.bind_ok _ _ _ h
  simp only [pure, Except.pure, Except.ok.injEq] at h
  subst h
  refine foldlM_inv_mem (tableStep enums) (fun acc => ∀ t ∈ acc, ∀ ix ∈ t.indexes, ix.subjects ≠ [])
    _ ?_ _ _ (by simp) hT
  intro acc tb acc' htb hinv hs
  unfold tableStep at hs
  obtain ⟨t, ht, hs⟩ := C06.bind_ok _ _ _ hs
  obtain ⟨rfl, _⟩ := C06.addTable_ok _ _ _ hs
  have hok : C06.TableBpOK tb := by
    unfold tableBps at htb
    obtain ⟨e, he, hee⟩ := List.mem_filterMap.mp htb
    cases e <;> simp at hee
    subst hee
    exact hes _ he
  intro x hx
  rcases List.mem_append.mp hx with hx | hx
  · exact hinv x hx
  · simp at hx; subst hx; exact buildTable_indexes _ _ _ ht hok

/-! ### the DBML renderer on a well-linked database -/

theorem dbml_renderInlineRef_ok (db : Db) (r : Ref) (h : RefOK db.tables r) (h1 : r.col2.length = 1) :
    IsOk (Dbml.renderInlineRef db r) := by
  obtain ⟨t1, t2, ht1, ht2, hc1, hc2⟩ := h
  unfold Dbml.renderInlineRef
  obtain ⟨i, hc⟩ : ∃ i, r.col2 = [i] := by
    match r.col2, h1 with
    | [i], _ => exact ⟨i, rfl⟩
  have hi : i < t2.columns.length := hc2 i (by rw [hc]; simp)
  dsimp only
  split
  · rename_i hgt; rw [hc] at hgt; simp at hgt
  · refine IsOk.bind ⟨t2, getD?_of_some _ _ _ _ ht2⟩ ?_
    intro t2' ht2'
    rw [getD?_of_some _ _ _ _ ht2] at ht2'; cases ht2'
    rw [hc]
    exact IsOk.bind (getD?_ok _ _ _ hi) (fun _ _ => IsOk.pure _)

theorem dbml_renderColumn_ok (db : Db) (hl : WellLinked db) (hinl : ∀ r ∈ db.refs, r.inline = true → r.col2.length = 1)
    (ti ci : Nat) (c : Column) (hc : ColOK db.enums c) : IsOk (Dbml.renderColumn db ti ci c) := by
  unfold Dbml.renderColumn
  refine IsOk.bind (typeText_ok db c hc) (fun _ _ => IsOk.bind (IsOk.mapM _ _ ?_) (fun _ _ => IsOk.pure _))
  intro r hr
  unfold Dbml.inlineRefsOfColumn at hr
  obtain ⟨hrm, hcond⟩ := List.mem_filter.mp hr
  have hinline : r.inline = true := by
    simp only [Bool.and_eq_true] at hcond
    exact hcond.2
  exact dbml_renderInlineRef_ok db r (hl.refs r hrm) (hinl r hrm hinline)

theorem dbml_renderIndex_ok (t : Table) (ix : Index)
    (h : ∀ s ∈ ix.subjects, ∀ i, s = .col i → i < t.columns.length) (hne : ix.subjects ≠ []) :
    IsOk (Dbml.renderIndex t ix) := by
  unfold Dbml.renderIndex
  refine IsOk.bind ?_ (fun _ _ => IsOk.pure _)
  unfold Dbml.renderSubjects
  refine IsOk.bind (IsOk.mapM _ _ ?_) ?_
  · intro s hs
    cases s with
    | col i => exact IsOk.bind (getD?_ok _ _ _ (h _ hs i rfl)) (fun _ _ => IsOk.pure _)
    | expr e => exact IsOk.pure _
    | raw x => exact IsOk.pure _
  · intro ss hss
    have := mapM_length _ _ _ hss
    match ss, this with
    | [], hl => exact absurd (List.eq_nil_of_length_eq_zero hl.symm) hne
    | [s], _ => exact IsOk.pure _
    | _ :: _ :: _, _ => exact IsOk.pure _

theorem dbml_renderTable_ok (db : Db) (hl : WellLinked db) (hinl : ∀ r ∈ db.refs, r.inline = true → r.col2.length = 1)
    (hix : ∀ t ∈ db.tables, ∀ ix ∈ t.indexes, ix.subjects ≠ []) (ti : Nat) (hti : ti < db.tables.length) :
    IsOk (Dbml.renderTable db ti) := by
  unfold Dbml.renderTable
  refine IsOk.bind (getD?_ok _ _ _ hti) ?_
  intro t ht
  have htm : t ∈ db.tables := by
    unfold getD? at ht
    split at ht
    · rename_i a hx; cases ht; exact List.mem_of_getElem? hx
    · cases ht
  unfold Dbml.renderTableBody
  refine IsOk.bind (IsOk.mapM _ _ ?_) (fun cols _ => ?_)
  · intro ci hci
    have hci' : ci < t.columns.length := List.mem_range.mp hci
    refine IsOk.bind (getD?_ok _ _ _ hci') ?_
    intro c hc
    have hcm : c ∈ t.columns := by
      unfold getD? at hc
      split at hc
      · rename_i a hx; cases hc; exact List.mem_of_getElem? hx
      · cases hc
    exact dbml_renderColumn_ok db hl hinl ti ci c ((hl.tables t htm).1 c hcm)
  · dsimp only
    split
    · exact IsOk.bind (IsOk.pure _) (fun _ _ => IsOk.pure _)
    · refine IsOk.bind (IsOk.mapM _ _ ?_) (fun _ _ => IsOk.pure _)
      intro ix hixm
      exact dbml_renderIndex_ok t ix ((hl.tables t htm).2 ix hixm) (hix t htm ix hixm)

theorem dbml_renderCols_ok (t : Table) (cols : List Nat) (h : ∀ i ∈ cols, i < t.columns.length) :
    IsOk (Dbml.renderCols t cols) := by
  unfold Dbml.renderCols
  refine IsOk.bind (IsOk.mapM _ _ ?_) ?_
  · intro i hi
    exact IsOk.bind (getD?_ok _ _ _ (h i hi)) (fun _ _ => IsOk.pure _)
  · intro names _
    split <;> exact IsOk.pure _

theorem liftPy_ok (s : Str) (h : containsChar '\n' s = false) : IsOk (Dbml.liftPy (doublequoteString s)) := by
  unfold doublequoteString Dbml.liftPy
  simp [h]
  exact IsOk.ok _

/-- `.dbml` of a well-linked database evaluates when (1) no Project / TableGroup name holds a line break,
    (2) every inline reference has one referenced column, (3) every index has a subject -/
theorem dbml_total (db : Db) (hl : WellLinked db)
    (hpn : ∀ p, db.project = some p → containsChar '\n' p.name = false)
    (hgn : ∀ g ∈ db.groups, containsChar '\n' g.name = false)
    (hinl : ∀ r ∈ db.refs, r.inline = true → r.col2.length = 1)
    (hix : ∀ t ∈ db.tables, ∀ ix ∈ t.indexes, ix.subjects ≠ []) : IsOk (Dbml.renderDb db) := by
  unfold Dbml.renderDb
  refine IsOk.bind ?_ (fun _ _ => IsOk.bind (IsOk.mapM _ _ ?_) (fun _ _ => IsOk.bind (IsOk.mapM _ _ ?_)
    (fun _ _ => IsOk.bind (IsOk.mapM _ _ ?_) (fun _ _ => IsOk.pure _))))
  · unfold Dbml.renderProjectList
    split
    · rename_i p hp
      have : IsOk (Dbml.renderProject p) := by
        unfold Dbml.renderProject
        exact IsOk.bind (liftPy_ok _ (hpn p hp)) (fun _ _ => IsOk.pure _)
      obtain ⟨x, hx⟩ := this
      exact ⟨[x], by simp [hx, Except.map]⟩
    · exact IsOk.ok _
  · intro ti hti
    exact dbml_renderTable_ok db hl hinl hix ti (List.mem_range.mp hti)
  · intro r hr
    obtain ⟨hrm, hni⟩ := List.mem_filter.mp hr
    unfold Dbml.renderRef
    have : r.inline = false := by simpa using hni
    simp only [this, Bool.false_eq_true, ↓reduceIte]
    obtain ⟨t1, t2, ht1, ht2, hc1, hc2⟩ := hl.refs r hrm
    refine IsOk.bind ⟨t1, getD?_of_some _ _ _ _ ht1⟩ ?_
    intro a ha
    rw [getD?_of_some _ _ _ _ ht1] at ha; cases ha
    refine IsOk.bind ⟨t2, getD?_of_some _ _ _ _ ht2⟩ ?_
    intro b hb
    rw [getD?_of_some _ _ _ _ ht2] at hb; cases hb
    exact IsOk.bind (dbml_renderCols_ok _ _ hc1) (fun _ _ => IsOk.bind (dbml_renderCols_ok _ _ hc2) (fun _ _ => IsOk.pure _))
  · intro g hg
    unfold Dbml.renderGroup
    refine IsOk.bind (liftPy_ok _ (hgn g hg)) (fun _ _ => IsOk.bind (IsOk.mapM _ _ ?_) (fun _ _ => IsOk.pure _))
    intro i hi
    exact IsOk.bind (getD?_ok _ _ _ (hl.groups g hg i hi)) (fun _ _ => IsOk.pure _)

/-- **C08, `.dbml` of a parsed database, for any input text** (partial: the two hypotheses exclude exactly
    the known findings KF-C08-name-with-newline and KF-C08-inline-composite, which are real). -/
theorem parsed_dbml_total_partial (ap : Bool) (text : Str) (db : Db) (h : Build.parse ap text = .ok db)
    (hpn : ∀ p, db.project = some p → containsChar '\n' p.name = false)
    (hgn : ∀ g ∈ db.groups, containsChar '\n' g.name = false)
    (hinl : ∀ r ∈ db.refs, r.inline = true → r.col2.length = 1) :
    ∃ s, Dbml.renderDb db = .ok s := by
  unfold Build.parse at h
  split at h
  · rename_i es c hp
    split at h
    · rename_i db' hb
      cases h
      have hes := C06.post_document ap _ _ _ hp
      exact dbml_total db (build_wellLinked _ _ _ hb) hpn hgn hinl (build_indexes_nonempty _ _ _ hes hb)
    · cases h
  · cases h
  · cases h
  · cases h

/-! ### both hypotheses are needed: the model exhibits the two known findings -/

/-- a line break in the Project name: `doublequote_string` raises ValueError -/
theorem dbml_raises_name_with_newline :
    Dbml.renderDb { project := some { name := lit "a\nb" } } = .error (.internal .ValueError) := by rfl

/-- a composite inline reference: DBMLError -/
theorem dbml_raises_inline_composite :
    Dbml.renderDb { tables := [{ name := lit "t", columns := [{ name := lit "a", type := .plain (lit "int") },
                                                             { name := lit "b", type := .plain (lit "int") }] },
                               { name := lit "u", columns := [{ name := lit "x", type := .plain (lit "int") }] }],
                    refs := [{ kind := .manyToOne, t1 := 1, col1 := [0], t2 := 0, col2 := [0, 1], inlineFlag := true }] }
      = .error (.lib "DBMLError") := by rfl

end C08
end PyDBML
