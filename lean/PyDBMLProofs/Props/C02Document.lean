/-
C01/C02/C05/C14/C15 — whole documents: enums, tables (columns in any form that is read back, possibly under a comment),
standalone references between their columns, sticky notes — rendered and read back to the same database
(`document_roundtrip`, and its instance for columns with settings `flags_document_roundtrip_partial`).
-/
import PyDBMLProofs.Props.C02DocMore
import PyDBMLProofs.Props.C02FlagsTables
namespace PyDBML
namespace C02
open Lex Grammar Build

variable {σ : Type}

/-- what a document of the covered language declares -/
structure DocSpec (σ : Type) where
  enums : List ESpec := []
  tables : List (FTab σ)
  refs : List RSpec := []
  sticky : List Sticky := []

def mkEnum (e : ESpec) : Enum := plainEnum e.1 e.2

/-- the database such a document stands for -/
def DocSpec.db (F : ColForm σ) (ap : Bool) (d : DocSpec σ) : Db :=
  { enums := d.enums.map mkEnum, tables := d.tables.map F.mkTable, refs := d.refs.map mkRef, sticky := d.sticky,
    allowProps := ap }

structure DocOK (F : ColForm σ) (ap : Bool) (d : DocSpec σ) : Prop where
  enums : ∀ e ∈ d.enums, ESpecOK e
  /-- enum names are pairwise different (all enums are in schema public) -/
  enumNames : d.enums.Pairwise (fun a b => a.1 ≠ b.1)
  tables : ∀ t ∈ d.tables, F.specOK ap t
  tablesNe : d.tables ≠ []
  colNames : ∀ t ∈ d.tables, ∀ s ∈ t.cols, NameOK (F.cname s)
  resolvable : F.Resolvable d.tables
  /-- no column's type text names a declared enum (it would then hold the enum) -/
  noShadow : ∀ t ∈ d.tables, F.noShadow (d.enums.map mkEnum) t
  refsIn : ∀ r ∈ d.refs, F.RSpecIn d.tables r
  refsNodup : d.refs.Nodup
  sticky : ∀ s ∈ d.sticky, StickyOK s

/-! ### the element forms of the document -/

theorem map_pmap_const {α β γ : Type} {P : α → Prop} (f : ∀ a, P a → β) (g : β → γ) (k : α → γ)
    (hk : ∀ a h, g (f a h) = k a) : ∀ (l : List α) (H : ∀ a ∈ l, P a), (l.pmap f H).map g = l.map k := by
  intro l
  induction l with
  | nil => intro _; rfl
  | cons a r ih => intro H; simp [List.pmap, hk, ih]

@[simp] theorem filterMap_const_none {α β : Type} (l : List α) : l.filterMap (fun _ => (none : Option β)) = [] := by
  induction l with
  | nil => rfl
  | cons a r ih => simp [ih]

theorem rtext_ok (F : ColForm σ) (ap : Bool) (d : DocSpec σ) (h : DocOK F ap d) :
    ∀ x ∈ d.refs.map (F.rtext d.tables), RTextOK x := by
  intro x hx
  obtain ⟨r, hr, rfl⟩ := List.mem_map.mp hx
  obtain ⟨ta, tb, h1, h2, hc1, hc2⟩ := h.refsIn r hr
  have hma := List.mem_of_getElem? h1
  have hmb := List.mem_of_getElem? h2
  have hca : ta.cols[r.c1]? = some ta.cols[r.c1] := List.getElem?_eq_getElem hc1
  have hcb : tb.cols[r.c2]? = some tb.cols[r.c2] := List.getElem?_eq_getElem hc2
  refine ⟨?_, ?_, ?_, ?_⟩
  · simpa [ColForm.rtext, ColForm.tnameAt, h1] using (h.tables ta hma).1
  · simpa [ColForm.rtext, ColForm.cnameAt, h1, hca] using h.colNames ta hma _ (List.getElem_mem hc1)
  · simpa [ColForm.rtext, ColForm.tnameAt, h2] using (h.tables tb hmb).1
  · simpa [ColForm.rtext, ColForm.cnameAt, h2, hcb] using h.colNames tb hmb _ (List.getElem_mem hc2)

def DocSpec.forms (F : ColForm σ) (ap : Bool) (d : DocSpec σ) (h : DocOK F ap d) : List (EForm ap) :=
  d.enums.pmap (fun e he => enumE ap e he) h.enums
  ++ d.tables.pmap (fun t ht => F.tableE ap t ht) h.tables
  ++ (d.refs.map (F.rtext d.tables)).pmap (fun r hr => refE ap r hr) (rtext_ok F ap d h)
  ++ d.sticky.pmap (fun s hs => stickyE ap s hs) h.sticky

/-- the blueprints the document rule reads -/
def DocSpec.elems (F : ColForm σ) (d : DocSpec σ) : List Bp.Elem :=
  d.enums.map mkEnumElem ++ d.tables.map F.mkElem ++ (d.refs.map (F.rtext d.tables)).map mkRefElem
    ++ d.sticky.map mkStickyElem

/-- the texts of the elements, in the order the renderer writes them -/
def DocSpec.texts (F : ColForm σ) (d : DocSpec σ) : List Str :=
  d.enums.map (fun e => enumText e.1 e.2) ++ d.tables.map F.tabText ++ (d.refs.map (F.rtext d.tables)).map refText
    ++ d.sticky.map (fun s => stickyText s.name s.text)

theorem DocSpec.forms_elems (F : ColForm σ) (ap : Bool) (d : DocSpec σ) (h : DocOK F ap d) :
    (d.forms F ap h).map (·.elem) = d.elems F := by
  simp only [DocSpec.forms, DocSpec.elems, List.map_append]
  rw [map_pmap_const (fun e he => enumE ap e he) (·.elem) mkEnumElem (fun _ _ => rfl),
    map_pmap_const (fun t ht => F.tableE ap t ht) (·.elem) F.mkElem (fun _ _ => rfl),
    map_pmap_const (fun r hr => refE ap r hr) (·.elem) mkRefElem (fun _ _ => rfl),
    map_pmap_const (fun s hs => stickyE ap s hs) (·.elem) mkStickyElem (fun _ _ => rfl)]

theorem DocSpec.forms_texts (F : ColForm σ) (ap : Bool) (d : DocSpec σ) (h : DocOK F ap d) :
    (d.forms F ap h).map (·.text) = d.texts F := by
  simp only [DocSpec.forms, DocSpec.texts, List.map_append]
  rw [map_pmap_const (fun e he => enumE ap e he) (·.text) (fun e => enumText e.1 e.2) (fun e he => enumE_text ap e he),
    map_pmap_const (fun t ht => F.tableE ap t ht) (·.text) F.tabText (fun t ht => F.tableE_text ap t ht),
    map_pmap_const (fun r hr => refE ap r hr) (·.text) refText (fun r hr => refE_text ap r hr),
    map_pmap_const (fun s hs => stickyE ap s hs) (·.text) (fun s => stickyText s.name s.text)
      (fun s hs => stickyE_text ap s hs)]

theorem DocSpec.forms_ne (F : ColForm σ) (ap : Bool) (d : DocSpec σ) (h : DocOK F ap d) : d.forms F ap h ≠ [] := by
  intro he
  have := congrArg (List.map (·.elem)) he
  rw [d.forms_elems F ap h] at this
  have hne := h.tablesNe
  cases ht : d.tables with
  | nil => exact hne ht
  | cons t r => simp [DocSpec.elems, ht] at this

/-! ### the build of such a document -/

theorem buildEnum_plain (e : ESpec) : buildEnum (plainEnumBp e.1 e.2) = .ok (mkEnum e) := by
  simp [buildEnum, plainEnumBp, mkEnum, plainEnum, plainItem, buildEnumItem, noteText, pure, Except.pure,
    List.map_map, Function.comp_def]

theorem foldlM_enums : ∀ (todo done : List ESpec), (done ++ todo).Pairwise (fun a b => a.1 ≠ b.1) →
    (todo.map fun e => plainEnumBp e.1 e.2).foldlM enumStep (done.map mkEnum) = .ok ((done ++ todo).map mkEnum) := by
  intro todo
  induction todo with
  | nil => intro done _; simp [pure, Except.pure]
  | cons e r ih =>
    intro done hp
    have hd : ∀ u ∈ done, u.1 ≠ e.1 := by
      intro u hu
      have := List.pairwise_append.mp hp
      exact this.2.2 u hu e (by simp)
    rw [List.map_cons, List.foldlM_cons]
    have hstep : enumStep (done.map mkEnum) (plainEnumBp e.1 e.2) = .ok ((done ++ [e]).map mkEnum) := by
      unfold enumStep
      simp only [buildEnum_plain, bind, Except.bind]
      unfold addEnum
      have hno : (done.map mkEnum).any (fun x => x.name == (mkEnum e).name && x.schema == (mkEnum e).schema) = false := by
        rw [List.any_eq_false]
        intro x hx
        obtain ⟨u, hu, rfl⟩ := List.mem_map.mp hx
        simp only [mkEnum, plainEnum, Bool.and_eq_true, beq_iff_eq, not_and]
        intro hname
        exact absurd hname (hd u hu)
      simp [hno, pure, Except.pure]
    rw [hstep]
    simp only [bind, Except.bind]
    have := ih (done ++ [e]) (by simpa using hp)
    simpa using this

theorem DocSpec.build (F : ColForm σ) (ap : Bool) (d : DocSpec σ) (h : DocOK F ap d) :
    buildDatabase ap (d.elems F) = .ok (d.db F ap) := by
  have hE : enumBps (d.elems F) = d.enums.map fun e => plainEnumBp e.1 e.2 := by
    simp [enumBps, DocSpec.elems, mkEnumElem, ColForm.mkElem, mkRefElem, mkStickyElem, List.filterMap_append,
      List.filterMap_map, Function.comp_def]
  have hT : tableBps (d.elems F) = d.tables.map fun t => F.tableBpC t.name t.cols t.comment := by
    simp [tableBps, DocSpec.elems, mkEnumElem, ColForm.mkElem, mkRefElem, mkStickyElem, List.filterMap_append,
      List.filterMap_map, Function.comp_def]
  have hG : groupBps (d.elems F) = [] := by
    simp [groupBps, DocSpec.elems, mkEnumElem, ColForm.mkElem, mkRefElem, mkStickyElem, List.filterMap_append,
      List.filterMap_map, Function.comp_def]
  have hS : stickyBps (d.elems F) = d.sticky.map fun s => ({ name := s.name, text := s.text } : Bp.StickyBp) := by
    simp [stickyBps, DocSpec.elems, mkEnumElem, ColForm.mkElem, mkRefElem, mkStickyElem, List.filterMap_append,
      List.filterMap_map, Function.comp_def]
  have hP : projectBp (d.elems F) = none := by
    simp [projectBp, DocSpec.elems, mkEnumElem, ColForm.mkElem, mkRefElem, mkStickyElem, List.filterMap_append,
      List.filterMap_map, Function.comp_def]
  have hR : refBlueprints (d.elems F) = d.refs.map fun r => refBp (F.rtext d.tables r) := by
    have h1 : refBlueprints (d.enums.map mkEnumElem) = [] := by
      simp [refBlueprints, mkEnumElem, List.flatMap_map]
    have h2 : refBlueprints (d.tables.map F.mkElem) = [] := by
      simp only [refBlueprints, ColForm.mkElem, List.flatMap_map, List.flatMap_eq_nil_iff]
      intro t _
      simp only [ColForm.tableBpC, List.flatMap_eq_nil_iff]
      intro b hb
      obtain ⟨s, _, rfl⟩ := List.mem_map.mp hb
      simp [F.norefs]
    have h4 : refBlueprints (d.sticky.map mkStickyElem) = [] := by
      simp [refBlueprints, mkStickyElem, List.flatMap_map]
    simp only [DocSpec.elems, refBlueprints_append, h1, h2, h4, refBlueprints_refElems]
    simp [List.map_map, Function.comp_def]
  have hFe := foldlM_enums d.enums [] (by simpa using h.enumNames)
  simp only [List.map_nil, List.nil_append] at hFe
  have hFt := F.foldlM_tables ap (d.enums.map mkEnum) d.tables [] (by simpa using h.resolvable.tnames)
    (fun t ht => (h.tables t ht).2.1) h.noShadow
  simp only [List.map_nil, List.nil_append] at hFt
  have hst : (d.sticky.map fun s => ({ name := s.name, text := s.text } : Bp.StickyBp)).map buildSticky = d.sticky := by
    rw [List.map_map]
    conv => rhs; rw [← List.map_id d.sticky]
    apply List.map_congr_left
    intro s hs
    have := (h.sticky s hs).2.2.2.2
    cases s
    simp_all [buildSticky]
  have hRf := F.foldlM_refs d.tables h.resolvable
    { tables := d.tables.map F.mkTable, enums := d.enums.map mkEnum, allowProps := ap, groups := [], sticky := d.sticky,
      project := none } rfl d.refs [] (by simpa using h.refsIn) (by simpa using h.refsNodup)
  simp only [List.map_nil, List.nil_append] at hRf
  unfold buildDatabase
  simp only [hE, hT, hG, hS, hP, hR, hFe, hFt, hst, List.foldlM_nil, pure, Except.pure, bind, Except.bind, buildProject]
  rw [hRf]
  rfl

/-! ### the rendering of such a database -/

theorem renderEnum_plain (e : ESpec) (he : ESpecOK e) : Dbml.renderEnum (mkEnum e) = enumText e.1 e.2 := by
  obtain ⟨en, ns⟩ := e
  obtain ⟨_, hns, hne⟩ := he
  have hitems : (plainEnum en ns).items.map Dbml.renderEnumItem = ns.map itemStr := by
    simp [plainEnum, Dbml.renderEnumItem, Dbml.optComment, itemStr, List.map_map, Function.comp_def]
  have hbody : Dbml.indent4 (joinNL (ns.map itemStr)) ++ ['\n'] = (ns.map itemStr).flatMap fun l => [' ', ' ', ' ', ' '] ++ l ++ ['\n'] := by
    apply indent4_lines
    · simpa using hne
    · intro l hl
      obtain ⟨n, hn, rfl⟩ := List.mem_map.mp hl
      exact itemStr_ok n (hns n hn)
    · intro l hl
      obtain ⟨n, hn, rfl⟩ := List.mem_map.mp hl
      exact ⟨'"', _, rfl, by decide⟩
  unfold mkEnum Dbml.renderEnum
  rw [hitems]
  have h2 := itemsText_flatMap ns
  rw [← hbody] at h2
  have e1 : enumText en ns = lit "Enum " ++ ('"' :: en ++ ['"']) ++ lit " {" ++ ((itemsText ns ++ ['\n']) ++ ['}']) := by
    simp [enumText, lit]
  simp only
  rw [e1, ← h2]
  simp [plainEnum, Dbml.optComment, qualName, lit]

theorem ColForm.renderRef_ok' (F : ColForm σ) (db : Db) (ts : List (FTab σ)) (hdb : db.tables = ts.map F.mkTable)
    (r : RSpec) (hin : F.RSpecIn ts r) : Dbml.renderRef db (mkRef r) = .ok (refText (F.rtext ts r)) := by
  obtain ⟨ta, tb, h1, h2, hc1, hc2⟩ := hin
  have hca : ta.cols[r.c1]? = some ta.cols[r.c1] := List.getElem?_eq_getElem hc1
  have hcb : tb.cols[r.c2]? = some tb.cols[r.c2] := List.getElem?_eq_getElem hc2
  have g1 : getD? db.tables r.t1 "ref table position" = .ok (F.mkTable ta) := by
    simp [getD?, hdb, List.getElem?_map, h1]
  have g2 : getD? db.tables r.t2 "ref table position" = .ok (F.mkTable tb) := by
    simp [getD?, hdb, List.getElem?_map, h2]
  have k1 : Dbml.renderCols (F.mkTable ta) [r.c1] = .ok ('"' :: (F.cname (ta.cols[r.c1]) ++ ['"'])) := by
    simp [Dbml.renderCols, getD?, ColForm.mkTable, ColForm.table, ColForm.cname, List.getElem?_map, hca, bind, Except.bind, pure, Except.pure]
  have k2 : Dbml.renderCols (F.mkTable tb) [r.c2] = .ok ('"' :: (F.cname (tb.cols[r.c2]) ++ ['"'])) := by
    simp [Dbml.renderCols, getD?, ColForm.mkTable, ColForm.table, ColForm.cname, List.getElem?_map, hcb, bind, Except.bind, pure, Except.pure]
  unfold Dbml.renderRef
  have hinl : (mkRef r).inline = false := by simp [mkRef, Ref.inline]
  simp only [hinl, Bool.false_eq_true, ↓reduceIte]
  show (getD? db.tables r.t1 "ref table position" >>= fun t1 => _) = _
  rw [g1]
  show (getD? db.tables r.t2 "ref table position" >>= fun t2 => _) = _
  rw [g2]
  simp only [mkRef] at k1 k2 ⊢
  simp only [bind, Except.bind, k1, k2, pure, Except.pure]
  simp [refText, refTextP, sideText, ColForm.rtext, ColForm.tnameAt, ColForm.cnameAt, h1, h2, hca, hcb, truthy, Dbml.optComment,
    qualName, ColForm.mkTable, ColForm.table, lit]

theorem DocSpec.render (F : ColForm σ) (ap : Bool) (d : DocSpec σ) (h : DocOK F ap d) :
    Dbml.renderDb (d.db F ap) = .ok (joinWith (lit "\n\n") (d.texts F)) := by
  have hni : ∀ r ∈ (d.db F ap).refs, r.inline = false := by
    intro r hr
    simp only [DocSpec.db, List.mem_map] at hr
    obtain ⟨q, _, rfl⟩ := hr
    simp [mkRef, Ref.inline]
  have henums : (d.db F ap).enums.map Dbml.renderEnum = d.enums.map fun e => enumText e.1 e.2 := by
    simp only [DocSpec.db, List.map_map]
    apply List.map_congr_left
    intro e he
    exact renderEnum_plain e (h.enums e he)
  have htabs : (List.range (d.db F ap).tables.length).mapM (Dbml.renderTable (d.db F ap)) = .ok (d.tables.map F.tabText) := by
    have := range_mapM_form F.mkTable "table position" F.tabText d.tables
      (fun i t => Dbml.renderTableBody (d.db F ap) i t)
      (fun i t ht => F.renderTableBody_ok (d.db F ap) hni i t.name t.cols t.comment (h.tables t ht).2.1 (h.tables t ht).2.2.1
        (h.tables t ht).2.2.2)
    unfold Dbml.renderTable
    exact this
  have hrefs : ((d.db F ap).refs.filter (!·.inline)).mapM (Dbml.renderRef (d.db F ap))
      = .ok ((d.refs.map (F.rtext d.tables)).map refText) := by
    have hfil : (d.db F ap).refs.filter (!·.inline) = (d.db F ap).refs := by
      rw [List.filter_eq_self]
      intro r hr
      simp [hni r hr]
    rw [hfil]
    simp only [DocSpec.db, List.mapM_map, List.map_map]
    have : ∀ l : List RSpec, (∀ r ∈ l, F.RSpecIn d.tables r) →
        l.mapM (Dbml.renderRef (d.db F ap) ∘ mkRef) = .ok (l.map (refText ∘ F.rtext d.tables)) := by
      intro l
      induction l with
      | nil => intro _; rfl
      | cons x xs ih =>
        intro hx
        rw [List.mapM_cons]
        have h1 := F.renderRef_ok' (d.db F ap) d.tables rfl x (hx x (by simp))
        simp only [Function.comp, h1, bind, Except.bind]
        have := ih (fun q hq => hx q (by simp [hq]))
        rw [this]
        rfl
    exact this d.refs h.refsIn
  have hsticky : (d.db F ap).sticky.map Dbml.renderSticky = d.sticky.map fun s => stickyText s.name s.text := by
    simp only [DocSpec.db]
    apply List.map_congr_left
    intro s hs
    exact renderSticky_plain s (h.sticky s hs).2.2.1
  unfold Dbml.renderDb Dbml.renderProjectList
  simp only [bind, Except.bind, htabs, hrefs, henums, hsticky]
  simp [DocSpec.db, DocSpec.texts, pure, Except.pure]

/-- **the round trip of whole documents.**  A database holding any number of enums (schema public, pairwise different
    names, plain items), any positive number of tables (pairwise different names, columns in a form that is read back,
    each table possibly under a one-line comment), any number of pairwise different standalone single-column references
    between their columns and any number of sticky notes is rendered to DBML and parsed back to exactly the same
    database: every element comes back once, in its section, in order, and the references are linked to the columns
    they were written from. -/
theorem document_roundtrip (F : ColForm σ) (ap : Bool) (d : DocSpec σ) (h : DocOK F ap d) :
    ∃ text, Dbml.renderDb (d.db F ap) = .ok text ∧ Build.parse ap text = .ok (d.db F ap) := by
  refine ⟨joinWith (lit "\n\n") (d.texts F), d.render F ap h, ?_⟩
  rw [← d.forms_texts F ap h, docTextE_join]
  obtain ⟨c', hp⟩ := parseDoc_elems (d.forms F ap h) (d.forms_ne F ap h)
  rw [d.forms_elems F ap h] at hp
  unfold Build.parse
  have hbom : removeBom (docTextE (d.forms F ap h)) = docTextE (d.forms F ap h) := by
    cases hf : d.forms F ap h with
    | nil => rfl
    | cons e r =>
      have hne : e.text ≠ [] := by have := e.text_length; intro h0; rw [h0] at this; simp at this
      cases ht : e.text with
      | nil => exact absurd ht hne
      | cons x xs =>
        have hx : x.toNat ≠ 0xFEFF := by
          -- the first character is `/` (a comment) or the element's head character: ASCII, not U+FEFF
          cases hpre : e.pre with
          | some s0 => simp [EForm.text, hpre, commentText] at ht; rw [← ht.1]; decide
          | none =>
            simp [EForm.text, hpre, commentText] at ht
            have := e.headAscii
            rw [ht.1] at this
            omega
        simp [docTextE, ht, removeBom, hx]
  rw [hbom, hp]
  simp only []
  rw [d.build F ap h]

/-! ### the instance: columns with settings -/

theorem splitDot_no_dot (t : Str) (h : '.' ∉ t) : splitDot t = [t] := by
  induction t with
  | nil => rfl
  | cons c r ih =>
    have hc : c ≠ '.' := fun e => h (by simp [e])
    have hr : '.' ∉ r := fun e => h (by simp [e])
    rw [splitDot, ih hr]
    simp [hc]

theorem resolveType_plain (enums : List Enum) (ty : Str) (hty : TypeOK ty) (hno : ∀ e ∈ enums, e.name ≠ ty) :
    resolveTypePure enums ty = ColType.plain ty := by
  have hnd : '.' ∉ ty := by
    intro hm
    have := List.all_eq_true.mp hty.2 '.' hm
    simp [isNameChar, isAlnum, isAlpha, isDigit] at this
  unfold resolveTypePure typeKey
  rw [splitDot_no_dot ty hnd]
  have : enums.findIdx? (fun e => e.schema == lit "public" && e.name == ty) = none := by
    rw [List.findIdx?_eq_none_iff]
    intro e he
    simp [hno e he]
  simp only [this]

/-- a document whose columns carry settings -/
abbrev FlagDoc := DocSpec FCol

/-- **C01 / C02 / C05 / C14 / C15: whole documents, end to end.**  A database holding
    * any number of enums in schema public with pairwise different quoted names and plain quoted items,
    * any positive number of tables with pairwise different quoted names, each possibly under a one-line comment, each
      with any positive number of columns carrying any subset of `pk`, `increment`, `unique`, `not null`, possibly an
      integer default, a one-line note and (properties switch on) any number of arbitrary properties, whose type text
      names no declared enum,
    * any number of pairwise different standalone single-column references between columns of these tables,
    * any number of sticky notes with a bare name and a one-line text,
    is rendered to DBML and parsed back to exactly the same database - every element once, in its section, in order; the
    comments on the same tables; the references linked, by table and column name, to the very columns they were written
    from.  The hypotheses on names are exactly the recorded findings (no dot in a table name, a column name is one
    comma-free piece that survives `strip('() ')`, no two columns of a table with one name). -/
theorem flags_document_roundtrip_partial (ap : Bool) (d : FlagDoc)
    (henums : ∀ e ∈ d.enums, NameOK e.1 ∧ (∀ n ∈ e.2, NameOK n) ∧ e.2 ≠ [])
    (henames : d.enums.Pairwise (fun a b => a.1 ≠ b.1))
    (htabs : ∀ t ∈ d.tables, FlagTabOK ap t) (hne : d.tables ≠ [])
    (htn : d.tables.Pairwise (fun a b => a.name ≠ b.name)) (hnodot : ∀ t ∈ d.tables, '.' ∉ t.name)
    (hcn : ∀ t ∈ d.tables, t.cols.Pairwise (fun a b => a.name ≠ b.name))
    (hcp : ∀ t ∈ d.tables, ∀ c ∈ t.cols, splitComma c.name = [c.name] ∧ stripParenSpace c.name = c.name)
    (hshadow : ∀ t ∈ d.tables, ∀ c ∈ t.cols, ∀ e ∈ d.enums, e.1 ≠ c.type)
    (hin : ∀ r ∈ d.refs, ∃ ta tb, d.tables[r.t1]? = some ta ∧ d.tables[r.t2]? = some tb ∧ r.c1 < ta.cols.length
      ∧ r.c2 < tb.cols.length)
    (hnd : d.refs.Nodup)
    (hsticky : ∀ s ∈ d.sticky, s.name ≠ [] ∧ s.name.all isNameChar = true ∧ Plain s.text ∧ hasTriple s.text = false
      ∧ norm s.text = s.text) :
    ∃ text, Dbml.renderDb (d.db flagForm ap) = .ok text ∧ Build.parse ap text = .ok (d.db flagForm ap) :=
  document_roundtrip flagForm ap d
    { enums := henums, enumNames := henames, tables := htabs, tablesNe := hne,
      colNames := fun t ht s hs => ((htabs t ht).2.1 s hs).name,
      resolvable := ⟨htn, hnodot, hcn, hcp⟩,
      noShadow := fun t ht s hs => resolveType_plain _ _ ((htabs t ht).2.1 s hs).type (by
        intro e he
        obtain ⟨e0, he0, rfl⟩ := List.mem_map.mp he
        exact hshadow t ht s hs e0 he0),
      refsIn := hin, refsNodup := hnd, sticky := hsticky }

/-- the rendered text of a small document of every covered kind (a test of the statement on one literal) -/
example : joinWith (lit "\n\n") (DocSpec.texts flagForm
      { enums := [(lit "status", [lit "new", lit "done"])],
        tables := [{ name := lit "a", cols := [{ name := lit "id", type := lit "int", pk := true }] },
                   { name := lit "b", cols := [{ name := lit "a id", type := lit "int", dflt := lit "1" }], comment := some (lit "child") }],
        refs := [{ kind := .manyToOne, t1 := 1, c1 := 0, t2 := 0, c2 := 0 }],
        sticky := [{ name := lit "todo", text := lit "check" }] })
    = lit "Enum \"status\" {\n    \"new\"\n    \"done\"\n}\n\nTable \"a\" {\n    \"id\" int [pk]\n}\n\n// child\nTable \"b\" {\n    \"a id\" int [default: 1]\n}\n\nRef {\n    \"b\".\"a id\" > \"a\".\"id\"\n}\n\nNote todo {\n    'check'\n}" := by
  decide +kernel

end C02
end PyDBML
