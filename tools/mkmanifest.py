#!/usr/bin/env python3
"""Regenerate /verif/MANIFEST.json from the table below (kept valid at all times)."""
import json
import os

VERIF = os.path.dirname(os.path.dirname(os.path.abspath(__file__)))
ALL = [f'C{i:02d}' for i in range(1, 19)]

TB = 'trusted: Lean 4.33 kernel; axioms propext/Classical.choice/Quot.sound only (audited per theorem on every run); hand-written model tied to the code by the correspondence of this check (sampling, distribution in the evidence file)'

# level, text, note, technique.  The level of a check is the one its module passes to core.Ctx (checked below).
CHECKS = {
    'C01': dict(
        level='translation_validation',
        text='A Lean character-level model of the whole scannerless grammar (pyparsing primitives, every rule of pydbml/definitions '
             'with its parse action, error stops, build_database) is tied to the real parser by differential testing on the corpus '
             'and on documents written by an independent speller under random spelling choices; the parser-independent oracle is '
             'that the parsed content equals the content the speller was given (nothing dropped, nothing invented, order kept) and '
             'that spellings (incl. inline/short/block Ref and addressing) do not matter. Named departures from well-formedness '
             'are replayed as known findings. Theorems: document_faithful_gaps (C01LayoutDoc.lean) - a document of enums, tables whose '
             'columns carry settings / defaults / notes / properties / inline references, standalone references, table groups and sticky '
             'notes, written with ANY positive number of empty lines between its elements and any number of line breaks at its end, '
             'is parsed to exactly the declared database (every element once, in source order, references linked to the named '
             'columns); document_faithful_variants / enums_tables_spelling_inert (C01Case.lean) - element forms that declare the same '
             'blueprints in another spelling (every element keyword in any letter case; table, enum, group and project names bare or quoted) are parsed to the same '
             'database; built on parseDoc_elems_gaps_end, parseDoc_elems, DocSpec.build; partial: spacing inside an element and the '
             'other element features are left to the correspondence; theorems '
             'about the same model for any text are claimed under C05/C06/C07/C08.',
        note='trusted: hand-written model tied by sampling; the speller (harness/speller.py) as independent expected-model oracle',
        technique='Lean parser model + differential correspondence + speller oracle'),
    'C02': dict(
        level='translation_validation',
        text='Oracle on the real code: content(parse(db.dbml)) == content(db) and the 2nd and 3rd renderings are byte-identical, for '
             'databases parsed from spelled documents (no exemption: whatever a parse returns must round-trip; each database is rendered twice and dumped again: same text, same content), built through the '
             'public classes from Expressible values, the corpus, and wild API-built ones whose named reason outside Expressible '
             'must be a listed finding. Correspondence: the Lean DBML renderer produces the same text and the Lean parser model '
             'reads it back to the same content. Theorems flags_document_roundtrip_partial (WHOLE DOCUMENTS: a project, enums whose items may carry notes, tables whose columns carry settings / '
             'default / note / properties, each table possibly under a comment and with a Note block, references written inline in a column or standalone, table groups, sticky notes - same database back; built on a '
             'generic notion of element form, parseDoc_elems), flags_refs_roundtrip_partial (any number of tables whose columns carry settings, a note and '
             'properties, followed by any number of different standalone references: same database back), flags_table_roundtrip_partial (one table whose columns carry any subset of pk / increment / '
             'unique / not null, possibly an integer default, a one-line note and - option on - any number of properties; an instance of form_roundtrip, which '
             'carries any column form that is read back through table rule, document, build and renderer), refs_roundtrip_partial (plain tables followed by any number of different '
             'standalone references, resolved by name back to the positions they were written from - the hypotheses on names are exactly the '
             'recorded findings), tables_roundtrip_partial (any positive number of tables with different '
             'names, each with any positive number of columns with quoted names and one-word types), enum_roundtrip_partial (an enum with '
             'any positive number of items) and sticky_roundtrip_partial prove the round trip end to end (renderer model, '
             'character-level parser model, build model) - partial: everything else is decided by oracle + correspondence. Lexical round-trip '
             'theorems are claimed under C13.',
        note='trusted: hand-written models tied by sampling; Expressible predicate (harness/expressible.py, mirrored by Domain.lean)',
        technique='Lean renderer+parser models + differential correspondence + round-trip oracle'),
    'C03': dict(
        level='translation_validation',
        text='Lean model of the default SQL renderer tied to the code by differential testing of db.sql and of every '
             'enum/column/index element rendering; model-free oracle reads db.sql back with an independent tokenising DDL reader and '
             'compares types, tables (each exactly once), columns, keys, indexes and COMMENT ON with expectations computed from the '
             'content. Theorems: a READER of the DDL written in Lean (PyDBMLModel/SqlRead.lean, text only) provably inverts the renderer '
             'model - read_render_column / read_render_table / read_render_script (every column in order with name, type, the four flags '
             'exactly when set, DEFAULT whenever set incl. 0/false/empty, column-level vs ONE table-level PRIMARY KEY, qualified name, '
             'each table once, nothing else; class: tables without notes/comments/indexes), read_render_enum, read_render_index (CREATE INDEX statements over column subjects), read_render_script_ix / read_render_script_all (whole '
             'scripts of enums + tables + standalone references read back statement by statement) and same_ddl_same_content (the DDL '
             'determines the content); the same reader, compiled into the driver, is run on the .sql of the real code. Structural '
             'theorems script_structure, column_pk_component, default_component, sql_column_ignores_props.',
        note=TB + '; DDL reader (oracle restricted to reader-hygienic names)',
        technique='Lean model + proved DDL reader (inversion theorems) run on the real output + differential correspondence + DDL-reader oracle'),
    'C04': dict(
        level='translation_validation',
        text='Lean model of reference rendering tied to the code by differential testing of the FOREIGN KEY lines of db.sql (with '
             'their enclosing CREATE TABLE) and of every reference.sql; oracle: every FK read back by the independent DDL reader with '
             'its host and compared as a multiset with expectations computed from the references (direction, column order, '
             'CONSTRAINT, actions, inline vs ALTER never both, join tables incl. name and schema). Nine theorems about the model '
             'state the direction / once-only / join-table rules (C04.lean); read_render_fk (C04Read.lean): a reader of ALTER TABLE ... '
             'FOREIGN KEY statements written in Lean (text only) provably reads back from the model\'s statement the key holder as the '
             'altered table, both column lists in order, the referenced table, CONSTRAINT exactly when named, the actions; the same '
             'reader, compiled into the driver, is run on reference.sql of the real code.',
        note=TB + '; DDL reader',
        technique='Lean model + theorems incl. a proved FOREIGN KEY reader run on the real output + differential correspondence + DDL-reader oracle'),
    'C05': dict(
        level='translation_validation',
        text='Oracle on real parsed graphs: every identity fact of the statement evaluated with `is` (reference endpoints are the very '
             'Column objects of the tables under schema.name / bare / alias addressing, inline references start at the declaring '
             'column, back-pointers of columns, indexes and notes, index subjects, enum links, group members, lookups, get_refs, '
             'unique SQL key holder). Theorems: every table/column position the build produces for a reference is in range '
             '(build_refs_in_range, locateTable_in_range, locateCols_in_range, findKey_in_range; C08.build_wellLinked for every '
             'stored position of a parsed database), and is the one the document names: buildRef_sound / locateCols_sound (each side\'s '
             'table carries the written key, each column is the first of that table with the written name, one per name, in order), '
             'resolveType_sound / _complete (a column type is linked to the first enum with exactly the written schema and name).',
        note=TB,
        technique='Lean build model + range theorems + identity oracle on real graphs'),
    'C06': dict(
        level='proof',
        text='Theorems about the build model for ANY blueprint list / text: build_rule_abiding (a returned database has pairwise '
             'key-disjoint tables incl. aliases, pairwise different enums, group names, duplicate-free group items, pairwise unequal '
             'references, and holds every declaration in order - so a clash never yields a database), the error of each rule '
             '(addTable_error/_clash, addEnum_error, enumStep_error, buildGroup_error, groupStep_twice), lookups bind to exactly the '
             'key asked for or end in TableNotFoundError (locateTable_sound/_error/_complete), and parseDoc_tables_ok (no column-less '
             'table leaves the grammar). Tie: a well-formed spelled document plus one injected violation (13 kinds, any spelling, any '
             'position) must raise exactly the error class of the rule on the real parser and in the model.',
        note=TB + '; which of several simultaneous violations is reported first is covered by correspondence, not by a theorem',
        technique='Lean 4 proof over parser/build model + violation-injection correspondence'),
    'C07': dict(
        level='translation_validation',
        text='Faults of kinds no valid spelling contains (unbalanced structural bracket, column without type, unknown setting / index '
             'type / operator / action, property syntax with the option off, malformed colour, duplicated groups/words, trailing '
             'garbage, unterminated last string) are injected into valid spelled documents: the real parser must never return a '
             'database. The Lean character-level parser model must return the same verdict class on every faulty text and on random '
             'token/character mutants and token soups. Theorems: the model accepts only when StringEnd succeeds on the remaining '
             'input (accepts_only_whole_input, stringEnd_ok, advance_suffix, skipWs_suffix); the fuel the model gives every '
             'repetition never decides (Fuel.lean: every grammar rule only moves forward, many_fuel_irrelevant, '
             'document_fuel_irrelevant) - the model\'s loops are the unbounded ones of pyparsing.',
        note=TB + '; rejection at every position is explored, not proved',
        technique='Lean parser model + whole-input theorem + verdict correspondence + fault-injection oracle'),
    'C08': dict(
        level='proof',
        text='Theorems for ANY input text, through a program logic over the parser monad (Hoare.lean: Raises/Post closed under every '
             'combinator, no primitive raises): parse_outcome (a database, a parse error, SyntaxError, a library exception, or '
             'ValueError from int() on more than 4300 digits = known finding, numberValue_raises_only_long), buildDatabase_error, '
             'parsed_sql_total (.sql of a parsed database evaluates: build_wellLinked + sql_total), parsed_dbml_total_partial (.dbml '
             'evaluates unless a Project/TableGroup name holds a line break or an inline reference is composite - the two known '
             'findings, exhibited in the model by dbml_raises_*). Tie: outcome class of parse / every rendering on 50 edge documents, '
             'wild renderings, brace-ified documents, mutants, soups, spliced fragments, random Unicode vs the model.',
        note=TB + '; ParseResults access inside parse actions and CPython recursion limits are outside the model',
        technique='Lean 4 proof (program logic over the grammar model, totality of renderers) + outcome-class correspondence'),
    'C09': dict(
        level='proof',
        text='Lean state machine of Database.add/delete/rename over a universe of clashing objects with theorems step_inv, reach_inv, '
             'init_inv (invariant of every reachable state), rejected_unchanged, tables_step, lookup_sound, project_replaced; tied to '
             'the real classes by running the same operation histories on both sides (all pairs/triples of core operations, random '
             'histories to length 60) and comparing outcome and canonical state after every step; model-free invariant oracle; '
             'one level down, a second Lean state machine (TableCont.lean: add/delete of columns and indexes by object or position, owner '
             'back-pointers, Column/Index equality) with theorems C09T.step_inv, reach_inv, init_inv, rejected_unchanged, '
             'foreign_index_refused, accepted_index_subjects, cols_step, tied the same way (random histories of 30 operations, every step).',
        note=TB + '; identity modelled by universe indices',
        technique='Lean 4 proof (invariant by induction over operations) + history correspondence + invariant oracle'),
    'C10': dict(
        level='translation_validation',
        text='The Lean renderer models are functions of the content alone; after every random sequence of 1-15 in-place edits (30 edit '
             'kinds, renderings evaluated before and between edits) db.sql and db.dbml of the real objects must equal the model '
             'rendering of the content read off the live objects, and (model-free oracle) every database and element rendering must '
             'equal that of a database freshly built with the final content.',
        note='the first sentence of C10 is definitional in the value model (a database IS its current content): freedom from caches is a property of the implementation, reached only through the correspondence and the fresh-build oracle; the second sentence (no stale name) is proved in the model from the reader theorems of C03/C04 (C10.lean: fk_shows_renamed_target / _source / _column, table_shows_new_name - after an in-place rename the DDL, read back, shows the new name)',
        technique='Lean renderer model + differential correspondence after edit histories + fresh-build oracle'),
    'C11': dict(
        level='other',
        text='In the Lean model parsing is a function of (text, options): determinism, history independence and interleaving '
             'independence hold there by construction, so no theorem is claimed. That the implementation has no hidden state is '
             'monitored on every run: results after random call histories (including half-way failures) and under 16 barrier-started '
             'threads equal the fresh results and the pure model; the module-level pyparsing grammar is fingerprinted before/after; '
             'results of different calls share no mutable object; dropped results are reclaimed (weak references, live-object census).',
        note='partial by nature: CPython scheduling, the GIL and the collector are outside any executable model; the monitors are the evidence',
        technique='pure Lean model as reference + runtime monitors (history, threads, fingerprint, aliasing, weakrefs)'),
    'C12': dict(
        level='proof',
        text='Lean theorems over the model of the entry points (routes_agree_on_text, options_unchanged, parse_file_defaults, '
             'routes_agree, routes_agree_default, bom_ignored, other_type_refused): all accepting routes hand the parser the same text '
             '(one leading BOM removed) and the same options, so they produce equal outcomes; other source types are refused. Tied to '
             'the code by running all 8 routes on the same texts (plain, empty, BOM, double BOM, non-ASCII, invalid) and comparing '
             'outcomes with the model and pairwise.',
        note=TB + "; UTF-8 decoding of files is Python's",
        technique='Lean 4 proof over entry-point model + route-by-route correspondence'),
    'C13': dict(
        level='proof',
        text='Lean theorems about the model of the text helpers: norm_idem (note normalisation idempotent on every text without exotic '
             'blank lines; norm_not_idem_exotic shows the hypothesis tight = known finding), removeIndentation_idem, sql_text_no_quote, '
             'sql_note_literal, sql_expr_verbatim, and the lexical round trip unquote_prepare, scanQ1_prepare, scanQ3_prepare, '
             'stringLiteral_reads_one_line, stringLiteral_reads_triple. Tie: exhaustive/sampled differential check of 14 text '
             'functions; model-free oracle sends texts through real render->parse at each of 12 text-bearing sites; excluded regions '
             'are named reasons with committed witnesses.',
        note=TB + '; CPython str/re semantics modelled; site round trip beyond the lexical layer is decided by oracle on sampled texts',
        technique='Lean 4 proof over hand-written model + differential correspondence + round-trip oracle'),
    'C14': dict(
        level='translation_validation',
        text='Metamorphic oracle on the real parser: each spelled document in three versions with the same base spelling (no comments / '
             'two independent random comment placements): the content minus comment attributes must be identical and the comment '
             'attributes those the placement rules predict. Rendering oracle with hostile comment texts: SQL statements read back by '
             'the DDL reader are unchanged by comments, every comment line carries its marker, DBML re-parses to the same content and '
             'comments. Theorems comment_lines_prefixed, comment_ends_with_newline, splitNL_joinNL; and at parse level: a one-line comment '
             'directly above a table is written as a `// ` line and read back by `_c` onto that very table (optComment_eq, cBefore_comment, '
             'cBefore_nl_comment; flags_tables_roundtrip_partial / flags_refs_roundtrip_partial: whole documents round-trip with their comments).',
        note=TB + '; placement rules of the speller; the theorems cover the line-prefix clause only',
        technique='Lean models + theorem on comment rendering + metamorphic placement oracle + DDL-reader oracle'),
    'C15': dict(
        level='translation_validation',
        text='Spelled documents with table and column properties parsed with the option on (stored exactly, order kept; flag set; same '
             'through the Path and open-file routes) and off (syntax error iff a property is present; otherwise identical content and '
             'renderings), rendering followed through three flips of the database flag at database, table and column level, and round '
             'trip with the flag on. Theorems: with the flag off the renderings do not depend on the stored properties '
             '(column_props_hidden, table_props_hidden, column_props_shown, sql_column_ignores_props); for ANY text parsed with the '
             'option off no table or column blueprint carries a property (parseDoc_no_props_when_off); with the option on, column properties '
             'next to any subset of the ordinary settings round-trip exactly, keys and values exact and order kept '
             '(flags_table_roundtrip_partial, C02Flags.lean; keys: bare identifiers no setting word is a prefix of = the recorded finding; '
             'table-level properties: oracle only).',
        note=TB,
        technique='Lean parser/renderer models + gate theorems + correspondence under both option values + flag-flip oracle'),
    'C16': dict(
        level='proof',
        text='Lean theorems state the dispatch logic outright (attached_uses_configured, detached_uses_default, unsupported_is_empty, '
             'ownerless_kinds_use_default) and prove the join structure of db.dbml / db.sql in the model (dbml_is_join_of_elements, '
             'project_segment, sql_is_join_of_elements). Tied to the code by enumerating handler subsets x element kinds x attachment '
             '(incl. deleted elements) x parser routes; join structure and absence of side effects checked by oracle on the real '
             'renderers.',
        note=TB + '; purity is monitored, not proved (definitional in Lean)',
        technique='Lean 4 proof (dispatch decision logic, join structure) + exhaustive/sampled correspondence + purity monitor'),
    'C17': dict(
        level='proof',
        text='Decision logic stated outright and proved in Lean over the model of check_attributes_for_sql and the reference validations '
             '(required_unset_refused, complete_renders, detached_endpoint_sql/dbml, mixed_side_tables, mixed_side_dbml, '
             'composite_inline_dbml, detached_get_refs). Tied to the real classes by exhaustive enumeration of the finite case space, '
             'and the statement is evaluated directly on the real objects.',
        note=TB + '; model tied by exhaustive enumeration of its finite domain',
        technique='Lean 4 proof of decision logic + exhaustive correspondence'),
    'C18': dict(
        level='proof',
        text='Lean theorems: the CREATE TABLE order is a permutation of the tables (perm, nodup, perm_tables) and a function of table '
             'names and hosted inline references only (depends_only_on_model); what the order IS: the declaration order stably sorted by '
             'the number of hosted inline references, most first (order_sorted, order_stable, order_identity_without_hosts). The first clause (referenced tables first) is false of '
             'the current code: kernel-checked witness chain_violates, replayed on the real code and recorded as known finding '
             'KF-C18-hosts-first (tests pin the behaviour). Model tied to reorder_tables_for_sql / db.sql by differential testing; '
             'order read back by an independent DDL reader.',
        note=TB + '; sorted() modelled as stable insertion sort',
        technique='Lean 4 proof (permutation, determinism, counter-example) + differential correspondence + DDL-reader oracle'),
}
for _pid, _c in CHECKS.items():
    _c.setdefault('design', '6/' + _pid + ', 11.3')
UNDER_CONSTRUCTION = 'check under construction (model and harness being built; see DESIGN.md)'


def main():
    import re
    for pid, c in CHECKS.items():
        src = open(os.path.join(VERIF, 'harness', 'props', pid.lower() + '.py')).read()
        lv = re.search(r"core\.Ctx\(PID, tier, seed, '([a-z_]+)'", src).group(1)
        assert lv == c['level'], (pid, lv, c['level'])
    checks = []
    for pid in ALL:
        if pid not in CHECKS:
            continue
        c = CHECKS[pid]
        checks.append({
            'property_id': pid,
            'quick_cmd': f'./check {pid} --tier quick',
            'thorough_cmd': f'./check {pid} --tier thorough',
            'evidence_file': f'/verif/evidence/{pid}.json',
            'replay_cmd_template': f'./check {pid} --replay {{path}}',
            'engine': 'lean-model+harness',
            'level_claimed': {'category': c['level'], 'text': c['text'], 'design_ref': c['design']},
            'level_note': c['note'],
            'technique': c['technique'],
        })
    m = {
        'version': 1,
        'setup_cmd': 'cd /verif/lean && lake build',
        'hooks': {
            'guard': 'PYDBML_VERIF',
            'enable': 'no hooks: the harness imports pydbml from /repo\'s working tree and observes it through the public surface',
            'baseline_off_cmd': 'cd /repo && /venv/bin/python -m pytest -q -p no:cacheprovider',
            'source_commits': [],
            'add_only': True,
        },
        'engines': [{'name': 'lean-model+harness', 'path': '/verif/check',
                     'serves_properties': sorted(CHECKS),
                     'kind_free_text': 'Lean 4 model (lean/PyDBMLModel) with theorems (lean/PyDBMLProofs), compiled driver '
                                       'speaking a JSON line protocol, Python harness running the real pydbml from /repo'}],
        'checks': checks,
        'not_applicable': [{'property_id': p, 'reason': UNDER_CONSTRUCTION} for p in ALL if p not in CHECKS],
        'notes': 'see DESIGN.md; known_findings.json lists recorded defects and fix: commits',
    }
    with open(os.path.join(VERIF, 'MANIFEST.json'), 'w') as f:
        json.dump(m, f, indent=1)
    try:
        import jsonschema
        jsonschema.validate(m, json.load(open('/root/.vp/MANIFEST.schema.json')))
        print('MANIFEST valid;', len(checks), 'checks')
    except ImportError:
        print('written (jsonschema not available)')


if __name__ == '__main__':
    main()
