/-
L5: the documented entry points (`PyDBML.__new__`, `PyDBML.parse`, `PyDBML().parse`,
`PyDBML.parse_file`) as a function from (route, kind of source, text, options) to what reaches
`PyDBMLParser`: the text after BOM handling and the options.  File decoding is Python's (UTF-8).
-/
import PyDBMLModel.Build
namespace PyDBML
namespace Entry

inductive Route where
  | ctor            -- `PyDBML(source, **opts)`
  | parseStatic     -- `PyDBML.parse(text, **opts)`
  | instanceParse   -- `PyDBML().parse(text, **opts)`
  | parseFile       -- `PyDBML.parse_file(file)`  (takes no options)
  deriving Repr, DecidableEq, Inhabited

inductive SourceKind where
  | str | path | textFile     -- the three documented kinds
  | pathString                -- a path given as `str` (only `parse_file` reads it as a path)
  | other                     -- bytes, int, StringIO, list, …
  deriving Repr, DecidableEq, Inhabited

structure Opts where
  allowProps : Bool := false
  sqlRenderer : Nat := 0      -- 0 = the default class; other numbers stand for custom classes
  dbmlRenderer : Nat := 0
  deriving Repr, DecidableEq, Inhabited

inductive Res where
  | parser (text : Str) (o : Opts)   -- `PyDBMLParser(text, **o).parse()` is run
  | typeError
  | notARoute                         -- the route does not take this kind of source at all
  deriving Repr, DecidableEq, Inhabited

/-- what each route hands to the parser; `content` is the text (of the string, or of the file) -/
def entry (r : Route) (k : SourceKind) (content : Str) (o : Opts) : Res :=
  match r, k with
  | .ctor, .str | .ctor, .path | .ctor, .textFile => .parser (removeBom content) o
  | .ctor, .pathString => .notARoute          -- a `str` given to the constructor IS the document
  | .ctor, .other => .typeError
  | .parseStatic, .str | .instanceParse, .str => .parser (removeBom content) o
  | .parseStatic, _ | .instanceParse, _ => .notARoute
  | .parseFile, .pathString | .parseFile, .path | .parseFile, .textFile => .parser (removeBom content) {}
  | .parseFile, _ => .notARoute

/-- the database content a route produces -/
def run (r : Route) (k : SourceKind) (content : Str) (o : Opts) : Option Build.Outcome :=
  match entry r k content o with
  | .parser t o' =>
    -- `PyDBMLParser.parse` does not strip anything itself
    some (match Grammar.parseDoc o'.allowProps t with
      | .ok es _ => (match Build.buildDatabase o'.allowProps es with
                     | .ok db => .ok db
                     | .error e => .err e)
      | .fail => .syntax
      | .fatal => .syntax
      | .exn e => .err e)
  | _ => none

end Entry
end PyDBML
