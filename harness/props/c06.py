"""C06 — rule-breaking documents are rejected with the error belonging to the rule."""
import json
import random

from harness import ref_text as RT
from harness import core, gen_db as GD, impl_text as IT, speller as SP
from harness import parse_common as PC
from harness.driver import Driver, DriverError

PID = 'C06'
THEOREMS = ['PyDBML.C06.build_rule_abiding', 'PyDBML.C06.addTable_clash', 'PyDBML.C06.addTable_error', 'PyDBML.C06.addEnum_error',
            'PyDBML.C06.enumStep_error', 'PyDBML.C06.buildGroup_ok', 'PyDBML.C06.buildGroup_error', 'PyDBML.C06.groupStep_twice',
            'PyDBML.C06.refStep_ok', 'PyDBML.C06.locateTable_sound', 'PyDBML.C06.locateTable_error', 'PyDBML.C06.locateTable_complete', 'PyDBML.C06.parseDoc_tables_ok']
MODULES = ['PyDBMLProofs.Props.C06', 'PyDBMLProofs.Props.C06Grammar', 'PyDBMLProofs.Hoare']

VIOLATIONS = {
    'dupTable': 'lib:DatabaseValidationError', 'dupAlias': 'lib:DatabaseValidationError',
    'aliasEqKey': 'lib:DatabaseValidationError', 'dupEnum': 'lib:DatabaseValidationError',
    'dupGroup': 'lib:DatabaseValidationError', 'tableTwiceInGroup': 'lib:ValidationError',
    'dupRef': 'lib:DatabaseValidationError', 'noColumns': 'noColumns',
    'danglingRefTable': 'lib:TableNotFoundError', 'danglingRefColumn': 'lib:ColumnNotFoundError',
    'danglingIndexColumn': 'lib:ColumnNotFoundError', 'danglingGroupTable': 'lib:TableNotFoundError',
    'dupRefCommentDiffers': 'lib:DatabaseValidationError',
    'dupInlineRef': 'lib:DatabaseValidationError',
    # the same dangling names in a document that declares NO table at all (only enums, sticky notes, a project - or nothing)
    'danglingRefNoTables': 'lib:TableNotFoundError', 'danglingGroupNoTables': 'lib:TableNotFoundError',
}


def inject(rng, spec, kind):
    """-> extra element text declaring the violation (or None when the spec offers no opportunity)"""
    sp = SP.Speller(rng, {'varied': True})
    T = spec['tables']
    fresh = 'zz_%d' % rng.randrange(10 ** 6)
    col = '\n  id int\n'
    if kind == 'dupTable':
        ti = rng.randrange(len(T))
        t = T[ti]
        addr = sp.ident(t['schema']) + '.' + sp.ident(t['name']) if (t['schema'] != 'public' or rng.random() < 0.5) else sp.ident(t['name'])
        return f'{sp.kw("table")} {addr} {{{col}}}'
    if kind == 'dupAlias':
        als = [t['alias'] for t in T if t['alias']]
        if not als:
            return None
        return f'{sp.kw("table")} {fresh} as {sp.ident(rng.choice(als))} {{{col}}}'
    if kind == 'aliasEqKey':
        t = rng.choice(T)
        return f'{sp.kw("table")} {fresh} as "{t["schema"]}.{t["name"]}" {{{col}}}'
    if kind == 'dupEnum':
        if not spec['enums']:
            return None
        e = rng.choice(spec['enums'])
        addr = sp.ident(e['schema']) + '.' + sp.ident(e['name']) if (e['schema'] != 'public' or rng.random() < 0.5) else sp.ident(e['name'])
        dup = f'{sp.kw("enum")} {addr} {{\n  only\n}}'
        if rng.random() < 0.4:
            # a legal namesake in another schema stands between the two: the rule is per (schema, name)
            return f'Enum ns_{fresh}.{sp.ident(e["name"])} {{\n  other\n}}\n' + dup
        return dup
    if kind == 'dupGroup':
        if not spec['groups']:
            return None
        g = rng.choice(spec['groups'])
        return f'{sp.kw("tablegroup")} {sp.ident(g["name"])} {{\n}}'
    if kind == 'tableTwiceInGroup':
        ti = rng.randrange(len(T))
        a, b = sp.table_addr(spec, ti), sp.table_addr(spec, ti)
        if T[ti]['name'].lower() == 'note' or (T[ti]['alias'] or '').lower() == 'note':
            return None
        return f'{sp.kw("tablegroup")} {fresh} {{\n  {a}\n  {b}\n}}'
    if kind in ('dupRef', 'dupRefCommentDiffers'):
        if not spec['refs']:
            return None
        r = rng.choice(spec['refs'])
        txt = sp.ref(spec, r, rng.choice(['short', 'long']))
        if kind == 'dupRefCommentDiffers':
            txt = '// another comment\n' + txt
        return txt
    if kind == 'noColumns':
        return rng.choice([f'Table {fresh} {{\n  Note: \'no columns\'\n}}', f'Table {fresh} {{\n}}',
                           f'Table {fresh} {{\n  indexes {{\n    id\n  }}\n}}'])
    def near_miss(name, taken):
        """a name that does not exist but looks like one that does: other letter case, a blank or a suffix added"""
        cands = [name.swapcase(), name.upper(), name.capitalize(), name + '_', name + ' ', ' ' + name, name + 's', name[:-1]]
        cands = [c for c in cands if c and c not in taken and c != name]
        return rng.choice(cands) if cands else None
    if kind in ('danglingRefTable', 'danglingGroupTable') and rng.random() < 0.3:
        # the name exists - in ANOTHER schema only: written bare (schema public) or under a wrong schema it names no table
        decl = f'Table sx_{fresh}.only_{fresh} {{\n  id int\n}}\n'
        who = rng.choice([f'only_{fresh}', f'sy_{fresh}.only_{fresh}', f'public.only_{fresh}'])
        if kind == 'danglingGroupTable':
            return decl + f'TableGroup g_{fresh} {{\n  {who}\n}}'
        t = rng.choice(T)
        form = rng.choice(['short', 'long', 'inline'])
        tgt = f'{sp.table_addr(spec, T.index(t))}.{sp.ident(t["columns"][0]["name"])}'
        if form == 'short':
            return decl + f'Ref: {who}.id > {tgt}'
        if form == 'long':
            return decl + f'Ref {{\n  {tgt} < {who}.id\n}}'
        return decl + f'Table inl_{fresh} {{\n  x int [ref: > {who}.id]\n}}'
    if kind == 'danglingRefTable':
        t = rng.choice(T)
        if rng.random() < 0.4:
            nm = near_miss(t['name'], {x['name'] for x in T} | {x['alias'] for x in T if x['alias']})
            if nm is not None and '.' not in nm:
                sch = '' if t['schema'] == 'public' else sp.ident(t['schema']) + '.'
                return f'Ref: {sch}"{nm}".{sp.ident(t["columns"][0]["name"])} > {sp.table_addr(spec, T.index(t))}.{sp.ident(t["columns"][0]["name"])}'
        return f'Ref: nosuch_{fresh}.id > {sp.table_addr(spec, T.index(t))}.{sp.ident(t["columns"][0]["name"])}'
    if kind == 'danglingRefColumn':
        ti = rng.randrange(len(T))
        t = T[ti]
        if rng.random() < 0.5:
            c0 = rng.choice(t['columns'])['name']
            nm = near_miss(c0, {c['name'] for c in t['columns']})
            if nm is not None and nm.strip('() ') == nm and ',' not in nm and nm.strip('() ') not in {c['name'] for c in t['columns']}:
                return f'Ref: {sp.table_addr(spec, ti)}."{nm}" > {sp.table_addr(spec, ti)}.{sp.ident(t["columns"][0]["name"])}'
        return f'Ref: {sp.table_addr(spec, ti)}.nosuch_{fresh} > {sp.table_addr(spec, ti)}.{sp.ident(t["columns"][0]["name"])}'
    if kind == 'danglingIndexColumn':
        return f'Table {fresh} {{\n  id int\n  indexes {{\n    nosuch_col\n  }}\n}}'
    if kind == 'danglingGroupTable':
        return f'TableGroup {fresh} {{\n  nosuch_{fresh}\n}}'
    if kind == 'danglingRefNoTables':
        return rng.choice([f'Ref: nosuch_{fresh}.id > other_{fresh}.id', f'Ref {{\n  s.nosuch_{fresh}.a - nosuch_{fresh}.b\n}}',
                           f'Ref r1: a_{fresh}.(x, y) < b_{fresh}.(x, y)'])
    if kind == 'danglingGroupNoTables':
        return f'TableGroup {fresh} {{\n  nosuch_{fresh}\n}}'
    raise ValueError(kind)


def mk_inline_case(rng, spec, kind):
    """the same relationship declared twice, BOTH TIMES INLINE: in one settings list (`[ref: > a.b, ref: > a.b]`). Written by the speller
    from a spec that holds the reference twice; the base document holds it once."""
    import copy
    T = spec['tables']
    used = {(r['t1'], tuple(r['col1']), r['t2'], tuple(r['col2'])) for r in spec['refs']} | \
           {(r['t2'], tuple(r['col2']), r['t1'], tuple(r['col1'])) for r in spec['refs']}
    cands = [(a, ca, b, cb) for a in range(len(T)) for ca in range(len(T[a]['columns'])) for b in range(len(T))
             for cb in range(len(T[b]['columns'])) if (a, ca) != (b, cb) and (a, (ca,), b, (cb,)) not in used]
    if not cands:
        return None
    a, ca, b, cb = rng.choice(cands)
    ref = {'type': rng.choice(['>', '<', '-']), 't1': a, 'col1': [ca], 't2': b, 'col2': [cb], 'name': None, 'comment': None,
           'on_update': None, 'on_delete': None, 'inline': True}
    once, twice = copy.deepcopy(spec), copy.deepcopy(spec)
    once['refs'].append(dict(ref))
    twice['refs'].append(dict(ref))
    twice['refs'].append(dict(ref))
    if not (SP.spellable(once) and SP.spellable(twice)):
        return None
    st = rng.getstate()
    base_text = SP.spell(once, rng, {'varied': True, 'ref_form': 'inline'})[0]
    rng.setstate(st)
    doc = SP.spell(twice, rng, {'varied': True, 'ref_form': 'inline'})[0]
    base = PC.impl_parse(base_text, spec['allow_properties'])
    r = PC.impl_parse(doc, spec['allow_properties'])
    return {'kind': kind, 'text': doc, 'props': spec['allow_properties'], 'pos': 0, 'n': 1, 'impl': r, 'base_ok': 'ok' in base}


def mk_case(job):
    seed, kind = job
    rng = random.Random(seed)
    spec = SP.normalise_for_spelling(GD.gen_spec(rng, wild=False, max_tables=3), RT.ref_norm)
    if not SP.spellable(spec):
        return None
    if kind == 'dupInlineRef':
        return mk_inline_case(rng, spec, kind)
    if kind in ('danglingRefNoTables', 'danglingGroupNoTables'):
        spec = dict(spec, tables=[], refs=[], groups=[])
        if rng.random() < 0.25:
            spec = dict(spec, enums=[], sticky=[], project=None)
        if not SP.spellable(spec):
            return None
    text, exp, info = SP.spell(spec, rng, {'varied': True})
    extra = inject(rng, spec, kind)
    if extra is None:
        return None
    chunks = list(info['chunks'])
    pos = rng.randrange(len(chunks) + 1)
    chunks.insert(pos, extra)
    doc = '\n'.join(chunks) + '\n'
    base = PC.impl_parse('\n'.join(info['chunks']) + '\n', spec['allow_properties'])
    r = PC.impl_parse(doc, spec['allow_properties'])
    return {'kind': kind, 'text': doc, 'props': spec['allow_properties'], 'pos': pos, 'n': len(chunks), 'impl': r,
            'base_ok': 'ok' in base}


def main(tier, seed):
    ctx = core.Ctx(PID, tier, seed, 'proof', THEOREMS, MODULES)
    ctx.build()
    problems = ctx.audit() if ctx.build_ok else ['lake build failed']
    drv = None
    try:
        drv = Driver()
    except DriverError as e:
        ctx.notes.append(str(e))
    per = 80 if not ctx.thorough else 1500
    jobs = [(f'{seed}:{kind}:{k}', kind) for kind in VIOLATIONS for k in range(per)]
    cases = [c for c in core.pmap(mk_case, jobs) if c is not None and c['base_ok']]
    model = drv.ask_many({'op': 'parse', 'text': c['text'], 'allow_properties': c['props']} for c in cases) if drv else None
    for k, c in enumerate(cases):
        r = c['impl']
        want = VIOLATIONS[c['kind']]
        got = PC.brief(r)
        ctx.case(core.h(c['text']), True, sample={'violation': c['kind'], 'position': f"{c['pos']}/{c['n']}", 'outcome': got,
                                                   'text_tail': c['text'][-300:]} if k % 150 == 0 else None)
        ctx.count('violation:' + c['kind'])
        ctx.count('position:' + ('first' if c['pos'] == 0 else 'last' if c['pos'] == c['n'] - 1 else 'middle'))
        if got != want:
            reason = 'DupRefCommentDiffers' if c['kind'] == 'dupRefCommentDiffers' else None
            what = ('a database is returned for' if got == 'ok' else f'wrong error ({got}) for') + f' a document violating rule {c["kind"]} (expected {want})'
            ctx.fail(what, {'op': 'violation', 'kind': c['kind'], 'text': c['text'], 'props': c['props']}, reason=reason)
        if model is not None:
            m = model[k]
            if m.get('err') != 'outOfModel' and not PC.same_parse(m, r):
                ctx.diverge('parse (rule-breaking document)', {'op': 'parse', 'text': c['text'], 'props': c['props']}, PC.brief(m), got)
    if drv is not None:
        drv.close()

    def kf_replay(f):
        r = PC.impl_parse(f['witness']['text'], False)
        return 'ok' in r

    return ctx.finish(
        rule='a well-formed spelled document plus one injected declaration breaking one rule (16 kinds: duplicate table, reused '
             'alias, alias equal to a key, duplicate enum, duplicate group, table twice in a group via any addressing, identical '
             'reference in any form/addressing - also twice inline in one settings list -, column-less table, dangling table/column in reference, index, group), inserted at '
             'a random element boundary, in random spelling. Distinct by document hash; all are non-trivial',
        explanation='Theorems about the build model (Build.buildDatabase = build_database + Database.add_* + Blueprint.build): '
                    'build_rule_abiding - whatever it returns has pairwise key-disjoint tables (full name and alias), pairwise different '
                    'enums (schema, name), pairwise different group names, duplicate-free group items, pairwise unequal references, and '
                    'holds every declared table/enum/group/reference in order (nothing dropped): so a document with such a clash never '
                    'yields a database; *_error / addTable_clash / groupStep_twice - the error is the one of the rule; locateTable_sound / '
                    '_error / _complete - a lookup binds to a table carrying exactly the key asked for, or ends in TableNotFoundError. '
                    'Oracle: the real parser must raise exactly the error class of the violated rule and never return a database. '
                    'Correspondence: the Lean parser+build model gives the same class on every such document. parseDoc_tables_ok - for ANY text, '
                    'every table blueprint leaving the grammar model has a column (a column-less declaration ends in the SyntaxError of '
                    'parse_table) and every index a subject (postcondition logic of Hoare.lean over the grammar rules).',
        assumptions=['the base document is accepted (checked) so the injected declaration is the only violation'],
        trusted_base=['Lean 4.33 kernel', 'axioms: propext, Classical.choice, Quot.sound only', 'hand-written Lean model tied by this correspondence', 'harness/speller.py'],
        kf_replay=kf_replay, proof_problems=problems)


def replay(path):
    case = json.load(open(path))
    c = case.get('case', {})
    print(json.dumps({k: v for k, v in case.items() if k != 'case'}, indent=1)[:2000])
    if 'text' in c:
        print(c['text'])
        print('impl:', PC.brief(PC.impl_parse(c['text'], c.get('props', False))))
    return 0
