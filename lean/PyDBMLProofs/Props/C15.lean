/-
C15 — arbitrary properties are rendered exactly when the database's flag is on.
-/
import PyDBMLModel
namespace PyDBML
namespace C15
open Dbml

def Column.noProps (c : Column) : Column := { c with props := [] }
def Table.noProps (t : Table) : Table := { t with props := [], columns := t.columns.map Column.noProps }

/-- with the flag off a column renders as if it carried no properties -/
theorem column_props_hidden (db : Db) (ti ci : Nat) (c : Column) (h : db.allowProps = false) :
    renderColumn db ti ci c = renderColumn db ti ci (Column.noProps c) := by
  unfold renderColumn Column.noProps Sql.typeText
  simp [h]

/-- with the flag on the column's options end with its properties, keys and values exact, order kept -/
theorem column_props_shown (db : Db) (c : Column) (h : db.allowProps = true) :
    (if db.allowProps then c.props.map (fun (k, v) => k ++ lit ": " ++ quoteString v) else [])
      = c.props.map (fun (k, v) => k ++ lit ": " ++ quoteString v) := by
  simp [h]

theorem getD?_map {α β} (f : α → β) (l : List α) (i : Nat) (why : String) :
    getD? (l.map f) i why = (getD? l i why).map f := by
  unfold getD?
  simp only [List.getElem?_map]
  cases l[i]? <;> rfl

/-- With the flag off, neither the table's own properties nor those of its columns influence the
    table's DBML: the rendering equals that of the table with all properties erased. -/
theorem table_props_hidden (db : Db) (ti : Nat) (t : Table) (h : db.allowProps = false) :
    renderTableBody db ti t = renderTableBody db ti (Table.noProps t) := by
  unfold renderTableBody
  have hcols : (List.range t.columns.length).mapM (fun ci => do
        let c ← getD? t.columns ci "column position"
        renderColumn db ti ci c)
      = (List.range (Table.noProps t).columns.length).mapM (fun ci => do
        let c ← getD? (Table.noProps t).columns ci "column position"
        renderColumn db ti ci c) := by
    simp only [Table.noProps, List.length_map]
    congr 1
    funext ci
    rw [getD?_map]
    cases hc : getD? t.columns ci "column position" with
    | error e => rfl
    | ok c =>
      simp only [Except.map, bind, Except.bind]
      exact column_props_hidden db ti ci c h
  have hidx : ∀ (ixs : List Index), ixs.mapM (renderIndex t) = ixs.mapM (renderIndex (Table.noProps t)) := by
    intro ixs
    congr 1
    funext ix
    unfold renderIndex renderSubjects
    simp only [Table.noProps]
    congr 2
    · congr 1
      funext sb
      cases sb with
      | col i =>
        simp only
        rw [getD?_map]
        cases getD? t.columns i "index subject position" <;> rfl
      | expr e => rfl
      | raw s => rfl
  rw [hcols]
  simp only [Table.noProps, h, Bool.and_false, List.isEmpty_nil, Bool.not_true, Bool.false_and]
  simp only [Table.noProps] at hidx
  rw [hidx t.indexes]
  rfl

/-- the SQL renderer never reads properties (a column's SQL is the same with its properties erased) -/
theorem sql_column_ignores_props (db : Db) (cpk : Bool) (c : Column) :
    Sql.renderColumn db cpk c = Sql.renderColumn db cpk (Column.noProps c) := by
  unfold Sql.renderColumn Sql.typeText Column.noProps
  rfl

end C15
end PyDBML
