/-
C16 — element and database renderings agree and use the configured renderers.
-/
import PyDBMLModel
import PyDBMLProofs.Props.C18
namespace PyDBML
namespace C16
open Dispatch

/-- every attached top-level element (table, enum, reference, table group, project, sticky note)
    and every column of an attached table renders through the configured class: the handler's
    output if there is one, the empty string otherwise. -/
theorem attached_uses_configured (sql : Bool) (handled : List EKind) (k : EKind) (unset : List String)
    (hk : hasDatabaseAttr k = true) :
    renderOutcome sql (.custom handled) k true unset = if handled.contains k then .marker else .empty := by
  simp [renderOutcome, rendererFor, hk]

theorem unsupported_is_empty (sql : Bool) (handled : List EKind) (k : EKind) (unset : List String)
    (hk : hasDatabaseAttr k = true) (hn : k ∉ handled) :
    renderOutcome sql (.custom handled) k true unset = .empty := by
  simp [renderOutcome, rendererFor, hk, hn]

/-- detached elements use the default renderers, whatever some database is configured with. -/
theorem detached_uses_default (sql : Bool) (cfg : Cfg) (k : EKind) (unset : List String) :
    renderOutcome sql cfg k false unset = renderOutcome sql .defaultR k false unset := by
  cases cfg <;> simp [renderOutcome, rendererFor]

/-- Index, Note, EnumItem and Expression carry no `database`: they always use the defaults. -/
theorem ownerless_kinds_use_default (k : EKind) (attached : Bool) (hk : hasDatabaseAttr k = false) :
    rendererFor k attached = .default := by
  simp [rendererFor, hk]

example : hasDatabaseAttr .table ∧ hasDatabaseAttr .column ∧ hasDatabaseAttr .enum ∧ hasDatabaseAttr .reference
    ∧ hasDatabaseAttr .group ∧ hasDatabaseAttr .project ∧ hasDatabaseAttr .sticky
    ∧ ¬ hasDatabaseAttr .index ∧ ¬ hasDatabaseAttr .note := by decide

/-! ### join structure of the default database renderings -/

theorem mapM_ok_length {α β ε} (f : α → Except ε β) :
    ∀ (l : List α) (r : List β), l.mapM f = .ok r → r.length = l.length := by
  intro l
  induction l with
  | nil => intro r h; simp [List.mapM_nil, pure, Except.pure] at h; subst h; rfl
  | cons x xs ih =>
    intro r h
    rw [List.mapM_cons] at h
    cases hx : f x with
    | error e => simp [hx, bind, Except.bind] at h
    | ok y =>
      cases hxs : xs.mapM f with
      | error e => simp [hx, hxs, bind, Except.bind] at h
      | ok ys =>
        simp [hx, hxs, bind, Except.bind, pure, Except.pure] at h
        subst h
        simp [ih ys hxs]

/-- `db.dbml` is the blank-line join of: the project (if any), every enum, every table, every
    non-inline reference, every table group, every sticky note — in that order, each element's own
    rendering, once per element. -/
theorem dbml_is_join_of_elements (db : Db) (txt : Str) (h : Dbml.renderDb db = .ok txt) :
    ∃ proj tables refs groups,
      Dbml.renderProjectList db = .ok proj
      ∧ (List.range db.tables.length).mapM (Dbml.renderTable db) = .ok tables
      ∧ (db.refs.filter (!·.inline)).mapM (Dbml.renderRef db) = .ok refs
      ∧ db.groups.mapM (Dbml.renderGroup db) = .ok groups
      ∧ tables.length = db.tables.length
      ∧ txt = joinWith (lit "\n\n")
          (proj ++ db.enums.map Dbml.renderEnum ++ tables ++ refs ++ groups ++ db.sticky.map Dbml.renderSticky) := by
  unfold Dbml.renderDb at h
  cases hp : Dbml.renderProjectList db with
  | error e => simp [hp, bind, Except.bind] at h
  | ok proj =>
    cases ht : (List.range db.tables.length).mapM (Dbml.renderTable db) with
    | error e => simp [hp, ht, bind, Except.bind] at h
    | ok tables =>
      cases hr : (db.refs.filter (!·.inline)).mapM (Dbml.renderRef db) with
      | error e => simp [hp, ht, hr, bind, Except.bind] at h
      | ok refs =>
        cases hg : db.groups.mapM (Dbml.renderGroup db) with
        | error e => simp [hp, ht, hr, hg, bind, Except.bind] at h
        | ok groups =>
          simp only [hp, ht, hr, hg, bind, Except.bind, pure, Except.pure, Except.ok.injEq] at h
          refine ⟨proj, tables, refs, groups, rfl, rfl, rfl, rfl, ?_, h.symm⟩
          have := mapM_ok_length _ _ _ ht
          simpa using this

/-- the project contributes one segment when there is one, none otherwise -/
theorem project_segment (db : Db) (proj : List Str) (h : Dbml.renderProjectList db = .ok proj) :
    proj.length = if db.project.isSome then 1 else 0 := by
  unfold Dbml.renderProjectList at h
  cases hp : db.project with
  | none => simp [hp] at h; subst h; rfl
  | some p =>
    cases hr : Dbml.renderProject p with
    | error e => simp [hp, hr, Except.map] at h
    | ok v => simp [hp, hr, Except.map] at h; subst h; rfl

/-- `db.sql` is the blank-line join of every enum, every table (in the order of C18, each exactly
    once) and every non-inline reference. -/
theorem sql_is_join_of_elements (db : Db) (txt : Str) (h : Sql.renderDb db = .ok txt) :
    ∃ tables refs,
      (Sql.reorderIdx db.tables db.refs).mapM (Sql.renderTable db) = .ok tables
      ∧ (db.refs.filter (!·.inline)).mapM (Sql.renderRefTop db) = .ok refs
      ∧ tables.length = db.tables.length
      ∧ txt = joinWith (lit "\n\n") (db.enums.map Sql.renderEnum ++ tables ++ refs) := by
  unfold Sql.renderDb at h
  cases ht : (Sql.reorderIdx db.tables db.refs).mapM (Sql.renderTable db) with
  | error e => simp [ht, bind, Except.bind] at h
  | ok tables =>
    cases hr : (db.refs.filter (!·.inline)).mapM (Sql.renderRefTop db) with
    | error e => simp [ht, hr, bind, Except.bind] at h
    | ok refs =>
      simp only [ht, hr, bind, Except.bind, pure, Except.pure, Except.ok.injEq] at h
      refine ⟨tables, refs, rfl, rfl, ?_, h.symm⟩
      have h1 := mapM_ok_length _ _ _ ht
      have h2 := (C18.perm db.tables db.refs).length_eq
      simp at h2
      omega

end C16
end PyDBML
