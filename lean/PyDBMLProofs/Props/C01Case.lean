/-
C01 — "the result depends only on what is declared, not on how it is written": SPELLING VARIANTS of elements.

`document_faithful_variants`: any sequence of element forms (`EForm`, C02Doc.lean) that declare the same blueprints as the
elements of a covered document - under any spacing - is parsed to the database that document declares.  Every further
`EForm` instance with the same `elem` is thereby a proved spelling variant (`document_faithful_each_variant`).  Instances:
the keywords `Table`, `Enum`, `Ref`, `TableGroup`, `Project`, `Note` in any mixture of upper and lower case (`tableEK`, `enumEK`,
`refEK`, `groupEK`, `projectEK`, `stickyEK`; the facts the proofs need of a spelling are checked over ALL spellings by `decide +kernel`), and table
names bare or in double quotes (`Spells`).
-/
import PyDBMLProofs.Props.C01LayoutDoc
namespace PyDBML
namespace C02
open Lex Grammar Build

variable {σ : Type}

/-- all spellings of an ASCII word in upper and lower case -/
def caseVariants : Str → List Str
  | [] => [[]]
  | c :: r => (caseVariants r).flatMap fun v => [asciiLower c :: v, asciiUpper c :: v]

def kwTable : List Str := caseVariants (lit "table")

theorem startsWithCaseless_append (s r pre : Str) (h : startsWithCaseless s pre = true) :
    startsWithCaseless (s ++ r) pre = true := by
  induction pre generalizing s with
  | nil => cases s <;> simp [startsWithCaseless]
  | cons p ps ih =>
    cases s with
    | nil => simp [startsWithCaseless] at h
    | cons x xs =>
      simp only [startsWithCaseless, Bool.and_eq_true, List.cons_append] at h ⊢
      exact ⟨h.1, ih xs h.2⟩

/-- what the proofs need of a spelling of the keyword (checked on all 32 of them) -/
def KwFacts (kw : Str) : Bool :=
  kw.length == 5 && startsWithCaseless kw (lit "table") && kw.all (fun c => c != '\t')
    && (match kw with
        | k :: _ => !isWs k && k != '\n' && k != '/' && decide (k.toNat < 128)
        | [] => false)

theorem kwTable_facts : ∀ kw ∈ kwTable, KwFacts kw = true := by decide +kernel

theorem kwFacts_elim (kw : Str) (h : KwFacts kw = true) :
    kw.length = 5 ∧ startsWithCaseless kw (lit "table") = true ∧ (∀ c ∈ kw, c ≠ '\t') ∧
      ∃ k ks, kw = k :: ks ∧ isWs k = false ∧ k ≠ '\n' ∧ k ≠ '/' ∧ k.toNat < 128 := by
  unfold KwFacts at h
  cases kw with
  | nil => simp at h
  | cons k ks =>
    simp only [Bool.and_eq_true, beq_iff_eq, List.all_eq_true, bne_iff_ne, ne_eq, Bool.not_eq_true',
      decide_eq_true_eq] at h
    obtain ⟨⟨⟨h1, h2⟩, h3⟩, ⟨⟨h4, h5⟩, h6⟩, h7⟩ := h
    exact ⟨h1, h2, h3, k, ks, rfl, h4, h5, h6, h7⟩

/-- a table with its keyword spelt `kw` and its name spelt `nm` -/
def ColForm.tableTextK (F : ColForm σ) (kw nm : Str) (cs : List σ) (nt : Str) (post : Str) : Str :=
  kw ++ ' ' :: (nm ++ ' ' :: '{' :: '\n' :: (F.text cs ++ (noteBlock nt ++ '}' :: post)))

theorem ColForm.tableTextK_Table (F : ColForm σ) (tn : Str) (cs : List σ) (nt post : Str) :
    F.tableTextK (lit "Table") ('"' :: (tn ++ ['"'])) cs nt post = F.tableTextP tn cs nt post := by
  simp [ColForm.tableTextK, ColForm.tableTextP, lit]

/-- the table rule on a table whose keyword is spelt in any case -/
theorem ColForm.tableRule_okK (F : ColForm σ) (props : Bool) (c c0 : Cur) (kw nm tn : Str) (cs : List σ) (nt : Str) (post : Str)
    (Q : Cur → Prop) (bs : List Str) (hkw : KwFacts kw = true) (hnm : Spells nm tn) (hb : cBefore c = .ok bs c0)
    (hc : c0.rest = F.tableTextK kw nm cs nt post) (hp : c0.pastEnd = false)
    (hprev : ∀ p, c0.prev = some p → isKwIdent p = false)
    (hcs : F.allOK props cs) (hne : cs ≠ []) (hnt : TNoteOK nt)
    (hend : ∀ c7 : Cur, c7.rest = post → c7.pastEnd = false → ∃ c9, endRule c7 = .ok () c9 ∧ Q c9) :
    ∃ c9, tableRule props c = .ok (F.tableBpC tn cs nt (joinBefore bs)) c9 ∧ Q c9 := by
  have hE := endOK_note nt post
  obtain ⟨hlen, hswc, _, k0, ks, rfl, hk1, _, _, _⟩ := kwFacts_elim kw hkw
  obtain ⟨_, ⟨n0, ns, hn0, hn0w, _, _⟩, hname⟩ := hnm
  have hc' : c0.rest = (k0 :: ks) ++ (' ' :: (nm ++ ' ' :: '{' :: '\n' :: (F.text cs ++ (noteBlock nt ++ '}' :: post)))) := hc
  have hN : (skipWs c0).rest = (k0 :: ks) ++ (' ' :: (nm ++ ' ' :: '{' :: '\n' :: (F.text cs ++ (noteBlock nt ++ '}' :: post)))) :=
    skipWs_rest_head c0 k0 _ hc' hk1
  have hpv : ∀ p, (skipWs c0).prev = some p → isKwIdent p = false := by
    rw [skipWs_prev_head c0 k0 _ hc' hk1]; exact hprev
  obtain ⟨c1, hk, hr1, hp1⟩ := ckw_ok' "table" c0 (k0 :: ks)
    (' ' :: (nm ++ ' ' :: '{' :: '\n' :: (F.text cs ++ (noteBlock nt ++ '}' :: post)))) hN (by simpa using hlen)
    (startsWithCaseless_append _ _ _ hswc) hp hpv (by intro x hx; simp at hx; subst hx; decide)
  have hN1 : (skipWs c1).rest = nm ++ ' ' :: ('{' :: '\n' :: (F.text cs ++ (noteBlock nt ++ '}' :: post))) := by
    rw [hn0]
    exact skipWs_rest_spaces c1 1 n0 _ (by rw [hr1, hn0]; rfl) hn0w
  obtain ⟨c2, hnm, hr2, hp2⟩ := hname c1 _ hN1 hp1
  have hN2 : Next c2 '{' ('\n' :: (F.text cs ++ (noteBlock nt ++ '}' :: post))) := skipWs_rest_spaces c2 1 '{' _ (by rw [hr2]; rfl) (by decide)
  have hdot : sym "." c2 = .fail := sym_fail "." c2 _ _ hN2 (by simp [startsWith])
  have htname : tableName c1 = .ok (none, tn) c2 := by
    unfold tableName alt
    simp only [bind, pbind, hnm, hdot, pure, ppure]
  have hal : opt aliasRule c2 = .ok none c2 := by
    unfold opt; rw [aliasRule_fail c2 '{' _ hN2 (by decide)]
  have hst : opt tableSettings c2 = .ok none c2 := by
    unfold opt tableSettings
    simp only [bind, pbind, sym_fail "[" c2 _ _ hN2 (by simp [startsWith])]
  obtain ⟨q3, q4⟩ := quiet_of_next c2 '{' _ hN2 (by decide) (by decide)
  have hs2 : skipNl c2 = .ok () c2 := skipNl_stay c2 q3 q4
  obtain ⟨c3, hbr, hr3, hp3⟩ := sym_ok "{" '{' rfl c2 _ hN2 hp2
  have hN3 : Next c3 '\n' (F.text cs ++ (noteBlock nt ++ '}' :: post)) := skipWs_rest_head c3 '\n' _ hr3 (by decide)
  obtain ⟨c4, hs3, hr4, hp4⟩ := skipNl_one c3 (F.text cs ++ (noteBlock nt ++ '}' :: post)) hN3 hp3 (by
    intro d hd _
    obtain ⟨k, x, r, he, hw, h1, h2⟩ := F.body_next cs _ hE
    have : Next d x r := skipWs_rest_spaces d k x r (by rw [hd, he]) hw
    exact quiet_of_next d x r this h1 h2)
  have hs4 : skipNl c4 = .ok () c4 := F.skipNl_stay_body c4 cs _ hE hr4
  obtain ⟨s0, ps, rfl⟩ : ∃ s0 ps, cs = s0 :: ps := by
    cases cs with
    | nil => exact absurd rfl hne
    | cons a as => exact ⟨a, as, rfl⟩
  obtain ⟨c5, hel, hr5, hp5⟩ := F.tableElement_col props c4 s0 ps _ hE hr4 hp4 (hcs s0 (by simp))
  have hel3 : tableElement props c3 = .ok (TblElem.column (F.bp s0)) c5 := by
    rw [tableElement_skip props c3 c4 hs3 hs4]; exact hel
  have hfuel : ps.length + 1 < c3.rest.length + 1 := by
    rw [hr3]
    have h1 := F.text_length ps
    have h2 := F.text_cons_length s0 ps
    simp only [List.length_cons, List.length_append]; omega
  obtain ⟨c6, hm, hr6, hp6⟩ := F.many_body props ps _ post (noteElems nt) hE (bodyEnd_note props nt post hnt) (fun q hq => hcs q (by simp [hq])) (c3.rest.length + 1) c5 hfuel hr5 hp5
  have hmany : manyF (tableElement props) c3 = .ok (((s0 :: ps).map F.bp).map TblElem.column ++ noteElems nt) c6 := by
    unfold manyF fuelOf
    have hlen : c5.rest.length ≠ c3.rest.length := by
      have h2 := F.text_cons_length s0 ps
      rw [hr5, hr3]; simp only [List.length_cons, List.length_append]; omega
    rw [many]
    simp only [hel3, hlen, decide_false, Bool.false_and, Bool.false_eq_true, ↓reduceIte, hm, List.map_cons, List.cons_append]
  have hN6 : Next c6 '}' post := skipWs_rest_head c6 '}' _ hr6 (by decide)
  obtain ⟨q5, q6⟩ := quiet_of_next c6 '}' _ hN6 (by decide) (by decide)
  have hs6 : skipNl c6 = .ok () c6 := skipNl_stay c6 q5 q6
  obtain ⟨c7, hcl, hr7, hp7⟩ := sym_ok "}" '}' rfl c6 _ hN6 hp6
  obtain ⟨c9, hend9, hQ⟩ := hend c7 hr7 hp7
  refine ⟨c9, ?_, hQ⟩
  unfold tableRule
  simp only [bind, pbind, hb, hk, htname, hal, hst, hs2, hbr, cut, hmany, hs6, hcl, hend9]
  simp only [List.filterMap_append, List.foldl_append]
  rw [filterMap_colsG _ _ (fun _ => rfl)]
  rw [filterMap_cols_noneG _ _ (fun _ => rfl)]
  rw [filterMap_cols_noneG _ _ (fun _ => rfl)]
  rw [foldl_colsG _ _ (fun _ _ => rfl)]
  rw [filterMap_noteElems_none _ _ (fun _ => rfl), filterMap_noteElems_none _ _ (fun _ => rfl),
    filterMap_noteElems_none _ _ (fun _ => rfl), foldl_noteElemsG _ _ (fun _ _ => rfl)]
  cases hno : noteOpt nt <;> simp [ColForm.tableBpC, hno, pure, ppure]

/-- the body of a table after its keyword -/
def ColForm.afterKw (F : ColForm σ) (t : FTab σ) (nm : Str) : Str :=
  ' ' :: (nm ++ ' ' :: '{' :: '\n' :: (F.text t.cols ++ (noteBlock t.note ++ ['}'])))

theorem ColForm.afterKw_no_tab (F : ColForm σ) (ap : Bool) (t : FTab σ) (nm : Str) (ht : F.specOK ap t) (hnm : ∀ c ∈ nm, c ≠ '\t') :
    ∀ c ∈ F.afterKw t nm, c ≠ '\t' := by
  intro c hc
  have e : F.afterKw t nm = [' '] ++ nm ++ [' ', '{', '\n'] ++ F.text t.cols ++ noteBlock t.note ++ ['}'] := by
    simp [ColForm.afterKw]
  rw [e] at hc
  simp only [List.mem_append] at hc
  rcases hc with ((((h | h) | h) | h) | h) | h
  · simp at h; subst h; decide
  · exact hnm c h
  · exact (by decide : ∀ c ∈ [' ', '{', '\n'], c ≠ '\t') c h
  · exact F.text_no_tab ap t.cols ht.2.1 c h
  · exact noteBlock_no_tab t.note ht.2.2.2.2.1 c h
  · simp at h; subst h; decide

/-- a table in any column form whose keyword is spelt `kw` -/
def ColForm.tableEK (F : ColForm σ) (ap : Bool) (t : FTab σ) (kw nm : Str) (hkw : KwFacts kw = true) (hnm : Spells nm t.name)
    (ht : F.specOK ap t) : EForm ap where
  pre := t.comment
  head := kw.headD 'T'
  body := kw.tail ++ F.afterKw t nm
  elem := F.mkElem t
  headOK := by
    obtain ⟨_, _, _, k, ks, rfl, h1, h2, h3, _⟩ := kwFacts_elim kw hkw
    exact ⟨h1, h2, h3⟩
  headAscii := by
    obtain ⟨_, _, _, k, ks, rfl, _, _, _, h4⟩ := kwFacts_elim kw hkw
    exact h4
  preOK := ht.2.2.2.1
  noTab := by
    obtain ⟨_, _, h0, k, ks, rfl, _⟩ := kwFacts_elim kw hkw
    intro c hc
    simp only [List.headD_cons, List.tail_cons, List.mem_cons, List.mem_append] at hc
    rcases hc with rfl | hc | hc
    · exact h0 _ (by simp)
    · exact h0 _ (by simp [hc])
    · exact F.afterKw_no_tab ap t nm ht hnm.1 c hc
  parse := by
    intro c c0 post hb hr0 hp0 hpv0 hends
    obtain ⟨_, _, _, k, ks, rfl, _⟩ := kwFacts_elim kw hkw
    obtain ⟨c9, hrule, hQ⟩ := F.tableRule_okK ap c c0 (k :: ks) nm t.name t.cols t.note post (After post) (cmList t.comment) hkw hnm hb
      (by rw [hr0]; simp [ColForm.tableTextK, ColForm.afterKw]) hp0 hpv0 ht.2.1 ht.2.2.1 ht.2.2.2.2
      (fun c7 hr7 hp7 => endRule_afterE c7 post hends hr7 hp7)
    refine ⟨c9, ?_, hQ⟩
    unfold element alt ColForm.mkElem
    rw [joinBefore_cmList] at hrule
    simp only [bind, pbind, hrule, pure, ppure]

theorem ColForm.tableEK_text (F : ColForm σ) (ap : Bool) (t : FTab σ) (kw nm : Str) (hkw : KwFacts kw = true) (hnm : Spells nm t.name)
    (ht : F.specOK ap t) : (F.tableEK ap t kw nm hkw hnm ht).text = commentText t.comment ++ kw ++ F.afterKw t nm := by
  obtain ⟨_, _, _, k, ks, rfl, _⟩ := kwFacts_elim kw hkw
  simp [EForm.text, ColForm.tableEK]

theorem ColForm.tableEK_elem (F : ColForm σ) (ap : Bool) (t : FTab σ) (kw nm : Str) (hkw : KwFacts kw = true) (hnm : Spells nm t.name)
    (ht : F.specOK ap t) : (F.tableEK ap t kw nm hkw hnm ht).elem = (F.tableE ap t ht).elem := rfl

/-- **C01: the result depends only on what is declared.**  Any sequence of element forms `e' :: r'` declaring, one by one,
    the same blueprints as the elements of a covered document - in whatever spelling each form stands for, with any
    number of empty lines between them (`gaps`) and any number `m` of line breaks at the end - is parsed to exactly the
    database the document declares. -/
theorem document_faithful_variants (F : ColForm σ) (ap : Bool) (d : DocSpec σ) (h : DocOK F ap d) (gaps : List Nat) (m : Nat)
    (e' : EForm ap) (r' : List (EForm ap)) (hv : (e' :: r').map (·.elem) = (d.forms F ap h).map (·.elem)) :
    Build.parse ap (docTextGT m e' ((gaps ++ List.replicate r'.length 0).zip r')) = .ok (d.db F ap) := by
  obtain ⟨c', hp⟩ := parseDoc_elems_gaps_end m e' ((gaps ++ List.replicate r'.length 0).zip r')
  have hsnd : ((gaps ++ List.replicate r'.length 0).zip r').map (fun (x : Nat × EForm ap) => x.2.elem) = r'.map (·.elem) := by
    have : ((gaps ++ List.replicate r'.length 0).zip r').map Prod.snd = r' :=
      List.map_snd_zip (by simp)
    have h2 : ((gaps ++ List.replicate r'.length 0).zip r').map (fun (x : Nat × EForm ap) => x.2.elem)
        = (((gaps ++ List.replicate r'.length 0).zip r').map Prod.snd).map (fun (x : EForm ap) => x.elem) := by rw [List.map_map]; rfl
    rw [h2, this]
  rw [hsnd] at hp
  have helems : e'.elem :: r'.map (·.elem) = d.elems F := by
    rw [← d.forms_elems F ap h, ← hv]; rfl
  rw [helems] at hp
  unfold Build.parse
  have hbom : removeBom (docTextGT m e' ((gaps ++ List.replicate r'.length 0).zip r')) = docTextGT m e' ((gaps ++ List.replicate r'.length 0).zip r') :=
    EForm.text_removeBom e' _
  rw [hbom, hp]
  simp only []
  rw [d.build F ap h]

/-- `e'` is a spelling variant of `e`: it declares the same blueprint -/
def EForm.VariantOf {ap : Bool} (e e' : EForm ap) : Prop := e'.elem = e.elem

/-- element by element, `es'` spells what `es` declares -/
inductive AllVariants {ap : Bool} : List (EForm ap) → List (EForm ap) → Prop
  | nil : AllVariants [] []
  | cons {e e' : EForm ap} {es es' : List (EForm ap)} (h : e.VariantOf e') (t : AllVariants es es') : AllVariants (e :: es) (e' :: es')

theorem variants_elems {ap : Bool} : ∀ (es es' : List (EForm ap)), AllVariants es es' →
    es'.map (·.elem) = es.map (·.elem) := by
  intro es es' h
  induction h with
  | nil => rfl
  | cons hab _ ih => simp only [List.map_cons, ih]; rw [show _ = _ from hab]

/-- **C01, element by element**: replace every element of a covered document by any of its spelling variants (`tableEK`,
    `enumEK`, `refEK`, `groupEK`, `projectEK`, `stickyEK`, or the renderer's own form), put any number of empty lines between them and
    any number of line breaks at the end: the parse is the database the document declares. -/
theorem document_faithful_each_variant (F : ColForm σ) (ap : Bool) (d : DocSpec σ) (h : DocOK F ap d) (gaps : List Nat) (m : Nat)
    (e' : EForm ap) (r' : List (EForm ap)) (hv : AllVariants (d.forms F ap h) (e' :: r')) :
    Build.parse ap (docTextGT m e' ((gaps ++ List.replicate r'.length 0).zip r')) = .ok (d.db F ap) :=
  document_faithful_variants F ap d h gaps m e' r' (variants_elems _ _ hv)

/-- **keyword case and the spelling of table names are inert**: the tables of a covered document without other elements, each
    written with its own spelling `p.2.1` of the keyword (any of the 32 mixtures of upper and lower case) and its own spelling
    `p.2.2` of its name (in double quotes, or bare when it consists of name characters), under any spacing, are parsed to the
    database the document declares. -/
theorem tables_spelling_inert (F : ColForm σ) (ap : Bool) (ps : List (FTab σ × Str × Str))
    (h : DocOK F ap { tables := ps.map (·.1) }) (hkw : ∀ p ∈ ps, p.2.1 ∈ kwTable) (hnm : ∀ p ∈ ps, Spells p.2.2 p.1.name)
    (gaps : List Nat) (m : Nat) (e' : EForm ap) (r' : List (EForm ap))
    (hforms : e' :: r' = ps.pmap (fun p (hp : F.specOK ap p.1 ∧ p.2.1 ∈ kwTable ∧ Spells p.2.2 p.1.name) =>
        F.tableEK ap p.1 p.2.1 p.2.2 (kwTable_facts p.2.1 hp.2.1) hp.2.2 hp.1)
      (fun p hp => ⟨h.tables p.1 (List.mem_map_of_mem hp), hkw p hp, hnm p hp⟩)) :
    Build.parse ap (docTextGT m e' ((gaps ++ List.replicate r'.length 0).zip r'))
      = .ok (DocSpec.db F ap ({ tables := ps.map (·.1) } : DocSpec σ)) := by
  apply document_faithful_variants F ap { tables := ps.map (·.1) } h gaps m e' r'
  rw [hforms, DocSpec.forms_elems]
  simp [DocSpec.elems, List.map_pmap, ColForm.tableEK, List.pmap_eq_map]

/-! ### the keyword `Enum` in any case -/

def kwEnum : List Str := caseVariants (lit "enum")

def KwFactsE (kw : Str) : Bool :=
  kw.length == 4 && startsWithCaseless kw (lit "enum") && kw.all (fun c => c != '\t')
    && (match kw with
        | k :: _ => !isWs k && k != '\n' && k != '/' && decide (k.toNat < 128)
            && !(pyUpper1 't' == pyUpper1 k) && !(pyUpper1 'r' == pyUpper1 k)
        | [] => false)

theorem kwEnum_facts : ∀ kw ∈ kwEnum, KwFactsE kw = true := by decide +kernel

theorem kwFactsE_elim (kw : Str) (h : KwFactsE kw = true) :
    kw.length = 4 ∧ startsWithCaseless kw (lit "enum") = true ∧ (∀ c ∈ kw, c ≠ '\t') ∧
      ∃ k ks, kw = k :: ks ∧ isWs k = false ∧ k ≠ '\n' ∧ k ≠ '/' ∧ k.toNat < 128
        ∧ (pyUpper1 't' == pyUpper1 k) = false ∧ (pyUpper1 'r' == pyUpper1 k) = false := by
  unfold KwFactsE at h
  cases kw with
  | nil => simp at h
  | cons k ks =>
    simp only [Bool.and_eq_true, beq_iff_eq, List.all_eq_true, bne_iff_ne, ne_eq, Bool.not_eq_true',
      decide_eq_true_eq] at h
    obtain ⟨⟨⟨h1, h2⟩, h3⟩, ⟨⟨⟨⟨⟨h4, h5⟩, h6⟩, h7⟩, h8⟩, h9⟩⟩ := h
    exact ⟨h1, h2, h3, k, ks, rfl, h4, h5, h6, h7, by simpa using h8, by simpa using h9⟩

/-- `nm` is a spelling of the enum name `en` (schema public): followed by ` {`, the enum-name rule reads `en` from it -/
def SpellsE (nm en : Str) : Prop :=
  (∀ c ∈ nm, c ≠ '\t') ∧ (∃ x xr, nm = x :: xr ∧ isWs x = false) ∧
    ∀ (c1 : Cur) (r : Str), (skipWs c1).rest = nm ++ ' ' :: '{' :: r → c1.pastEnd = false →
      ∃ c2, enumName c1 = .ok (none, en) c2 ∧ c2.rest = ' ' :: '{' :: r ∧ c2.pastEnd = false

theorem spellsE_quoted (en : Str) (h : NameOK en) : SpellsE ('"' :: (en ++ ['"'])) en := by
  refine ⟨?_, ⟨'"', en ++ ['"'], rfl, by decide⟩, ?_⟩
  · intro c hc
    simp only [List.mem_cons, List.mem_append, List.mem_nil_iff, or_false] at hc
    rcases hc with rfl | hc | rfl
    · decide
    · exact (h c hc).2.2.2
    · decide
  · intro c1 r hr hp
    exact enumName_ok c1 en (' ' :: '{' :: r) '{' r (by rw [hr]; simp) rfl (by decide) h hp

/-- the enum name written bare -/
theorem spellsE_bare (en : Str) (hne : en ≠ []) (hall : en.all isNameChar = true) : SpellsE en en := by
  obtain ⟨x, xr, rfl⟩ : ∃ x xr, en = x :: xr := by
    cases en with
    | nil => exact absurd rfl hne
    | cons a as => exact ⟨a, as, rfl⟩
  have hx : isNameChar x = true := by simp only [List.all_cons, Bool.and_eq_true] at hall; exact hall.1
  have hxw := (nameChar_facts x hx).1
  refine ⟨?_, ⟨x, xr, rfl, hxw⟩, ?_⟩
  · intro c hc
    exact nameChar_not_tab c (by simp only [List.all_eq_true] at hall; exact hall c hc)
  · intro c1 r hr hp
    have hstop : ∀ y, (' ' :: '{' :: r).head? = some y → isNameChar y = false := by
      intro y hy; simp at hy; subst hy; decide
    obtain ⟨c2, hnm, hr2, hp2⟩ := name_ok c1 (x :: xr) (' ' :: '{' :: r) hr (by simp) hall hstop hp
    have hsk : (skipWs (skipWs c1)).rest = (x :: xr) ++ ' ' :: '{' :: r := by rw [skipWs_idem]; exact hr
    obtain ⟨c2', hnm', hr2', hp2'⟩ := name_ok (skipWs c1) (x :: xr) (' ' :: '{' :: r) hsk (by simp) hall hstop (by simpa using hp)
    have hraw : nameRaw (skipWs c1) = .ok (x :: xr) c2' := by
      unfold nameRaw
      rw [hr]
      simp only [List.cons_append, hxw, Bool.false_eq_true, ↓reduceIte]
      exact hnm'
    have hdot : litRaw ['.'] c2' = .fail := litRaw_fail _ c2' (by rw [hr2']; simp [startsWith])
    refine ⟨c2, ?_, hr2, hp2⟩
    unfold enumName alt
    simp only [bind, pbind, hraw, hdot, hnm, pure, ppure]

def enumTextK (kw nm : Str) (is : List (Str × Str)) : Str :=
  kw ++ ' ' :: (nm ++ ' ' :: '{' :: (itemsTextN is ++ ['\n', '}']))

theorem enumTextK_Enum (en : Str) (is : List (Str × Str)) : enumTextK (lit "Enum") ('"' :: (en ++ ['"'])) is = enumTextN en is := by
  simp [enumTextK, enumTextN, lit]

/-- the enum rule on an enum whose keyword is spelt in any case -/
theorem enumRule_okK (c c0 : Cur) (kw nm en : Str) (is : List (Str × Str)) (post : Str) (Q : Cur → Prop)
    (hkw : KwFactsE kw = true) (hnm' : SpellsE nm en)
    (hb : cBefore c = .ok [] c0) (hc : c0.rest = enumTextK kw nm is ++ post) (hp : c0.pastEnd = false)
    (his : ∀ it ∈ is, ItemOK it) (hne : is ≠ [])
    (hend : ∀ c7 : Cur, c7.rest = post → c7.pastEnd = false → ∃ c9, endRule c7 = .ok () c9 ∧ Q c9) :
    ∃ c9, enumRule c = .ok (enumBpN en is) c9 ∧ Q c9 := by
  obtain ⟨hlen, hswc, _, k0, ks, rfl, hk1, _, _, _, _, _⟩ := kwFactsE_elim kw hkw
  obtain ⟨_, ⟨n0, nr, hn0, hn0w⟩, hname⟩ := hnm'
  have hc' : c0.rest = (k0 :: ks) ++ (' ' :: (nm ++ ' ' :: '{' :: (itemsTextN is ++ '\n' :: '}' :: post))) := by
    rw [hc]; simp [enumTextK]
  have hN : (skipWs c0).rest = (k0 :: ks) ++ (' ' :: (nm ++ ' ' :: '{' :: (itemsTextN is ++ '\n' :: '}' :: post))) :=
    skipWs_rest_head c0 k0 _ hc' hk1
  obtain ⟨c1, hk, hr1, hp1⟩ := clit_ok "enum" c0 (k0 :: ks)
    (' ' :: (nm ++ ' ' :: '{' :: (itemsTextN is ++ '\n' :: '}' :: post))) hN (by simpa using hlen)
    (startsWithCaseless_append _ _ _ hswc) hp
  have hN1 : (skipWs c1).rest = nm ++ ' ' :: '{' :: (itemsTextN is ++ '\n' :: '}' :: post) := by
    rw [hn0]
    exact skipWs_rest_spaces c1 1 n0 _ (by rw [hr1, hn0]; rfl) hn0w
  obtain ⟨c2, hnm, hr2, hp2⟩ := hname c1 _ hN1 hp1
  have hN2 : Next c2 '{' (itemsTextN is ++ '\n' :: '}' :: post) := skipWs_rest_spaces c2 1 '{' _ (by rw [hr2]; rfl) (by decide)
  obtain ⟨q3, q4⟩ := quiet_of_next c2 '{' _ hN2 (by decide) (by decide)
  have hs2 : skipNl c2 = .ok () c2 := skipNl_stay c2 q3 q4
  obtain ⟨c3, hbr, hr3, hp3⟩ := sym_ok "{" '{' rfl c2 _ hN2 hp2
  obtain ⟨i0, ir, rfl⟩ : ∃ i0 ir, is = i0 :: ir := by
    cases is with
    | nil => exact absurd rfl hne
    | cons a as => exact ⟨a, as, rfl⟩
  obtain ⟨c4, hit, hr4, hp4⟩ := enumItem_okN c3 i0 ir post (by rw [hr3]; simp [itemsTextN]) hp3 (his i0 (by simp))
  have hfuel : ir.length < c4.rest.length + 2 := by
    rw [hr4]; have := itemsTextN_length ir; simp; omega
  obtain ⟨c5, hm, hr5, hp5⟩ := many_itemsN ir post (fun q hq => his q (by simp [hq])) (c4.rest.length + 2) c4 hfuel hr4 hp4
  have hmany1 : many1 enumItem c3 = .ok ((i0 :: ir).map noteItem) c5 := by
    unfold many1 manyF fuelOf
    simp only [bind, pbind, hit, hm, pure, ppure, List.map_cons]
  have hN5 : (skipWs c5).rest = '\n' :: '}' :: post := skipWs_rest_head c5 '\n' _ hr5 (by decide)
  obtain ⟨c6, hle, hr6, hp6⟩ := lineEnd_nl c5 ('}' :: post) hN5 hp5
  have hN6 : Next c6 '}' post := skipWs_rest_head c6 '}' _ hr6 (by decide)
  obtain ⟨q5, q6⟩ := quiet_of_next c6 '}' _ hN6 (by decide) (by decide)
  have hs6 : skipNl c6 = .ok () c6 := skipNl_stay c6 q5 q6
  obtain ⟨c7, hcl, hr7, hp7⟩ := sym_ok "}" '}' rfl c6 _ hN6 hp6
  obtain ⟨c9, hend9, hQ⟩ := hend c7 hr7 hp7
  refine ⟨c9, ?_, hQ⟩
  unfold enumRule
  simp only [bind, pbind, hb, hk, cut, hnm, hs2, hbr, hmany1, hle, hs6, hcl, hend9, pure, ppure, enumBpN, joinBefore]
  rfl

/-- an enum whose keyword is spelt `kw` -/
def enumEK (ap : Bool) (e : ESpecN) (kw nm : Str) (hkw : KwFactsE kw = true) (hnm : SpellsE nm e.1) (he : ESpecNOK e) : EForm ap where
  pre := none
  head := kw.headD 'E'
  body := kw.tail ++ ' ' :: (nm ++ ' ' :: '{' :: (itemsTextN e.2 ++ ['\n', '}']))
  elem := mkEnumElemN e
  headOK := by
    obtain ⟨_, _, _, k, ks, rfl, h1, h2, h3, _⟩ := kwFactsE_elim kw hkw
    exact ⟨h1, h2, h3⟩
  headAscii := by
    obtain ⟨_, _, _, k, ks, rfl, _, _, _, h4, _⟩ := kwFactsE_elim kw hkw
    exact h4
  preOK := trivial
  noTab := by
    obtain ⟨_, _, h0, k, ks, rfl, _⟩ := kwFactsE_elim kw hkw
    intro c hc
    have e1 : (k :: ks).headD 'E' :: ((k :: ks).tail ++ ' ' :: (nm ++ ' ' :: '{' :: (itemsTextN e.2 ++ ['\n', '}'])))
        = (k :: ks) ++ [' '] ++ nm ++ [' ', '{'] ++ itemsTextN e.2 ++ ['\n', '}'] := by simp
    rw [e1] at hc
    simp only [List.mem_append] at hc
    rcases hc with ((((h | h) | h) | h) | h) | h
    · exact h0 c h
    · exact (by decide : ∀ c ∈ [' '], c ≠ '\t') c h
    · exact hnm.1 c h
    · exact (by decide : ∀ c ∈ [' ', '{'], c ≠ '\t') c h
    · exact itemsTextN_no_tab e.2 he.2.1 c h
    · exact (by decide : ∀ c ∈ ['\n', '}'], c ≠ '\t') c h
  parse := by
    intro c c0 post hb hr0 hp0 _ hends
    obtain ⟨_, _, _, k, ks, rfl, hk1, _, _, _, hkt, hkr⟩ := kwFactsE_elim kw hkw
    have hr0' : c0.rest = enumTextK (k :: ks) nm e.2 ++ post := by rw [hr0]; simp [enumTextK]
    have hN0 : Next c0 k _ := skipWs_rest_head c0 k _ (by rw [hr0]; rfl) hk1
    have htab : tableRule ap c = .fail :=
      tableRule_fail' ap c c0 [] hb (ckw_fail _ c0 _ _ hN0 (by simp [startsWithCaseless, hkt]))
    have href : refRule c = .fail :=
      refRule_fail' c c0 [] hb (clit_fail _ c0 _ _ hN0 (by simp [startsWithCaseless, hkr]))
    obtain ⟨c9, hrule, hQ⟩ := enumRule_okK c c0 (k :: ks) nm e.1 e.2 post (After post) hkw hnm hb hr0' hp0 he.2.1 he.2.2
      (fun c7 hr7 hp7 => endRule_afterE c7 post hends hr7 hp7)
    refine ⟨c9, ?_, hQ⟩
    unfold element alt mkEnumElemN
    simp only [bind, pbind, htab, href, hrule, pure, ppure]

theorem enumEK_elem (ap : Bool) (e : ESpecN) (kw nm : Str) (hkw : KwFactsE kw = true) (hnm : SpellsE nm e.1) (he : ESpecNOK e) :
    (enumEK ap e kw nm hkw hnm he).elem = (enumEN ap e he).elem := rfl

theorem enumEK_text (ap : Bool) (e : ESpecN) (kw nm : Str) (hkw : KwFactsE kw = true) (hnm : SpellsE nm e.1) (he : ESpecNOK e) :
    (enumEK ap e kw nm hkw hnm he).text = enumTextK kw nm e.2 := by
  obtain ⟨_, _, _, k, ks, rfl, _⟩ := kwFactsE_elim kw hkw
  simp [EForm.text, enumEK, commentText, enumTextK]

example : lit "ENUM" ∈ kwEnum ∧ kwEnum.length = 16 := by decide +kernel

/-! ### the keywords `Ref`, `Project` and `Note` in any case -/

/-- what the proofs need of a spelling `kw` of the keyword `w`, the first letters of the rules tried before it being `others` -/
def KwFactsG (w : Str) (others : List Char) (kw : Str) : Bool :=
  kw.length == w.length && startsWithCaseless kw w && kw.all (fun c => c != '\t')
    && (match kw with
        | k :: _ => !isWs k && k != '\n' && k != '/' && decide (k.toNat < 128)
            && others.all (fun o => !(pyUpper1 o == pyUpper1 k))
        | [] => false)

theorem kwFactsG_elim (w : Str) (others : List Char) (kw : Str) (h : KwFactsG w others kw = true) :
    kw.length = w.length ∧ startsWithCaseless kw w = true ∧ (∀ c ∈ kw, c ≠ '\t') ∧
      ∃ k ks, kw = k :: ks ∧ isWs k = false ∧ k ≠ '\n' ∧ k ≠ '/' ∧ k.toNat < 128
        ∧ ∀ o ∈ others, (pyUpper1 o == pyUpper1 k) = false := by
  unfold KwFactsG at h
  cases kw with
  | nil => simp at h
  | cons k ks =>
    simp only [Bool.and_eq_true, beq_iff_eq, List.all_eq_true, bne_iff_ne, ne_eq, Bool.not_eq_true',
      decide_eq_true_eq] at h
    obtain ⟨⟨⟨h1, h2⟩, h3⟩, ⟨⟨⟨⟨h4, h5⟩, h6⟩, h7⟩, h8⟩⟩ := h
    exact ⟨h1, h2, h3, k, ks, rfl, h4, h5, h6, h7, h8⟩

theorem swc_head_false (x : Char) (r : Str) (s : String) (k : Char) (ks : Str) (hs : s.toList = k :: ks)
    (h : (pyUpper1 k == pyUpper1 x) = false) : startsWithCaseless (x :: r) s.toList = false := swc_ne x r s k ks hs h

def kwRef : List Str := caseVariants (lit "ref")
def kwProject : List Str := caseVariants (lit "project")
def kwNote : List Str := caseVariants (lit "note")

theorem kwRef_facts : ∀ kw ∈ kwRef, KwFactsG (lit "ref") ['t'] kw = true := by decide +kernel
theorem kwProject_facts : ∀ kw ∈ kwProject, KwFactsG (lit "project") ['t', 'r', 'e'] kw = true := by decide +kernel
theorem kwNote_facts : ∀ kw ∈ kwNote, KwFactsG (lit "note") ['t', 'r', 'e', 'p'] kw = true := by decide +kernel

theorem refAfterKw_append (r : RText) (post : Str) : refAfterKw r [] ++ post = refAfterKw r post := by
  simp [refAfterKw, sideText]

/-- a standalone reference in block form whose keyword is spelt `kw` -/
def refEK (ap : Bool) (r : RText) (kw : Str) (hkw : KwFactsG (lit "ref") ['t'] kw = true) (hok : RTextOK r) : EForm ap where
  pre := none
  head := kw.headD 'R'
  body := kw.tail ++ refAfterKw r []
  elem := mkRefElem r
  headOK := by
    obtain ⟨_, _, _, k, ks, rfl, h1, h2, h3, _⟩ := kwFactsG_elim _ _ kw hkw
    exact ⟨h1, h2, h3⟩
  headAscii := by
    obtain ⟨_, _, _, k, ks, rfl, _, _, _, h4, _⟩ := kwFactsG_elim _ _ kw hkw
    exact h4
  preOK := trivial
  noTab := by
    obtain ⟨_, _, h0, k, ks, rfl, _⟩ := kwFactsG_elim _ _ kw hkw
    intro c hc
    simp only [List.headD_cons, List.tail_cons, List.mem_cons, List.mem_append] at hc
    rcases hc with rfl | hc | hc
    · exact h0 _ (by simp)
    · exact h0 _ (by simp [hc])
    · have := refTextP_no_tab r [] hok (by simp) c
      apply this
      show c ∈ 'R' :: 'e' :: 'f' :: refAfterKw r []
      simp [hc]
  parse := by
    intro c c0 post hb hr0 hp0 _ hends
    obtain ⟨hlen, hswc, _, k, ks, rfl, hk1, _, _, _, hoth⟩ := kwFactsG_elim _ _ kw hkw
    have hr0' : c0.rest = (k :: ks) ++ refAfterKw r post := by
      rw [hr0]; simp [refAfterKw_append]
    have hN0 : Next c0 k _ := skipWs_rest_head c0 k _ (by rw [hr0']; rfl) hk1
    have htab : tableRule ap c = .fail :=
      tableRule_fail' ap c c0 [] hb (ckw_fail _ c0 _ _ hN0 (swc_head_false k _ "table" 't' _ rfl (hoth 't' (by simp))))
    obtain ⟨c1, hk, hr1, hp1⟩ := clit_ok "ref" c0 (k :: ks) (refAfterKw r post)
      (skipWs_rest_head c0 k _ (by rw [hr0']; rfl) hk1) (by rw [hlen]; rfl) (startsWithCaseless_append _ _ _ hswc) hp0
    obtain ⟨c9, hrule, hQ⟩ := refRule_from c c0 c1 r post (After post) hb hk hr1 hp1 hok
      (fun c7 hr7 hp7 => refEnd_afterE c7 post hends hr7 hp7)
    refine ⟨c9, ?_, hQ⟩
    unfold element alt mkRefElem
    simp only [bind, pbind, htab, hrule, pure, ppure]

theorem refEK_elem (ap : Bool) (r : RText) (kw : Str) (hkw : KwFactsG (lit "ref") ['t'] kw = true) (hok : RTextOK r) :
    (refEK ap r kw hkw hok).elem = (refE ap r hok).elem := rfl

/-- the project with its keyword spelt `kw` -/
def projectEK (ap : Bool) (n : Str) (items : List (Str × Str)) (kw nm : Str)
    (hkw : KwFactsG (lit "project") ['t', 'r', 'e'] kw = true) (hnm : Spells nm n) (h : ProjectOK n items) : EForm ap where
  pre := none
  head := kw.headD 'P'
  body := kw.tail ++ ' ' :: (nm ++ ' ' :: '{' :: '\n' :: (fieldLines items ++ ['}']))
  elem := Bp.Elem.project (projectBpOf n items)
  headOK := by
    obtain ⟨_, _, _, k, ks, rfl, h1, h2, h3, _⟩ := kwFactsG_elim _ _ kw hkw
    exact ⟨h1, h2, h3⟩
  headAscii := by
    obtain ⟨_, _, _, k, ks, rfl, _, _, _, h4, _⟩ := kwFactsG_elim _ _ kw hkw
    exact h4
  preOK := trivial
  noTab := by
    obtain ⟨_, _, h0, k, ks, rfl, _⟩ := kwFactsG_elim _ _ kw hkw
    intro c hc
    have e : (k :: ks).headD 'P' :: ((k :: ks).tail ++ ' ' :: (nm ++ ' ' :: '{' :: '\n' :: (fieldLines items ++ ['}'])))
        = (k :: ks) ++ [' '] ++ nm ++ [' ', '{', '\n'] ++ fieldLines items ++ ['}'] := by simp
    rw [e] at hc
    simp only [List.mem_append] at hc
    rcases hc with ((((h' | h') | h') | h') | h') | h'
    · exact h0 c h'
    · exact (by decide : ∀ c ∈ [' '], c ≠ '\t') c h'
    · exact hnm.1 c h'
    · exact (by decide : ∀ c ∈ [' ', '{', '\n'], c ≠ '\t') c h'
    · exact fieldLines_no_tab items h.keys h.values c h'
    · exact (by decide : ∀ c ∈ ['}'], c ≠ '\t') c h'
  parse := by
    intro c c0 post hb hr0 hp0 _ hends
    obtain ⟨hlen, hswc, _, k, ks, rfl, hk1, _, _, _, hoth⟩ := kwFactsG_elim _ _ kw hkw
    have hr0' : c0.rest = (k :: ks) ++ (' ' :: (nm ++ ' ' :: '{' :: '\n' :: (fieldLines items ++ '}' :: post))) := by
      rw [hr0]; simp
    have hN0 : Next c0 k _ := skipWs_rest_head c0 k _ (by rw [hr0']; rfl) hk1
    have htab : tableRule ap c = .fail :=
      tableRule_fail' ap c c0 [] hb (ckw_fail _ c0 _ _ hN0 (swc_head_false k _ "table" 't' _ rfl (hoth 't' (by simp))))
    have href : refRule c = .fail :=
      refRule_fail' c c0 [] hb (clit_fail _ c0 _ _ hN0 (swc_head_false k _ "ref" 'r' _ rfl (hoth 'r' (by simp))))
    have henum : enumRule c = .fail :=
      enumRule_fail' c c0 [] hb (clit_fail _ c0 _ _ hN0 (swc_head_false k _ "enum" 'e' _ rfl (hoth 'e' (by simp))))
    have hgrp : tableGroupRule c = .fail :=
      tableGroupRule_fail' c c0 [] hb (clit_fail _ c0 _ _ hN0 (swc_head_false k _ "TableGroup" 'T' _ rfl (by
        have := hoth 't' (by simp); simpa [pyUpper1, asciiUpper] using this)))
    obtain ⟨c1, hk, hr1, hp1⟩ := clit_ok "project" c0 (k :: ks) _
      (skipWs_rest_head c0 k _ (by rw [hr0']; rfl) hk1) (by rw [hlen]; rfl) (startsWithCaseless_append _ _ _ hswc) hp0
    obtain ⟨c9, hrule, hQ⟩ := projectRule_from c c0 c1 nm n items post (After post) hb hk hr1 hp1 hnm h.keys h.values h.distinct
      (fun c7 hr7 hp7 => refEnd_afterE c7 post hends hr7 hp7)
    refine ⟨c9, ?_, hQ⟩
    unfold element alt
    simp only [bind, pbind, htab, href, henum, hgrp, hrule, pure, ppure]

theorem projectEK_elem (ap : Bool) (n : Str) (items : List (Str × Str)) (kw nm : Str)
    (hkw : KwFactsG (lit "project") ['t', 'r', 'e'] kw = true) (hnm : Spells nm n) (h : ProjectOK n items) :
    (projectEK ap n items kw nm hkw hnm h).elem = (projectE ap n items h).elem := rfl

/-- a sticky note with its keyword spelt `kw` and its name spelt `nm` -/
def stickyEK (ap : Bool) (s : Sticky) (kw nm : Str) (hkw : KwFactsG (lit "note") ['t', 'r', 'e', 'p'] kw = true)
    (hnm : Spells nm s.name) (hs : StickyOK s) : EForm ap where
  pre := none
  head := kw.headD 'N'
  body := kw.tail ++ ' ' :: (nm ++ tail1 s.text)
  elem := mkStickyElem s
  headOK := by
    obtain ⟨_, _, _, k, ks, rfl, h1, h2, h3, _⟩ := kwFactsG_elim _ _ kw hkw
    exact ⟨h1, h2, h3⟩
  headAscii := by
    obtain ⟨_, _, _, k, ks, rfl, _, _, _, h4, _⟩ := kwFactsG_elim _ _ kw hkw
    exact h4
  preOK := trivial
  noTab := by
    obtain ⟨_, _, h0, k, ks, rfl, _⟩ := kwFactsG_elim _ _ kw hkw
    intro c hc
    have e : (k :: ks).headD 'N' :: ((k :: ks).tail ++ ' ' :: (nm ++ tail1 s.text)) = (k :: ks) ++ [' '] ++ nm ++ tail1 s.text := by simp
    rw [e] at hc
    simp only [List.mem_append] at hc
    rcases hc with ((h' | h') | h') | h'
    · exact h0 c h'
    · exact (by decide : ∀ c ∈ [' '], c ≠ '\t') c h'
    · exact hnm.1 c h'
    · have := stickyText_no_tab s.name s.text hs.2.1 hs.2.2.1 c
      apply this
      show c ∈ 'N' :: 'o' :: 't' :: 'e' :: ' ' :: (s.name ++ tail1 s.text)
      simp [h']
  parse := by
    intro c c0 post hb hr0 hp0 _ hends
    obtain ⟨hlen, hswc, _, k, ks, rfl, hk1, _, _, _, hoth⟩ := kwFactsG_elim _ _ kw hkw
    have hr0' : c0.rest = (k :: ks) ++ (' ' :: (nm ++ ' ' :: '{' :: '\n' :: ' ' :: ' ' :: ' ' :: ' ' ::
        '\'' :: (prepareTextForDbml s.text ++ '\'' :: '\n' :: '}' :: post))) := by
      rw [hr0]; simp [tail1, tail2, tail3]
    have hN0 : Next c0 k _ := skipWs_rest_head c0 k _ (by rw [hr0']; rfl) hk1
    have htab : tableRule ap c = .fail :=
      tableRule_fail' ap c c0 [] hb (ckw_fail _ c0 _ _ hN0 (swc_head_false k _ "table" 't' _ rfl (hoth 't' (by simp))))
    have href : refRule c = .fail :=
      refRule_fail' c c0 [] hb (clit_fail _ c0 _ _ hN0 (swc_head_false k _ "ref" 'r' _ rfl (hoth 'r' (by simp))))
    have henum : enumRule c = .fail :=
      enumRule_fail' c c0 [] hb (clit_fail _ c0 _ _ hN0 (swc_head_false k _ "enum" 'e' _ rfl (hoth 'e' (by simp))))
    have hgrp : tableGroupRule c = .fail :=
      tableGroupRule_fail' c c0 [] hb (clit_fail _ c0 _ _ hN0 (swc_head_false k _ "TableGroup" 'T' _ rfl (by
        have := hoth 't' (by simp); simpa [pyUpper1, asciiUpper] using this)))
    have hprj : projectRule c = .fail :=
      projectRule_fail' c c0 [] hb (clit_fail _ c0 _ _ hN0 (swc_head_false k _ "project" 'p' _ rfl (hoth 'p' (by simp))))
    have h1 : C13.oneLine s.text = true := oneLine_of_plain' s.text hs.2.2.1
    obtain ⟨c1, hk, hr1, hp1⟩ := clit_ok "note" c0 (k :: ks) _
      (skipWs_rest_head c0 k _ (by rw [hr0']; rfl) hk1) (by rw [hlen]; rfl) (startsWithCaseless_append _ _ _ hswc) hp0
    obtain ⟨c9, hrule, hQ⟩ := stickyNoteRule_from c c0 c1 nm s.name s.text post (After post) hb hk hr1 hp1
      hnm h1 hs.2.2.2.1
      (fun c7 hr7 hp7 => endRule_afterE c7 post hends hr7 hp7)
    refine ⟨c9, ?_, hQ⟩
    unfold element alt mkStickyElem
    simp only [bind, pbind, htab, href, henum, hgrp, hprj, hrule, pure, ppure]

theorem stickyEK_elem (ap : Bool) (s : Sticky) (kw nm : Str) (hkw : KwFactsG (lit "note") ['t', 'r', 'e', 'p'] kw = true)
    (hnm : Spells nm s.name) (hs : StickyOK s) : (stickyEK ap s kw nm hkw hnm hs).elem = (stickyE ap s hs).elem := rfl

/-! ### the keyword `TableGroup` in any case -/

def kwGroup : List Str := caseVariants (lit "tablegroup")

/-- the first five letters spell `table` and a keyword character follows: `CaselessKeyword('table')` does not match there -/
def KwGroupShape (kw : Str) : Bool :=
  match kw with
  | _ :: _ :: _ :: _ :: _ :: g :: _ => isKwIdent g
  | _ => false

theorem kwGroup_facts : ∀ kw ∈ kwGroup, (KwFactsG (lit "TableGroup") ['r', 'e'] kw && KwGroupShape kw) = true := by decide +kernel

theorem ckw_table_fail_kwIdent (c0 : Cur) (a b c d e g : Char) (r : Str)
    (hr : (skipWs c0).rest = a :: b :: c :: d :: e :: g :: r) (hg : isKwIdent g = true) : ckw "table" c0 = .fail := by
  unfold ckw
  simp only [hr]
  have hadv : (advance (skipWs c0) "table".length).rest = g :: r := by
    rw [C13.advance_rest, hr]; rfl
  simp only [hadv]
  simp [hg]

/-- a table group with its keyword spelt `kw` -/
def groupEK (ap : Bool) (g : Str) (ns : List Str) (kw nm : Str)
    (hkw : (KwFactsG (lit "TableGroup") ['r', 'e'] kw && KwGroupShape kw) = true) (hnm : Spells nm g) (hg : NameOK g)
    (hns : ∀ n ∈ ns, NameOK n) : EForm ap where
  pre := none
  head := kw.headD 'T'
  body := kw.tail ++ ' ' :: (nm ++ ' ' :: '{' :: '\n' :: (memberLines ns ++ ['}']))
  elem := Bp.Elem.group (groupBpOf g ns)
  headOK := by
    obtain ⟨_, _, _, k, ks, rfl, h1, h2, h3, _⟩ := kwFactsG_elim _ _ kw (by simp only [Bool.and_eq_true] at hkw; exact hkw.1)
    exact ⟨h1, h2, h3⟩
  headAscii := by
    obtain ⟨_, _, _, k, ks, rfl, _, _, _, h4, _⟩ := kwFactsG_elim _ _ kw (by simp only [Bool.and_eq_true] at hkw; exact hkw.1)
    exact h4
  preOK := trivial
  noTab := by
    obtain ⟨_, _, h0, k, ks, rfl, _⟩ := kwFactsG_elim _ _ kw (by simp only [Bool.and_eq_true] at hkw; exact hkw.1)
    intro c hc
    have e : (k :: ks).headD 'T' :: ((k :: ks).tail ++ ' ' :: (nm ++ ' ' :: '{' :: '\n' :: (memberLines ns ++ ['}'])))
        = (k :: ks) ++ [' '] ++ nm ++ [' ', '{', '\n'] ++ memberLines ns ++ ['}'] := by simp
    rw [e] at hc
    simp only [List.mem_append] at hc
    rcases hc with ((((h' | h') | h') | h') | h') | h'
    · exact h0 c h'
    · exact (by decide : ∀ c ∈ [' '], c ≠ '\t') c h'
    · exact hnm.1 c h'
    · exact (by decide : ∀ c ∈ [' ', '{', '\n'], c ≠ '\t') c h'
    · apply (groupE ap g ns hg hns).noTab c
      show c ∈ 'T' :: (groupText g ns).tail
      simp [groupText, h']
    · exact (by decide : ∀ c ∈ ['}'], c ≠ '\t') c h'
  parse := by
    intro c c0 post hb hr0 hp0 _ hends
    have hkw1 : KwFactsG (lit "TableGroup") ['r', 'e'] kw = true := by simp only [Bool.and_eq_true] at hkw; exact hkw.1
    have hkw2 : KwGroupShape kw = true := by simp only [Bool.and_eq_true] at hkw; exact hkw.2
    obtain ⟨hlen, hswc, _, k, ks, rfl, hk1, _, _, _, hoth⟩ := kwFactsG_elim _ _ kw hkw1
    have hr0' : c0.rest = (k :: ks) ++ (' ' :: (nm ++ ' ' :: '{' :: '\n' :: (memberLines ns ++ '}' :: post))) := by
      rw [hr0]; simp
    have hN0 : Next c0 k _ := skipWs_rest_head c0 k _ (by rw [hr0']; rfl) hk1
    have htab : tableRule ap c = .fail := by
      obtain ⟨b1, b2, b3, b4, g5, r6, rfl⟩ : ∃ b1 b2 b3 b4 g5 r6, ks = b1 :: b2 :: b3 :: b4 :: g5 :: r6 := by
        unfold KwGroupShape at hkw2
        match ks, hkw2 with
        | b1 :: b2 :: b3 :: b4 :: g5 :: r6, _ => exact ⟨b1, b2, b3, b4, g5, r6, rfl⟩
      have hg5 : isKwIdent g5 = true := by simpa [KwGroupShape] using hkw2
      exact tableRule_fail' ap c c0 [] hb (ckw_table_fail_kwIdent c0 k b1 b2 b3 b4 g5 _ (by
        rw [show (skipWs c0).rest = _ from hN0]; rfl) hg5)
    have href : refRule c = .fail :=
      refRule_fail' c c0 [] hb (clit_fail _ c0 _ _ hN0 (swc_head_false k _ "ref" 'r' _ rfl (hoth 'r' (by simp))))
    have henum : enumRule c = .fail :=
      enumRule_fail' c c0 [] hb (clit_fail _ c0 _ _ hN0 (swc_head_false k _ "enum" 'e' _ rfl (hoth 'e' (by simp))))
    obtain ⟨c1, hk, hr1, hp1⟩ := clit_ok "TableGroup" c0 (k :: ks) _
      (skipWs_rest_head c0 k _ (by rw [hr0']; rfl) hk1) (by rw [hlen]; rfl) (startsWithCaseless_append _ _ _ hswc) hp0
    obtain ⟨c9, hrule, hQ⟩ := tableGroupRule_from c c0 c1 nm g ns post (After post) hb hk hr1 hp1 hnm hns
      (fun c7 hr7 hp7 => endRule_afterE c7 post hends hr7 hp7)
    refine ⟨c9, ?_, hQ⟩
    unfold element alt
    simp only [bind, pbind, htab, href, henum, hrule, pure, ppure]

theorem groupEK_elem (ap : Bool) (g : Str) (ns : List Str) (kw nm : Str)
    (hkw : (KwFactsG (lit "TableGroup") ['r', 'e'] kw && KwGroupShape kw) = true) (hnm : Spells nm g) (hg : NameOK g)
    (hns : ∀ n ∈ ns, NameOK n) : (groupEK ap g ns kw nm hkw hnm hg hns).elem = (groupE ap g ns hg hns).elem := rfl

example : lit "TABLEGROUP" ∈ kwGroup ∧ lit "tablegroup" ∈ kwGroup ∧ kwGroup.length = 1024 := by decide +kernel

example : lit "REF" ∈ kwRef ∧ lit "project" ∈ kwProject ∧ lit "NOTE" ∈ kwNote := by decide +kernel

/-- **keyword case of `Enum` and `Table` and the spelling of table names are inert**: the enums and tables of a covered
    document, each enum written with its own spelling `p.2.1` of its keyword and `p.2.2` of its name, each table with its own spelling `p.2.1` of its
    keyword and `p.2.2` of its name, under any spacing, are parsed to the database the document declares. -/
theorem enums_tables_spelling_inert (F : ColForm σ) (ap : Bool) (es : List (ESpecN × Str × Str)) (ps : List (FTab σ × Str × Str))
    (h : DocOK F ap { enums := es.map (·.1), tables := ps.map (·.1) })
    (hke : ∀ p ∈ es, p.2.1 ∈ kwEnum) (hne : ∀ p ∈ es, SpellsE p.2.2 p.1.1) (hkw : ∀ p ∈ ps, p.2.1 ∈ kwTable) (hnm : ∀ p ∈ ps, Spells p.2.2 p.1.name)
    (gaps : List Nat) (m : Nat) (e' : EForm ap) (r' : List (EForm ap))
    (hforms : e' :: r' =
      es.pmap (fun p (hp : ESpecNOK p.1 ∧ p.2.1 ∈ kwEnum ∧ SpellsE p.2.2 p.1.1) =>
          enumEK ap p.1 p.2.1 p.2.2 (kwEnum_facts p.2.1 hp.2.1) hp.2.2 hp.1)
        (fun p hp => ⟨h.enums p.1 (List.mem_map_of_mem hp), hke p hp, hne p hp⟩)
      ++ ps.pmap (fun p (hp : F.specOK ap p.1 ∧ p.2.1 ∈ kwTable ∧ Spells p.2.2 p.1.name) =>
        F.tableEK ap p.1 p.2.1 p.2.2 (kwTable_facts p.2.1 hp.2.1) hp.2.2 hp.1)
        (fun p hp => ⟨h.tables p.1 (List.mem_map_of_mem hp), hkw p hp, hnm p hp⟩)) :
    Build.parse ap (docTextGT m e' ((gaps ++ List.replicate r'.length 0).zip r'))
      = .ok (DocSpec.db F ap ({ enums := es.map (·.1), tables := ps.map (·.1) } : DocSpec σ)) := by
  apply document_faithful_variants F ap { enums := es.map (·.1), tables := ps.map (·.1) } h gaps m e' r'
  rw [hforms, DocSpec.forms_elems]
  simp [DocSpec.elems, List.map_pmap, ColForm.tableEK, enumEK, List.pmap_eq_map, Function.comp_def]

/-- non-vacuity: `TaBLe` is a spelling of the keyword, and the text of such a table -/
example : lit "TaBLe" ∈ kwTable ∧ kwTable.length = 32 := by decide +kernel

example : lit "TABLE" ++ flagForm.afterKw { name := lit "a", cols := [{ name := lit "id", type := lit "int", pk := true }] } (lit "a")
    = lit "TABLE a {\n    \"id\" int [pk]\n}" := by decide +kernel

example : Spells (lit "users") (lit "users") := spells_bare _ (by decide) (by decide)

end C02
end PyDBML
