/-
C02/C01/C05 — documents of tables (columns in any form that is read back, `ColForm`) FOLLOWED BY standalone
references between their columns: `form_refs_roundtrip`.  The generic version of `C02Refs.lean`; its text-level part
(`refRule_okP`, `many_refs`, …) is reused as it is.
-/
import PyDBMLProofs.Props.C02FormTables
import PyDBMLProofs.Props.C02Refs
namespace PyDBML
namespace C02
open Lex Grammar Build

variable {σ : Type}

/-! ### a document: tables, then references -/

def ColForm.docTailR (F : ColForm σ) : List (FTab σ) → List RText → Str
  | [], rs => refsTail rs
  | t :: ts, rs => '\n' :: '\n' :: F.tabTextP t (F.docTailR ts rs)

def ColForm.afterR (F : ColForm σ) : List (FTab σ) → List RText → Str
  | [], rs => refsAfter rs
  | t :: ts, rs => '\n' :: F.tabTextP t (F.docTailR ts rs)

def ColForm.docTextR (F : ColForm σ) : List (FTab σ) → List RText → Str
  | [], _ => []
  | t :: ts, rs => F.tabTextP t (F.docTailR ts rs)

theorem ColForm.docTailR_cases (F : ColForm σ) (ts : List (FTab σ)) (rs : List RText) :
    (ts = [] ∧ rs = [] ∧ F.docTailR ts rs = []) ∨ F.docTailR ts rs = '\n' :: F.afterR ts rs := by
  cases ts with
  | nil =>
    cases rs with
    | nil => left; exact ⟨rfl, rfl, rfl⟩
    | cons r t => right; simp [ColForm.docTailR, ColForm.afterR, refsTail, refsAfter]
  | cons t r => right; simp [ColForm.docTailR, ColForm.afterR]

theorem ColForm.endRule_afterR (F : ColForm σ) (ts : List (FTab σ)) (rs : List RText) (c7 : Cur)
    (hr7 : c7.rest = F.docTailR ts rs) (hp7 : c7.pastEnd = false) :
    ∃ c9, endRule c7 = .ok () c9 ∧ c9.rest = F.afterR ts rs ∧ c9.pastEnd = (ts.isEmpty && rs.isEmpty) := by
  rcases F.docTailR_cases ts rs with ⟨h1, h2, h3⟩ | h
  · subst h1; subst h2
    obtain ⟨c9, e1, e2, e3⟩ := endRule_eof c7 (by rw [hr7, h3]) hp7
    exact ⟨c9, e1, by simpa [ColForm.afterR, refsAfter] using e2, by simpa using e3⟩
  · obtain ⟨c9, e1, e2, e3⟩ := endRule_nl c7 (F.afterR ts rs) (by rw [hr7, h]) hp7
    refine ⟨c9, e1, e2, ?_⟩
    rw [e3]
    cases ts with
    | nil =>
      cases rs with
      | nil => simp [ColForm.docTailR, refsTail] at h
      | cons r t => simp
    | cons t' r' => simp

theorem ColForm.element_table_afterR (F : ColForm σ) (ap : Bool) (c : Cur) (t : FTab σ) (ts : List (FTab σ))
    (rs : List RText) (ht : F.specOK ap t) (hc : c.rest = F.afterR (t :: ts) rs) (hp : c.pastEnd = false) :
    ∃ c9, element ap c = .ok (F.mkElem t) c9 ∧ c9.rest = F.afterR ts rs ∧ c9.pastEnd = (ts.isEmpty && rs.isEmpty) := by
  obtain ⟨c0, hb, hr0, hp0, hpv0⟩ := cBefore_nl_comment c t.comment 'T' _ (by decide) (by decide) (by decide)
    (show c.rest = '\n' :: (commentText t.comment ++ F.tableTextP t.name t.cols t.note (F.docTailR ts rs)) by rw [hc]; rfl) hp ht.2.2.2.1
  obtain ⟨c9, hrule, hQ⟩ := F.tableRule_okP ap c c0 t.name t.cols t.note (F.docTailR ts rs)
    (fun c9 => c9.rest = F.afterR ts rs ∧ c9.pastEnd = (ts.isEmpty && rs.isEmpty)) (cmList t.comment) hb hr0 hp0
    hpv0 ht.1 ht.2.1 ht.2.2.1 ht.2.2.2.2
    (fun c7 hr7 hp7 => F.endRule_afterR ts rs c7 hr7 hp7)
  refine ⟨c9, ?_, hQ.1, hQ.2⟩
  unfold element alt ColForm.mkElem
  rw [joinBefore_cmList] at hrule
  simp only [bind, pbind, hrule, pure, ppure]

theorem ColForm.afterR_le_docTailR (F : ColForm σ) (r : List (FTab σ)) (rs : List RText) :
    (F.afterR r rs).length ≤ (F.docTailR r rs).length := by
  rcases F.docTailR_cases r rs with ⟨h1, h2, _⟩ | h
  · subst h1; subst h2; simp [ColForm.afterR, refsAfter]
  · rw [h]; simp

theorem ColForm.afterR_length (F : ColForm σ) (ts : List (FTab σ)) (rs : List RText) :
    ts.length + rs.length ≤ (F.afterR ts rs).length := by
  induction ts with
  | nil => simpa [ColForm.afterR] using refsAfter_length rs
  | cons t r ih =>
    have hd := F.afterR_le_docTailR r rs
    have h := F.tabTextP_length t (F.docTailR r rs)
    rw [show F.afterR (t :: r) rs = '\n' :: F.tabTextP t (F.docTailR r rs) from rfl]
    simp only [List.length_cons]
    omega

theorem ColForm.many_docR (F : ColForm σ) (ap : Bool) (rs : List RText) (hrs : ∀ r ∈ rs, RTextOK r) :
    ∀ (ts : List (FTab σ)) (fuel : Nat) (c : Cur), ts.length + rs.length < fuel →
    (∀ t ∈ ts, F.specOK ap t) → c.rest = F.afterR ts rs → c.pastEnd = (ts.isEmpty && rs.isEmpty) →
    ∃ c', many (element ap) fuel c = .ok (ts.map F.mkElem ++ rs.map mkRefElem) c' ∧ c'.rest = [] ∧ c'.pastEnd = true := by
  intro ts
  induction ts with
  | nil =>
    intro fuel c hf _ hc hp
    have := many_refs ap rs fuel c (by simpa using hf) hrs (by simpa [ColForm.afterR] using hc) (by simpa using hp)
    simpa using this
  | cons t r ih =>
    intro fuel c hf hok hc hp
    obtain ⟨f, rfl⟩ : ∃ f, fuel = f + 1 := ⟨fuel - 1, by simp at hf; omega⟩
    have hp' : c.pastEnd = false := by simpa using hp
    obtain ⟨c1, hel, hr1, hp1⟩ := F.element_table_afterR ap c t r rs (hok t (by simp)) hc hp'
    obtain ⟨c2, hm, hr2, hp2⟩ := ih f c1 (by simp at hf; omega) (fun q hq => hok q (by simp [hq])) hr1 hp1
    refine ⟨c2, ?_, hr2, hp2⟩
    have hlen : c1.rest.length ≠ c.rest.length := by
      rw [hr1, hc]
      have hd := F.afterR_le_docTailR r rs
      have h := F.tabTextP_length t (F.docTailR r rs)
      rw [show F.afterR (t :: r) rs = '\n' :: F.tabTextP t (F.docTailR r rs) from rfl]
      simp only [List.length_cons]
      omega
    rw [many]
    simp only [hel, hlen, decide_false, Bool.false_and, Bool.false_eq_true, ↓reduceIte, hm, List.map_cons, List.cons_append]

theorem ColForm.docTailR_no_tab (F : ColForm σ) (ap : Bool) (rs : List RText) (hrs : ∀ r ∈ rs, RTextOK r) :
    ∀ (ts : List (FTab σ)), (∀ t ∈ ts, F.specOK ap t) → ∀ x ∈ F.docTailR ts rs, x ≠ '\t' := by
  intro ts
  induction ts with
  | nil => intro _ x hx; exact refsTail_no_tab rs hrs x (by simpa [ColForm.docTailR] using hx)
  | cons t r ih =>
    intro hok x hx
    have e : F.docTailR (t :: r) rs = ['\n', '\n'] ++ F.tabText t ++ F.docTailR r rs := by
      simp [ColForm.docTailR, F.tabTextP_append]
    rw [e] at hx
    simp only [List.mem_append] at hx
    rcases hx with (h | h) | h
    · exact (by decide : ∀ c ∈ ['\n', '\n'], c ≠ '\t') x h
    · exact F.tabText_no_tab ap t (hok t (by simp)) x h
    · exact ih (fun q hq => hok q (by simp [hq])) x h

theorem ColForm.parseDoc_tables_refs (F : ColForm σ) (ap : Bool) (ts : List (FTab σ)) (rs : List RText)
    (hok : ∀ t ∈ ts, F.specOK ap t) (hrs : ∀ r ∈ rs, RTextOK r) (hne : ts ≠ []) :
    ∃ c', parseDoc ap (F.docTextR ts rs) = .ok (ts.map F.mkElem ++ rs.map mkRefElem) c' := by
  obtain ⟨t, r, rfl⟩ : ∃ t r, ts = t :: r := by
    cases ts with
    | nil => exact absurd rfl hne
    | cons a as => exact ⟨a, as, rfl⟩
  have ht := hok t (by simp)
  have hnotab : ∀ x ∈ F.docTextR (t :: r) rs, x ≠ '\t' := by
    intro x hx
    have e : F.docTextR (t :: r) rs = F.tabText t ++ F.docTailR r rs := by
      simp [ColForm.docTextR, F.tabTextP_append]
    rw [e] at hx
    rcases List.mem_append.mp hx with h | h
    · exact F.tabText_no_tab ap t ht x h
    · exact F.docTailR_no_tab ap rs hrs r (fun q hq => hok q (by simp [hq])) x h
  unfold parseDoc expandTabs
  rw [expandTabsAux_plain 0 _ hnotab]
  let c0 : Cur := { rest := F.docTextR (t :: r) rs }
  obtain ⟨cb, hb, hrb, hpb, hpvb⟩ := cBefore_comment c0 t.comment 'T' _ (by decide) (by decide) (by decide)
    (show c0.rest = commentText t.comment ++ F.tableTextP t.name t.cols t.note (F.docTailR r rs) from rfl) rfl ht.2.2.2.1
    (by intro p hpp; cases hpp)
  obtain ⟨c1, hrule, hr1, hp1⟩ := F.tableRule_okP ap c0 cb t.name t.cols t.note (F.docTailR r rs)
    (fun c9 => c9.rest = F.afterR r rs ∧ c9.pastEnd = (r.isEmpty && rs.isEmpty)) (cmList t.comment) hb hrb hpb
    hpvb ht.1 ht.2.1 ht.2.2.1 ht.2.2.2.2 (fun c7 hr7 hp7 => F.endRule_afterR r rs c7 hr7 hp7)
  have hel : element ap c0 = .ok (F.mkElem t) c1 := by
    unfold element alt ColForm.mkElem
    rw [joinBefore_cmList] at hrule
    simp only [bind, pbind, hrule, pure, ppure]
  have hd := F.afterR_le_docTailR r rs
  have hlen0 : (F.afterR r rs).length < (F.docTextR (t :: r) rs).length := by
    have h := F.tabTextP_length t (F.docTailR r rs)
    rw [show F.docTextR (t :: r) rs = F.tabTextP t (F.docTailR r rs) from rfl]
    omega
  have hfuel : r.length + rs.length < c0.rest.length + 1 := by
    have := F.afterR_length r rs
    show r.length + rs.length < (F.docTextR (t :: r) rs).length + 1
    omega
  obtain ⟨c2, hm, hr2, hp2⟩ := F.many_docR ap rs hrs r (c0.rest.length + 1) c1 hfuel (fun q hq => hok q (by simp [hq])) hr1 hp1
  have hmany : manyF (element ap) c0 = .ok ((t :: r).map F.mkElem ++ rs.map mkRefElem) c2 := by
    unfold manyF fuelOf
    have hlen : c1.rest.length ≠ c0.rest.length := by
      rw [hr1]
      show (F.afterR r rs).length ≠ (F.docTextR (t :: r) rs).length
      omega
    rw [many]
    simp only [hel, hlen, decide_false, Bool.false_and, Bool.false_eq_true, ↓reduceIte, hm, List.map_cons, List.cons_append]
  obtain ⟨c9, hse⟩ := stringEnd_eof c2 (skipWs_rest_nil c2 hr2)
  refine ⟨c9, ?_⟩
  show document ap c0 = _
  unfold document
  simp only [bind, pbind, hmany, skipNl_pastEnd c2 hp2, hse, pure, ppure]

/-! ### the build: names are resolved back to the positions they were written from -/

/-- the name a column is known by -/
def ColForm.cname (F : ColForm σ) (s : σ) : Str := (F.col s).name

def ColForm.tnameAt (_F : ColForm σ) (ts : List (FTab σ)) (i : Nat) : Str := ((ts[i]?).map (·.name)).getD []
def ColForm.cnameAt (F : ColForm σ) (ts : List (FTab σ)) (i j : Nat) : Str :=
  (((ts[i]?).bind fun t => t.cols[j]?).map F.cname).getD []

/-- the names a positional reference is written with -/
def ColForm.rtext (F : ColForm σ) (ts : List (FTab σ)) (r : RSpec) : RText :=
  { kind := r.kind, t1 := F.tnameAt ts r.t1, c1 := F.cnameAt ts r.t1 r.c1, t2 := F.tnameAt ts r.t2, c2 := F.cnameAt ts r.t2 r.c2 }

/-- what makes names resolvable: exactly the recorded findings are excluded -/
structure ColForm.Resolvable (F : ColForm σ) (ts : List (FTab σ)) : Prop where
  /-- table names are pairwise different -/
  tnames : ts.Pairwise (fun a b => a.name ≠ b.name)
  /-- no dot in a table name (KF-C01-dotted-quoted-name / alias shadowing of `schema.name` keys) -/
  nodot : ∀ t ∈ ts, '.' ∉ t.name
  /-- column names of one table are pairwise different (DuplicateColumnName) -/
  cnames : ∀ t ∈ ts, t.cols.Pairwise (fun a b => F.cname a ≠ F.cname b)
  /-- a column name is one piece and survives `strip('() ')` (KF-C01-ref-column-split) -/
  cplain : ∀ t ∈ ts, ∀ c ∈ t.cols, splitComma (F.cname c) = [F.cname c] ∧ stripParenSpace (F.cname c) = F.cname c

def ColForm.RSpecIn (_F : ColForm σ) (ts : List (FTab σ)) (r : RSpec) : Prop :=
  ∃ ta tb, ts[r.t1]? = some ta ∧ ts[r.t2]? = some tb ∧ r.c1 < ta.cols.length ∧ r.c2 < tb.cols.length

theorem getElem_of_getElem? {α} (l : List α) (i : Nat) (a : α) (h : l[i]? = some a) : ∃ hl : i < l.length, l[i] = a := by
  have hl : i < l.length := by
    rcases Nat.lt_or_ge i l.length with h' | h'
    · exact h'
    · rw [List.getElem?_eq_none h'] at h; cases h
  refine ⟨hl, ?_⟩
  have := List.getElem?_eq_getElem hl
  rw [this] at h; exact Option.some.inj h

theorem ColForm.findKey_ok (F : ColForm σ) (ts : List (FTab σ)) (hr : F.Resolvable ts) (i : Nat) (t : FTab σ)
    (hi : ts[i]? = some t) :
    findKey (ts.map F.mkTable) t.name = none ∧ findKey (ts.map F.mkTable) (fullName (lit "public") t.name) = some i := by
  obtain ⟨hlen, hti⟩ := getElem_of_getElem? ts i t hi
  have htm : t ∈ ts := List.mem_of_getElem? hi
  constructor
  · unfold findKey
    rw [List.find?_eq_none]
    intro j hj
    simp only [List.mem_reverse, List.mem_range, List.length_map] at hj
    simp only [List.getElem?_map, List.getElem?_eq_getElem hj, Option.map_some, ColForm.mkTable, ColForm.table, Table.fullName]
    simp only [Bool.or_eq_true, beq_iff_eq, not_or]
    exact ⟨fullName_public_ne _ _ (hr.nodot t htm), by simp⟩
  · unfold findKey
    rw [List.length_map]
    apply find_unique ts.length _ i hlen
    · simp [List.getElem?_map, hi, ColForm.mkTable, ColForm.table, Table.fullName]
    · intro j hj hpj
      simp only [List.getElem?_map, List.getElem?_eq_getElem hj, Option.map_some, ColForm.mkTable, ColForm.table, Table.fullName,
        Bool.or_eq_true, beq_iff_eq] at hpj
      rcases hpj with h | h
      · have hname : ts[j].name = t.name := fullName_inj _ _ h
        rcases Nat.lt_trichotomy j i with hlt | heq | hgt
        · have := (List.pairwise_iff_getElem.mp hr.tnames) j i hj hlen hlt
          exact absurd (by rw [hname, hti]) this
        · exact heq
        · have := (List.pairwise_iff_getElem.mp hr.tnames) i j hlen hj hgt
          exact absurd (by rw [hname, hti]) this
      · cases h

theorem ColForm.locateTable_ok (F : ColForm σ) (ts : List (FTab σ)) (hr : F.Resolvable ts) (i : Nat) (t : FTab σ)
    (hi : ts[i]? = some t) : locateTable (ts.map F.mkTable) (lit "public") t.name = .ok i := by
  obtain ⟨h1, h2⟩ := F.findKey_ok ts hr i t hi
  unfold locateTable
  simp [h1, h2, pure, Except.pure]

theorem ColForm.colsAt_ok (F : ColForm σ) (ts : List (FTab σ)) (hr : F.Resolvable ts) (i j : Nat) (t : FTab σ) (c : σ)
    (hi : ts[i]? = some t) (hj : t.cols[j]? = some c) : colsAt (ts.map F.mkTable) i (F.cname c) = .ok [j] := by
  have htm : t ∈ ts := List.mem_of_getElem? hi
  have hcm : c ∈ t.cols := List.mem_of_getElem? hj
  obtain ⟨hsplit, hstrip⟩ := hr.cplain t htm c hcm
  obtain ⟨hjl, hcj⟩ := getElem_of_getElem? t.cols j c hj
  unfold colsAt
  simp only [List.getElem?_map, hi, Option.map_some]
  unfold locateCols
  rw [hsplit]
  simp only [List.mapM_cons, List.mapM_nil, hstrip]
  have hfind : (F.mkTable t).columns.findIdx? (fun x => x.name == F.cname c) = some j := by
    simp only [ColForm.mkTable, ColForm.table]
    apply findIdx_unique _ _ j (by simpa using hjl)
    · simp [ColForm.cname, hcj]
    · intro k hk hpk
      have hk' : k < t.cols.length := by simpa using hk
      simp only [List.getElem_map, beq_iff_eq] at hpk
      rcases Nat.lt_trichotomy k j with hlt | heq | hgt
      · have := (List.pairwise_iff_getElem.mp (hr.cnames t htm)) k j hk' hjl hlt
        exact absurd (by rw [hcj]; exact hpk) this
      · exact heq
      · have := (List.pairwise_iff_getElem.mp (hr.cnames t htm)) j k hjl hk' hgt
        exact absurd (by rw [hcj]; exact hpk.symm) this
  rw [hfind]
  rfl

/-- **names resolve to the positions they were written from** -/
theorem ColForm.buildRef_ok (F : ColForm σ) (ts : List (FTab σ)) (hr : F.Resolvable ts) (r : RSpec)
    (hin : F.RSpecIn ts r) (db : Db) (hdb : db.tables = ts.map F.mkTable) :
    buildRef db (refBp (F.rtext ts r)) = .ok (mkRef r) := by
  obtain ⟨ta, tb, h1, h2, hc1, hc2⟩ := hin
  have hca : ta.cols[r.c1]? = some ta.cols[r.c1] := List.getElem?_eq_getElem hc1
  have hcb : tb.cols[r.c2]? = some tb.cols[r.c2] := List.getElem?_eq_getElem hc2
  have e1 : F.tnameAt ts r.t1 = ta.name := by simp [ColForm.tnameAt, h1]
  have e2 : F.tnameAt ts r.t2 = tb.name := by simp [ColForm.tnameAt, h2]
  have e3 : F.cnameAt ts r.t1 r.c1 = F.cname (ta.cols[r.c1]) := by simp [ColForm.cnameAt, h1, hca]
  have e4 : F.cnameAt ts r.t2 r.c2 = F.cname (tb.cols[r.c2]) := by simp [ColForm.cnameAt, h2, hcb]
  unfold buildRef
  simp only [refBp, ColForm.rtext, hdb, e1, e2, e3, e4, F.locateTable_ok ts hr r.t1 ta h1, F.locateTable_ok ts hr r.t2 tb h2,
    F.colsAt_ok ts hr r.t1 r.c1 ta _ h1 hca, F.colsAt_ok ts hr r.t2 r.c2 tb _ h2 hcb, bind, Except.bind, pure, Except.pure]
  rfl

/-! ### duplicates: two written references are equal only when they are the same -/

theorem ColForm.colEq_ok (F : ColForm σ) (ts : List (FTab σ)) (hr : F.Resolvable ts) (db : Db)
    (hdb : db.tables = ts.map F.mkTable) (ti ci tj cj : Nat) (ta tb : FTab σ) (hi : ts[ti]? = some ta)
    (hj : ts[tj]? = some tb) (hci : ci < ta.cols.length) (hcj : cj < tb.cols.length)
    (h : Dbml.colEq db ti ci tj cj = true) : ti = tj ∧ ci = cj := by
  unfold Dbml.colEq at h
  simp only [Bool.or_eq_true, Bool.and_eq_true, beq_iff_eq] at h
  rcases h with h | h
  · exact h
  · rw [hdb] at h
    simp only [List.getElem?_map, hi, hj, Option.map_some, Bool.and_eq_true, beq_iff_eq] at h
    obtain ⟨hfn, hcols⟩ := h
    obtain ⟨hil, hta⟩ := getElem_of_getElem? ts ti ta hi
    obtain ⟨hjl, htb⟩ := getElem_of_getElem? ts tj tb hj
    have hname : ta.name = tb.name := by
      simp only [ColForm.mkTable, ColForm.table, Table.fullName] at hfn
      exact fullName_inj _ _ hfn
    have htt : ti = tj := by
      rcases Nat.lt_trichotomy ti tj with hlt | heq | hgt
      · exact absurd (by rw [hta, htb]; exact hname) ((List.pairwise_iff_getElem.mp hr.tnames) ti tj hil hjl hlt)
      · exact heq
      · exact absurd (by rw [hta, htb]; exact hname.symm) ((List.pairwise_iff_getElem.mp hr.tnames) tj ti hjl hil hgt)
    subst htt
    have hab : ta = tb := by rw [hi] at hj; exact Option.some.inj hj
    subst hab
    refine ⟨rfl, ?_⟩
    simp only [ColForm.mkTable, ColForm.table, List.getElem?_map, List.getElem?_eq_getElem hci, List.getElem?_eq_getElem hcj,
      Option.map_some, beq_iff_eq] at hcols
    have hcn : F.cname (ta.cols[ci]) = F.cname (ta.cols[cj]) := congrArg Column.name hcols
    have htm : ta ∈ ts := List.mem_of_getElem? hi
    rcases Nat.lt_trichotomy ci cj with hlt | heq | hgt
    · exact absurd hcn ((List.pairwise_iff_getElem.mp (hr.cnames ta htm)) ci cj hci hcj hlt)
    · exact heq
    · exact absurd hcn.symm ((List.pairwise_iff_getElem.mp (hr.cnames ta htm)) cj ci hcj hci hgt)

theorem ColForm.refEq_ok (F : ColForm σ) (ts : List (FTab σ)) (hr : F.Resolvable ts) (db : Db)
    (hdb : db.tables = ts.map F.mkTable) (r m : RSpec) (hr1 : F.RSpecIn ts r) (hm1 : F.RSpecIn ts m)
    (h : refEq db (mkRef r) (mkRef m) = true) : r = m := by
  obtain ⟨ra, rb, h1, h2, h3, h4⟩ := hr1
  obtain ⟨ma, mb, g1, g2, g3, g4⟩ := hm1
  unfold refEq at h
  simp only [mkRef, Bool.and_eq_true, beq_iff_eq, List.zip_cons_cons, List.zip_nil_right, List.all_cons, List.all_nil,
    Bool.and_true] at h
  obtain ⟨⟨⟨⟨⟨⟨⟨hk, _⟩, _⟩, _⟩, _⟩, _⟩, hc1⟩, hc2⟩ := h
  obtain ⟨e1, e2⟩ := F.colEq_ok ts hr db hdb _ _ _ _ ra ma h1 g1 h3 g3 hc1
  obtain ⟨e3, e4⟩ := F.colEq_ok ts hr db hdb _ _ _ _ rb mb h2 g2 h4 g4 hc2
  cases r; cases m
  simp_all

theorem ColForm.foldlM_refs (F : ColForm σ) (ts : List (FTab σ)) (hr : F.Resolvable ts) (db1 : Db)
    (hdb : db1.tables = ts.map F.mkTable) :
    ∀ (todo done : List RSpec), (∀ r ∈ done ++ todo, F.RSpecIn ts r) → (done ++ todo).Nodup →
    (todo.map fun r => refBp (F.rtext ts r)).foldlM (refStep db1) (done.map mkRef) = .ok ((done ++ todo).map mkRef) := by
  intro todo
  induction todo with
  | nil => intro done _ _; simp [pure, Except.pure]
  | cons r t ih =>
    intro done hin hnd
    rw [List.map_cons, List.foldlM_cons]
    have hrin : F.RSpecIn ts r := hin r (by simp)
    have hstep : refStep db1 (done.map mkRef) (refBp (F.rtext ts r)) = .ok ((done ++ [r]).map mkRef) := by
      unfold refStep
      rw [F.buildRef_ok ts hr r hrin db1 hdb]
      simp only [bind, Except.bind]
      have hno : (done.map mkRef).any (fun m => refEq { db1 with refs := done.map mkRef } (mkRef r) m) = false := by
        rw [List.any_eq_false]
        intro m hm
        obtain ⟨d, hd, rfl⟩ := List.mem_map.mp hm
        intro heq
        have := F.refEq_ok ts hr { db1 with refs := done.map mkRef } hdb r d hrin (hin d (by simp [hd])) heq
        subst this
        have := List.nodup_append.mp hnd
        exact this.2.2 r hd r (by simp) rfl
      simp [hno, pure, Except.pure]
    rw [hstep]
    simp only [bind, Except.bind]
    have := ih (done ++ [r]) (by simpa using hin) (by simpa using hnd)
    simpa using this

/-! ### the database that is built -/

def ColForm.mkDb (F : ColForm σ) (ap : Bool) (ts : List (FTab σ)) (rs : List RSpec) : Db :=
  { tables := ts.map F.mkTable, refs := rs.map mkRef, allowProps := ap }

theorem refBlueprints_append (a b : List Bp.Elem) : refBlueprints (a ++ b) = refBlueprints a ++ refBlueprints b := by
  simp [refBlueprints, List.flatMap_append]

theorem refBlueprints_refElems (l : List RText) : refBlueprints (l.map mkRefElem) = l.map refBp := by
  induction l with
  | nil => rfl
  | cons x xs ih =>
    simp only [refBlueprints, List.map_cons, List.flatMap_cons, mkRefElem] at ih ⊢
    rw [ih]
    rfl

theorem ColForm.build_tables_refs (F : ColForm σ) (ap : Bool) (ts : List (FTab σ)) (rs : List RSpec)
    (hr : F.Resolvable ts) (hok : ∀ t ∈ ts, F.allOK ap t.cols) (hin : ∀ r ∈ rs, F.RSpecIn ts r) (hnd : rs.Nodup)
    (hno : ∀ t ∈ ts, ∀ s ∈ t.cols, F.irefs s = []) (hnn : ∀ t ∈ ts, norm t.note = t.note) :
    buildDatabase ap (ts.map F.mkElem ++ (rs.map (F.rtext ts)).map mkRefElem) = .ok (F.mkDb ap ts rs) := by
  have hT : tableBps (ts.map F.mkElem ++ (rs.map (F.rtext ts)).map mkRefElem) = ts.map fun t => F.tableBpC t.name t.cols t.note t.comment := by
    simp [tableBps, ColForm.mkElem, mkRefElem, List.filterMap_append, List.filterMap_map, Function.comp_def]
  have hE : enumBps (ts.map F.mkElem ++ (rs.map (F.rtext ts)).map mkRefElem) = [] := by
    simp [enumBps, ColForm.mkElem, mkRefElem, List.filterMap_append, List.filterMap_map, Function.comp_def]
  have hG : groupBps (ts.map F.mkElem ++ (rs.map (F.rtext ts)).map mkRefElem) = [] := by
    simp [groupBps, ColForm.mkElem, mkRefElem, List.filterMap_append, List.filterMap_map, Function.comp_def]
  have hS : stickyBps (ts.map F.mkElem ++ (rs.map (F.rtext ts)).map mkRefElem) = [] := by
    simp [stickyBps, ColForm.mkElem, mkRefElem, List.filterMap_append, List.filterMap_map, Function.comp_def]
  have hP : projectBp (ts.map F.mkElem ++ (rs.map (F.rtext ts)).map mkRefElem) = none := by
    simp [projectBp, ColForm.mkElem, mkRefElem, List.filterMap_append, List.filterMap_map, Function.comp_def]
  have hR : refBlueprints (ts.map F.mkElem ++ (rs.map (F.rtext ts)).map mkRefElem) = rs.map fun r => refBp (F.rtext ts r) := by
    have h1 : refBlueprints (ts.map F.mkElem) = [] := by
      simp only [refBlueprints, ColForm.mkElem, List.flatMap_map, List.flatMap_eq_nil_iff]
      intro t ht
      simp only [ColForm.tableBpC, List.flatMap_eq_nil_iff]
      intro b hb
      obtain ⟨s, hs, rfl⟩ := List.mem_map.mp hb
      simp [F.norefs s (hno t ht s hs)]
    rw [refBlueprints_append, h1, refBlueprints_refElems]
    simp [List.map_map, Function.comp_def]
  have hF := F.foldlM_tables ap [] ts [] (by simpa using hr.tnames) hok (fun t _ => F.noShadow_nil t) hnn
  simp only [List.map_nil, List.nil_append] at hF
  have hRf := F.foldlM_refs ts hr { tables := ts.map F.mkTable, enums := [], allowProps := ap, groups := [], sticky := [], project := none }
    rfl rs [] (by simpa using hin) (by simpa using hnd)
  simp only [List.map_nil, List.nil_append] at hRf
  unfold buildDatabase
  simp only [hT, hE, hG, hS, hP, hR, List.foldlM_nil, pure, Except.pure, bind, Except.bind, hF, buildProject, List.map_nil]
  rw [hRf]
  rfl

/-! ### the rendering of tables and references -/

theorem ColForm.renderRef_ok (F : ColForm σ) (ap : Bool) (ts : List (FTab σ)) (rs : List RSpec) (r : RSpec)
    (hin : F.RSpecIn ts r) : Dbml.renderRef (F.mkDb ap ts rs) (mkRef r) = .ok (refText (F.rtext ts r)) := by
  obtain ⟨ta, tb, h1, h2, hc1, hc2⟩ := hin
  have hca : ta.cols[r.c1]? = some ta.cols[r.c1] := List.getElem?_eq_getElem hc1
  have hcb : tb.cols[r.c2]? = some tb.cols[r.c2] := List.getElem?_eq_getElem hc2
  have g1 : getD? (F.mkDb ap ts rs).tables r.t1 "ref table position" = .ok (F.mkTable ta) := by
    simp [getD?, ColForm.mkDb, List.getElem?_map, h1]
  have g2 : getD? (F.mkDb ap ts rs).tables r.t2 "ref table position" = .ok (F.mkTable tb) := by
    simp [getD?, ColForm.mkDb, List.getElem?_map, h2]
  have k1 : Dbml.renderCols (F.mkTable ta) [r.c1] = .ok ('"' :: (F.cname (ta.cols[r.c1]) ++ ['"'])) := by
    simp [Dbml.renderCols, getD?, ColForm.mkTable, ColForm.table, ColForm.cname, List.getElem?_map, hca, bind, Except.bind, pure, Except.pure]
  have k2 : Dbml.renderCols (F.mkTable tb) [r.c2] = .ok ('"' :: (F.cname (tb.cols[r.c2]) ++ ['"'])) := by
    simp [Dbml.renderCols, getD?, ColForm.mkTable, ColForm.table, ColForm.cname, List.getElem?_map, hcb, bind, Except.bind, pure, Except.pure]
  unfold Dbml.renderRef
  have hinl : (mkRef r).inline = false := by simp [mkRef, Ref.inline]
  simp only [hinl, Bool.false_eq_true, ↓reduceIte]
  show (getD? (F.mkDb ap ts rs).tables r.t1 "ref table position" >>= fun t1 => _) = _
  rw [g1]
  show (getD? (F.mkDb ap ts rs).tables r.t2 "ref table position" >>= fun t2 => _) = _
  rw [g2]
  simp only [mkRef] at k1 k2 ⊢
  simp only [bind, Except.bind, k1, k2, pure, Except.pure]
  simp [refText, refTextP, sideText, ColForm.rtext, ColForm.tnameAt, ColForm.cnameAt, h1, h2, hca, hcb, truthy, Dbml.optComment,
    qualName, ColForm.mkTable, ColForm.table, lit]

theorem ColForm.docTailR_eq (F : ColForm σ) (rs : List RText) :
    ∀ (ts : List (FTab σ)), F.docTailR ts rs = F.docTail ts ++ refsTail rs := by
  intro ts
  induction ts with
  | nil => simp [ColForm.docTailR, ColForm.docTail]
  | cons t r ih => simp [ColForm.docTailR, ColForm.docTail, ih, F.tabTextP_append]

theorem ColForm.docTextR_eq (F : ColForm σ) (ts : List (FTab σ)) (rs : List RText) (hts : ts ≠ []) (hrs : rs ≠ []) :
    joinWith (lit "\n\n") ((ts.map fun t => F.tabText t) ++ rs.map refText) = F.docTextR ts rs := by
  rw [joinWith_append_docs _ _ (by simpa using hts) (by simpa using hrs), F.joinWith_tables, List.append_assoc, joinWith_refs rs hrs]
  cases ts with
  | nil => exact absurd rfl hts
  | cons t r => simp [ColForm.docText, ColForm.docTextR, F.docTailR_eq, F.tabTextP_append]

theorem ColForm.renderDb_tables_refs (F : ColForm σ) (ap : Bool) (ts : List (FTab σ)) (rs : List RSpec)
    (hok : ∀ t ∈ ts, F.specOK ap t) (hin : ∀ r ∈ rs, F.RSpecIn ts r) (hts : ts ≠ []) (hrs : rs ≠ [])
    (hno : ∀ t ∈ ts, ∀ s ∈ t.cols, F.irefs s = []) :
    Dbml.renderDb (F.mkDb ap ts rs) = .ok (F.docTextR ts (rs.map (F.rtext ts))) := by
  have hni : ∀ r ∈ rs.map mkRef, r.inline = false := by
    intro r hr
    obtain ⟨q, _, rfl⟩ := List.mem_map.mp hr
    simp [mkRef, Ref.inline]
  have htabs : (List.range (F.mkDb ap ts rs).tables.length).mapM (Dbml.renderTable (F.mkDb ap ts rs))
      = .ok (ts.map fun t => F.tabText t) := by
    have := range_mapM_form F.mkTable "table position" (fun t => F.tabText t) ts
      (fun i t => Dbml.renderTableBody (F.mkDb ap ts rs) i t)
      (fun i t ht => F.renderTableBody_ok (F.mkDb ap ts rs) i t.name t.cols t.comment t.note
        (F.inl_plain _ hni i t.cols (hno t ht)) (hok t ht).2.1 (hok t ht).2.2.1 (hok t ht).2.2.2.1 (hok t ht).2.2.2.2.1)
    unfold Dbml.renderTable
    exact this
  have hrefs : ((F.mkDb ap ts rs).refs.filter (!·.inline)).mapM (Dbml.renderRef (F.mkDb ap ts rs))
      = .ok ((rs.map (F.rtext ts)).map refText) := by
    have hfil : (F.mkDb ap ts rs).refs.filter (!·.inline) = (F.mkDb ap ts rs).refs := by
      rw [List.filter_eq_self]
      intro r hr
      simp [hni r hr]
    rw [hfil]
    simp only [ColForm.mkDb, List.mapM_map, List.map_map]
    have : ∀ l : List RSpec, (∀ r ∈ l, F.RSpecIn ts r) →
        l.mapM (Dbml.renderRef { tables := ts.map F.mkTable, refs := rs.map mkRef, allowProps := ap } ∘ mkRef)
          = .ok (l.map (refText ∘ F.rtext ts)) := by
      intro l
      induction l with
      | nil => intro _; rfl
      | cons x xs ih =>
        intro h
        rw [List.mapM_cons]
        have hx := F.renderRef_ok ap ts rs x (h x (by simp))
        simp only [ColForm.mkDb] at hx
        simp only [Function.comp, hx, bind, Except.bind]
        have := ih (fun q hq => h q (by simp [hq]))
        rw [this]
        rfl
    exact this rs hin
  unfold Dbml.renderDb Dbml.renderProjectList
  simp only [bind, Except.bind, htabs, hrefs]
  have hd := F.docTextR_eq ts (rs.map (F.rtext ts)) hts (by simpa using hrs)
  rw [List.map_map] at hd
  simp [ColForm.mkDb, pure, Except.pure, hd]

/-- **C02 / C05 for documents of tables and references, generic in the form of the columns.**  Any positive number
    of tables (columns in a form that is read back, names `NameOK`) and any positive number of pairwise different
    standalone single-column references between their columns are rendered to DBML and parsed back to exactly the
    same database: every reference is resolved - by table name and column name - to the very positions it was
    written from. -/
theorem form_refs_roundtrip (F : ColForm σ) (ap : Bool) (ts : List (FTab σ)) (rs : List RSpec)
    (hok : ∀ t ∈ ts, F.specOK ap t) (hnames : ∀ t ∈ ts, ∀ s ∈ t.cols, NameOK (F.cname s)) (hts : ts ≠ [])
    (hres : F.Resolvable ts) (hin : ∀ r ∈ rs, F.RSpecIn ts r) (hrs : rs ≠ []) (hnd : rs.Nodup)
    (hno : ∀ t ∈ ts, ∀ s ∈ t.cols, F.irefs s = []) :
    ∃ text, Dbml.renderDb (F.mkDb ap ts rs) = .ok text ∧ Build.parse ap text = .ok (F.mkDb ap ts rs) := by
  refine ⟨F.docTextR ts (rs.map (F.rtext ts)), F.renderDb_tables_refs ap ts rs hok hin hts hrs hno, ?_⟩
  have hrok : ∀ r ∈ rs.map (F.rtext ts), RTextOK r := by
    intro x hx
    obtain ⟨r, hr, rfl⟩ := List.mem_map.mp hx
    obtain ⟨ta, tb, h1, h2, hc1, hc2⟩ := hin r hr
    have hma := List.mem_of_getElem? h1
    have hmb := List.mem_of_getElem? h2
    have hta := hok ta hma
    have htb := hok tb hmb
    have hca : ta.cols[r.c1]? = some ta.cols[r.c1] := List.getElem?_eq_getElem hc1
    have hcb : tb.cols[r.c2]? = some tb.cols[r.c2] := List.getElem?_eq_getElem hc2
    refine ⟨?_, ?_, ?_, ?_⟩
    · simpa [ColForm.rtext, ColForm.tnameAt, h1] using hta.1
    · simpa [ColForm.rtext, ColForm.cnameAt, h1, hca] using hnames ta hma _ (List.getElem_mem hc1)
    · simpa [ColForm.rtext, ColForm.tnameAt, h2] using htb.1
    · simpa [ColForm.rtext, ColForm.cnameAt, h2, hcb] using hnames tb hmb _ (List.getElem_mem hc2)
  obtain ⟨c', hp⟩ := F.parseDoc_tables_refs ap ts (rs.map (F.rtext ts)) hok hrok hts
  unfold Build.parse
  have hbom : removeBom (F.docTextR ts (rs.map (F.rtext ts))) = F.docTextR ts (rs.map (F.rtext ts)) := by
    cases ts with
    | nil => exact absurd rfl hts
    | cons t r =>
      cases hcmt : t.comment with
      | none => simp [removeBom, ColForm.docTextR, ColForm.tabTextP, ColForm.tableTextP, commentText, hcmt]
      | some s => simp [removeBom, ColForm.docTextR, ColForm.tabTextP, commentText, hcmt]
  rw [hbom, hp]
  simp only []
  rw [F.build_tables_refs ap ts rs hres (fun t ht => (hok t ht).2.1) hin hnd hno (fun t ht => (hok t ht).2.2.2.2.2.2)]

end C02
end PyDBML
