/-
C18 — what the order actually is (the positive side of the recorded finding KF-C18-hosts-first):
the CREATE TABLE order is the declaration order stably sorted by the number of inline `>`/`<`
references a table hosts, most first.  So a table that hosts nothing keeps its place after every table
that hosts something, and tables with equal counts keep their declaration order.
-/
import PyDBMLProofs.Props.C18
namespace PyDBML
namespace C18
open Sql

theorem insertDesc_mem {α} (key : α → Nat) (x : α) (l : List α) (a : α) :
    a ∈ insertDesc key x l ↔ a = x ∨ a ∈ l := by
  rw [(insertDesc_perm key x l).mem_iff]; simp

theorem insertDesc_sorted {α} (key : α → Nat) (x : α) (l : List α)
    (h : l.Pairwise (fun a b => key a ≥ key b)) : (insertDesc key x l).Pairwise (fun a b => key a ≥ key b) := by
  induction l with
  | nil => simp [insertDesc]
  | cons y ys ih =>
    unfold insertDesc
    have hy := List.pairwise_cons.mp h
    split
    · rename_i hgt
      refine List.pairwise_cons.mpr ⟨?_, ih hy.2⟩
      intro a ha
      rcases (insertDesc_mem key x ys a).mp ha with rfl | ha
      · omega
      · exact hy.1 a ha
    · rename_i hle
      refine List.pairwise_cons.mpr ⟨?_, h⟩
      intro a ha
      rcases List.mem_cons.mp ha with rfl | ha
      · omega
      · have := hy.1 a ha; omega

theorem sortDesc_sorted {α} (key : α → Nat) (l : List α) :
    (sortDesc key l).Pairwise (fun a b => key a ≥ key b) := by
  induction l with
  | nil => simp [sortDesc]
  | cons x xs ih =>
    have : sortDesc key (x :: xs) = insertDesc key x (sortDesc key xs) := rfl
    rw [this]
    exact insertDesc_sorted key x _ ih

/-- the count `reorder_tables_for_sql` sorts by: hosted inline `>` / `<` references, per table NAME -/
def hosted (tables : List Table) (refs : List Ref) (i : Nat) : Nat :=
  match tables[i]? with
  | some t => countFor tables refs t.name
  | none => 0

/-- the script order is sorted by the hosted-reference count, most first -/
theorem order_sorted (tables : List Table) (refs : List Ref) :
    (reorderIdx tables refs).Pairwise (fun i j => hosted tables refs i ≥ hosted tables refs j) :=
  sortDesc_sorted _ _

/-- stability of one insertion: elements of `l` keep their relative order, and `x` goes before every
    element whose key is not larger -/
theorem insertDesc_sublist {α} (key : α → Nat) (x : α) (l : List α) : l.Sublist (insertDesc key x l) := by
  induction l with
  | nil => simp [insertDesc]
  | cons y ys ih =>
    unfold insertDesc
    split
    · exact List.Sublist.cons₂ y ih
    · exact List.Sublist.cons x (List.Sublist.refl _)

theorem insertDesc_before {α} (key : α → Nat) (x : α) (l : List α) :
    ∃ pre post, insertDesc key x l = pre ++ x :: post ∧ l = pre ++ post ∧ (∀ a ∈ pre, key a > key x) := by
  induction l with
  | nil => exact ⟨[], [], by simp [insertDesc], rfl, by simp⟩
  | cons y ys ih =>
    unfold insertDesc
    split
    · rename_i hgt
      obtain ⟨pre, post, h1, h2, h3⟩ := ih
      refine ⟨y :: pre, post, by simp [h1], by simp [h2], ?_⟩
      intro a ha
      rcases List.mem_cons.mp ha with rfl | ha
      · exact hgt
      · exact h3 a ha
    · exact ⟨[], y :: ys, rfl, rfl, by simp⟩

/-- **stability**: two positions with the same count appear in declaration order -/
theorem sortDesc_stable {α} (key : α → Nat) (l : List α) (k : Nat) :
    (sortDesc key l).filter (fun a => key a == k) = l.filter (fun a => key a == k) := by
  induction l with
  | nil => simp [sortDesc]
  | cons x xs ih =>
    have : sortDesc key (x :: xs) = insertDesc key x (sortDesc key xs) := rfl
    rw [this]
    obtain ⟨pre, post, h1, h2, h3⟩ := insertDesc_before key x (sortDesc key xs)
    rw [h1, List.filter_append, List.filter_cons]
    rw [h2, List.filter_append] at ih
    by_cases hk : key x = k
    · have hpre : pre.filter (fun a => key a == k) = [] := by
        rw [List.filter_eq_nil_iff]
        intro a ha
        have := h3 a ha
        simp; omega
      simp only [hk, beq_self_eq_true, ↓reduceIte, hpre, List.nil_append] at ih ⊢
      rw [List.filter_cons]
      simp [hk, ← ih]
    · have hk' : (key x == k) = false := by simpa using hk
      simp only [hk', Bool.false_eq_true, ↓reduceIte] at ih ⊢
      rw [List.filter_cons]
      simp [hk', ← ih]

/-- tables hosting equally many inline references keep their declaration order in the script -/
theorem order_stable (tables : List Table) (refs : List Ref) (k : Nat) :
    (reorderIdx tables refs).filter (fun i => hosted tables refs i == k)
      = (List.range tables.length).filter (fun i => hosted tables refs i == k) :=
  sortDesc_stable _ _ k

/-- without inline `>`/`<` references the script keeps the declaration order -/
theorem order_identity_without_hosts (tables : List Table) (refs : List Ref)
    (h : ∀ i, hosted tables refs i = 0) : reorderIdx tables refs = List.range tables.length := by
  have := order_stable tables refs 0
  have ft : ∀ l : List Nat, l.filter (fun _ => true) = l := by
    intro l; induction l with
    | nil => rfl
    | cons a as ih => simp [List.filter_cons, ih]
  simp only [h, beq_self_eq_true, ft] at this
  exact this

end C18
end PyDBML
