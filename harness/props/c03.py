"""C03 — SQL DDL states exactly the model: types, tables, columns, keys, indexes, notes."""
from harness import core
from harness.props import sqlcommon as SC

PID = 'C03'
THEOREMS = ['PyDBML.C03.read_render_script', 'PyDBML.C03.read_render_table', 'PyDBML.C03.read_render_column', 'PyDBML.C03.same_ddl_same_content',
            'PyDBML.C03.script_structure', 'PyDBML.C03.column_pk_component', 'PyDBML.C03.default_component', 'PyDBML.C15.sql_column_ignores_props']
MODULES = ['PyDBMLProofs.Props.C03', 'PyDBMLProofs.Props.C03Read']


def kf_replay(f):
    from harness import gen_db as GD, sql_oracle as SO
    spec = f['witness']['spec']
    db, _ = GD.build(spec)
    res = SO.check_sql(spec, db.sql)['C03']
    return any(r[2] == f['reason'] for r in res)


# ---- the proved reader (PyDBMLModel/SqlRead.lean, theorems in C03Read.lean) run on the .sql of the real code ----

NAME_POOL = ['id', 'a', 'b', 'user id', 'Name', 'x1', 'order', 'très', 'a.b', "it's", 'k,', '(p)', ' lead', 'täble', 'n' * 40, '-', '1']
TYPE_POOL = ['int', 'integer', 'varchar(20)', 'decimal(10,2)', 'text', 'int[]', 'timestamp', 'json', 'my_type', 'CHAR(1)']
DEFAULTS = [None, None, 0, 1, -7, 10 ** 20, 0.0, 1.5, -0.25, True, False, '', 'x', 'two words', "it's", 'NULL', ('expr', 'now()'),
            ('expr', 'a + b'), ('expr', ''), ('expr', '(a)'), ('expr', '(a) + (b)'), 'a,', ', b', '(x)']


def gen_reader_spec(rng):
    """tables of the class `Readable` (C03Read.lean): columns with any flags, any default kind, any pk layout; no notes,
    comments, indexes, references, enums"""
    nt = rng.choice([1, 1, 2, 3, 4])
    tables, used = [], set()
    for _ in range(nt):
        while True:
            key = (rng.choice(['public', 'public', 's1', 'my schema']), rng.choice(NAME_POOL))
            if key not in used:
                used.add(key)
                break
        nc = rng.choice([1, 2, 3, 5])
        names = rng.sample(NAME_POOL, nc)
        layout = rng.choice(['none', 'one', 'one', 'many', 'all'])
        cols = []
        for i, n in enumerate(names):
            pk = {'none': False, 'one': i == 0, 'many': i < 2, 'all': True}[layout]
            cols.append({'name': n, 'type': rng.choice(TYPE_POOL), 'pk': pk, 'autoinc': rng.random() < .3, 'unique': rng.random() < .3,
                         'not_null': rng.random() < .4, 'default': rng.choice(DEFAULTS)})
        tables.append({'schema': key[0], 'name': key[1], 'columns': cols})
    return tables


def reader_expect(tables):
    """what the statement promises, from the generated content alone"""
    out = []
    for t in tables:
        npk = sum(1 for c in t['columns'] if c['pk'])
        q = '"%s"' % t['name'] if t['schema'] == 'public' else '"%s"."%s"' % (t['schema'], t['name'])
        cols = []
        for c in t['columns']:
            d = c['default']
            dt = None if d is None else ('(%s)' % d[1] if isinstance(d, tuple) else str(d))
            cols.append({'name': c['name'], 'type': c['type'], 'pk': c['pk'] and npk <= 1, 'autoinc': c['autoinc'],
                         'unique': c['unique'], 'not_null': c['not_null'], 'default': dt})
        out.append({'qname': q, 'cols': cols, 'key': [c['name'] for c in t['columns'] if c['pk']] if npk > 1 else None})
    return out


def reader_job(tables):
    from pydbml import Database
    from pydbml.classes import Table, Column, Expression
    db = Database()
    for t in tables:
        tb = Table(t['name'], schema=t['schema'])
        for c in t['columns']:
            d = c['default']
            tb.add_column(Column(c['name'], c['type'], pk=c['pk'], autoinc=c['autoinc'], unique=c['unique'], not_null=c['not_null'],
                                 default=Expression(d[1]) if isinstance(d, tuple) else d))
        db.add(tb)
    try:
        return ['ok', db.sql]
    except Exception as e:       # noqa
        return ['exc', type(e).__name__]


def part_reader(ctx, drv):
    if drv is None:
        ctx.notes.append('reader part skipped: no driver')
        return
    n = 300 if ctx.tier == 'quick' else 3000
    specs = [gen_reader_spec(ctx.rng) for _ in range(n)]
    res = core.pmap(reader_job, specs)
    read = drv.ask_many({'op': 'readsql', 'text': r[1] if r[0] == 'ok' else ''} for r in res)
    for tables, r, m in zip(specs, res, read):
        ctx.case(core.h(tables), True)
        ctx.count('reader:tables=%d' % len(tables))
        ctx.count('reader:pk-layouts=' + ','.join(sorted({str(min(2, sum(1 for c in t['columns'] if c['pk']))) for t in tables})))
        case = {'op': 'readsql', 'tables': tables}
        if r[0] != 'ok':
            ctx.fail('db.sql of plain tables raises', case, detail=r[1])
            continue
        exp = reader_expect(tables)
        got = m.get('ok')
        if got != exp:
            ctx.fail('the proved DDL reader does not read from db.sql what the model holds (C03Read.read_render_script)', case,
                     detail={'expected': exp, 'read': got}, sql=r[1])


def main(tier, seed):
    ctx = core.Ctx(PID, tier, seed, 'translation_validation', THEOREMS, MODULES)
    problems = SC.run_sql_check(ctx, PID, extra_parts=part_reader)
    return ctx.finish(
        rule='random databases without references (1-6 tables in up to 3 schemas, 1-5 columns with the full product of flags, '
             '5 default kinds incl. falsy ones, enum-typed columns, 0-3 indexes incl. pk/composite/expression, notes, comments); '
             'every third spec wild (quotes, braces, blanks in names). Non-trivial: >=1 table and >=2 features; distinct by dump hash',
        explanation='Correspondence of db.sql and of every enum/column/index element rendering with the Lean model of the '
                    'default SQL renderer; oracle: db.sql read back by an independent tokenising DDL reader and compared with '
                    'expectations computed from the content (types, tables exactly once, columns, keys, indexes, COMMENT ON). '
                    'Theorems read_render_column / read_render_table / read_render_script / same_ddl_same_content (C03Read.lean): a '
                    'reader of the DDL written in Lean (PyDBMLModel/SqlRead.lean, looks at the text only) inverts the renderer model on '
                    'tables without notes, comments and indexes - every column in order with name, type, PRIMARY KEY / AUTOINCREMENT / '
                    'UNIQUE / NOT NULL exactly when set, DEFAULT whenever set, one table-level key clause exactly for several key columns, '
                    'each table once and nothing else. The same reader (driver op readsql) is run on db.sql of the real code for '
                    'API-built tables of that class (all flag combinations, 20 default shapes, four pk layouts, three schemas, odd names) '
                    'and must read exactly the generated content.',
        assumptions=['oracle runs on reader-hygienic specs (names without double quote, simple types/defaults)'],
        trusted_base=['Lean 4.33 kernel', 'hand-written model PyDBMLModel/RenderSql.lean tied by this correspondence',
                      'harness/ddl_reader.py', 'harness/sql_oracle.py',
                      'PyDBMLModel/SqlRead.lean (the reader: a specification artefact, proved against the model, run against the code)'],
        kf_replay=kf_replay, proof_problems=problems)


def replay(path):
    import json
    c = json.load(open(path)).get('case', {})
    if c.get('op') == 'readsql':
        from harness.driver import Driver
        r = reader_job(c['tables'])
        print('impl sql:', r)
        with Driver() as d:
            got = d.ask({'op': 'readsql', 'text': r[1] if r[0] == 'ok' else ''})
        exp = reader_expect(c['tables'])
        print('read    :', got.get('ok'))
        print('expected:', exp)
        return 0 if got.get('ok') == exp else 1
    return SC.replay_sql(path, PID)
