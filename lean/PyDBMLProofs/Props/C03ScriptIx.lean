/-
C03/C04 — whole scripts with indexes: enums, tables each followed by its `CREATE INDEX` statements, standalone references
(`read_render_script_ix`, generalising `read_render_script_all` of C03Script.lean).
-/
import PyDBMLModel
import PyDBMLProofs.Props.C03Script
import PyDBMLProofs.Props.C03Index
namespace PyDBML
namespace C03
open Sql C04

/-- the columns an index is over (column subjects) -/
def ixCols (ix : Index) : List Nat := ix.subjects.filterMap fun s => match s with | .col i => some i | _ => none

/-- the indexes the reader theorem covers: not a pk index, no comment, column subjects only (at least one), no double
    quote in a name, a type word without a blank, the statement is one line -/
structure IxReadable (t : Table) (ix : Index) : Prop where
  notPk : ix.pk = false
  comment : ix.comment = none
  cols : ix.subjects = (ixCols ix).map Subject.col
  inRange : ∀ i ∈ ixCols ix, i < t.columns.length
  ne : ixCols ix ≠ []
  quotesT : '"' ∉ t.schema ∧ '"' ∉ t.name
  quotesC : ∀ n ∈ namesAt t (ixCols ix), '"' ∉ n
  quotesN : ∀ n, ix.name = some n → '"' ∉ n
  typeWord : ' ' ∉ upperAscii (ix.type.getD [])
  oneLine : NoBreak (indexLine t ix (ixCols ix))

/-- the blocks of a table: its statement, then one block per index -/
def tableBlocks (db : Db) (t : Table) : List (List Str) :=
  tableLines db t :: t.indexes.map fun ix => [indexLine t ix (ixCols ix)]

def tableStmts (db : Db) (t : Table) : List Stmt :=
  Stmt.table (tabDescOf db t) :: t.indexes.map fun ix => Stmt.index (indexDescOf t ix (ixCols ix))

def scriptBlocksIx (db : Db) : List (List Str) :=
  db.enums.map enumLines ++ db.tables.flatMap (tableBlocks db) ++ db.refs.map fun r => [fkLine r (stOf db r) (rtOf db r)]

def scriptStmtsIx (db : Db) : List Stmt :=
  db.enums.map (fun e => Stmt.enum (enumDescOf e)) ++ db.tables.flatMap (tableStmts db)
    ++ db.refs.map fun r => Stmt.fk (fkDescOf r (stOf db r) (rtOf db r))

structure ScriptReadableIx (db : Db) : Prop where
  enums : ∀ e ∈ db.enums, EnumReadable e
  tables : ∀ t ∈ db.tables, ReadableIx db t ∧ ∀ ix ∈ t.indexes, IxReadable t ix
  refs : ∀ r ∈ db.refs, FkReadable db r
  some : db.tables ≠ []

/-! ### list lemmas -/

theorem interBlank_append : ∀ (X Y : List (List Str)), X ≠ [] → Y ≠ [] → interBlank (X ++ Y) = interBlank X ++ [] :: interBlank Y := by
  intro X
  induction X with
  | nil => intro _ h; exact absurd rfl h
  | cons A r ih =>
    intro Y _ hY
    cases r with
    | nil =>
      cases Y with
      | nil => exact absurd rfl hY
      | cons B r2 => rfl
    | cons A2 r2 =>
      show A ++ [] :: interBlank ((A2 :: r2) ++ Y) = (A ++ [] :: interBlank (A2 :: r2)) ++ [] :: interBlank Y
      rw [ih Y (by simp) hY]
      simp

theorem interBlank_flatten : ∀ (Gs : List (List (List Str))), Gs ≠ [] → (∀ G ∈ Gs, G ≠ []) →
    interBlank (Gs.map interBlank) = interBlank Gs.flatten := by
  intro Gs
  induction Gs with
  | nil => intro h; exact absurd rfl h
  | cons G r ih =>
    intro _ hG
    cases r with
    | nil => simp [interBlank]
    | cons G2 r2 =>
      have ih' := ih (by simp) (fun X hX => hG X (by simp [hX]))
      have hfl : (G2 :: r2).flatten ≠ [] := by
        have := hG G2 (by simp)
        cases G2 with
        | nil => exact absurd rfl this
        | cons b bs => simp
      show interBlank G ++ [] :: interBlank ((G2 :: r2).map interBlank) = interBlank (G ++ (G2 :: r2).flatten)
      rw [ih', interBlank_append G _ (hG G (by simp)) hfl]

theorem flatten_map_single {α β} (f : α → β) (l : List α) : (l.map fun a => [f a]).flatten = l.map f := by
  induction l with
  | nil => rfl
  | cons x xs ih => simp [ih]

theorem joinWith_flat (sep a : Str) : ∀ (l : List Str), joinWith sep (a :: l) = a ++ l.flatMap (fun x => sep ++ x) := by
  intro l
  induction l generalizing a with
  | nil => simp [joinWith]
  | cons b r ih =>
    rw [show joinWith sep (a :: b :: r) = a ++ sep ++ joinWith sep (b :: r) from rfl, ih b]
    simp

/-- a table statement followed by its index statements is the blank-line join of the table's blocks -/
theorem joinNL_tableBlocks (A : List Str) (hA : A ≠ []) (ls : List Str) :
    joinNL A ++ (ls.map fun l => '\n' :: l).flatMap (fun l => '\n' :: l) = joinNL (interBlank (A :: ls.map fun l => [l])) := by
  rw [← joinWith_blocks (A :: ls.map fun l => [l]) (by
    intro B hB
    simp only [List.mem_cons, List.mem_map] at hB
    rcases hB with rfl | ⟨l, _, rfl⟩
    · exact hA
    · simp)]
  rw [List.map_cons, joinWith_flat]
  simp [List.flatMap_map, List.map_map, Function.comp_def, joinNL, lit]

/-! ### the blocks -/

theorem readBlock_index (t : Table) (ix : Index) (h : IxReadable t ix) :
    readBlock [indexLine t ix (ixCols ix)] = some (Stmt.index (indexDescOf t ix (ixCols ix))) := by
  have := readIndex_indexLine t ix (ixCols ix) h.ne h.quotesT h.quotesC h.quotesN h.typeWord
  unfold readBlock
  have e : ∃ X : Str, indexLine t ix (ixCols ix) = lit "CREATE " ++ X ∧ (X.take 5 = lit "INDEX" ∨ X.take 6 = lit "UNIQUE") := by
    unfold indexLine
    cases ix.unique
    · exact ⟨_, by simp only [Bool.false_eq_true, ↓reduceIte, List.append_assoc, List.nil_append]; rfl, Or.inl (by simp [lit])⟩
    · exact ⟨_, by simp only [↓reduceIte, List.append_assoc]; rfl, Or.inr (by simp [lit])⟩
  obtain ⟨X, hX, hX2⟩ := e
  have hp1 : (lit "CREATE TYPE ").isPrefixOf (indexLine t ix (ixCols ix)) = false := by
    rw [hX]
    rcases hX2 with h5 | h6
    · obtain ⟨a, b, c, d, e5, r, rfl⟩ : ∃ a b c d e5 r, X = a :: b :: c :: d :: e5 :: r := by
        match X, h5 with
        | a :: b :: c :: d :: e5 :: r, _ => exact ⟨a, b, c, d, e5, r, rfl⟩
      simp [lit] at h5
      obtain ⟨rfl, rfl, rfl, rfl, rfl⟩ := h5
      simp [lit, List.isPrefixOf]
    · obtain ⟨a, b, c, d, e5, f, r, rfl⟩ : ∃ a b c d e5 f r, X = a :: b :: c :: d :: e5 :: f :: r := by
        match X, h6 with
        | a :: b :: c :: d :: e5 :: f :: r, _ => exact ⟨a, b, c, d, e5, f, r, rfl⟩
      simp [lit] at h6
      obtain ⟨rfl, rfl, rfl, rfl, rfl, rfl⟩ := h6
      simp [lit, List.isPrefixOf]
  have hp2 : (lit "CREATE TABLE ").isPrefixOf (indexLine t ix (ixCols ix)) = false := by
    rw [hX]
    rcases hX2 with h5 | h6
    · obtain ⟨a, b, c, d, e5, r, rfl⟩ : ∃ a b c d e5 r, X = a :: b :: c :: d :: e5 :: r := by
        match X, h5 with
        | a :: b :: c :: d :: e5 :: r, _ => exact ⟨a, b, c, d, e5, r, rfl⟩
      simp [lit] at h5
      obtain ⟨rfl, rfl, rfl, rfl, rfl⟩ := h5
      simp [lit, List.isPrefixOf]
    · obtain ⟨a, b, c, d, e5, f, r, rfl⟩ : ∃ a b c d e5 f r, X = a :: b :: c :: d :: e5 :: f :: r := by
        match X, h6 with
        | a :: b :: c :: d :: e5 :: f :: r, _ => exact ⟨a, b, c, d, e5, f, r, rfl⟩
      simp [lit] at h6
      obtain ⟨rfl, rfl, rfl, rfl, rfl, rfl⟩ := h6
      simp [lit, List.isPrefixOf]
  have hp3 : (lit "ALTER TABLE ").isPrefixOf (indexLine t ix (ixCols ix)) = false := by
    rw [hX]; simp [lit, List.isPrefixOf]
  have hp4 : (lit "CREATE ").isPrefixOf (indexLine t ix (ixCols ix)) = true := by
    rw [hX, List.isPrefixOf_iff_prefix]; exact List.prefix_append _ _
  simp only [hp1, hp2, hp3, hp4, Bool.false_eq_true, ↓reduceIte, false_and, and_self, this]
  rfl

theorem mapM_some_flatMap {α β} (f : List Str → Option β) (g : α → List (List Str)) (k : α → List β) :
    ∀ l : List α, (∀ a ∈ l, (g a).mapM f = some (k a)) → (l.flatMap g).mapM f = some (l.flatMap k) := by
  intro l
  induction l with
  | nil => intro _; rfl
  | cons x xs ih =>
    intro h
    rw [List.flatMap_cons, List.mapM_append, h x (by simp), ih (fun a ha => h a (by simp [ha]))]
    rfl

/-- **the reader inverts the script renderer, with indexes**: for a database of covered enums, covered tables with
    covered indexes (column subjects, no pk index) and covered standalone references, the script is read back to: one
    CREATE TYPE per enum, then per table in declaration order its CREATE TABLE followed by one CREATE INDEX per index in
    order, then one ALTER TABLE … FOREIGN KEY per reference - each with exactly the model's content, and nothing else. -/
theorem read_render_script_ix (db : Db) (h : ScriptReadableIx db) :
    ∃ text, renderDb db = .ok text ∧ readScriptAll text = some (scriptStmtsIx db) := by
  have hinl : ∀ r ∈ db.refs, r.inline = false := fun r hr => (h.refs r hr).standalone
  have horder : reorderIdx db.tables db.refs = List.range db.tables.length := by
    apply C18.order_identity_without_hosts
    intro i
    unfold C18.hosted countFor
    cases hti : db.tables[i]? with
    | none => rfl
    | some t =>
      simp only
      have : db.refs.filter (fun r => hostName db.tables r = some t.name) = [] := by
        rw [List.filter_eq_nil_iff]
        intro r hr
        simp [hostName, hinl r hr]
      rw [this]; rfl
  have hixl : ∀ t ∈ db.tables, t.indexes.mapM (renderIndex t) = .ok (t.indexes.map fun ix => indexLine t ix (ixCols ix)) := by
    intro t ht
    apply mapM_ok_map_mem'
    intro ix hix
    have hk := (h.tables t ht).2 ix hix
    exact renderIndex_line t ix (ixCols ix) hk.notPk hk.comment hk.cols hk.inRange
  have htabs : (List.range db.tables.length).mapM (renderTable db)
      = .ok (db.tables.map fun t => joinNL (interBlank (tableBlocks db t))) := by
    have h1 := C02.range_mapM_getD_idx db.tables "table position" (fun i t => do
        let refs ← (inlineRefsFor db i t).mapM (renderInlineRef db)
        renderTableWith db t refs) (fun t => renderTableWith db t [])
      (by
        intro i t _
        have hin : inlineRefsFor db i t = [] := by
          unfold inlineRefsFor
          split
          · rfl
          · rw [List.filter_eq_nil_iff]
            intro r hr
            simp [hinl r hr]
        simp only [hin, List.mapM_nil, bind, Except.bind, pure, Except.pure])
    unfold renderTable
    rw [h1]
    apply mapM_ok_map_mem'
    intro t ht
    rw [renderTable_lines_ix db t (h.tables t ht).1 _ (hixl t ht),
      joinNL_tableBlocks (tableLines db t) (by simp [tableLines]) (t.indexes.map fun ix => indexLine t ix (ixCols ix))]
    simp [tableBlocks, List.map_map, Function.comp_def]
  have hrefs : (db.refs.filter (!·.inline)).mapM (renderRefTop db)
      = .ok (db.refs.map fun r => fkLine r (stOf db r) (rtOf db r)) := by
    have hf : db.refs.filter (!·.inline) = db.refs := by
      rw [List.filter_eq_self]
      intro r hr
      simp [hinl r hr]
    rw [hf]
    apply mapM_ok_map_mem'
    intro r hr
    have hk := h.refs r hr
    exact renderRefTop_line db r hk.kind hk.standalone (stOf db r) (rtOf db r)
      (by simp [stOf, List.getElem?_eq_getElem hk.src]) (by simp [rtOf, List.getElem?_eq_getElem hk.dst])
      hk.srcCols hk.dstCols hk.comment
  have henums : db.enums.map renderEnum = db.enums.map fun e => joinNL (enumLines e) := by
    apply List.map_congr_left
    intro e he
    exact renderEnum_lines e (h.enums e he)
  -- the groups: one per enum, one per table (its statement and its indexes), one per reference
  let groups : List (List (List Str)) :=
    db.enums.map (fun e => [enumLines e]) ++ db.tables.map (tableBlocks db)
      ++ db.refs.map fun r => [[fkLine r (stOf db r) (rtOf db r)]]
  have hgne : groups ≠ [] := by
    have := h.some
    cases ht : db.tables with
    | nil => exact absurd ht this
    | cons t r => simp [groups, ht]
  have hgroup : ∀ G ∈ groups, G ≠ [] := by
    intro G hG
    simp only [groups, List.mem_append, List.mem_map] at hG
    rcases hG with (⟨e, _, rfl⟩ | ⟨t, _, rfl⟩) | ⟨r, _, rfl⟩ <;> simp [tableBlocks]
  have hflat : groups.flatten = scriptBlocksIx db := by
    simp only [groups, scriptBlocksIx, List.flatten_append, List.flatMap_def, flatten_map_single]
  have hblockne : ∀ A ∈ scriptBlocksIx db, A ≠ [] := by
    intro A hA
    unfold scriptBlocksIx at hA
    simp only [List.mem_append, List.mem_map, List.mem_flatMap] at hA
    rcases hA with (⟨e, _, rfl⟩ | ⟨t, _, hA⟩) | ⟨r, _, rfl⟩
    · simp [enumLines]
    · simp only [tableBlocks, List.mem_cons, List.mem_map] at hA
      rcases hA with rfl | ⟨ix, _, rfl⟩
      · simp [tableLines]
      · simp
    · simp
  have htext : renderDb db = .ok (joinNL (interBlank (scriptBlocksIx db))) := by
    unfold renderDb
    simp only [horder, htabs, hrefs, henums, bind, Except.bind, pure, Except.pure]
    rw [← hflat, ← interBlank_flatten groups hgne hgroup,
      ← joinWith_blocks (groups.map interBlank) (by
        intro A hA
        obtain ⟨G, hG, rfl⟩ := List.mem_map.mp hA
        have hne := hgroup G hG
        apply interBlank_ne G hne
        intro B hB
        have : B ∈ groups.flatten := List.mem_flatten.mpr ⟨G, hG, hB⟩
        rw [hflat] at this
        exact hblockne B this)]
    simp [groups, List.map_append, List.map_map, Function.comp_def, interBlank, joinNL]
  refine ⟨_, htext, ?_⟩
  unfold readScriptAll
  have hnl : ∀ A ∈ scriptBlocksIx db, ∀ l ∈ A, '\n' ∉ l := by
    intro A hA
    unfold scriptBlocksIx at hA
    simp only [List.mem_append, List.mem_map, List.mem_flatMap] at hA
    rcases hA with (⟨e, he, rfl⟩ | ⟨t, ht, hA⟩) | ⟨r, hr, rfl⟩
    · exact enumLines_no_nl e (h.enums e he)
    · simp only [tableBlocks, List.mem_cons, List.mem_map] at hA
      rcases hA with rfl | ⟨ix, hix, rfl⟩
      · exact tableLines_no_nl db { t with indexes := [] } (h.tables t ht).1.1
      · intro l hl
        simp only [List.mem_singleton] at hl
        subst hl
        exact noBreak_nl _ ((h.tables t ht).2 ix hix).oneLine
    · intro l hl
      simp only [List.mem_singleton] at hl
      subst hl
      exact noBreak_nl _ (h.refs r hr).oneLine
  have hnonempty : ∀ A ∈ scriptBlocksIx db, ∀ l ∈ A, l ≠ [] := by
    intro A hA
    unfold scriptBlocksIx at hA
    simp only [List.mem_append, List.mem_map, List.mem_flatMap] at hA
    rcases hA with (⟨e, _, rfl⟩ | ⟨t, _, hA⟩) | ⟨r, _, rfl⟩
    · exact enumLines_nonempty e
    · simp only [tableBlocks, List.mem_cons, List.mem_map] at hA
      rcases hA with rfl | ⟨ix, _, rfl⟩
      · exact tableLines_nonempty db t
      · intro l hl
        simp only [List.mem_singleton] at hl
        subst hl
        simp [indexLine, lit]
    · intro l hl
      simp only [List.mem_singleton] at hl
      subst hl
      simp [fkLine, lit]
  have hne : scriptBlocksIx db ≠ [] := by rw [← hflat]; intro h0; rw [List.flatten_eq_nil_iff] at h0
                                          cases hg : groups with
                                          | nil => exact hgne hg
                                          | cons G r => exact hgroup G (by simp [hg]) (h0 G (by simp [hg]))
  rw [C14.splitNL_joinNL _ (interBlank_ne _ hne hblockne) (interBlank_no_nl _ hnl), splitBlocks_interBlank _ hne hnonempty]
  have h1 := mapM_some_map_comp readBlock enumLines (fun e => Stmt.enum (enumDescOf e)) db.enums
    (fun e he => readBlock_enum e (h.enums e he))
  have h2 := mapM_some_flatMap readBlock (tableBlocks db) (tableStmts db) db.tables (by
    intro t ht
    unfold tableBlocks tableStmts
    rw [List.mapM_cons, show readBlock (tableLines db t) = readBlock (tableLines db { t with indexes := [] }) from rfl,
      readBlock_table db { t with indexes := [] } (h.tables t ht).1.1, List.mapM_map,
      mapM_some_map_comp readBlock (fun ix => [indexLine t ix (ixCols ix)]) (fun ix => Stmt.index (indexDescOf t ix (ixCols ix)))
        t.indexes (fun ix hix => readBlock_index t ix ((h.tables t ht).2 ix hix))]
    rfl)
  have h3 := mapM_some_map_comp readBlock (fun r => [fkLine r (stOf db r) (rtOf db r)])
    (fun r => Stmt.fk (fkDescOf r (stOf db r) (rtOf db r))) db.refs (fun r hr => readBlock_fk db r (h.refs r hr))
  unfold scriptBlocksIx scriptStmtsIx
  rw [List.mapM_append, List.mapM_append, List.mapM_map, h1, h2, List.mapM_map, h3]
  rfl

/-! ### non-vacuity: a database that meets every hypothesis of `read_render_script_ix` -/

/-- an enum, two tables (the second with a composite key, a default, and a unique named index), a reference `<` -/
def exDb : Db :=
  { enums := [{ name := lit "status", schema := lit "s", items := [{ name := lit "new" }, { name := lit "done" }] }],
    tables := [
      { name := lit "users", columns := [{ name := lit "id", type := .plain (lit "int"), pk := true, autoinc := true }] },
      { name := lit "orders", schema := lit "shop", columns := [
          { name := lit "user id", type := .plain (lit "int"), pk := true, notNull := true },
          { name := lit "no", type := .plain (lit "int"), pk := true, default := some (.int (lit "0")) }],
        indexes := [{ subjects := [.col 1, .col 0], name := some (lit "by no"), unique := true, type := some (lit "btree") }] }],
    refs := [{ kind := .oneToMany, t1 := 0, col1 := [0], t2 := 1, col2 := [0], onDelete := some (lit "cascade") }] }

example : ScriptReadableIx exDb := by
  refine ⟨?_, ?_, ?_, by decide⟩
  · intro e he
    simp only [exDb, List.mem_cons, List.mem_nil_iff, or_false] at he
    subst he
    refine ⟨by decide, rfl, ?_, ⟨by decide, by decide⟩⟩
    intro i hi
    simp only [List.mem_cons, List.mem_nil_iff, or_false] at hi
    rcases hi with rfl | rfl <;> exact ⟨rfl, by decide⟩
  · intro t ht
    simp only [exDb, List.mem_cons, List.mem_nil_iff, or_false] at ht
    rcases ht with rfl | rfl
    · refine ⟨⟨⟨by decide, rfl, rfl, rfl, ⟨by decide, by decide⟩, ?_, ?_, ?_, ?_⟩, by intro ix h; cases h⟩, by intro ix h; cases h⟩
      all_goals
        intro c hc
        simp only [List.mem_cons, List.mem_nil_iff, or_false] at hc
        subst hc
      · exact ⟨rfl, rfl⟩
      · rfl
      · decide +kernel
      · exact ⟨by decide, by decide +kernel, fun d hd => by cases hd⟩
    · refine ⟨⟨⟨by decide, rfl, rfl, rfl, ⟨by decide, by decide⟩, ?_, ?_, ?_, ?_⟩, ?_⟩, ?_⟩
      · intro c hc
        simp only [List.mem_cons, List.mem_nil_iff, or_false] at hc
        rcases hc with rfl | rfl <;> exact ⟨rfl, rfl⟩
      · intro c hc
        simp only [List.mem_cons, List.mem_nil_iff, or_false] at hc
        rcases hc with rfl | rfl <;> rfl
      · intro c hc
        simp only [List.mem_cons, List.mem_nil_iff, or_false] at hc
        rcases hc with rfl | rfl <;> decide +kernel
      · intro c hc
        simp only [List.mem_cons, List.mem_nil_iff, or_false] at hc
        rcases hc with rfl | rfl
        · exact ⟨by decide, by decide +kernel, fun d hd => by cases hd⟩
        · refine ⟨by decide, by decide +kernel, fun d hd => ?_⟩
          cases hd; decide +kernel
      · intro ix hix
        simp only [List.mem_cons, List.mem_nil_iff, or_false] at hix
        subst hix; rfl
      · intro ix hix
        simp only [List.mem_cons, List.mem_nil_iff, or_false] at hix
        subst hix
        exact ⟨rfl, rfl, rfl, by decide, by decide, ⟨by decide, by decide⟩, by decide +kernel, (by intro n h; cases h; decide),
          by decide +kernel, by decide +kernel⟩
  · intro r hr
    simp only [exDb, List.mem_cons, List.mem_nil_iff, or_false] at hr
    subst hr
    exact ⟨by decide, rfl, by decide, by decide, by decide +kernel, by decide +kernel, rfl, by decide, by decide,
      by decide +kernel, by decide +kernel, (by intro n h; cases h), by decide +kernel⟩

/-- … and what the theorem then says about it, computed (a test of the statement on this literal) -/
example : (renderDb exDb).toOption = some (lit "CREATE TYPE \"s\".\"status\" AS ENUM (\n  'new',\n  'done'\n);\n\nCREATE TABLE \"users\" (\n  \"id\" int PRIMARY KEY AUTOINCREMENT\n);\n\nCREATE TABLE \"shop\".\"orders\" (\n  \"user id\" int NOT NULL,\n  \"no\" int DEFAULT 0,\n  PRIMARY KEY (\"user id\", \"no\")\n);\n\nCREATE UNIQUE INDEX \"by no\" ON \"shop\".\"orders\" USING BTREE (\"no\", \"user id\");\n\nALTER TABLE \"shop\".\"orders\" ADD FOREIGN KEY (\"user id\") REFERENCES \"users\" (\"id\") ON DELETE CASCADE;") := by
  decide +kernel

end C03
end PyDBML
