/-
C02/C01 — whole documents of tables, generic in the FORM of the column lines (`ColForm`, see `C02Form.lean`):
`form_tables_roundtrip`.  With `flagForm` (`C02Flags.lean`): any number of tables whose columns carry settings, a note
and properties.
-/
import PyDBMLProofs.Props.C02Form
import PyDBMLProofs.Props.C02Tables
import PyDBMLProofs.Props.C02Comment
import PyDBMLProofs.Props.C02TableNote
namespace PyDBML
namespace C02
open Lex Grammar Build

variable {σ : Type}

/-! ### the table rule inside a longer text -/

/-- a table with the note `nt` (empty: none) after its columns, followed by `post` -/
def ColForm.tableTextP (F : ColForm σ) (tn : Str) (cs : List σ) (nt : Str) (post : Str) : Str :=
  'T' :: 'a' :: 'b' :: 'l' :: 'e' :: ' ' :: '"' :: (tn ++ '"' :: ' ' :: '{' :: '\n' :: (F.text cs ++ (noteBlock nt ++ '}' :: post)))

def ColForm.tableTextN (F : ColForm σ) (tn : Str) (cs : List σ) (nt : Str) : Str :=
  'T' :: 'a' :: 'b' :: 'l' :: 'e' :: ' ' :: '"' :: (tn ++ '"' :: ' ' :: '{' :: '\n' :: (F.text cs ++ (noteBlock nt ++ ['}'])))

theorem ColForm.tableTextN_nil (F : ColForm σ) (tn : Str) (cs : List σ) : F.tableTextN tn cs [] = F.tableText tn cs := rfl

theorem ColForm.tableTextP_append (F : ColForm σ) (tn : Str) (cs : List σ) (nt : Str) (post : Str) :
    F.tableTextP tn cs nt post = F.tableTextN tn cs nt ++ post := by
  simp [ColForm.tableTextP, ColForm.tableTextN]

def noteOpt (nt : Str) : Option Str := if nt.isEmpty then none else some nt

/-- the table blueprint with the note and the comment `_c` collected above it -/
def ColForm.tableBpC (F : ColForm σ) (tn : Str) (cs : List σ) (nt : Str) (cm : Option Str) : Bp.TableBp :=
  { name := tn, schema := lit "public", columns := cs.map F.bp, note := noteOpt nt, comment := cm }

theorem filterMap_noteElems_none {β} (nt : Str) (f : TblElem → Option β) (h : ∀ t, f (TblElem.note t) = none) :
    (noteElems nt).filterMap f = [] := by
  unfold noteElems; split <;> simp [h]

theorem foldl_noteElemsG (nt : Str) (f : Option Str → TblElem → Option Str) (h : ∀ a t, f a (TblElem.note t) = some t) :
    (noteElems nt).foldl f none = noteOpt nt := by
  unfold noteElems noteOpt; split <;> simp [h]

/-- the table rule on `tableTextP`, given what the blank lines before it and the end rule after it do -/
theorem ColForm.tableRule_okP (F : ColForm σ) (props : Bool) (c c0 : Cur) (tn : Str) (cs : List σ) (nt : Str) (post : Str)
    (Q : Cur → Prop) (bs : List Str) (hb : cBefore c = .ok bs c0)
    (hc : c0.rest = F.tableTextP tn cs nt post) (hp : c0.pastEnd = false)
    (hprev : ∀ p, c0.prev = some p → isKwIdent p = false)
    (htn : NameOK tn) (hcs : F.allOK props cs) (hne : cs ≠ []) (hnt : TNoteOK nt)
    (hend : ∀ c7 : Cur, c7.rest = post → c7.pastEnd = false → ∃ c9, endRule c7 = .ok () c9 ∧ Q c9) :
    ∃ c9, tableRule props c = .ok (F.tableBpC tn cs nt (joinBefore bs)) c9 ∧ Q c9 := by
  have hE := endOK_note nt post
  have hN : Next c0 'T' _ := skipWs_rest_head c0 'T' _ (by rw [hc]; rfl) (by decide)
  have hpv : ∀ p, (skipWs c0).prev = some p → isKwIdent p = false := by
    rw [skipWs_prev_head c0 'T' _ (by rw [hc]; rfl) (by decide)]; exact hprev
  obtain ⟨c1, hk, hr1, hp1⟩ := ckw_ok' "table" c0 ['T', 'a', 'b', 'l', 'e']
    (' ' :: '"' :: (tn ++ '"' :: ' ' :: '{' :: '\n' :: (F.text cs ++ (noteBlock nt ++ '}' :: post)))) hN (by decide)
    (by simp [startsWithCaseless]; decide) hp hpv (by intro x hx; simp at hx; subst hx; decide)
  have hN1 : (skipWs c1).rest = '"' :: (tn ++ '"' :: ' ' :: '{' :: '\n' :: (F.text cs ++ (noteBlock nt ++ '}' :: post))) :=
    skipWs_rest_spaces c1 1 '"' _ (by rw [hr1]; rfl) (by decide)
  obtain ⟨c2, hnm, hr2, hp2⟩ := name_quoted_ok c1 tn _ hN1 htn hp1
  have hN2 : Next c2 '{' ('\n' :: (F.text cs ++ (noteBlock nt ++ '}' :: post))) := skipWs_rest_spaces c2 1 '{' _ (by rw [hr2]; rfl) (by decide)
  have hdot : sym "." c2 = .fail := sym_fail "." c2 _ _ hN2 (by simp [startsWith])
  have htname : tableName c1 = .ok (none, tn) c2 := by
    unfold tableName alt
    simp only [bind, pbind, hnm, hdot, pure, ppure]
  have hal : opt aliasRule c2 = .ok none c2 := by
    unfold opt; rw [aliasRule_fail c2 '{' _ hN2 (by decide)]
  have hst : opt tableSettings c2 = .ok none c2 := by
    unfold opt tableSettings
    simp only [bind, pbind, sym_fail "[" c2 _ _ hN2 (by simp [startsWith])]
  obtain ⟨q3, q4⟩ := quiet_of_next c2 '{' _ hN2 (by decide) (by decide)
  have hs2 : skipNl c2 = .ok () c2 := skipNl_stay c2 q3 q4
  obtain ⟨c3, hbr, hr3, hp3⟩ := sym_ok "{" '{' rfl c2 _ hN2 hp2
  have hN3 : Next c3 '\n' (F.text cs ++ (noteBlock nt ++ '}' :: post)) := skipWs_rest_head c3 '\n' _ hr3 (by decide)
  obtain ⟨c4, hs3, hr4, hp4⟩ := skipNl_one c3 (F.text cs ++ (noteBlock nt ++ '}' :: post)) hN3 hp3 (by
    intro d hd _
    obtain ⟨k, x, r, he, hw, h1, h2⟩ := F.body_next cs _ hE
    have : Next d x r := skipWs_rest_spaces d k x r (by rw [hd, he]) hw
    exact quiet_of_next d x r this h1 h2)
  have hs4 : skipNl c4 = .ok () c4 := F.skipNl_stay_body c4 cs _ hE hr4
  obtain ⟨s0, ps, rfl⟩ : ∃ s0 ps, cs = s0 :: ps := by
    cases cs with
    | nil => exact absurd rfl hne
    | cons a as => exact ⟨a, as, rfl⟩
  obtain ⟨c5, hel, hr5, hp5⟩ := F.tableElement_col props c4 s0 ps _ hE hr4 hp4 (hcs s0 (by simp))
  have hel3 : tableElement props c3 = .ok (TblElem.column (F.bp s0)) c5 := by
    rw [tableElement_skip props c3 c4 hs3 hs4]; exact hel
  have hfuel : ps.length + 1 < c3.rest.length + 1 := by
    rw [hr3]
    have h1 := F.text_length ps
    have h2 := F.text_cons_length s0 ps
    simp only [List.length_cons, List.length_append]; omega
  obtain ⟨c6, hm, hr6, hp6⟩ := F.many_body props ps _ post (noteElems nt) hE (bodyEnd_note props nt post hnt) (fun q hq => hcs q (by simp [hq])) (c3.rest.length + 1) c5 hfuel hr5 hp5
  have hmany : manyF (tableElement props) c3 = .ok (((s0 :: ps).map F.bp).map TblElem.column ++ noteElems nt) c6 := by
    unfold manyF fuelOf
    have hlen : c5.rest.length ≠ c3.rest.length := by
      have h2 := F.text_cons_length s0 ps
      rw [hr5, hr3]; simp only [List.length_cons, List.length_append]; omega
    rw [many]
    simp only [hel3, hlen, decide_false, Bool.false_and, Bool.false_eq_true, ↓reduceIte, hm, List.map_cons, List.cons_append]
  have hN6 : Next c6 '}' post := skipWs_rest_head c6 '}' _ hr6 (by decide)
  obtain ⟨q5, q6⟩ := quiet_of_next c6 '}' _ hN6 (by decide) (by decide)
  have hs6 : skipNl c6 = .ok () c6 := skipNl_stay c6 q5 q6
  obtain ⟨c7, hcl, hr7, hp7⟩ := sym_ok "}" '}' rfl c6 _ hN6 hp6
  obtain ⟨c9, hend9, hQ⟩ := hend c7 hr7 hp7
  refine ⟨c9, ?_, hQ⟩
  unfold tableRule
  simp only [bind, pbind, hb, hk, htname, hal, hst, hs2, hbr, cut, hmany, hs6, hcl, hend9]
  simp only [List.filterMap_append, List.foldl_append]
  rw [filterMap_colsG _ _ (fun _ => rfl)]
  rw [filterMap_cols_noneG _ _ (fun _ => rfl)]
  rw [filterMap_cols_noneG _ _ (fun _ => rfl)]
  rw [foldl_colsG _ _ (fun _ _ => rfl)]
  rw [filterMap_noteElems_none _ _ (fun _ => rfl), filterMap_noteElems_none _ _ (fun _ => rfl),
    filterMap_noteElems_none _ _ (fun _ => rfl), foldl_noteElemsG _ _ (fun _ _ => rfl)]
  cases hno : noteOpt nt <;> simp [ColForm.tableBpC, hno, pure, ppure]

/-! ### a document of tables -/

/-- a table: its name, its columns, the one-line comment above it, if any, and its note (empty: none) -/
structure FTab (σ : Type) where
  name : Str
  cols : List σ
  comment : Option Str := none
  note : Str := []

def ColForm.specOK (F : ColForm σ) (ap : Bool) (t : FTab σ) : Prop :=
  NameOK t.name ∧ F.allOK ap t.cols ∧ t.cols ≠ [] ∧ CmOK t.comment ∧ TNoteOK t.note

/-- the comment line (if any) and the table, followed by `post` -/
def ColForm.tabTextP (F : ColForm σ) (t : FTab σ) (post : Str) : Str :=
  commentText t.comment ++ F.tableTextP t.name t.cols t.note post

def ColForm.tabText (F : ColForm σ) (t : FTab σ) : Str := commentText t.comment ++ F.tableTextN t.name t.cols t.note

theorem ColForm.tabTextP_append (F : ColForm σ) (t : FTab σ) (post : Str) : F.tabTextP t post = F.tabText t ++ post := by
  simp [ColForm.tabTextP, ColForm.tabText, F.tableTextP_append]

def ColForm.docTail (F : ColForm σ) : List (FTab σ) → Str
  | [] => []
  | t :: ts => '\n' :: '\n' :: F.tabTextP t (F.docTail ts)

def ColForm.afterText (F : ColForm σ) : List (FTab σ) → Str
  | [] => []
  | t :: ts => '\n' :: F.tabTextP t (F.docTail ts)

def ColForm.docText (F : ColForm σ) : List (FTab σ) → Str
  | [] => []
  | t :: ts => F.tabTextP t (F.docTail ts)

def ColForm.mkElem (F : ColForm σ) (t : FTab σ) : Bp.Elem := Bp.Elem.table (F.tableBpC t.name t.cols t.note t.comment)

def ColForm.mkTable (F : ColForm σ) (t : FTab σ) : Table := { F.table t.name t.cols with comment := t.comment, note := t.note }

theorem ColForm.quiet_tableTextP (F : ColForm σ) (tn : Str) (cs : List σ) (nt : Str) (post : Str) (d : Cur)
    (hd : d.rest = F.tableTextP tn cs nt post) : sym "\n" d = .fail ∧ comment d = .fail := by
  have : Next d 'T' _ := skipWs_rest_head d 'T' _ (by rw [hd]; rfl) (by decide)
  exact quiet_of_next d 'T' _ this (by decide) (by decide)

theorem ColForm.endRule_after (F : ColForm σ) (ts : List (FTab σ)) (c7 : Cur) (hr7 : c7.rest = F.docTail ts)
    (hp7 : c7.pastEnd = false) : ∃ c9, endRule c7 = .ok () c9 ∧ c9.rest = F.afterText ts ∧ c9.pastEnd = ts.isEmpty := by
  cases ts with
  | nil =>
    obtain ⟨c9, h1, h2, h3⟩ := endRule_eof c7 (by simpa [ColForm.docTail] using hr7) hp7
    exact ⟨c9, h1, by simpa [ColForm.afterText] using h2, by simpa using h3⟩
  | cons t2 ts2 =>
    obtain ⟨c9, h1, h2, h3⟩ := endRule_nl c7 (F.afterText (t2 :: ts2)) (by rw [hr7]; simp [ColForm.docTail, ColForm.afterText]) hp7
    exact ⟨c9, h1, h2, by simpa using h3⟩

theorem ColForm.element_table_after (F : ColForm σ) (ap : Bool) (c : Cur) (t : FTab σ) (ts : List (FTab σ))
    (ht : F.specOK ap t) (hc : c.rest = F.afterText (t :: ts)) (hp : c.pastEnd = false) :
    ∃ c9, element ap c = .ok (F.mkElem t) c9 ∧ c9.rest = F.afterText ts ∧ c9.pastEnd = ts.isEmpty := by
  obtain ⟨c0, hb, hr0, hp0, hpv0⟩ := cBefore_nl_comment c t.comment 'T' _ (by decide) (by decide) (by decide)
    (show c.rest = '\n' :: (commentText t.comment ++ F.tableTextP t.name t.cols t.note (F.docTail ts)) by rw [hc]; rfl) hp ht.2.2.2.1
  obtain ⟨c9, hrule, hQ⟩ := F.tableRule_okP ap c c0 t.name t.cols t.note (F.docTail ts)
    (fun c9 => c9.rest = F.afterText ts ∧ c9.pastEnd = ts.isEmpty) (cmList t.comment) hb hr0 hp0
    hpv0 ht.1 ht.2.1 ht.2.2.1 ht.2.2.2.2
    (fun c7 hr7 hp7 => F.endRule_after ts c7 hr7 hp7)
  refine ⟨c9, ?_, hQ.1, hQ.2⟩
  unfold element alt ColForm.mkElem
  rw [joinBefore_cmList] at hrule
  simp only [bind, pbind, hrule, pure, ppure]

theorem ColForm.tableTextP_length (F : ColForm σ) (tn : Str) (cs : List σ) (nt : Str) (post : Str) :
    post.length + 12 ≤ (F.tableTextP tn cs nt post).length := by
  simp only [ColForm.tableTextP, List.length_cons, List.length_append]; omega

theorem ColForm.tabTextP_length (F : ColForm σ) (t : FTab σ) (post : Str) :
    post.length + 12 ≤ (F.tabTextP t post).length := by
  have := F.tableTextP_length t.name t.cols t.note post
  simp only [ColForm.tabTextP, List.length_append]; omega

theorem ColForm.afterText_length (F : ColForm σ) (ts : List (FTab σ)) : ts.length ≤ (F.afterText ts).length := by
  induction ts with
  | nil => simp [ColForm.afterText]
  | cons t r ih =>
    cases r with
    | nil => simp [ColForm.afterText]
    | cons t2 r2 =>
      have h := F.tabTextP_length t (F.docTail (t2 :: r2))
      simp only [ColForm.afterText, ColForm.docTail, List.length_cons] at ih h ⊢
      omega

theorem ColForm.afterText_lt (F : ColForm σ) (t : FTab σ) (r : List (FTab σ)) :
    (F.afterText r).length < (F.afterText (t :: r)).length ∧ (F.afterText r).length < (F.docText (t :: r)).length := by
  have h := F.tabTextP_length t (F.docTail r)
  cases r with
  | nil => simp only [ColForm.afterText, ColForm.docText, ColForm.docTail, List.length_cons, List.length_nil] at h ⊢; omega
  | cons t2 r2 =>
    simp only [ColForm.afterText, ColForm.docText, ColForm.docTail, List.length_cons] at h ⊢; omega

theorem ColForm.many_tables (F : ColForm σ) (ap : Bool) : ∀ (ts : List (FTab σ)) (fuel : Nat) (c : Cur), ts.length < fuel →
    (∀ t ∈ ts, F.specOK ap t) → c.rest = F.afterText ts → c.pastEnd = ts.isEmpty →
    ∃ c', many (element ap) fuel c = .ok (ts.map F.mkElem) c' ∧ c'.rest = [] ∧ c'.pastEnd = true := by
  intro ts
  induction ts with
  | nil =>
    intro fuel c hf _ hc hp
    obtain ⟨f, rfl⟩ : ∃ f, fuel = f + 1 := ⟨fuel - 1, by simp at hf; omega⟩
    have hp' : c.pastEnd = true := by simpa using hp
    refine ⟨c, ?_, by simpa [ColForm.afterText] using hc, hp'⟩
    rw [many]
    simp [element_fail_pastEnd ap c hp']
  | cons t r ih =>
    intro fuel c hf hok hc hp
    obtain ⟨f, rfl⟩ : ∃ f, fuel = f + 1 := ⟨fuel - 1, by simp at hf; omega⟩
    have hp' : c.pastEnd = false := by simpa using hp
    obtain ⟨c1, hel, hr1, hp1⟩ := F.element_table_after ap c t r (hok t (by simp)) hc hp'
    obtain ⟨c2, hm, hr2, hp2⟩ := ih f c1 (by simp at hf; omega) (fun q hq => hok q (by simp [hq])) hr1 hp1
    refine ⟨c2, ?_, hr2, hp2⟩
    have hlen : c1.rest.length ≠ c.rest.length := by
      rw [hr1, hc]; have := (F.afterText_lt t r).1; omega
    rw [many]
    simp only [hel, hlen, decide_false, Bool.false_and, Bool.false_eq_true, ↓reduceIte, hm, List.map_cons]

theorem ColForm.tableTextN_no_tab (F : ColForm σ) (ap : Bool) (tn : Str) (cs : List σ) (nt : Str) (htn : NameOK tn)
    (hcs : F.allOK ap cs) (hnt : Plain nt) : ∀ c ∈ F.tableTextN tn cs nt, c ≠ '\t' := by
  intro c hc
  have e : F.tableTextN tn cs nt = (F.tableText tn cs).dropLast ++ (noteBlock nt ++ ['}']) := by
    simp [ColForm.tableTextN, ColForm.tableText, List.dropLast_append_of_ne_nil, List.dropLast_cons_of_ne_nil]
  rw [e] at hc
  rcases List.mem_append.mp hc with h | h
  · exact F.tableText_no_tab ap tn cs htn hcs c (List.dropLast_subset _ h)
  · rcases List.mem_append.mp h with h | h
    · exact noteBlock_no_tab nt hnt c h
    · simp at h; subst h; decide

theorem ColForm.tabText_no_tab (F : ColForm σ) (ap : Bool) (t : FTab σ) (ht : F.specOK ap t) : ∀ c ∈ F.tabText t, c ≠ '\t' := by
  intro c hc
  rcases List.mem_append.mp hc with h | h
  · exact commentText_no_tab t.comment ht.2.2.2.1 c h
  · exact F.tableTextN_no_tab ap t.name t.cols t.note ht.1 ht.2.1 ht.2.2.2.2.1 c h

theorem ColForm.docTail_no_tab (F : ColForm σ) (ap : Bool) : ∀ (ts : List (FTab σ)), (∀ t ∈ ts, F.specOK ap t) →
    ∀ c ∈ F.docTail ts, c ≠ '\t' := by
  intro ts
  induction ts with
  | nil => intro _ c hc; simp [ColForm.docTail] at hc
  | cons t r ih =>
    intro hok c hc
    have e : F.docTail (t :: r) = ['\n', '\n'] ++ F.tabText t ++ F.docTail r := by
      simp [ColForm.docTail, F.tabTextP_append]
    rw [e] at hc
    simp only [List.mem_append] at hc
    rcases hc with (h | h) | h
    · exact (by decide : ∀ c ∈ ['\n', '\n'], c ≠ '\t') c h
    · exact F.tabText_no_tab ap t (hok t (by simp)) c h
    · exact ih (fun q hq => hok q (by simp [hq])) c h

theorem ColForm.docText_no_tab (F : ColForm σ) (ap : Bool) (ts : List (FTab σ)) (hok : ∀ t ∈ ts, F.specOK ap t) :
    ∀ c ∈ F.docText ts, c ≠ '\t' := by
  cases ts with
  | nil => intro c hc; simp [ColForm.docText] at hc
  | cons t r =>
    intro c hc
    have e : F.docText (t :: r) = F.tabText t ++ F.docTail r := by simp [ColForm.docText, F.tabTextP_append]
    rw [e] at hc
    rcases List.mem_append.mp hc with h | h
    · exact F.tabText_no_tab ap t (hok t (by simp)) c h
    · exact F.docTail_no_tab ap r (fun q hq => hok q (by simp [hq])) c h

theorem ColForm.parseDoc_tables (F : ColForm σ) (ap : Bool) (ts : List (FTab σ)) (hok : ∀ t ∈ ts, F.specOK ap t)
    (hne : ts ≠ []) : ∃ c', parseDoc ap (F.docText ts) = .ok (ts.map F.mkElem) c' := by
  obtain ⟨t, r, rfl⟩ : ∃ t r, ts = t :: r := by
    cases ts with
    | nil => exact absurd rfl hne
    | cons a as => exact ⟨a, as, rfl⟩
  unfold parseDoc expandTabs
  rw [expandTabsAux_plain 0 _ (F.docText_no_tab ap _ hok)]
  let c0 : Cur := { rest := F.docText (t :: r) }
  have ht := hok t (by simp)
  obtain ⟨cb, hb, hrb, hpb, hpvb⟩ := cBefore_comment c0 t.comment 'T' _ (by decide) (by decide) (by decide)
    (show c0.rest = commentText t.comment ++ F.tableTextP t.name t.cols t.note (F.docTail r) from rfl) rfl ht.2.2.2.1
    (by intro p hpp; cases hpp)
  obtain ⟨c1, hrule, hr1, hp1⟩ := F.tableRule_okP ap c0 cb t.name t.cols t.note (F.docTail r)
    (fun c9 => c9.rest = F.afterText r ∧ c9.pastEnd = r.isEmpty) (cmList t.comment) hb hrb hpb
    hpvb ht.1 ht.2.1 ht.2.2.1 ht.2.2.2.2 (fun c7 hr7 hp7 => F.endRule_after r c7 hr7 hp7)
  have hel : element ap c0 = .ok (F.mkElem t) c1 := by
    unfold element alt ColForm.mkElem
    rw [joinBefore_cmList] at hrule
    simp only [bind, pbind, hrule, pure, ppure]
  have hfuel : r.length < c0.rest.length + 1 := by
    have h1 := F.afterText_length r
    have h2 := (F.afterText_lt t r).2
    show r.length < (F.docText (t :: r)).length + 1
    omega
  obtain ⟨c2, hm, hr2, hp2⟩ := F.many_tables ap r (c0.rest.length + 1) c1 hfuel (fun q hq => hok q (by simp [hq])) hr1 hp1
  have hmany : manyF (element ap) c0 = .ok ((t :: r).map F.mkElem) c2 := by
    unfold manyF fuelOf
    have hlen : c1.rest.length ≠ c0.rest.length := by
      rw [hr1]
      show (F.afterText r).length ≠ (F.docText (t :: r)).length
      have := (F.afterText_lt t r).2; omega
    rw [many]
    simp only [hel, hlen, decide_false, Bool.false_and, Bool.false_eq_true, ↓reduceIte, hm, List.map_cons]
  obtain ⟨c9, hse⟩ := stringEnd_eof c2 (skipWs_rest_nil c2 hr2)
  refine ⟨c9, ?_⟩
  show document ap c0 = _
  unfold document
  simp only [bind, pbind, hmany, skipNl_pastEnd c2 hp2, hse, pure, ppure]

/-! ### the build of such a document -/

/-- no column's type names a declared enum (such a column would hold the enum, not the type text) -/
def ColForm.noShadow (F : ColForm σ) (enums : List Enum) (t : FTab σ) : Prop :=
  ∀ s ∈ t.cols, resolveTypePure enums (F.bp s).type = .plain (F.bp s).type

theorem ColForm.noShadow_nil (F : ColForm σ) (t : FTab σ) : F.noShadow [] t := fun _ _ => rfl

theorem ColForm.buildTable_ok (F : ColForm σ) (ap : Bool) (enums : List Enum) (t : FTab σ) (hok : F.allOK ap t.cols)
    (hns : F.noShadow enums t) (hnt : norm t.note = t.note) :
    buildTable enums (F.tableBpC t.name t.cols t.note t.comment) = .ok (F.mkTable t) := by
  have hnote : buildNote (noteOpt t.note) = .ok t.note := by
    unfold noteOpt
    split
    · rename_i h; have : t.note = [] := by simpa using h
      rw [this]; rfl
    · simp [buildNote, hnt, pure, Except.pure]
  have hcols : (t.cols.map F.bp).mapM (buildColumn enums) = .ok (t.cols.map F.col) := by
    rw [List.mapM_map]
    exact mapM_ok_map_mem _ _ t.cols (fun s hs => F.build ap enums s (hok s hs) (hns s hs))
  simp [buildTable, ColForm.tableBpC, hnote, hcols, ColForm.mkTable, ColForm.table, bind, Except.bind, pure, Except.pure]

theorem ColForm.addTable_ok (F : ColForm σ) (done : List (FTab σ)) (t : FTab σ) (hd : ∀ u ∈ done, u.name ≠ t.name) :
    addTable (done.map F.mkTable) (F.mkTable t) = .ok (done.map F.mkTable ++ [F.mkTable t]) := by
  unfold addTable
  have h1 : (done.map F.mkTable).contains (F.mkTable t) = false := by
    simp only [List.contains_eq_mem, decide_eq_false_iff_not, List.mem_map, not_exists, not_and]
    intro u hu e
    apply hd u hu
    have : (F.mkTable u).name = (F.mkTable t).name := by rw [e]
    simpa [ColForm.mkTable, ColForm.table] using this
  have h2 : hasKey (done.map F.mkTable) (F.mkTable t).fullName = false := by
    simp only [hasKey, List.any_eq_false, List.mem_map, forall_exists_index, and_imp, forall_apply_eq_imp_iff₂]
    intro u hu
    simp only [ColForm.mkTable, ColForm.table, Table.fullName, Bool.or_eq_true, beq_iff_eq, not_or]
    refine ⟨fun e => hd u hu (fullName_inj _ _ e), by simp⟩
  simp only [h1, h2, Bool.false_eq_true, ↓reduceIte]
  simp [ColForm.mkTable, ColForm.table, pure, Except.pure]

theorem ColForm.foldlM_tables (F : ColForm σ) (ap : Bool) (enums : List Enum) : ∀ (todo done : List (FTab σ)),
    (done ++ todo).Pairwise (fun a b => a.name ≠ b.name) → (∀ t ∈ todo, F.allOK ap t.cols) →
    (∀ t ∈ todo, F.noShadow enums t) → (∀ t ∈ todo, norm t.note = t.note) →
    (todo.map fun t => F.tableBpC t.name t.cols t.note t.comment).foldlM (tableStep enums) (done.map F.mkTable) = .ok ((done ++ todo).map F.mkTable) := by
  intro todo
  induction todo with
  | nil => intro done _ _ _ _; simp [pure, Except.pure]
  | cons t r ih =>
    intro done hp hok hns hnn
    have hd : ∀ u ∈ done, u.name ≠ t.name := by
      intro u hu
      have := List.pairwise_append.mp hp
      exact this.2.2 u hu t (by simp)
    rw [List.map_cons, List.foldlM_cons]
    have hstep : tableStep enums (done.map F.mkTable) (F.tableBpC t.name t.cols t.note t.comment) = .ok ((done ++ [t]).map F.mkTable) := by
      unfold tableStep
      simp only [F.buildTable_ok ap enums t (hok t (by simp)) (hns t (by simp)) (hnn t (by simp)), bind, Except.bind, F.addTable_ok done t hd]
      simp
    rw [hstep]
    simp only [bind, Except.bind]
    have := ih (done ++ [t]) (by simpa using hp) (fun q hq => hok q (by simp [hq])) (fun q hq => hns q (by simp [hq]))
      (fun q hq => hnn q (by simp [hq]))
    simpa using this

theorem ColForm.build_tables (F : ColForm σ) (ap : Bool) (ts : List (FTab σ)) (hd : ts.Pairwise (fun a b => a.name ≠ b.name))
    (hok : ∀ t ∈ ts, F.allOK ap t.cols) (hno : ∀ t ∈ ts, ∀ s ∈ t.cols, F.irefs s = [])
    (hnn : ∀ t ∈ ts, norm t.note = t.note) :
    buildDatabase ap (ts.map F.mkElem) = .ok { tables := ts.map F.mkTable, allowProps := ap } := by
  have hT : tableBps (ts.map F.mkElem) = ts.map fun t => F.tableBpC t.name t.cols t.note t.comment := by
    simp [tableBps, ColForm.mkElem, List.filterMap_map, Function.comp_def]
  have hE : enumBps (ts.map F.mkElem) = [] := by
    simp [enumBps, ColForm.mkElem, List.filterMap_map, Function.comp_def]
  have hG : groupBps (ts.map F.mkElem) = [] := by
    simp [groupBps, ColForm.mkElem, List.filterMap_map, Function.comp_def]
  have hS : stickyBps (ts.map F.mkElem) = [] := by
    simp [stickyBps, ColForm.mkElem, List.filterMap_map, Function.comp_def]
  have hP : projectBp (ts.map F.mkElem) = none := by
    simp [projectBp, ColForm.mkElem, List.filterMap_map, Function.comp_def]
  have hR : refBlueprints (ts.map F.mkElem) = [] := by
    simp only [refBlueprints, ColForm.mkElem, List.flatMap_map, List.flatMap_eq_nil_iff]
    intro t ht
    simp only [ColForm.tableBpC, List.flatMap_eq_nil_iff]
    intro b hb
    obtain ⟨s, hs, rfl⟩ := List.mem_map.mp hb
    simp [F.norefs s (hno t ht s hs)]
  have hF := F.foldlM_tables ap [] ts [] (by simpa using hd) hok (fun t _ => F.noShadow_nil t) hnn
  simp only [List.map_nil, List.nil_append] at hF
  unfold buildDatabase
  simp [hT, hE, hG, hS, hP, hR, hF, buildProject, bind, Except.bind, pure, Except.pure]

/-! ### the rendering of such a database -/

theorem ColForm.renderTableBody_ok (F : ColForm σ) (db : Db) (ti : Nat) (tn : Str) (cs : List σ) (cm : Option Str) (nt : Str)
    (hinl : ∀ ci s, cs[ci]? = some s →
      (Dbml.inlineRefsOfColumn db ti ci).mapM (Dbml.renderInlineRef db) = .ok ((F.irefs s).map IRefT.text))
    (hcs : F.allOK db.allowProps cs) (hne : cs ≠ []) (hcm : CmOK cm) (hnt : Plain nt) :
    Dbml.renderTableBody db ti { F.table tn cs with comment := cm, note := nt }
      = .ok (commentText cm ++ F.tableTextN tn cs nt) := by
  have hcols : (List.range (F.table tn cs).columns.length).mapM (fun ci => do
      let c ← getD? (F.table tn cs).columns ci "column position"
      Dbml.renderColumn db ti ci c) = .ok (cs.map F.str) :=
    range_mapM_form_pos F.col "column position" F.str cs
      (fun ci c => Dbml.renderColumn db ti ci c)
      (fun i s hs => F.render db ti i s (hcs s (List.mem_of_getElem? hs)) (hinl i s hs))
  have hbody : Dbml.indent4 (joinNL (cs.map F.str)) ++ ['\n'] = F.text cs := by
    rw [F.text_flatMap]
    apply indent4_lines
    · simpa using hne
    · intro l hl
      obtain ⟨s, hs, rfl⟩ := List.mem_map.mp hl
      exact F.lineOK db.allowProps s (hcs s hs)
    · intro l hl
      obtain ⟨s, hs, rfl⟩ := List.mem_map.mp hl
      obtain ⟨q, hq⟩ := F.quoted s
      exact ⟨'"', q, hq, by decide⟩
  have hcols' : (List.range ({ F.table tn cs with comment := cm, note := nt } : Table).columns.length).mapM (fun ci => do
      let c ← getD? ({ F.table tn cs with comment := cm, note := nt } : Table).columns ci "column position"
      Dbml.renderColumn db ti ci c) = .ok (cs.map F.str) := hcols
  unfold Dbml.renderTableBody
  rw [hcols', optComment_eq cm hcm]
  have hnote := renderNote_block nt hnt
  simp [ColForm.table, truthy, qualName, bind, Except.bind, pure, Except.pure, ColForm.tableTextN, lit] at hbody hnote ⊢
  rw [← hbody, ← hnote]
  simp

/-- the inline references of a column that declares none, in a database that hosts none -/
theorem ColForm.inl_plain (F : ColForm σ) (db : Db) (hni : ∀ r ∈ db.refs, r.inline = false) (ti : Nat) (cs : List σ)
    (hno : ∀ s ∈ cs, F.irefs s = []) (ci : Nat) (s : σ) (hs : cs[ci]? = some s) :
    (Dbml.inlineRefsOfColumn db ti ci).mapM (Dbml.renderInlineRef db) = .ok ((F.irefs s).map IRefT.text) := by
  have hf : Dbml.inlineRefsOfColumn db ti ci = [] := by
    unfold Dbml.inlineRefsOfColumn
    rw [List.filter_eq_nil_iff]
    intro r hr
    simp [hni r hr]
  rw [hf, hno s (List.mem_of_getElem? hs)]
  rfl

theorem ColForm.joinWith_tables (F : ColForm σ) : ∀ (ts : List (FTab σ)),
    joinWith (lit "\n\n") (ts.map fun t => F.tabText t) = F.docText ts := by
  intro ts
  induction ts with
  | nil => rfl
  | cons t r ih =>
    cases r with
    | nil => simp [joinWith, ColForm.docText, ColForm.docTail, F.tabTextP_append]
    | cons t2 r2 =>
      simp only [List.map_cons, joinWith, ColForm.docText, ColForm.docTail, F.tabTextP_append] at ih ⊢
      rw [ih]
      simp [lit]

theorem range_mapM_mem {α β} (l : List α) (why : String) (g : Nat → α → R β) (h : α → β)
    (hg : ∀ i, ∀ x ∈ l, g i x = .ok (h x)) :
    (List.range l.length).mapM (fun i => do let x ← getD? l i why; g i x) = .ok (l.map h) := by
  rw [range_mapM_getD_idx l why g (fun x => Except.ok (h x)) hg]
  exact mapM_ok_map _ _ (fun _ => rfl) l

theorem ColForm.renderDb_tables (F : ColForm σ) (ap : Bool) (ts : List (FTab σ)) (hok : ∀ t ∈ ts, F.specOK ap t)
    (hno : ∀ t ∈ ts, ∀ s ∈ t.cols, F.irefs s = []) :
    Dbml.renderDb { tables := ts.map F.mkTable, allowProps := ap } = .ok (F.docText ts) := by
  have htabs : (List.range (ts.map F.mkTable).length).mapM (Dbml.renderTable { tables := ts.map F.mkTable, allowProps := ap })
      = .ok (ts.map fun t => F.tabText t) := by
    have := range_mapM_form F.mkTable "table position" (fun t => F.tabText t) ts
      (fun i t => Dbml.renderTableBody { tables := ts.map F.mkTable, allowProps := ap } i t)
      (fun i t ht => F.renderTableBody_ok { tables := ts.map F.mkTable, allowProps := ap } i t.name t.cols t.comment t.note
        (F.inl_plain _ (by simp) i t.cols (hno t ht)) (hok t ht).2.1 (hok t ht).2.2.1 (hok t ht).2.2.2.1 (hok t ht).2.2.2.2.1)
    unfold Dbml.renderTable
    exact this
  unfold Dbml.renderDb Dbml.renderProjectList
  simp only [bind, Except.bind, htabs]
  simp [pure, Except.pure, F.joinWith_tables]

/-- **C02 for whole documents of tables whose columns are written in any form that is read back**: any positive
    number of tables with pairwise different names, each with any positive number of columns of the form, is rendered
    to DBML and parsed back to exactly the same database - the same tables in the same order with the same columns in
    the same order. -/
theorem form_tables_roundtrip (F : ColForm σ) (ap : Bool) (ts : List (FTab σ)) (hok : ∀ t ∈ ts, F.specOK ap t)
    (hne : ts ≠ []) (hd : ts.Pairwise (fun a b => a.name ≠ b.name))
    (hno : ∀ t ∈ ts, ∀ s ∈ t.cols, F.irefs s = []) :
    ∃ text, Dbml.renderDb { tables := ts.map F.mkTable, allowProps := ap } = .ok text
      ∧ Build.parse ap text = .ok { tables := ts.map F.mkTable, allowProps := ap } := by
  refine ⟨F.docText ts, F.renderDb_tables ap ts hok hno, ?_⟩
  obtain ⟨c', hp⟩ := F.parseDoc_tables ap ts hok hne
  unfold Build.parse
  have hbom : removeBom (F.docText ts) = F.docText ts := by
    cases ts with
    | nil => rfl
    | cons t r =>
      cases hcmt : t.comment with
      | none => simp [removeBom, ColForm.docText, ColForm.tabTextP, ColForm.tableTextP, commentText, hcmt]
      | some s => simp [removeBom, ColForm.docText, ColForm.tabTextP, commentText, hcmt]
  rw [hbom, hp]
  simp [F.build_tables ap ts hd (fun t ht => (hok t ht).2.1) hno (fun t ht => (hok t ht).2.2.2.2.2.2)]

end C02
end PyDBML
