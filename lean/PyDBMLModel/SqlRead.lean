/-
A READER of the SQL DDL the default renderer writes (tables with columns): it looks at the text only.  It is the
independent reader C03 asks for: `PyDBMLProofs/Props/C03Read.lean` proves that it inverts the renderer model, and the
C03 check runs it (driver op `readsql`) on the `.sql` of the real code.
-/
import PyDBMLModel.Py
namespace PyDBML
namespace C03

/-- what a reader of the DDL learns about a column -/
structure ColDesc where
  name : Str
  type : Str
  pk : Bool
  autoinc : Bool
  unique : Bool
  notNull : Bool
  /-- the text after `DEFAULT ` -/
  default : Option Str
  deriving DecidableEq, Repr

/-- `kw` removed from the front of `s` if it is there -/
def stripKw (kw : Str) (s : Str) : Bool × Str :=
  if kw.isPrefixOf s then (true, s.drop kw.length) else (false, s)

/-- the reader of one column line: `"name" type[ PRIMARY KEY][ AUTOINCREMENT][ UNIQUE][ NOT NULL][ DEFAULT text]` -/
def readColumn (s : Str) : Option ColDesc :=
  match s with
  | '"' :: r =>
    match r.dropWhile (· != '"') with
    | '"' :: ' ' :: r2 =>
      let name := r.takeWhile (· != '"')
      let ty := r2.takeWhile (· != ' ')
      let f1 := stripKw [' ', 'P', 'R', 'I', 'M', 'A', 'R', 'Y', ' ', 'K', 'E', 'Y'] (r2.dropWhile (· != ' '))
      let f2 := stripKw [' ', 'A', 'U', 'T', 'O', 'I', 'N', 'C', 'R', 'E', 'M', 'E', 'N', 'T'] f1.2
      let f3 := stripKw [' ', 'U', 'N', 'I', 'Q', 'U', 'E'] f2.2
      let f4 := stripKw [' ', 'N', 'O', 'T', ' ', 'N', 'U', 'L', 'L'] f3.2
      match f4.2 with
      | [] => some ⟨name, ty, f1.1, f2.1, f3.1, f4.1, none⟩
      | rest =>
        let f5 := stripKw [' ', 'D', 'E', 'F', 'A', 'U', 'L', 'T', ' '] rest
        if f5.1 then some ⟨name, ty, f1.1, f2.1, f3.1, f4.1, some f5.2⟩ else none
    | _ => none
  | _ => none

/-- the reader of `"a", "b")`: the names between the quotes (`fuel` bounds the number of names) -/
def readNames : Nat → Str → Option (List Str)
  | 0, _ => none
  | fuel + 1, s =>
    match s with
    | '"' :: r =>
      match r.dropWhile (· != '"') with
      | ['"', ')'] => some [r.takeWhile (· != '"')]
      | '"' :: ',' :: ' ' :: r2 => (readNames fuel r2).map fun ns => r.takeWhile (· != '"') :: ns
      | _ => none
    | _ => none

/-- the reader of the lines between `CREATE TABLE … (` and `);`: two blanks, a column, a comma except on the last;
    the last line may instead be the table-level clause `PRIMARY KEY ("a", "b")` -/
def readBody : List Str → Option (List ColDesc × Option (List Str))
  | [] => none
  | [l] =>
    match l with
    | ' ' :: ' ' :: r =>
      match stripKw (lit "PRIMARY KEY (") r with
      | (true, q) => (readNames q.length q).map fun ns => ([], some ns)
      | _ => (readColumn r).map fun c => ([c], none)
    | _ => none
  | l :: l2 :: ls =>
    match l with
    | ' ' :: ' ' :: r =>
      if r.getLast? = some ',' then
        match readColumn r.dropLast, readBody (l2 :: ls) with
        | some c, some (cs, k) => some (c :: cs, k)
        | _, _ => none
      else none
    | _ => none

/-- what a reader of the DDL learns about a table: the qualified name as written, the columns in order, and the
    table-level key clause if there is one -/
structure TabDesc where
  qname : Str
  cols : List ColDesc
  key : Option (List Str)
  deriving DecidableEq, Repr

/-- the reader of the lines of a table statement -/
def readTableLines (lines : List Str) : Option TabDesc :=
  match lines with
  | h :: rest =>
    match stripKw (lit "CREATE TABLE ") h with
    | (true, q) =>
      if q.getLast? = some '(' ∧ q.dropLast.getLast? = some ' ' ∧ rest.getLast? = some (lit ");") then
        (readBody rest.dropLast).map fun b => ⟨q.dropLast.dropLast, b.1, b.2⟩
      else none
    | _ => none
  | [] => none

/-- the reader of a table statement -/
def readTable (text : Str) : Option TabDesc := readTableLines (splitNL text)

/-- the lines of a script, cut at the empty lines -/
def splitBlocks : List Str → List (List Str)
  | [] => [[]]
  | l :: ls =>
    match splitBlocks ls with
    | b :: bs => if l = [] then [] :: b :: bs else (l :: b) :: bs
    | [] => [[l]]

/-- the reader of a script of table statements separated by empty lines -/
def readScript (text : Str) : Option (List TabDesc) := (splitBlocks (splitNL text)).mapM readTableLines

/-! ### enums -/

/-- what a reader of the DDL learns about an enum: the qualified name as written and the items in order -/
structure EnumDesc where
  qname : Str
  items : List Str
  deriving DecidableEq, Repr

/-- `suf` removed from the end of `s` if it is there -/
def stripSuffix? (suf s : Str) : Option Str :=
  if suf.isSuffixOf s then some (s.take (s.length - suf.length)) else none

/-- the item lines of `CREATE TYPE … AS ENUM (`: two blanks, the item between single quotes, a comma except on the last -/
def readEnumItems : List Str → Option (List Str)
  | [] => none
  | [l] =>
    match l with
    | ' ' :: ' ' :: '\'' :: r => stripSuffix? ['\''] r |>.map fun n => [n]
    | _ => none
  | l :: l2 :: ls =>
    match l with
    | ' ' :: ' ' :: '\'' :: r =>
      match stripSuffix? ['\'', ','] r, readEnumItems (l2 :: ls) with
      | some n, some ns => some (n :: ns)
      | _, _ => none
    | _ => none

/-- the reader of the lines of an enum statement -/
def readEnumLines (lines : List Str) : Option EnumDesc :=
  match lines with
  | h :: rest =>
    match stripKw (lit "CREATE TYPE ") h with
    | (true, q) =>
      match stripSuffix? (lit " AS ENUM (") q with
      | some qn =>
        if rest.getLast? = some (lit ");") then (readEnumItems rest.dropLast).map fun is => ⟨qn, is⟩ else none
      | none => none
    | _ => none
  | [] => none

end C03
end PyDBML

namespace PyDBML
namespace C04
open C03 (stripKw)

/-- `"name"` at the front of `s`: the name and what follows the closing quote -/
def readQuoted (s : Str) : Option (Str × Str) :=
  match s with
  | '"' :: r =>
    match r.dropWhile (· != '"') with
    | '"' :: rest => some (r.takeWhile (· != '"'), rest)
    | _ => none
  | _ => none

/-- a name as `get_full_name_for_sql` writes it, `"name"` or `"schema"."name"`: the text read and what follows -/
def readQual (s : Str) : Option (Str × Str) :=
  match readQuoted s with
  | some (n1, '.' :: '"' :: r) =>
    match readQuoted ('"' :: r) with
    | some (n2, rest) => some ('"' :: n1 ++ '"' :: '.' :: '"' :: n2 ++ ['"'], rest)
    | none => none
  | some (n1, rest) => some ('"' :: n1 ++ ['"'], rest)
  | none => none

/-- `"a", "b")…`: the names and what follows the closing parenthesis -/
def readNamesR : Nat → Str → Option (List Str × Str)
  | 0, _ => none
  | fuel + 1, s =>
    match readQuoted s with
    | some (n, ')' :: rest) => some ([n], rest)
    | some (n, ',' :: ' ' :: r2) => (readNamesR fuel r2).map fun p => (n :: p.1, p.2)
    | _ => none

/-- what a reader of the DDL learns from one `ALTER TABLE … ADD … FOREIGN KEY` statement -/
structure FkDesc where
  /-- the table altered: the one that gets the key, as qualified in the text -/
  src : Str
  constraint : Option Str
  srcCols : List Str
  /-- the table referenced -/
  dst : Str
  dstCols : List Str
  /-- what follows the referenced columns, without the final semicolon -/
  actions : Str
  deriving DecidableEq, Repr

def readConstraint (s : Str) : Option Str × Str :=
  match stripKw (lit "CONSTRAINT ") s with
  | (true, s1) =>
    match readQuoted s1 with
    | some (n, ' ' :: r) => (some n, r)
    | _ => (none, s)
  | _ => (none, s)

/-- the reader of one `ALTER TABLE "t" ADD [CONSTRAINT "n" ]FOREIGN KEY ("a", …) REFERENCES "u" ("x", …)…;` -/
def readFk (s : Str) : Option FkDesc :=
  match stripKw (lit "ALTER TABLE ") s with
  | (true, s1) =>
    match readQual s1 with
    | some (src, s2) =>
      match stripKw (lit " ADD ") s2 with
      | (true, s3) =>
        match stripKw (lit "FOREIGN KEY (") (readConstraint s3).2 with
        | (true, s4) =>
          match readNamesR s4.length s4 with
          | some (sc, s5) =>
            match stripKw (lit " REFERENCES ") s5 with
            | (true, s6) =>
              match readQual s6 with
              | some (dst, s7) =>
                match stripKw (lit " (") s7 with
                | (true, s8) =>
                  match readNamesR s8.length s8 with
                  | some (dc, s9) =>
                    if s9.getLast? = some ';' then some ⟨src, (readConstraint s3).1, sc, dst, dc, s9.dropLast⟩ else none
                  | none => none
                | _ => none
              | none => none
            | _ => none
          | none => none
        | _ => none
      | _ => none
    | none => none
  | _ => none

/-- what a reader learns from one `[CONSTRAINT "n" ]FOREIGN KEY (…) REFERENCES "u" (…)…` clause inside a CREATE TABLE -/
structure FkClauseDesc where
  constraint : Option Str
  srcCols : List Str
  dst : Str
  dstCols : List Str
  /-- what follows the referenced columns -/
  actions : Str
  deriving DecidableEq, Repr

/-- the reader of an inline FOREIGN KEY clause (the table that gets the key is the one whose CREATE TABLE holds it) -/
def readFkClause (s3 : Str) : Option FkClauseDesc :=
  match stripKw (lit "FOREIGN KEY (") (readConstraint s3).2 with
  | (true, s4) =>
    match readNamesR s4.length s4 with
    | some (sc, s5) =>
      match stripKw (lit " REFERENCES ") s5 with
      | (true, s6) =>
        match readQual s6 with
        | some (dst, s7) =>
          match stripKw (lit " (") s7 with
          | (true, s8) =>
            match readNamesR s8.length s8 with
            | some (dc, s9) => some ⟨(readConstraint s3).1, sc, dst, dc, s9⟩
            | none => none
          | _ => none
        | none => none
      | _ => none
    | none => none
  | _ => none

/-- what a reader of the DDL learns from one `CREATE INDEX` statement -/
structure IndexDesc where
  unique : Bool
  name : Option Str
  /-- the table, as qualified in the text -/
  table : Str
  /-- the word after `USING`, if any -/
  method : Option Str
  cols : List Str
  deriving DecidableEq, Repr

/-- `"name" ` at the front (the optional index name) -/
def readIndexName (s : Str) : Option Str × Str :=
  match readQuoted s with
  | some (n, ' ' :: r) => (some n, r)
  | _ => (none, s)

/-- `USING WORD ` at the front (the optional index type) -/
def readUsing (s : Str) : Option Str × Str :=
  match stripKw (lit "USING ") s with
  | (true, r) =>
    match r.dropWhile (· != ' ') with
    | ' ' :: r2 => (some (r.takeWhile (· != ' ')), r2)
    | _ => (none, s)
  | _ => (none, s)

/-- the reader of one `CREATE [UNIQUE ]INDEX ["name" ]ON "t" [USING TYPE ]("a", …);` over column subjects -/
def readIndex (s : Str) : Option IndexDesc :=
  match stripKw (lit "CREATE ") s with
  | (true, s1) =>
    let u := stripKw (lit "UNIQUE ") s1
    match stripKw (lit "INDEX ") u.2 with
    | (true, s2) =>
      let nm := readIndexName s2
      match stripKw (lit "ON ") nm.2 with
      | (true, s3) =>
        match readQual s3 with
        | some (tq, ' ' :: s4) =>
          let us := readUsing s4
          match us.2 with
          | '(' :: s5 =>
            match readNamesR s5.length s5 with
            | some (cs, [';']) => some ⟨u.1, nm.1, tq, us.1, cs⟩
            | _ => none
          | _ => none
        | _ => none
      | _ => none
    | _ => none
  | _ => none

/-- what a reader of the DDL learns from one `COMMENT ON` statement -/
structure CommentDesc where
  /-- `TABLE` or `COLUMN` -/
  entity : Str
  /-- the quoted names, dot-separated in the text -/
  path : List Str
  /-- the text between the single quotes -/
  text : Str
  deriving DecidableEq, Repr

def readCommentTail (ent : Str) (path : List Str) (s : Str) : Option CommentDesc :=
  match stripKw (lit " IS '") s with
  | (true, t) => (C03.stripSuffix? (lit "';") t).map fun x => ⟨ent, path, x⟩
  | _ => none

/-- the reader of one `COMMENT ON TABLE "t" IS '…';` / `COMMENT ON COLUMN "t"."c" IS '…';` -/
def readCommentOn (s : Str) : Option CommentDesc :=
  match stripKw (lit "COMMENT ON ") s with
  | (true, s1) =>
    match s1.dropWhile (· != ' ') with
    | ' ' :: s2 =>
      match readQuoted s2 with
      | some (n1, '.' :: s3) =>
        match readQuoted s3 with
        | some (n2, s4) => readCommentTail (s1.takeWhile (· != ' ')) [n1, n2] s4
        | none => none
      | some (n1, s3) => readCommentTail (s1.takeWhile (· != ' ')) [n1] s3
      | none => none
    | _ => none
  | _ => none

end C04
end PyDBML

namespace PyDBML
namespace C03

/-- one statement of a script, as read -/
inductive Stmt where
  | enum (d : EnumDesc)
  | table (d : TabDesc)
  | fk (d : C04.FkDesc)
  | index (d : C04.IndexDesc)
  deriving DecidableEq, Repr

/-- the reader of one block of lines (what stands between two empty lines of the script) -/
def readBlock (lines : List Str) : Option Stmt :=
  match lines with
  | [] => none
  | h :: rest =>
    if (lit "CREATE TYPE ").isPrefixOf h then (readEnumLines lines).map Stmt.enum
    else if (lit "CREATE TABLE ").isPrefixOf h then (readTableLines lines).map Stmt.table
    else if (lit "ALTER TABLE ").isPrefixOf h ∧ rest = [] then (C04.readFk h).map Stmt.fk
    else if (lit "CREATE ").isPrefixOf h ∧ rest = [] then (C04.readIndex h).map Stmt.index
    else none

/-- the reader of a whole script: enum, table and foreign-key statements separated by empty lines -/
def readScriptAll (text : Str) : Option (List Stmt) := (splitBlocks (splitNL text)).mapM readBlock

end C03
end PyDBML
