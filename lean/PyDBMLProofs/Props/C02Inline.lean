/-
C02/C05/C15 — inline references (`ref: > "t"."c"` among a column's settings): what the build makes of them, which of a
database's references a column shows, and that the ones written in a column are the ones shown on it.  Used by the
document theorem (C02Document.lean).
-/
import PyDBMLProofs.Props.C02FormRefs
namespace PyDBML
namespace C02
open Lex Grammar Build

variable {σ : Type}

/-- a positional reference together with its "written inline" flag -/
def mkRefB (x : RSpec × Bool) : Ref := { mkRef x.1 with inlineFlag := x.2 }

/-- the names an inline reference names its target with -/
def ColForm.itgt (F : ColForm σ) (ts : List (FTab σ)) (r : RSpec) : IRefT :=
  { kind := r.kind, tn := F.tnameAt ts r.t2, cn := F.cnameAt ts r.t2 r.c2 }

/-- what `PyDBMLParser.refs` receives for an inline reference written in column `x.2.1` of table `x.1` -/
def ibp (x : Str × Str × IRefT) : Bp.RefBp :=
  { x.2.2.bp with schema1 := lit "public", table1 := some x.1, col1 := some x.2.1 }

/-- the blueprint of a positional reference, inline or not -/
def ColForm.bpB (F : ColForm σ) (ts : List (FTab σ)) (x : RSpec × Bool) : Bp.RefBp :=
  { refBp (F.rtext ts x.1) with inline := x.2 }

/-- (host table name, host column name, target names) of a positional inline reference -/
def ColForm.iwritten (F : ColForm σ) (ts : List (FTab σ)) (r : RSpec) : Str × Str × IRefT :=
  (F.tnameAt ts r.t1, F.cnameAt ts r.t1 r.c1, F.itgt ts r)

theorem ColForm.ibp_iwritten (F : ColForm σ) (ts : List (FTab σ)) (r : RSpec) :
    ibp (F.iwritten ts r) = F.bpB ts (r, true) := rfl

theorem ColForm.bpB_false (F : ColForm σ) (ts : List (FTab σ)) (r : RSpec) :
    F.bpB ts (r, false) = refBp (F.rtext ts r) := rfl

/-- the inline references as the document writes them, in document order: (table name, column name, target names) -/
def ColForm.written (F : ColForm σ) (ts : List (FTab σ)) : List (Str × Str × IRefT) :=
  ts.flatMap fun t => t.cols.flatMap fun s => (F.irefs s).map fun r => (t.name, F.cname s, r)

/-! ### the build -/

theorem ColForm.buildRefB_ok (F : ColForm σ) (ts : List (FTab σ)) (hr : F.Resolvable ts) (x : RSpec × Bool)
    (hin : F.RSpecIn ts x.1) (db : Db) (hdb : db.tables = ts.map F.mkTable) :
    buildRef db (F.bpB ts x) = .ok (mkRefB x) := by
  obtain ⟨r, b⟩ := x
  obtain ⟨ta, tb, h1, h2, hc1, hc2⟩ := hin
  have hca : ta.cols[r.c1]? = some ta.cols[r.c1] := List.getElem?_eq_getElem hc1
  have hcb : tb.cols[r.c2]? = some tb.cols[r.c2] := List.getElem?_eq_getElem hc2
  have e1 : F.tnameAt ts r.t1 = ta.name := by simp [ColForm.tnameAt, h1]
  have e2 : F.tnameAt ts r.t2 = tb.name := by simp [ColForm.tnameAt, h2]
  have e3 : F.cnameAt ts r.t1 r.c1 = F.cname (ta.cols[r.c1]) := by simp [ColForm.cnameAt, h1, hca]
  have e4 : F.cnameAt ts r.t2 r.c2 = F.cname (tb.cols[r.c2]) := by simp [ColForm.cnameAt, h2, hcb]
  unfold buildRef
  simp only [ColForm.bpB, refBp, ColForm.rtext, hdb, e1, e2, e3, e4, F.locateTable_ok ts hr r.t1 ta h1,
    F.locateTable_ok ts hr r.t2 tb h2, F.colsAt_ok ts hr r.t1 r.c1 ta _ h1 hca, F.colsAt_ok ts hr r.t2 r.c2 tb _ h2 hcb,
    bind, Except.bind, pure, Except.pure]
  rfl

theorem refEq_mkRefB (db : Db) (x y : RSpec × Bool) : refEq db (mkRefB x) (mkRefB y) = refEq db (mkRef x.1) (mkRef y.1) := rfl

theorem ColForm.foldlM_refsB (F : ColForm σ) (ts : List (FTab σ)) (hr : F.Resolvable ts) (db1 : Db)
    (hdb : db1.tables = ts.map F.mkTable) :
    ∀ (todo done : List (RSpec × Bool)), (∀ x ∈ done ++ todo, F.RSpecIn ts x.1) → ((done ++ todo).map Prod.fst).Nodup →
    (todo.map (F.bpB ts)).foldlM (refStep db1) (done.map mkRefB) = .ok ((done ++ todo).map mkRefB) := by
  intro todo
  induction todo with
  | nil => intro done _ _; simp [pure, Except.pure]
  | cons r t ih =>
    intro done hin hnd
    rw [List.map_cons, List.foldlM_cons]
    have hrin : F.RSpecIn ts r.1 := hin r (by simp)
    have hstep : refStep db1 (done.map mkRefB) (F.bpB ts r) = .ok ((done ++ [r]).map mkRefB) := by
      unfold refStep
      rw [F.buildRefB_ok ts hr r hrin db1 hdb]
      simp only [bind, Except.bind]
      have hno : (done.map mkRefB).any (fun m => refEq { db1 with refs := done.map mkRefB } (mkRefB r) m) = false := by
        rw [List.any_eq_false]
        intro m hm
        obtain ⟨d, hd, rfl⟩ := List.mem_map.mp hm
        intro heq
        rw [refEq_mkRefB] at heq
        have := F.refEq_ok ts hr { db1 with refs := done.map mkRefB } hdb r.1 d.1 hrin (hin d (by simp [hd])) heq
        simp only [List.map_append, List.map_cons] at hnd
        have hnd' := List.nodup_append.mp hnd
        exact hnd'.2.2 d.1 (List.mem_map_of_mem hd) r.1 (by simp) this.symm
      simp [hno, pure, Except.pure]
    rw [hstep]
    simp only [bind, Except.bind]
    have := ih (done ++ [r]) (by simpa using hin) (by simpa using hnd)
    simpa using this

/-! ### which references a column shows -/

/-- names determine positions -/
theorem ColForm.names_inj (F : ColForm σ) (ts : List (FTab σ)) (hr : F.Resolvable ts) (i j ci cj : Nat) (ta tb : FTab σ)
    (hi : ts[i]? = some ta) (hj : ts[j]? = some tb) (hci : ci < ta.cols.length) (hcj : cj < tb.cols.length)
    (hn : ta.name = tb.name) (hc : F.cname ta.cols[ci] = F.cname tb.cols[cj]) : i = j ∧ ci = cj := by
  obtain ⟨hil, hta⟩ := getElem_of_getElem? ts i ta hi
  obtain ⟨hjl, htb⟩ := getElem_of_getElem? ts j tb hj
  have htt : i = j := by
    rcases Nat.lt_trichotomy i j with hlt | heq | hgt
    · exact absurd (by rw [hta, htb]; exact hn) ((List.pairwise_iff_getElem.mp hr.tnames) i j hil hjl hlt)
    · exact heq
    · exact absurd (by rw [hta, htb]; exact hn.symm) ((List.pairwise_iff_getElem.mp hr.tnames) j i hjl hil hgt)
  subst htt
  have hab : ta = tb := by rw [hi] at hj; exact Option.some.inj hj
  subst hab
  refine ⟨rfl, ?_⟩
  have htm : ta ∈ ts := List.mem_of_getElem? hi
  rcases Nat.lt_trichotomy ci cj with hlt | heq | hgt
  · exact absurd hc ((List.pairwise_iff_getElem.mp (hr.cnames ta htm)) ci cj hci hcj hlt)
  · exact heq
  · exact absurd hc.symm ((List.pairwise_iff_getElem.mp (hr.cnames ta htm)) cj ci hcj hci hgt)

/-- the inline references a column shows: the ones hosted at its position -/
theorem ColForm.inlineRefsOfColumn_eq (F : ColForm σ) (ts : List (FTab σ)) (hr : F.Resolvable ts) (db : Db)
    (hdb : db.tables = ts.map F.mkTable) (inl rs : List RSpec)
    (hrefs : db.refs = inl.map (fun r => mkRefB (r, true)) ++ rs.map mkRef)
    (hin : ∀ r ∈ inl, F.RSpecIn ts r) (hk : ∀ r ∈ inl, r.kind ≠ .manyToMany)
    (ti ci : Nat) (t : FTab σ) (ht : ts[ti]? = some t) (hci : ci < t.cols.length) :
    Dbml.inlineRefsOfColumn db ti ci
      = (inl.filter fun r => r.t1 == ti && r.c1 == ci).map fun r => mkRefB (r, true) := by
  unfold Dbml.inlineRefsOfColumn
  rw [hrefs, List.filter_append]
  have h2 : (rs.map mkRef).filter (fun r => r.t1 == ti && r.col1.any (fun k => Dbml.colEq db ti ci r.t1 k) && r.inline) = [] := by
    rw [List.filter_eq_nil_iff]
    intro r hr'
    obtain ⟨q, _, rfl⟩ := List.mem_map.mp hr'
    simp [mkRef, Ref.inline]
  rw [h2, List.append_nil, List.filter_map]
  congr 1
  apply List.filter_congr
  intro r hrm
  obtain ⟨ra, rb, h1, _, h3, _⟩ := hin r hrm
  have hinl : (mkRefB (r, true)).inline = true := by
    have := hk r hrm
    cases hkk : r.kind <;> simp_all [mkRefB, mkRef, Ref.inline]
  simp only [Function.comp, hinl, Bool.and_true]
  simp only [mkRefB, mkRef, List.any_cons, List.any_nil, Bool.or_false]
  by_cases hti : r.t1 = ti
  · subst hti
    simp only [beq_self_eq_true, Bool.true_and]
    have hta : ra = t := by rw [h1] at ht; exact Option.some.inj ht
    subst hta
    by_cases hcc : r.c1 = ci
    · subst hcc
      simp [Dbml.colEq]
    · have : Dbml.colEq db r.t1 ci r.t1 r.c1 = false := by
        cases hce : Dbml.colEq db r.t1 ci r.t1 r.c1 with
        | false => rfl
        | true =>
          have := (F.colEq_ok ts hr db hdb _ _ _ _ ra ra h1 h1 hci h3 hce).2
          exact absurd this.symm hcc
      simp [this, hcc]
  · have hb : (r.t1 == ti) = false := beq_eq_false_iff_ne.mpr hti
    rw [hb]; rfl

/-! ### the references written in a column are the ones hosted at its position -/

theorem flatMap_filter_key {α β κ : Type} [DecidableEq κ] (key : α → κ) (g : α → List β) (p : β → Bool) (a0 : α) :
    ∀ (l : List α), l.Pairwise (fun a b => key a ≠ key b) → a0 ∈ l →
    (∀ a ∈ l, ∀ b ∈ g a, p b = decide (key a = key a0)) → (l.flatMap g).filter p = g a0 := by
  intro l
  induction l with
  | nil => intro _ h; cases h
  | cons a r ih =>
    intro hpw hmem hp
    rw [List.flatMap_cons, List.filter_append]
    rw [List.pairwise_cons] at hpw
    by_cases hk : key a = key a0
    · have ha : a = a0 := by
        rcases List.mem_cons.mp hmem with h | h
        · exact h.symm
        · exact absurd hk (hpw.1 a0 h)
      subst ha
      have h1 : (g a).filter p = g a := by
        rw [List.filter_eq_self]
        intro b hb
        rw [hp a (by simp) b hb]
        simp
      have h2 : (r.flatMap g).filter p = [] := by
        rw [List.filter_eq_nil_iff]
        intro b hb
        obtain ⟨a', ha', hb'⟩ := List.mem_flatMap.mp hb
        rw [hp a' (by simp [ha']) b hb']
        simp [Ne.symm (hpw.1 a' ha')]
      rw [h1, h2, List.append_nil]
    · have h1 : (g a).filter p = [] := by
        rw [List.filter_eq_nil_iff]
        intro b hb
        rw [hp a (by simp) b hb]
        simp [hk]
      have hm : a0 ∈ r := by
        rcases List.mem_cons.mp hmem with h | h
        · exact absurd (by rw [h]) hk
        · exact h
      rw [h1, List.nil_append]
      exact ih hpw.2 hm (fun a' ha' => hp a' (by simp [ha']))

/-- picking one column's references out of everything the document writes inline -/
theorem ColForm.written_filter (F : ColForm σ) (ts : List (FTab σ)) (hr : F.Resolvable ts) (t : FTab σ) (s : σ)
    (ht : t ∈ ts) (hs : s ∈ t.cols) :
    (F.written ts).filter (fun x => decide (x.1 = t.name) && decide (x.2.1 = F.cname s))
      = (F.irefs s).map fun r => (t.name, F.cname s, r) := by
  have hsplit : (F.written ts).filter (fun x => decide (x.1 = t.name) && decide (x.2.1 = F.cname s))
      = ((F.written ts).filter (fun x => decide (x.1 = t.name))).filter (fun x => decide (x.2.1 = F.cname s)) := by
    rw [List.filter_filter]
    apply List.filter_congr
    intro x _
    exact Bool.and_comm _ _
  rw [hsplit]
  have h1 : (F.written ts).filter (fun x => decide (x.1 = t.name))
      = t.cols.flatMap fun s => (F.irefs s).map fun r => (t.name, F.cname s, r) := by
    unfold ColForm.written
    apply flatMap_filter_key (fun a : FTab σ => a.name)
      (fun a => a.cols.flatMap fun s => (F.irefs s).map fun r => (a.name, F.cname s, r)) _ t ts hr.tnames ht
    intro a _ b hb
    obtain ⟨s', _, hb'⟩ := List.mem_flatMap.mp hb
    obtain ⟨r, _, rfl⟩ := List.mem_map.mp hb'
    rfl
  rw [h1]
  apply flatMap_filter_key (fun a : σ => F.cname a) (fun s => (F.irefs s).map fun r => (t.name, F.cname s, r)) _ s t.cols
    (hr.cnames t ht) hs
  intro a _ b hb
  obtain ⟨r, _, rfl⟩ := List.mem_map.mp hb
  rfl

/-- **the inline references a column writes are the names of the references hosted at its position** -/
theorem ColForm.irefs_eq (F : ColForm σ) (ts : List (FTab σ)) (hr : F.Resolvable ts) (inl : List RSpec)
    (hin : ∀ r ∈ inl, F.RSpecIn ts r) (hw : F.written ts = inl.map (F.iwritten ts))
    (ti ci : Nat) (t : FTab σ) (s : σ) (ht : ts[ti]? = some t) (hs : t.cols[ci]? = some s) :
    F.irefs s = (inl.filter fun r => r.t1 == ti && r.c1 == ci).map (F.itgt ts) := by
  have htm : t ∈ ts := List.mem_of_getElem? ht
  have hsm : s ∈ t.cols := List.mem_of_getElem? hs
  obtain ⟨hcl, hcs⟩ := getElem_of_getElem? t.cols ci s hs
  have hA := F.written_filter ts hr t s htm hsm
  rw [hw, List.filter_map] at hA
  have hB : inl.filter ((fun x : Str × Str × IRefT => decide (x.1 = t.name) && decide (x.2.1 = F.cname s)) ∘ F.iwritten ts)
      = inl.filter fun r => r.t1 == ti && r.c1 == ci := by
    apply List.filter_congr
    intro r hrm
    obtain ⟨ra, rb, h1, _, h3, _⟩ := hin r hrm
    have hca : ra.cols[r.c1]? = some ra.cols[r.c1] := List.getElem?_eq_getElem h3
    have e1 : F.tnameAt ts r.t1 = ra.name := by simp [ColForm.tnameAt, h1]
    have e3 : F.cnameAt ts r.t1 r.c1 = F.cname (ra.cols[r.c1]) := by simp [ColForm.cnameAt, h1, hca]
    simp only [Function.comp, ColForm.iwritten, e1, e3]
    rw [Bool.eq_iff_iff]
    simp only [Bool.and_eq_true, decide_eq_true_eq, beq_iff_eq]
    constructor
    · rintro ⟨hn, hc⟩
      exact F.names_inj ts hr r.t1 ti r.c1 ci ra t h1 ht h3 hcl hn (by rw [hcs]; exact hc)
    · rintro ⟨rfl, rfl⟩
      have : ra = t := by rw [h1] at ht; exact Option.some.inj ht
      subst this
      exact ⟨rfl, by rw [hcs]⟩
  rw [hB] at hA
  have := congrArg (List.map (fun x : Str × Str × IRefT => x.2.2)) hA
  simp only [List.map_map, Function.comp_def, ColForm.iwritten] at this
  simpa using this.symm

/-! ### the rendering -/

theorem ColForm.renderInlineRef_ok (F : ColForm σ) (db : Db) (ts : List (FTab σ)) (hdb : db.tables = ts.map F.mkTable)
    (r : RSpec) (hin : F.RSpecIn ts r) :
    Dbml.renderInlineRef db (mkRefB (r, true)) = .ok (F.itgt ts r).text := by
  obtain ⟨ta, tb, h1, h2, hc1, hc2⟩ := hin
  have hcb : tb.cols[r.c2]? = some tb.cols[r.c2] := List.getElem?_eq_getElem hc2
  unfold Dbml.renderInlineRef
  simp [mkRefB, mkRef, getD?, hdb, List.getElem?_map, h2, hcb, ColForm.mkTable, ColForm.table, bind, Except.bind, pure,
    Except.pure, ColForm.itgt, IRefT.text, ColForm.tnameAt, ColForm.cnameAt, ColForm.cname, qualName, lit]

/-- what a column shows, rendered: the texts of the references it writes -/
theorem ColForm.inline_rendered (F : ColForm σ) (ts : List (FTab σ)) (hr : F.Resolvable ts) (db : Db)
    (hdb : db.tables = ts.map F.mkTable) (inl rs : List RSpec)
    (hrefs : db.refs = inl.map (fun r => mkRefB (r, true)) ++ rs.map mkRef)
    (hin : ∀ r ∈ inl, F.RSpecIn ts r) (hk : ∀ r ∈ inl, r.kind ≠ .manyToMany) (hw : F.written ts = inl.map (F.iwritten ts))
    (ti ci : Nat) (t : FTab σ) (s : σ) (ht : ts[ti]? = some t) (hs : t.cols[ci]? = some s) :
    (Dbml.inlineRefsOfColumn db ti ci).mapM (Dbml.renderInlineRef db) = .ok ((F.irefs s).map IRefT.text) := by
  obtain ⟨hcl, _⟩ := getElem_of_getElem? t.cols ci s hs
  rw [F.inlineRefsOfColumn_eq ts hr db hdb inl rs hrefs hin hk ti ci t ht hcl, F.irefs_eq ts hr inl hin hw ti ci t s ht hs,
    List.mapM_map, List.map_map]
  apply mapM_ok_map_mem
  intro r hrm
  exact F.renderInlineRef_ok db ts hdb r (hin r (List.mem_filter.mp hrm).1)

/-- the standalone references of such a database -/
theorem filter_not_inline (inl rs : List RSpec) (hk : ∀ r ∈ inl, r.kind ≠ .manyToMany) :
    (inl.map (fun r => mkRefB (r, true)) ++ rs.map mkRef).filter (!·.inline) = rs.map mkRef := by
  rw [List.filter_append]
  have h1 : (inl.map (fun r => mkRefB (r, true))).filter (!·.inline) = [] := by
    rw [List.filter_eq_nil_iff]
    intro x hx
    obtain ⟨r, hr, rfl⟩ := List.mem_map.mp hx
    have := hk r hr
    cases hkk : r.kind <;> simp_all [mkRefB, mkRef, Ref.inline]
  have h2 : (rs.map mkRef).filter (!·.inline) = rs.map mkRef := by
    rw [List.filter_eq_self]
    intro x hx
    obtain ⟨r, _, rfl⟩ := List.mem_map.mp hx
    simp [mkRef, Ref.inline]
  rw [h1, h2, List.nil_append]

theorem flatMap_congr_mem {α β : Type} {f g : α → List β} : ∀ (l : List α), (∀ a ∈ l, f a = g a) →
    l.flatMap f = l.flatMap g := by
  intro l
  induction l with
  | nil => intro _; rfl
  | cons a r ih =>
    intro h
    rw [List.flatMap_cons, List.flatMap_cons, h a (by simp), ih (fun b hb => h b (by simp [hb]))]

theorem buildColumn_name (enums : List Enum) (b : Bp.ColBp) (c : Column) (h : buildColumn enums b = .ok c) :
    c.name = b.name := by
  unfold buildColumn at h
  simp only [bind, Except.bind, pure, Except.pure] at h
  split at h
  · cases h
  · split at h
    · cases h
    · split at h
      · cases h
      · cases h; rfl

end C02
end PyDBML
