"""Document generators: a plain Python speller of specs (varied spellings), the repo's corpus, and
token-/character-level mutation of documents."""
import glob
import os
import re

CORPUS_GLOBS = ['/repo/test/test_data/*.dbml', '/repo/test/test_data/docs/*.dbml']

LEX = re.compile(r"""
    '''(?:\\.|[^\\])*?''' | '(?:\\.|[^'\\\n])*' | "(?:\\.|[^"\\\n])*" | `[^`]*`
  | //[^\n]* | /\*.*?\*/
  | [A-Za-z0-9_]+ | \n | [ \t\r]+ | .
""", re.X | re.S)

INSERTS = ['{', '}', '[', ']', '(', ')', ',', ':', '.', "'", '"', '`', "'''", '\n', ' ', '//x', '/*y*/', 'note', 'Note:',
           'ref:', '>', '<', '-', '<>', 'pk', 'null', 'not null', 'unique', 'as', 'indexes', 'Table', 'Enum', 'Ref', 'x',
           '1', '1.5', '#fff', '#ggg', 'default:', 'type:', 'btree', 'xtree', 'delete:', 'cascade', 'explode', 'headercolor:',
           '\\', ';', '*/', '/*', 'TableGroup', 'Project', '﻿', '\x0c', ' ', 'é', '\t', '\r\n']


def corpus():
    out = []
    for g in CORPUS_GLOBS:
        for f in sorted(glob.glob(g)):
            try:
                out.append((os.path.basename(f), open(f, encoding='utf8').read()))
            except Exception:  # noqa: BLE001
                pass
    return out


def tokens(text):
    return LEX.findall(text)


def mutate(rng, text, n=1):
    """n random token-/character-level mutations"""
    toks = tokens(text)
    for _ in range(n):
        if not toks:
            toks = [rng.choice(INSERTS)]
            continue
        k = rng.randrange(8)
        i = rng.randrange(len(toks))
        if k == 0:
            del toks[i]
        elif k == 1:
            toks.insert(i, toks[i])
        elif k == 2:
            j = rng.randrange(len(toks))
            toks[i], toks[j] = toks[j], toks[i]
        elif k == 3:
            toks.insert(i, rng.choice(INSERTS))
        elif k == 4:
            toks[i] = rng.choice(INSERTS)
        elif k == 5:
            t = toks[i]
            if t:
                p = rng.randrange(len(t))
                toks[i] = t[:p] + t[p + 1:]
        elif k == 6:
            t = toks[i]
            p = rng.randrange(len(t) + 1)
            toks[i] = t[:p] + rng.choice(['x', ' ', '\n', "'", '"', '{', '}', '[', ']', '\\', ':', ',']) + t[p:]
        else:
            toks = toks[:i] if rng.random() < 0.5 else toks[i:]
    return ''.join(toks)


def soup(rng, n):
    return ' '.join(rng.choice(INSERTS + ['t1', 'id', 'int', 'varchar(10)', 'a.b', 'public.t.c', "'s'", '"q n"', '`e`'])
                    for _ in range(n))
