/-
L3a: blueprint records — what the parse actions of `pydbml/definitions/*.py` produce.
-/
import PyDBMLModel.Lex
namespace PyDBML
namespace Bp

/-- the value of a `default:` setting as the parse action leaves it -/
inductive DefaultBp where
  | str (s : Str)
  | expr (text : Str)
  | bool (b : Bool)
  | null                  -- `null`: the action returns None, the token `'NULL'` is kept
  | int (digits : Str)    -- `int(tok[0])`
  | float (text : Str)    -- `float(tok[0])`
  deriving Repr, DecidableEq, Inhabited

structure RefBp where
  kind : RefKind
  inline : Bool
  name : Option Str := none
  schema1 : Str := lit "public"
  table1 : Option Str := none
  col1 : Option Str := none
  schema2 : Str := lit "public"
  table2 : Option Str := none
  col2 : Option Str := none
  comment : Option Str := none
  onUpdate : Option Str := none
  onDelete : Option Str := none
  deriving Repr, DecidableEq, Inhabited

structure ColBp where
  name : Str
  type : Str
  unique : Bool := false
  notNull : Bool := false
  pk : Bool := false
  autoinc : Bool := false
  default : Option DefaultBp := none
  note : Option Str := none           -- raw note text (normalised at build time)
  refs : List RefBp := []
  comment : Option Str := none
  props : Option (List (Str × Str)) := none
  deriving Repr, DecidableEq, Inhabited

inductive SubjBp where
  | name (s : Str)
  | expr (text : Str)
  deriving Repr, DecidableEq, Inhabited

structure IdxBp where
  subjects : List SubjBp
  name : Option Str := none
  unique : Bool := false
  type : Option Str := none
  pk : Bool := false
  note : Option Str := none
  comment : Option Str := none
  deriving Repr, DecidableEq, Inhabited

structure TableBp where
  name : Str
  schema : Str := lit "public"
  columns : List ColBp := []
  indexes : Option (List IdxBp) := none
  alias : Option Str := none
  note : Option Str := none
  headerColor : Option Str := none
  comment : Option Str := none
  props : Option (List (Str × Str)) := none
  deriving Repr, DecidableEq, Inhabited

structure EnumItemBp where
  name : Str
  note : Option Str := none
  comment : Option Str := none
  deriving Repr, DecidableEq, Inhabited

structure EnumBp where
  name : Str
  items : List EnumItemBp
  schema : Str := lit "public"
  comment : Option Str := none
  deriving Repr, DecidableEq, Inhabited

structure ProjectBp where
  name : Str
  items : List (Str × Str) := []
  note : Option Str := none
  comment : Option Str := none
  deriving Repr, DecidableEq, Inhabited

structure GroupBp where
  name : Str
  items : List Str := []
  comment : Option Str := none
  note : Option Str := none
  color : Option Str := none
  deriving Repr, DecidableEq, Inhabited

structure StickyBp where
  name : Str
  text : Str
  deriving Repr, DecidableEq, Inhabited

/-- a top-level element, in source order -/
inductive Elem where
  | table (t : TableBp)
  | ref (r : RefBp)
  | enum (e : EnumBp)
  | group (g : GroupBp)
  | project (p : ProjectBp)
  | sticky (s : StickyBp)
  deriving Repr, DecidableEq, Inhabited

/-- Python `dict` built by `d[k] = v` in sequence: first position, last value -/
def dictSet (d : List (Str × Str)) (k v : Str) : List (Str × Str) :=
  if d.any (·.1 == k) then d.map fun p => if p.1 == k then (k, v) else p else d ++ [(k, v)]

def dictOf (kvs : List (Str × Str)) : List (Str × Str) :=
  kvs.foldl (fun d p => dictSet d p.1 p.2) []

end Bp
end PyDBML
