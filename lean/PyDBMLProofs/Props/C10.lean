/-
C10 — renderings reflect the current state after edits.  In the content model a database IS its current content
(links are positions, a name is stored once, on its owner), so "identical to a database freshly built with the final
content" is definitional there; what the correspondence checks is that the real objects behave like that.  What can be
STATED in the model, and is proved here from the reader theorems of C03/C04, is the second sentence of the property:
no rendering keeps a stale name.  After an in-place rename of a table or of a column, the DDL of every standalone
reference to it - read back by the proved reader - shows the new name, and the table's own CREATE TABLE shows it.
-/
import PyDBMLModel
import PyDBMLProofs.Props.C03Script
namespace PyDBML
namespace C10
open Sql C03 C04

/-- the in-place edit `table.name = n` on the table at position `i` -/
def renameTable (db : Db) (i : Nat) (n : Str) : Db :=
  { db with tables := db.tables.modify i fun t => { t with name := n } }

/-- the in-place edit `column.name = n` on column `j` of table `i` -/
def renameColumn (db : Db) (i j : Nat) (n : Str) : Db :=
  { db with tables := db.tables.modify i fun t => { t with columns := t.columns.modify j fun c => { c with name := n } } }

/-- a reference TO a renamed table: the statement, read back, references the new name (qualified with the unchanged
    schema) -/
theorem fk_shows_renamed_target (db : Db) (i : Nat) (n : Str) (r : Ref) (t : Table) (hi : db.tables[i]? = some t)
    (hr : (refSides r).2.1 = i) (h : FkReadable (renameTable db i n) r) :
    ∃ line, renderRefTop (renameTable db i n) r = .ok line
      ∧ (readFk line).map (·.dst) = some (qualName t.schema n) := by
  have hrt : rtOf (renameTable db i n) r = { t with name := n } := by
    simp [rtOf, renameTable, hr, List.getElem?_modify_eq, hi]
  obtain ⟨line, h1, h2⟩ := read_render_fk (renameTable db i n) r h.kind h.standalone (stOf _ r) (rtOf _ r)
    (by simp [stOf, List.getElem?_eq_getElem h.src]) (by simp [rtOf, List.getElem?_eq_getElem h.dst])
    h.srcCols h.dstCols h.comment h.ne1 h.ne2 h.quotesT h.quotesC h.quotesN
  refine ⟨line, h1, ?_⟩
  rw [h2, hrt]
  rfl

/-- a reference FROM a renamed table: the statement alters the table under its new name -/
theorem fk_shows_renamed_source (db : Db) (i : Nat) (n : Str) (r : Ref) (t : Table) (hi : db.tables[i]? = some t)
    (hr : (refSides r).1.1 = i) (h : FkReadable (renameTable db i n) r) :
    ∃ line, renderRefTop (renameTable db i n) r = .ok line
      ∧ (readFk line).map (·.src) = some (qualName t.schema n) := by
  have hst : stOf (renameTable db i n) r = { t with name := n } := by
    simp [stOf, renameTable, hr, List.getElem?_modify_eq, hi]
  obtain ⟨line, h1, h2⟩ := read_render_fk (renameTable db i n) r h.kind h.standalone (stOf _ r) (rtOf _ r)
    (by simp [stOf, List.getElem?_eq_getElem h.src]) (by simp [rtOf, List.getElem?_eq_getElem h.dst])
    h.srcCols h.dstCols h.comment h.ne1 h.ne2 h.quotesT h.quotesC h.quotesN
  refine ⟨line, h1, ?_⟩
  rw [h2, hst]
  rfl

/-- a reference to a renamed column: the referenced column list, read back, shows the new name at that position and the
    unchanged names elsewhere -/
theorem fk_shows_renamed_column (db : Db) (i j : Nat) (n : Str) (r : Ref) (t : Table) (hi : db.tables[i]? = some t)
    (hr : (refSides r).2.1 = i) (h : FkReadable (renameColumn db i j n) r) :
    ∃ line, renderRefTop (renameColumn db i j n) r = .ok line
      ∧ (readFk line).map (·.dstCols)
        = some ((refSides r).2.2.map fun k => if j = k then (if k < t.columns.length then n else []) else ((t.columns[k]?).map (·.name)).getD []) := by
  have hrt : rtOf (renameColumn db i j n) r = { t with columns := t.columns.modify j fun c => { c with name := n } } := by
    simp [rtOf, renameColumn, hr, List.getElem?_modify_eq, hi]
  obtain ⟨line, h1, h2⟩ := read_render_fk (renameColumn db i j n) r h.kind h.standalone (stOf _ r) (rtOf _ r)
    (by simp [stOf, List.getElem?_eq_getElem h.src]) (by simp [rtOf, List.getElem?_eq_getElem h.dst])
    h.srcCols h.dstCols h.comment h.ne1 h.ne2 h.quotesT h.quotesC h.quotesN
  refine ⟨line, h1, ?_⟩
  rw [h2, hrt]
  simp only [fkDescOf, namesAt, Option.map_some]
  congr 1
  apply List.map_congr_left
  intro k _
  rw [List.getElem?_modify]
  by_cases hjk : j = k
  · subst hjk
    by_cases hl : j < t.columns.length
    · simp [hl, List.getElem?_eq_getElem hl]
    · simp [hl, List.getElem?_eq_none (Nat.le_of_not_lt hl)]
  · cases hk : t.columns[k]? <;> simp [hjk]

/-- the renamed table's own statement shows the new name -/
theorem table_shows_new_name (db : Db) (i : Nat) (n : Str) (t : Table) (hi : db.tables[i]? = some t)
    (h : Readable (renameTable db i n) { t with name := n }) :
    ∃ text, renderTableWith (renameTable db i n) { t with name := n } [] = .ok text
      ∧ (readTable text).map (·.qname) = some (qualName t.schema n) := by
  obtain ⟨text, h1, h2⟩ := read_render_table (renameTable db i n) { t with name := n } h
  exact ⟨text, h1, by rw [h2]; rfl⟩

end C10
end PyDBML
