/-
C14 — comments: every rendered comment line carries the marker, so comment text can never become
part of a statement (lines being LF-separated, as the code defines them).
-/
import PyDBMLModel
namespace PyDBML
namespace C14

theorem splitNL_ne_nil (s : Str) : splitNL s ≠ [] := by
  induction s with
  | nil => simp [splitNL]
  | cons c r ih =>
    unfold splitNL
    split
    · simp
    · cases h : splitNL r with
      | nil => exact absurd h ih
      | cons l ls => simp

theorem splitNL_cons_not_nl (c : Char) (r : Str) (hc : c ≠ '\n') :
    ∃ l ls, splitNL r = l :: ls ∧ splitNL (c :: r) = (c :: l) :: ls := by
  cases h : splitNL r with
  | nil => exact absurd h (splitNL_ne_nil r)
  | cons l ls =>
    refine ⟨l, ls, rfl, ?_⟩
    conv => lhs; unfold splitNL
    simp [hc, h]

theorem splitNL_no_nl (s : Str) : ∀ l ∈ splitNL s, '\n' ∉ l := by
  induction s with
  | nil => simp [splitNL]
  | cons c r ih =>
    by_cases hc : c = '\n'
    · subst hc
      unfold splitNL
      simp only [↓reduceIte]
      intro l hl
      rcases List.mem_cons.mp hl with rfl | hl
      · simp
      · exact ih l hl
    · obtain ⟨l0, ls, h1, h2⟩ := splitNL_cons_not_nl c r hc
      rw [h2]
      rw [h1] at ih
      intro l hl
      rcases List.mem_cons.mp hl with rfl | hl
      · intro hm
        rcases List.mem_cons.mp hm with h3 | h3
        · exact hc h3.symm
        · exact ih l0 (by simp) h3
      · exact ih l (by simp [hl])

theorem splitNL_append_nl (s : Str) : splitNL (s ++ ['\n']) = splitNL s ++ [[]] := by
  induction s with
  | nil => simp [splitNL]
  | cons c r ih =>
    by_cases hc : c = '\n'
    · subst hc
      simp only [List.cons_append]
      conv => lhs; unfold splitNL
      conv => rhs; unfold splitNL
      simp [ih]
    · simp only [List.cons_append]
      obtain ⟨l, ls, h1, h2⟩ := splitNL_cons_not_nl c r hc
      obtain ⟨l', ls', h1', h2'⟩ := splitNL_cons_not_nl c (r ++ ['\n']) hc
      rw [h2, h2']
      rw [ih, h1] at h1'
      simp only [List.cons_append, List.cons.injEq] at h1'
      obtain ⟨rfl, rfl⟩ := h1'
      simp

theorem splitNL_no_nl_self (l : Str) (h : '\n' ∉ l) : splitNL l = [l] := by
  induction l with
  | nil => simp [splitNL]
  | cons c r ih =>
    have hc : c ≠ '\n' := fun e => h (by simp [e])
    have hr : '\n' ∉ r := fun e => h (by simp [e])
    obtain ⟨l0, ls, h1, h2⟩ := splitNL_cons_not_nl c r hc
    rw [h2]
    rw [ih hr] at h1
    simp only [List.cons.injEq] at h1
    obtain ⟨rfl, rfl⟩ := h1
    rfl

theorem splitNL_line_nl (l rest : Str) (h : '\n' ∉ l) :
    splitNL (l ++ '\n' :: rest) = l :: splitNL rest := by
  induction l with
  | nil => simp [splitNL]
  | cons c r ih =>
    have hc : c ≠ '\n' := fun e => h (by simp [e])
    have hr : '\n' ∉ r := fun e => h (by simp [e])
    simp only [List.cons_append]
    obtain ⟨l0, ls, h1, h2⟩ := splitNL_cons_not_nl c (r ++ '\n' :: rest) hc
    rw [h2]
    rw [ih hr] at h1
    simp only [List.cons.injEq] at h1
    obtain ⟨rfl, rfl⟩ := h1
    rfl

/-- `split('\n')` inverts `'\n'.join` on LF-free lines -/
theorem splitNL_joinNL (ls : List Str) (hne : ls ≠ []) (h : ∀ l ∈ ls, '\n' ∉ l) :
    splitNL (joinNL ls) = ls := by
  induction ls with
  | nil => exact absurd rfl hne
  | cons l rest ih =>
    cases rest with
    | nil => simpa [joinNL] using splitNL_no_nl_self l (h l (by simp))
    | cons l2 rest2 =>
      have : joinNL (l :: l2 :: rest2) = l ++ '\n' :: joinNL (l2 :: rest2) := rfl
      rw [this, splitNL_line_nl l _ (h l (by simp)), ih (by simp) (fun x hx => h x (by simp [hx]))]

/-- The lines of a rendered comment (`tools.comment(val, comb)`) are exactly the lines of the comment
    text, each prefixed with the marker and a blank, followed by the terminating line break: no
    line of user text is emitted without the marker. -/
theorem comment_lines_prefixed (comb val : Str) (hc : '\n' ∉ comb) :
    splitNL (commentLines comb val) = (splitNL val).map (fun l => comb ++ ' ' :: l) ++ [[]] := by
  unfold commentLines
  rw [splitNL_append_nl, splitNL_joinNL]
  · simp [splitNL_ne_nil]
  · intro l hl
    simp only [List.mem_map] at hl
    obtain ⟨x, hx, rfl⟩ := hl
    intro hm
    rcases List.mem_append.mp hm with h1 | h1
    · exact hc h1
    · rcases List.mem_cons.mp h1 with h2 | h2
      · exact absurd h2 (by decide)
      · exact splitNL_no_nl val x hx h2

theorem comment_ends_with_newline (comb val : Str) :
    ∃ body, commentLines comb val = body ++ ['\n'] := ⟨_, rfl⟩

example : commentLines (lit "--") (lit "a'; DROP TABLE t;\nb") = lit "-- a'; DROP TABLE t;\n-- b\n" := by decide

end C14
end PyDBML
