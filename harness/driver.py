"""Process wrapper around the compiled Lean model driver (JSON line protocol)."""
import json
import os
import subprocess
import sys

VERIF = os.path.dirname(os.path.dirname(os.path.abspath(__file__)))
LEAN_DIR = os.path.join(VERIF, 'lean')
DRIVER_BIN = os.path.join(LEAN_DIR, '.lake', 'build', 'bin', 'driver')


class DriverError(RuntimeError):
    pass


def build(targets=()):
    """`lake build` (no-op when up to date). Returns (ok, output)."""
    cmd = ['lake', 'build'] + list(targets)
    p = subprocess.run(cmd, cwd=LEAN_DIR, stdout=subprocess.PIPE, stderr=subprocess.STDOUT, text=True)
    return p.returncode == 0, p.stdout


class Driver:
    def __init__(self):
        if not os.path.exists(DRIVER_BIN):
            raise DriverError('driver binary missing: run `lake build` in /verif/lean')
        self.p = subprocess.Popen([DRIVER_BIN], stdin=subprocess.PIPE, stdout=subprocess.PIPE,
                                  text=True, encoding='utf-8', bufsize=1)
        self.n = 0

    def ask(self, req):
        line = json.dumps(req, ensure_ascii=False)
        self.p.stdin.write(line + '\n')
        self.p.stdin.flush()
        out = self.p.stdout.readline()
        if not out:
            raise DriverError(f'driver died on request {line[:200]!r}')
        self.n += 1
        return json.loads(out)

    def ask_many(self, reqs):
        """Pipeline a batch: a writer thread feeds the driver while we read the replies."""
        import threading
        reqs = list(reqs)
        if not reqs:
            return []
        data = ''.join(json.dumps(r, ensure_ascii=False) + '\n' for r in reqs)

        def feed():
            try:
                self.p.stdin.write(data)
                self.p.stdin.flush()
            except Exception:
                pass
        t = threading.Thread(target=feed, daemon=True)
        t.start()
        res = []
        for _ in reqs:
            out = self.p.stdout.readline()
            if not out:
                raise DriverError('driver died in batch')
            res.append(json.loads(out))
        t.join()
        self.n += len(reqs)
        return res

    def close(self):
        try:
            self.p.stdin.close()
            self.p.wait(timeout=5)
        except Exception:
            self.p.kill()

    def __enter__(self):
        return self

    def __exit__(self, *a):
        self.close()


def has_surrogate(s):
    return any(0xD800 <= ord(c) <= 0xDFFF for c in s)
