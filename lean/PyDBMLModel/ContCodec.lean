/- JSON codec for the container state machine (driver side only). -/
import Lean.Data.Json
import PyDBMLModel.Container
import PyDBMLModel.Codec
open Lean
namespace PyDBML
namespace Cont
open Codec

def kindOf (s : String) : D Kind :=
  match s with
  | "table" => pure .table | "ref" => pure .ref | "enum" => pure .enum | "group" => pure .group
  | "sticky" => pure .sticky | "project" => pure .project | "other" => pure .other
  | _ => throw s!"kind {s}"

def decUniverse (j : Json) : D St := do
  let T ← (← arrF j "T").mapM fun t => do
    pure ({ name := ← strF t "name", schema := ← strF t "schema", alias := ← optStr t "alias",
            content := ← natF t "content" } : TObj)
  let R ← (← arrF j "R").mapM fun r => do
    let cols ← (← arrF r "cols").mapM fun c => do
      match c with
      | .arr #[o, k] =>
        let owner ← match o with | .null => pure none | v => do pure (some (← v.getNat?))
        pure ({ owner := owner, key := ← k.getNat? } : RCol)
      | _ => throw "rcol"
    pure ({ sig := ← natF r "sig", cols := cols } : RObj)
  let E ← (← arrF j "E").mapM fun e => do
    pure ({ name := ← strF e "name", schema := ← strF e "schema", content := ← natF e "content" } : EObj)
  let G ← (← arrF j "G").mapM fun g => do pure ({ name := ← strF g "name" } : GObj)
  let n ← natFD j "N" 0
  let p ← natFD j "P" 0
  pure { T := T, R := R, E := E, G := G, N := List.replicate n false, P := List.replicate p false }

def decOp (j : Json) : D Op := do
  match j with
  | .arr a =>
    let tag ← (a[0]?.getD Json.null).getStr?
    match tag with
    | "add" => pure (.add (← kindOf (← (a[1]?.getD Json.null).getStr?)) (← (a[2]?.getD Json.null).getNat?))
    | "delete" => pure (.delete (← kindOf (← (a[1]?.getD Json.null).getStr?)) (← (a[2]?.getD Json.null).getNat?))
    | "deleteProject" => pure .deleteProject
    | "setName" => pure (.setName (← (a[1]?.getD Json.null).getNat?) (← str (a[2]?.getD Json.null)))
    | "setSchema" => pure (.setSchema (← (a[1]?.getD Json.null).getNat?) (← str (a[2]?.getD Json.null)))
    | "setAlias" =>
      let v := a[2]?.getD Json.null
      let al ← match v with | .null => pure none | x => do pure (some (← str x))
      pure (.setAlias (← (a[1]?.getD Json.null).getNat?) al)
    | _ => throw s!"op {tag}"
  | _ => throw "op array expected"

def encOutcome : Outcome → Json
  | .ok => "ok" | .rejected => "rejected" | .badOp => "bad-op"

/-- canonical state dump: lists, final mapping of the dict, back-pointers and current names. -/
def encState (s : St) : Json :=
  let keys := (dictSeq s).map (·.1)
  let distinct := keys.foldl (fun acc k => if acc.contains k then acc else acc ++ [k]) []
  Json.mkObj [
    ("tables", jnats s.tables), ("refs", jnats s.refs), ("enums", jnats s.enums),
    ("groups", jnats s.groups), ("sticky", jnats s.sticky),
    ("project", match s.project with | some p => (p : Json) | none => .null),
    ("dict", .arr (distinct.map fun k => Json.arr #[jstr k, match lookup s k with
        | some i => (i : Json) | none => .null]).toArray),
    ("T", .arr (s.T.map fun t => Json.arr #[jstr t.name, jstr t.schema, jopt t.alias, .bool t.inDb]).toArray),
    ("R", .arr (s.R.map fun r => Json.bool r.inDb).toArray),
    ("E", .arr (s.E.map fun e => Json.bool e.inDb).toArray),
    ("G", .arr (s.G.map fun g => Json.bool g.inDb).toArray),
    ("N", .arr (s.N.map Json.bool).toArray),
    ("P", .arr (s.P.map Json.bool).toArray)]

def runHist (j : Json) : D Json := do
  let s0 ← decUniverse (← fld j "universe")
  let ops ← (← arrF j "ops").mapM decOp
  let (_, out) := ops.foldl (fun (acc : St × List Json) op =>
      let (s', o) := step acc.1 op
      (s', acc.2 ++ [Json.mkObj [("outcome", encOutcome o), ("state", encState s')]])) (s0, [])
  pure (Json.mkObj [("steps", .arr out.toArray)])

end Cont
end PyDBML
