"""C03 — SQL DDL states exactly the model: types, tables, columns, keys, indexes, notes."""
from harness import core
from harness.props import sqlcommon as SC

PID = 'C03'
THEOREMS = ['PyDBML.C04.read_render_comment_table', 'PyDBML.C04.read_render_comment_column', 'PyDBML.C03.read_render_script_ix', 'PyDBML.C03.read_render_script_all', 'PyDBML.C04.read_render_index', 'PyDBML.C03.read_render_enum', 'PyDBML.C03.read_render_script', 'PyDBML.C03.read_render_table', 'PyDBML.C03.read_render_column', 'PyDBML.C03.same_ddl_same_content',
            'PyDBML.C03.script_structure', 'PyDBML.C03.column_pk_component', 'PyDBML.C03.default_component', 'PyDBML.C15.sql_column_ignores_props']
MODULES = ['PyDBMLProofs.Props.C03', 'PyDBMLProofs.Props.C03Read', 'PyDBMLProofs.Props.C04Read', 'PyDBMLProofs.Props.C03Script', 'PyDBMLProofs.Props.C03Index', 'PyDBMLProofs.Props.C03ScriptIx', 'PyDBMLProofs.Props.C03Comment']


def kf_replay(f):
    from harness import gen_db as GD, sql_oracle as SO
    spec = f['witness']['spec']
    db, _ = GD.build(spec)
    res = SO.check_sql(spec, db.sql)['C03']
    return any(r[2] == f['reason'] for r in res)


# ---- the proved reader (PyDBMLModel/SqlRead.lean, theorems in C03Read.lean) run on the .sql of the real code ----

NAME_POOL = ['id', 'a', 'b', 'user id', 'Name', 'x1', 'order', 'très', 'a.b', "it's", 'k,', '(p)', ' lead', 'täble', 'n' * 40, '-', '1']
TYPE_POOL = ['int', 'integer', 'varchar(20)', 'decimal(10,2)', 'text', 'int[]', 'timestamp', 'json', 'my_type', 'CHAR(1)']
DEFAULTS = [None, None, 0, 1, -7, 10 ** 20, 0.0, 1.5, -0.25, True, False, '', 'x', 'two words', "it's", 'NULL', ('expr', 'now()'),
            ('expr', 'a + b'), ('expr', ''), ('expr', '(a)'), ('expr', '(a) + (b)'), 'a,', ', b', '(x)']


def gen_reader_spec(rng):
    """tables of the class `Readable` (C03Read.lean): columns with any flags, any default kind, any pk layout; no notes,
    comments, indexes, references, enums"""
    nt = rng.choice([1, 1, 2, 3, 4])
    tables, used = [], set()
    for _ in range(nt):
        while True:
            key = (rng.choice(['public', 'public', 's1', 'my schema']), rng.choice(NAME_POOL))
            if key not in used:
                used.add(key)
                break
        nc = rng.choice([1, 2, 3, 5])
        names = rng.sample(NAME_POOL, nc)
        layout = rng.choice(['none', 'one', 'one', 'many', 'all'])
        cols = []
        for i, n in enumerate(names):
            pk = {'none': False, 'one': i == 0, 'many': i < 2, 'all': True}[layout]
            cols.append({'name': n, 'type': rng.choice(TYPE_POOL), 'pk': pk, 'autoinc': rng.random() < .3, 'unique': rng.random() < .3,
                         'not_null': rng.random() < .4, 'default': rng.choice(DEFAULTS)})
        tables.append({'schema': key[0], 'name': key[1], 'columns': cols})
    return tables


def reader_expect(tables):
    """what the statement promises, from the generated content alone"""
    out = []
    for t in tables:
        npk = sum(1 for c in t['columns'] if c['pk'])
        q = '"%s"' % t['name'] if t['schema'] == 'public' else '"%s"."%s"' % (t['schema'], t['name'])
        cols = []
        for c in t['columns']:
            d = c['default']
            dt = None if d is None else ('(%s)' % d[1] if isinstance(d, tuple) else str(d))
            cols.append({'name': c['name'], 'type': c['type'], 'pk': c['pk'] and npk <= 1, 'autoinc': c['autoinc'],
                         'unique': c['unique'], 'not_null': c['not_null'], 'default': dt})
        out.append({'qname': q, 'cols': cols, 'key': [c['name'] for c in t['columns'] if c['pk']] if npk > 1 else None})
    return out


def reader_job(tables):
    from pydbml import Database
    from pydbml.classes import Table, Column, Expression
    db = Database()
    for t in tables:
        tb = Table(t['name'], schema=t['schema'])
        for c in t['columns']:
            d = c['default']
            tb.add_column(Column(c['name'], c['type'], pk=c['pk'], autoinc=c['autoinc'], unique=c['unique'], not_null=c['not_null'],
                                 default=Expression(d[1]) if isinstance(d, tuple) else d))
        db.add(tb)
    try:
        return ['ok', db.sql]
    except Exception as e:       # noqa
        return ['exc', type(e).__name__]


def part_reader(ctx, drv):
    if drv is None:
        ctx.notes.append('reader part skipped: no driver')
        return
    n = 300 if ctx.tier == 'quick' else 3000
    specs = [gen_reader_spec(ctx.rng) for _ in range(n)]
    res = core.pmap(reader_job, specs)
    read = drv.ask_many({'op': 'readsql', 'text': r[1] if r[0] == 'ok' else ''} for r in res)
    for tables, r, m in zip(specs, res, read):
        ctx.case(core.h(tables), True)
        ctx.count('reader:tables=%d' % len(tables))
        ctx.count('reader:pk-layouts=' + ','.join(sorted({str(min(2, sum(1 for c in t['columns'] if c['pk']))) for t in tables})))
        case = {'op': 'readsql', 'tables': tables}
        if r[0] != 'ok':
            ctx.fail('db.sql of plain tables raises', case, detail=r[1])
            continue
        exp = reader_expect(tables)
        got = m.get('ok')
        if got != exp:
            ctx.fail('the proved DDL reader does not read from db.sql what the model holds (C03Read.read_render_script)', case,
                     detail={'expected': exp, 'read': got}, sql=r[1])
    part_script(ctx, drv)
    part_index(ctx, drv)
    part_comment(ctx, drv)


INDEX_NAMES = [None, None, '', 'idx', 'by name', 'ix-1', "o'k"]


def gen_index_spec(rng):
    tables = gen_reader_spec(rng)
    for t in tables:
        t['indexes'] = []
        for _ in range(rng.choice([0, 1, 1, 2])):
            n = rng.choice([1, 1, 2, min(3, len(t['columns']))])
            n = max(1, min(n, len(t['columns'])))
            t['indexes'].append({'cols': rng.sample(range(len(t['columns'])), n), 'unique': rng.random() < .4,
                                 'name': rng.choice(INDEX_NAMES), 'type': rng.choice([None, None, 'btree', 'hash', 'BTREE'])})
    return tables


def index_expect(tables):
    out = []
    for t in tables:
        q = '"%s"' % t['name'] if t['schema'] == 'public' else '"%s"."%s"' % (t['schema'], t['name'])
        out.append([{'unique': ix['unique'], 'name': ix['name'] or None, 'table': q, 'using': ix['type'].upper() if ix['type'] else None,
                     'cols': [t['columns'][i]['name'] for i in ix['cols']]} for ix in t['indexes']])
    return out


def index_job(tables):
    from pydbml import Database
    from pydbml.classes import Table, Column, Index
    db = Database()
    out = []
    for t in tables:
        tb = Table(t['name'], schema=t['schema'])
        for c in t['columns']:
            tb.add_column(Column(c['name'], c['type'], pk=c['pk']))
        ixs = []
        for ix in t['indexes']:
            o = Index([tb.columns[i] for i in ix['cols']], name=ix['name'], unique=ix['unique'], type=ix['type'])
            tb.add_index(o)
            ixs.append(o)
        db.add(tb)
        row = []
        for o in ixs:
            try:
                row.append(['ok', o.sql])
            except Exception as e:      # noqa
                row.append(['exc', type(e).__name__])
        out.append(row)
    try:
        whole = ['ok', db.sql]
    except Exception as e:              # noqa
        whole = ['exc', type(e).__name__]
    return {'indexes': out, 'db': whole}


def part_index(ctx, drv):
    n = 200 if ctx.tier == 'quick' else 2000
    specs = [gen_index_spec(ctx.rng) for _ in range(n)]
    res = core.pmap(index_job, specs)
    flat = [(si, ti, k) for si, r in enumerate(res) for ti, row in enumerate(r['indexes']) for k, x in enumerate(row) if x[0] == 'ok']
    read = drv.ask_many({'op': 'readindex', 'text': res[si]['indexes'][ti][k][1]} for si, ti, k in flat)
    got = {key: m.get('ok') for key, m in zip(flat, read)}
    for si, (tables, r) in enumerate(zip(specs, res)):
        ctx.case(core.h(tables), True)
        exp = index_expect(tables)
        case = {'op': 'readindex', 'tables': tables}
        stmts = []
        for ti, row in enumerate(r['indexes']):
            for k, x in enumerate(row):
                ctx.count('index-reader:' + x[0])
                if x[0] != 'ok':
                    ctx.fail('index.sql raises', case, detail=x[1])
                    continue
                stmts.append(x[1])
                if got[(si, ti, k)] != exp[ti][k]:
                    ctx.fail('the proved CREATE INDEX reader does not read from index.sql what the index says (C03Index.read_render_index)',
                             case, detail={'expected': exp[ti][k], 'read': got[(si, ti, k)], 'table': ti, 'index': k}, sql=x[1])
        if r['db'][0] == 'ok':
            lines = [l for l in r['db'][1].split('\n') if l.startswith('CREATE INDEX ') or l.startswith('CREATE UNIQUE INDEX ')]
            if lines != stmts:
                ctx.fail('db.sql does not hold exactly one CREATE INDEX statement per index, in order', case,
                         detail={'in db.sql': lines, 'index.sql': stmts})
        else:
            ctx.fail('db.sql raises', case, detail=r['db'][1])


NOTE_TEXTS = [None, None, 'a note', "it's", 'semi; colon', 'two  blanks', 'ünï 日本', '"double"', "'", 'x' * 60]


def gen_comment_spec(rng):
    """tables in the default schema with one-line notes on tables and columns (COMMENT ON statements)"""
    tables = [t for t in gen_reader_spec(rng)]
    seen = set()
    out = []
    for t in tables:
        if t['name'] in seen:
            continue
        seen.add(t['name'])
        t['schema'] = 'public'
        t['note'] = rng.choice(NOTE_TEXTS)
        for c in t['columns']:
            c['note'] = rng.choice(NOTE_TEXTS)
        out.append(t)
    return out


def comment_expect(tables):
    out = []
    for t in tables:
        if t['note']:
            out.append({'entity': 'TABLE', 'path': [t['name']], 'text': t['note'].replace("'", '"')})
        for c in t['columns']:
            if c['note']:
                out.append({'entity': 'COLUMN', 'path': [t['name'], c['name']], 'text': c['note'].replace("'", '"')})
    return out


def comment_job(tables):
    from pydbml import Database
    from pydbml.classes import Table, Column
    db = Database()
    for t in tables:
        tb = Table(t['name'], schema=t['schema'], note=t['note'])
        for c in t['columns']:
            tb.add_column(Column(c['name'], c['type'], pk=c['pk'], note=c['note']))
        db.add(tb)
    try:
        return ['ok', db.sql]
    except Exception as e:      # noqa
        return ['exc', type(e).__name__]


def part_comment(ctx, drv):
    n = 150 if ctx.tier == 'quick' else 1500
    specs = [gen_comment_spec(ctx.rng) for _ in range(n)]
    res = core.pmap(comment_job, specs)
    lines = [[l for l in r[1].split('\n') if l.startswith('COMMENT ON ')] if r[0] == 'ok' else [] for r in res]
    flat = [(si, k) for si, ls in enumerate(lines) for k in range(len(ls))]
    read = drv.ask_many({'op': 'readcomment', 'text': lines[si][k]} for si, k in flat)
    got = {}
    for (si, k), m in zip(flat, read):
        got.setdefault(si, []).append(m.get('ok'))
    for si, (tables, r) in enumerate(zip(specs, res)):
        ctx.case(core.h(['comment-on', tables]), True)
        case = {'op': 'readcomment', 'tables': tables}
        if r[0] != 'ok':
            ctx.fail('db.sql of tables with notes raises', case, detail=r[1])
            continue
        exp = comment_expect(tables)
        ctx.count('comment-reader:statements', len(exp))
        if got.get(si, []) != exp:
            ctx.fail('the proved COMMENT ON reader does not read from db.sql one statement per note with the note text '
                     '(C03Comment.read_render_comment_table / _column)', case, detail={'expected': exp, 'read': got.get(si, [])}, sql=r[1])


ENUM_ITEMS = ['new', 'done', 'in progress', "it's", 'a,', 'x', 'ÜBER', '1', 'with "quotes"']


def gen_script_spec(rng):
    """enums + tables + standalone references: the class of `read_render_script_all` (C03Script.lean)"""
    from harness.props import c04
    spec = c04.gen_fk_spec(rng)
    enums, used = [], set()
    for _ in range(rng.choice([0, 1, 1, 2])):
        key = (rng.choice(['public', 'public', 's1', 'my schema']), rng.choice(NAME_POOL))
        if key in used:
            continue
        used.add(key)
        enums.append({'schema': key[0], 'name': key[1], 'items': rng.sample(ENUM_ITEMS, rng.choice([1, 2, 3, 5]))})
    spec['enums'] = enums
    for t in spec['tables']:
        t['indexes'] = []
        for _ in range(rng.choice([0, 0, 1, 2])):
            n = max(1, min(rng.choice([1, 1, 2]), len(t['columns'])))
            t['indexes'].append({'cols': rng.sample(range(len(t['columns'])), n), 'unique': rng.random() < .4,
                                 'name': rng.choice(INDEX_NAMES), 'type': rng.choice([None, None, 'btree', 'hash'])})
    # a reference equal to an earlier one is refused by the database: keep the first of each
    seen, refs = set(), []
    for r in spec['refs']:
        k = (r['type'], r['t1'], tuple(r['col1']), r['t2'], tuple(r['col2']))
        k2 = ({'>': '<', '<': '>', '-': '-'}[r['type']], r['t2'], tuple(r['col2']), r['t1'], tuple(r['col1']))
        if k in seen or k2 in seen:
            continue
        seen.add(k)
        refs.append(r)
    spec['refs'] = refs
    return spec


def script_expect(spec):
    from harness.props import c04
    out = []
    for e in spec['enums']:
        q = '"%s"' % e['name'] if e['schema'] == 'public' else '"%s"."%s"' % (e['schema'], e['name'])
        out.append({'kind': 'enum', 'qname': q, 'items': list(e['items'])})
    ixs = index_expect(spec['tables'])
    for t, ix in zip(reader_expect(spec['tables']), ixs):
        out.append(dict(kind='table', **t))
        out += [dict(kind='index', **i) for i in ix]       # each table is followed by its CREATE INDEX statements, in order
    out += [dict(kind='fk', **f) for f in c04.fk_expect(spec)]
    return out


def script_job(spec):
    from pydbml import Database
    from pydbml.classes import Table, Column, Expression, Enum, EnumItem, Reference, Index
    db = Database()
    for e in spec['enums']:
        # an item note is no part of the CREATE TYPE statement: every other item gets one
        db.add(Enum(e['name'], [EnumItem(i, note='note of ' + i if k % 2 else None) for k, i in enumerate(e['items'], 1)], schema=e['schema']))
    tabs = []
    for t in spec['tables']:
        tb = Table(t['name'], schema=t['schema'])
        for c in t['columns']:
            d = c['default']
            tb.add_column(Column(c['name'], c['type'], pk=c['pk'], autoinc=c['autoinc'], unique=c['unique'], not_null=c['not_null'],
                                 default=Expression(d[1]) if isinstance(d, tuple) else d))
        for ix in t.get('indexes', []):
            tb.add_index(Index([tb.columns[i] for i in ix['cols']], name=ix['name'], unique=ix['unique'], type=ix['type']))
        db.add(tb)
        tabs.append(tb)
    for r in spec['refs']:
        try:
            db.add(Reference(r['type'], [tabs[r['t1']].columns[i] for i in r['col1']], [tabs[r['t2']].columns[i] for i in r['col2']],
                             name=r['name'], on_update=r['on_update'], on_delete=r['on_delete']))
        except Exception as e:       # noqa
            return ['refused', type(e).__name__]
    try:
        return ['ok', db.sql]
    except Exception as e:           # noqa
        return ['exc', type(e).__name__]


def part_script(ctx, drv):
    n = 300 if ctx.tier == 'quick' else 3000
    specs = [gen_script_spec(ctx.rng) for _ in range(n)]
    res = core.pmap(script_job, specs)
    read = drv.ask_many({'op': 'readscript', 'text': r[1] if r[0] == 'ok' else ''} for r in res)
    for spec, r, m in zip(specs, res, read):
        ctx.case(core.h(spec), True)
        ctx.count('script-reader:%s enums=%d refs=%d indexes=%d' % (r[0], len(spec['enums']), min(2, len(spec['refs'])),
                                                                        min(2, sum(len(t['indexes']) for t in spec['tables']))))
        case = {'op': 'readscript', 'spec': spec}
        if r[0] == 'refused':
            ctx.count('script-reader:refused ' + r[1])
            continue
        if r[0] != 'ok':
            ctx.fail('db.sql of enums, plain tables and standalone references raises', case, detail=r[1])
            continue
        exp = script_expect(spec)
        got = m.get('ok')
        if got != exp:
            ctx.fail('the proved script reader does not read from db.sql what the model holds (C03ScriptIx.read_render_script_ix)', case,
                     detail={'expected': exp, 'read': got}, sql=r[1])


def main(tier, seed):
    ctx = core.Ctx(PID, tier, seed, 'translation_validation', THEOREMS, MODULES)
    problems = SC.run_sql_check(ctx, PID, extra_parts=part_reader)
    return ctx.finish(
        rule='random databases without references (1-6 tables in up to 3 schemas, 1-5 columns with the full product of flags, '
             '5 default kinds incl. falsy ones, enum-typed columns, 0-3 indexes incl. pk/composite/expression, notes, comments); '
             'every third spec wild (quotes, braces, blanks in names). Non-trivial: >=1 table and >=2 features; distinct by dump hash',
        explanation='Correspondence of db.sql and of every enum/column/index element rendering with the Lean model of the '
                    'default SQL renderer; oracle: db.sql read back by an independent tokenising DDL reader and compared with '
                    'expectations computed from the content (types, tables exactly once, columns, keys, indexes, COMMENT ON). '
                    'Theorems read_render_column / read_render_table / read_render_script / same_ddl_same_content (C03Read.lean): a '
                    'reader of the DDL written in Lean (PyDBMLModel/SqlRead.lean, looks at the text only) inverts the renderer model on '
                    'tables without notes, comments and indexes - every column in order with name, type, PRIMARY KEY / AUTOINCREMENT / '
                    'UNIQUE / NOT NULL exactly when set, DEFAULT whenever set, one table-level key clause exactly for several key columns, '
                    'each table once and nothing else. The same reader (driver op readsql) is run on db.sql of the real code for '
                    'API-built tables of that class (all flag combinations, 20 default shapes, four pk layouts, three schemas, odd names) '
                    'and must read exactly the generated content; read_render_script_all (C03Script.lean) extends this to whole scripts of enums, '
                    'tables and standalone references (driver op readscript on db.sql of API-built databases).',
        assumptions=['oracle runs on reader-hygienic specs (names without double quote, simple types/defaults)'],
        trusted_base=['Lean 4.33 kernel', 'hand-written model PyDBMLModel/RenderSql.lean tied by this correspondence',
                      'harness/ddl_reader.py', 'harness/sql_oracle.py',
                      'PyDBMLModel/SqlRead.lean (the reader: a specification artefact, proved against the model, run against the code)'],
        kf_replay=kf_replay, proof_problems=problems)


def replay(path):
    import json
    c = json.load(open(path)).get('case', {})
    if c.get('op') == 'readcomment':
        from harness.driver import Driver
        r = comment_job(c['tables'])
        print('impl sql:', r)
        exp = comment_expect(c['tables'])
        with Driver() as d:
            got = [d.ask({'op': 'readcomment', 'text': l}).get('ok') for l in (r[1].split('\n') if r[0] == 'ok' else []) if l.startswith('COMMENT ON ')]
        print('read    :', got)
        print('expected:', exp)
        return 0 if got == exp else 1
    if c.get('op') == 'readindex':
        from harness.driver import Driver
        r = index_job(c['tables'])
        exp = index_expect(c['tables'])
        bad = 0
        with Driver() as d:
            for ti, row in enumerate(r['indexes']):
                for k, x in enumerate(row):
                    got = d.ask({'op': 'readindex', 'text': x[1]}).get('ok') if x[0] == 'ok' else None
                    print(ti, k, x, '\n   read    :', got, '\n   expected:', exp[ti][k])
                    bad += x[0] != 'ok' or got != exp[ti][k]
        print('db.sql:', r['db'])
        return 1 if bad else 0
    if c.get('op') == 'readscript':
        from harness.driver import Driver
        r = script_job(c['spec'])
        print('impl sql:', r)
        with Driver() as d:
            got = d.ask({'op': 'readscript', 'text': r[1] if r[0] == 'ok' else ''})
        exp = script_expect(c['spec'])
        print('read    :', got.get('ok'))
        print('expected:', exp)
        return 0 if got.get('ok') == exp else 1
    if c.get('op') == 'readsql':
        from harness.driver import Driver
        r = reader_job(c['tables'])
        print('impl sql:', r)
        with Driver() as d:
            got = d.ask({'op': 'readsql', 'text': r[1] if r[0] == 'ok' else ''})
        exp = reader_expect(c['tables'])
        print('read    :', got.get('ok'))
        print('expected:', exp)
        return 0 if got.get('ok') == exp else 1
    return SC.replay_sql(path, PID)
