/-
JSON codec between the line protocol and the model's value types (driver side only; nothing here
is used by a theorem).
-/
import Lean.Data.Json
import PyDBMLModel.Model
open Lean
namespace PyDBML
namespace Codec

abbrev D := Except String

def str (j : Json) : D Str := do let s ← j.getStr?; pure s.toList
def fld (j : Json) (k : String) : D Json := j.getObjVal? k
def fldD (j : Json) (k : String) : Option Json := (j.getObjVal? k).toOption
def strF (j : Json) (k : String) : D Str := do str (← fld j k)
def strFD (j : Json) (k : String) (d : Str := []) : D Str :=
  match fldD j k with
  | some .null | none => pure d
  | some v => str v
def optStr (j : Json) (k : String) : D (Option Str) :=
  match fldD j k with
  | some .null | none => pure none
  | some v => do pure (some (← str v))
def boolF (j : Json) (k : String) (d : Bool := false) : D Bool :=
  match fldD j k with
  | some (.bool b) => pure b
  | some .null | none => pure d
  | some _ => throw s!"field {k}: bool expected"
def natF (j : Json) (k : String) : D Nat := do (← fld j k).getNat?
def natFD (j : Json) (k : String) (d : Nat) : D Nat :=
  match fldD j k with
  | some .null | none => pure d
  | some v => v.getNat?
def arrF (j : Json) (k : String) : D (List Json) :=
  match fldD j k with
  | some (.arr a) => pure a.toList
  | some .null | none => pure []
  | some _ => throw s!"field {k}: array expected"
def natList (j : Json) (k : String) : D (List Nat) := do (← arrF j k).mapM (·.getNat?)
def pairs (j : Json) (k : String) : D (List (Str × Str)) := do
  (← arrF j k).mapM fun p => do
    match p with
    | .arr #[a, b] => pure (← str a, ← str b)
    | _ => throw "pair expected"

def defaultVal (j : Json) : D (Option DefaultVal) := do
  match j with
  | .null => pure none
  | _ =>
    let k ← (← fld j "k").getStr?
    match k with
    | "int" => pure (some (.int (← strF j "v")))
    | "float" => pure (some (.float (← strF j "v")))
    | "bool" => pure (some (.bool (← boolF j "v")))
    | "str" => pure (some (.str (← strF j "v")))
    | "expr" => pure (some (.expr (← strF j "v")))
    | _ => throw s!"default kind {k}"

def colType (j : Json) : D ColType := do
  match j with
  | .str s => pure (.plain s.toList)
  | _ =>
    match fldD j "enum" with
    | some v => pure (.enum (← v.getNat?))
    | none => pure (.enumDetached (← strF j "schema") (← strF j "name"))

def column (j : Json) : D Column := do
  pure { name := ← strF j "name", type := ← colType (← fld j "type"),
         unique := ← boolF j "unique", notNull := ← boolF j "not_null", pk := ← boolF j "pk",
         autoinc := ← boolF j "autoinc",
         default := ← defaultVal ((fldD j "default").getD .null),
         note := ← strFD j "note", comment := ← optStr j "comment", props := ← pairs j "props" }

def subject (j : Json) : D Subject := do
  match fldD j "col", fldD j "expr", fldD j "raw" with
  | some v, _, _ => pure (.col (← v.getNat?))
  | _, some v, _ => pure (.expr (← str v))
  | _, _, some v => pure (.raw (← str v))
  | _, _, _ => throw "subject"

def index (j : Json) : D Index := do
  pure { subjects := ← (← arrF j "subjects").mapM subject, name := ← optStr j "name",
         unique := ← boolF j "unique", type := ← optStr j "type", pk := ← boolF j "pk",
         note := ← strFD j "note", comment := ← optStr j "comment" }

def table (j : Json) : D Table := do
  pure { name := ← strF j "name", schema := ← strFD j "schema" (lit "public"),
         alias := ← optStr j "alias",
         columns := ← (← arrF j "columns").mapM column,
         indexes := ← (← arrF j "indexes").mapM index,
         note := ← strFD j "note", headerColor := ← optStr j "header_color",
         comment := ← optStr j "comment", abstract := ← boolF j "abstract",
         props := ← pairs j "props" }

def refKind (s : String) : D RefKind :=
  match s with
  | ">" => pure .manyToOne | "<" => pure .oneToMany | "-" => pure .oneToOne
  | "<>" => pure .manyToMany | _ => throw s!"ref kind {s}"

def ref (j : Json) : D Ref := do
  pure { kind := ← refKind (← (← fld j "type").getStr?),
         t1 := ← natF j "t1", col1 := ← natList j "col1",
         t2 := ← natF j "t2", col2 := ← natList j "col2",
         name := ← optStr j "name", comment := ← optStr j "comment",
         onUpdate := ← optStr j "on_update", onDelete := ← optStr j "on_delete",
         inlineFlag := ← boolF j "inline" }

def enumItem (j : Json) : D EnumItem := do
  pure { name := ← strF j "name", note := ← strFD j "note", comment := ← optStr j "comment" }

def enum (j : Json) : D Enum := do
  pure { name := ← strF j "name", schema := ← strFD j "schema" (lit "public"),
         items := ← (← arrF j "items").mapM enumItem, comment := ← optStr j "comment" }

def group (j : Json) : D Group := do
  pure { name := ← strF j "name", items := ← natList j "items", comment := ← optStr j "comment",
         note := ← optStr j "note", color := ← optStr j "color" }

def sticky (j : Json) : D Sticky := do
  pure { name := ← strF j "name", text := ← strFD j "text" }

def project (j : Json) : D Project := do
  pure { name := ← strF j "name", items := ← pairs j "items", note := ← strFD j "note",
         comment := ← optStr j "comment" }

def db (j : Json) : D Db := do
  let proj ← match fldD j "project" with
    | some .null | none => pure none
    | some p => do pure (some (← project p))
  pure { tables := ← (← arrF j "tables").mapM table,
         refs := ← (← arrF j "refs").mapM ref,
         enums := ← (← arrF j "enums").mapM enum,
         groups := ← (← arrF j "groups").mapM group,
         sticky := ← (← arrF j "sticky").mapM sticky,
         project := proj, allowProps := ← boolF j "allow_properties" }

/-! encoders -/

def jstr (s : Str) : Json := .str (String.ofList s)
def jopt (s : Option Str) : Json := match s with | some x => jstr x | none => .null
def jpairs (l : List (Str × Str)) : Json := .arr (l.map fun (a, b) => .arr #[jstr a, jstr b]).toArray
def jnats (l : List Nat) : Json := .arr (l.map fun n => toJson n).toArray

def encDefault : Option DefaultVal → Json
  | none => .null
  | some (.int r) => Json.mkObj [("k", "int"), ("v", jstr r)]
  | some (.float r) => Json.mkObj [("k", "float"), ("v", jstr r)]
  | some (.bool b) => Json.mkObj [("k", "bool"), ("v", .bool b)]
  | some (.str s) => Json.mkObj [("k", "str"), ("v", jstr s)]
  | some (.expr s) => Json.mkObj [("k", "expr"), ("v", jstr s)]

def encColType : ColType → Json
  | .plain s => jstr s
  | .enum i => Json.mkObj [("enum", (i : Json))]
  | .enumDetached s n => Json.mkObj [("schema", jstr s), ("name", jstr n)]

def encColumn (c : Column) : Json :=
  Json.mkObj [("name", jstr c.name), ("type", encColType c.type), ("unique", .bool c.unique),
    ("not_null", .bool c.notNull), ("pk", .bool c.pk), ("autoinc", .bool c.autoinc),
    ("default", encDefault c.default), ("note", jstr c.note), ("comment", jopt c.comment),
    ("props", jpairs c.props)]

def encSubject : Subject → Json
  | .col i => Json.mkObj [("col", (i : Json))]
  | .expr e => Json.mkObj [("expr", jstr e)]
  | .raw s => Json.mkObj [("raw", jstr s)]

def encIndex (i : Index) : Json :=
  Json.mkObj [("subjects", .arr (i.subjects.map encSubject).toArray), ("name", jopt i.name),
    ("unique", .bool i.unique), ("type", jopt i.type), ("pk", .bool i.pk), ("note", jstr i.note),
    ("comment", jopt i.comment)]

def encTable (t : Table) : Json :=
  Json.mkObj [("name", jstr t.name), ("schema", jstr t.schema), ("alias", jopt t.alias),
    ("columns", .arr (t.columns.map encColumn).toArray),
    ("indexes", .arr (t.indexes.map encIndex).toArray), ("note", jstr t.note),
    ("header_color", jopt t.headerColor), ("comment", jopt t.comment),
    ("abstract", .bool t.abstract), ("props", jpairs t.props)]

def encRef (r : Ref) : Json :=
  Json.mkObj [("type", jstr r.kind.sym), ("t1", (r.t1 : Json)), ("col1", jnats r.col1),
    ("t2", (r.t2 : Json)), ("col2", jnats r.col2), ("name", jopt r.name),
    ("comment", jopt r.comment), ("on_update", jopt r.onUpdate), ("on_delete", jopt r.onDelete),
    ("inline", .bool r.inlineFlag)]

def encEnum (e : Enum) : Json :=
  Json.mkObj [("name", jstr e.name), ("schema", jstr e.schema), ("comment", jopt e.comment),
    ("items", .arr (e.items.map fun i =>
      Json.mkObj [("name", jstr i.name), ("note", jstr i.note), ("comment", jopt i.comment)]).toArray)]

def encGroup (g : Group) : Json :=
  Json.mkObj [("name", jstr g.name), ("items", jnats g.items), ("comment", jopt g.comment),
    ("note", jopt g.note), ("color", jopt g.color)]

def encDb (d : Db) : Json :=
  Json.mkObj [("tables", .arr (d.tables.map encTable).toArray),
    ("refs", .arr (d.refs.map encRef).toArray),
    ("enums", .arr (d.enums.map encEnum).toArray),
    ("groups", .arr (d.groups.map encGroup).toArray),
    ("sticky", .arr (d.sticky.map fun s =>
      Json.mkObj [("name", jstr s.name), ("text", jstr s.text)]).toArray),
    ("project", match d.project with
      | none => .null
      | some p => Json.mkObj [("name", jstr p.name), ("items", jpairs p.items),
          ("note", jstr p.note), ("comment", jopt p.comment)]),
    ("allow_properties", .bool d.allowProps)]

def encRenderErr : RenderErr → Json
  | .lib n => Json.mkObj [("err", s!"lib:{n}")]
  | .internal e => Json.mkObj [("err", "internal"), ("exc", e.name)]
  | .outOfModel w => Json.mkObj [("err", "outOfModel"), ("why", w)]

def encR (r : R Str) : Json :=
  match r with
  | .ok s => Json.mkObj [("ok", jstr s)]
  | .error e => encRenderErr e

def encPy (r : Except PyExc Str) : Json :=
  match r with
  | .ok s => Json.mkObj [("ok", jstr s)]
  | .error e => Json.mkObj [("err", "internal"), ("exc", e.name)]

end Codec
end PyDBML
