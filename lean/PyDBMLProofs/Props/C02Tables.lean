/-
C02/C01 — the round trip of a whole document of tables with plain columns (any number of tables, any
positive number of columns each): `tables_roundtrip_partial`.
-/
import PyDBMLProofs.Props.C02Table
import PyDBMLProofs.Props.C06
namespace PyDBML
namespace C02
open Lex Grammar Build

/-! ### the table rule inside a longer text -/

def tableTextP (tn : Str) (cs : List (Str × Str)) (post : Str) : Str :=
  'T' :: 'a' :: 'b' :: 'l' :: 'e' :: ' ' :: '"' :: (tn ++ '"' :: ' ' :: '{' :: '\n' :: (colsText cs ++ '}' :: post))

theorem tableText_eq (tn : Str) (cs : List (Str × Str)) : tableText tn cs = tableTextP tn cs [] := rfl

theorem ckw_ok' (s : String) (c : Cur) (pre r : Str) (hn : (skipWs c).rest = pre ++ r) (hl : pre.length = s.toList.length)
    (hm : startsWithCaseless (pre ++ r) s.toList = true) (hp : c.pastEnd = false)
    (hprev : ∀ p, (skipWs c).prev = some p → isKwIdent p = false) (hnext : ∀ x, r.head? = some x → isKwIdent x = false) :
    ∃ c', ckw s c = .ok () c' ∧ c'.rest = r ∧ c'.pastEnd = false := by
  have hlen : s.length = pre.length := by rw [hl]; exact Eq.symm String.length_toList
  have hrest : (advance (skipWs c) s.length).rest = r := by
    rw [C13.advance_rest, hn, hlen]; simp
  refine ⟨advance (skipWs c) s.length, ?_, hrest, ?_⟩
  · unfold ckw
    simp only [skipWs_pastEnd, hp, Bool.not_false, hn, hm, Bool.and_self, ↓reduceIte, hrest, Bool.true_and]
    cases hpv : (skipWs c).prev with
    | none =>
      cases r with
      | nil => simp
      | cons x xs => simp [hnext x rfl]
    | some p =>
      have := hprev p hpv
      cases r with
      | nil => simp [this]
      | cons x xs => simp [this, hnext x rfl]
  · rw [C13.advance_pastEnd]; exact hp

/-- the table rule on `tableTextP`, given what the blank lines before it and the end rule after it do -/
theorem tableRule_okP (props : Bool) (c c0 : Cur) (tn : Str) (cs : List (Str × Str)) (post : Str) (Q : Cur → Prop)
    (hb : cBefore c = .ok [] c0)
    (hc : c0.rest = tableTextP tn cs post) (hp : c0.pastEnd = false)
    (hprev : ∀ p, c0.prev = some p → isKwIdent p = false)
    (htn : NameOK tn) (hcs : ColsOK cs) (hne : cs ≠ [])
    (hend : ∀ c7 : Cur, c7.rest = post → c7.pastEnd = false → ∃ c9, endRule c7 = .ok () c9 ∧ Q c9) :
    ∃ c9, tableRule props c = .ok (plainTable tn cs) c9 ∧ Q c9 := by
  -- keyword
  have hN : Next c0 'T' _ := skipWs_rest_head c0 'T' _ (by rw [hc]; rfl) (by decide)
  have hpv : ∀ p, (skipWs c0).prev = some p → isKwIdent p = false := by
    rw [skipWs_prev_head c0 'T' _ (by rw [hc]; rfl) (by decide)]; exact hprev
  obtain ⟨c1, hk, hr1, hp1⟩ := ckw_ok' "table" c0 ['T', 'a', 'b', 'l', 'e']
    (' ' :: '"' :: (tn ++ '"' :: ' ' :: '{' :: '\n' :: (colsText cs ++ '}' :: post))) hN (by decide)
    (by simp [startsWithCaseless]; decide) hp hpv (by intro x hx; simp at hx; subst hx; decide)
  -- name
  have hN1 : (skipWs c1).rest = '"' :: (tn ++ '"' :: ' ' :: '{' :: '\n' :: (colsText cs ++ '}' :: post)) :=
    skipWs_rest_spaces c1 1 '"' _ (by rw [hr1]; rfl) (by decide)
  obtain ⟨c2, hnm, hr2, hp2⟩ := name_quoted_ok c1 tn _ hN1 htn hp1
  have hN2 : Next c2 '{' ('\n' :: (colsText cs ++ '}' :: post)) := skipWs_rest_spaces c2 1 '{' _ (by rw [hr2]; rfl) (by decide)
  have hdot : sym "." c2 = .fail := sym_fail "." c2 _ _ hN2 (by simp [startsWith])
  have htname : tableName c1 = .ok (none, tn) c2 := by
    unfold tableName alt
    simp only [bind, pbind, hnm, hdot, pure, ppure]
  have hal : opt aliasRule c2 = .ok none c2 := by
    unfold opt; rw [aliasRule_fail c2 '{' _ hN2 (by decide)]
  have hst : opt tableSettings c2 = .ok none c2 := by
    unfold opt tableSettings
    simp only [bind, pbind, sym_fail "[" c2 _ _ hN2 (by simp [startsWith])]
  obtain ⟨q3, q4⟩ := quiet_of_next c2 '{' _ hN2 (by decide) (by decide)
  have hs2 : skipNl c2 = .ok () c2 := skipNl_stay c2 q3 q4
  obtain ⟨c3, hbr, hr3, hp3⟩ := sym_ok "{" '{' rfl c2 _ hN2 hp2
  -- body
  have hN3 : Next c3 '\n' (colsText cs ++ '}' :: post) := skipWs_rest_head c3 '\n' _ hr3 (by decide)
  obtain ⟨c4, hs3, hr4, hp4⟩ := skipNl_one c3 (colsText cs ++ '}' :: post) hN3 hp3 (by
    intro d hd _
    obtain ⟨k, x, r, he, hw, h1, h2, _⟩ := body_next cs post
    have : Next d x r := skipWs_rest_spaces d k x r (by rw [hd, he]) hw
    exact quiet_of_next d x r this h1 h2)
  have hs4 : skipNl c4 = .ok () c4 := skipNl_stay_body c4 cs post hr4
  obtain ⟨p0, ps, rfl⟩ : ∃ p0 ps, cs = p0 :: ps := by
    cases cs with
    | nil => exact absurd rfl hne
    | cons a as => exact ⟨a, as, rfl⟩
  obtain ⟨cn, ty⟩ := p0
  obtain ⟨hcn, hty⟩ := hcs (cn, ty) (by simp)
  obtain ⟨c5, hel, hr5, hp5⟩ := tableElement_col props c4 cn ty ps post (by rw [hr4]; simp [colsText]) hp4 hcn hty
  have hel3 : tableElement props c3 = .ok (TblElem.column (plainCol cn ty)) c5 := by
    rw [tableElement_skip props c3 c4 hs3 hs4]; exact hel
  have hfuel : ps.length < c3.rest.length + 1 := by
    rw [hr3]
    have := colsText_length ps
    simp [colsText, colLine]; omega
  obtain ⟨c6, hm, hr6, hp6⟩ := many_body props ps post (fun q hq => hcs q (by simp [hq])) (c3.rest.length + 1) c5 hfuel hr5 hp5
  have hmany : manyF (tableElement props) c3
      = .ok (((cn, ty) :: ps).map fun p => TblElem.column (plainCol p.1 p.2)) c6 := by
    unfold manyF fuelOf
    have hlen : c5.rest.length ≠ c3.rest.length := by
      rw [hr5, hr3]; simp [colsText, colLine]; omega
    rw [many]
    simp only [hel3, hlen, decide_false, Bool.false_and, Bool.false_eq_true, ↓reduceIte, hm, List.map_cons]
  -- closing brace and the end
  have hN6 : Next c6 '}' post := skipWs_rest_head c6 '}' _ hr6 (by decide)
  obtain ⟨q5, q6⟩ := quiet_of_next c6 '}' _ hN6 (by decide) (by decide)
  have hs6 : skipNl c6 = .ok () c6 := skipNl_stay c6 q5 q6
  obtain ⟨c7, hcl, hr7, hp7⟩ := sym_ok "}" '}' rfl c6 _ hN6 hp6
  obtain ⟨c9, hend9, hQ⟩ := hend c7 hr7 hp7
  refine ⟨c9, ?_, hQ⟩
  unfold tableRule
  simp only [bind, pbind, hb, hk, htname, hal, hst, hs2, hbr, cut, hmany, hs6, hcl, hend9]
  rw [filterMap_cols_some ((cn, ty) :: ps) _ (fun _ => rfl)]
  rw [filterMap_cols_none ((cn, ty) :: ps) _ (fun _ => rfl)]
  rw [filterMap_cols_none ((cn, ty) :: ps) _ (fun _ => rfl)]
  rw [foldl_cols ((cn, ty) :: ps) _ (fun _ _ => rfl)]
  simp [plainTable, joinBefore, pure, ppure]

/-! ### a document of tables -/

abbrev TSpec := Str × List (Str × Str)

def TSpecOK (t : TSpec) : Prop := NameOK t.1 ∧ ColsOK t.2 ∧ t.2 ≠ []

/-- the text after a table's closing brace -/
def docTail : List TSpec → Str
  | [] => []
  | t :: ts => '\n' :: '\n' :: tableTextP t.1 t.2 (docTail ts)

/-- … and after the end rule has consumed the first line break -/
def afterText : List TSpec → Str
  | [] => []
  | t :: ts => '\n' :: tableTextP t.1 t.2 (docTail ts)

def docText : List TSpec → Str
  | [] => []
  | t :: ts => tableTextP t.1 t.2 (docTail ts)

def mkElem (t : TSpec) : Bp.Elem := Bp.Elem.table (plainTable t.1 t.2)

theorem advance_one_prev (c : Cur) (x : Char) (r : Str) (h : c.rest = x :: r) : (advance c 1).prev = some x := by
  unfold advance
  simp only [h]
  unfold advance
  rfl

theorem skipWs_eq_of_head (c : Cur) (x : Char) (r : Str) (h : c.rest = x :: r) (hx : isWs x = false) : skipWs c = c := by
  cases c with
  | mk p rs pe =>
    simp only at h
    subst h
    simp [skipWs, skipWsList_head p x r hx]

/-- `_c` over exactly one line break: nothing captured, the cursor stands after it, the previous
    character is the line break -/
theorem cBefore_nl (c : Cur) (r : Str) (hc : c.rest = '\n' :: r) (hp : c.pastEnd = false)
    (hq : ∀ c1 : Cur, c1.rest = r → c1.pastEnd = false → sym "\n" c1 = .fail ∧ comment c1 = .fail) :
    ∃ c0, cBefore c = .ok [] c0 ∧ c0.rest = r ∧ c0.pastEnd = false ∧ c0.prev = some '\n' := by
  have hsk : skipWs c = c := skipWs_eq_of_head c '\n' r hc (by decide)
  have hN : Next c '\n' r := by unfold Next; rw [hsk]; exact hc
  have h1 : sym "\n" c = .ok () (advance c 1) := by
    unfold sym litRaw
    simp [hsk, hc, hp, startsWith]
  have hr1 : (advance c 1).rest = r := by rw [C13.advance_rest, hc]; rfl
  have hp1 : (advance c 1).pastEnd = false := by rw [C13.advance_pastEnd]; exact hp
  obtain ⟨hf1, hf2⟩ := hq (advance c 1) hr1 hp1
  refine ⟨advance c 1, ?_, hr1, hp1, advance_one_prev c '\n' r hc⟩
  unfold cBefore manyF fuelOf
  simp only [bind, pbind]
  have hlen : (advance c 1).rest.length ≠ c.rest.length := by rw [hr1, hc]; simp
  rw [many]
  simp only [alt, bind, pbind, h1, pure, ppure]
  simp only [hlen, decide_false, Bool.false_and, Bool.false_eq_true, ↓reduceIte]
  rw [many]
  simp [alt, bind, pbind, hf1, hf2]

theorem endRule_eof (c7 : Cur) (hr : c7.rest = []) (hp : c7.pastEnd = false) :
    ∃ c9, endRule c7 = .ok () c9 ∧ c9.rest = [] ∧ c9.pastEnd = true := by
  have hN7 : (skipWs c7).rest = [] := skipWs_rest_nil c7 hr
  obtain ⟨c8, hle, hr8, hp8⟩ := lineEnd_eof c7 hN7 hp
  refine ⟨c8, ?_, hr8, hp8⟩
  unfold endRule alt
  simp only [bind, pbind, manyF_fail comment c7 (comment_fail_nil c7 hN7), hle]

theorem endRule_nl (c7 : Cur) (r : Str) (hr : c7.rest = '\n' :: r) (hp : c7.pastEnd = false) :
    ∃ c9, endRule c7 = .ok () c9 ∧ c9.rest = r ∧ c9.pastEnd = false := by
  have hN7 : Next c7 '\n' r := skipWs_rest_head c7 '\n' r hr (by decide)
  obtain ⟨c8, hle, hr8, hp8⟩ := lineEnd_nl c7 r hN7 hp
  refine ⟨c8, ?_, hr8, hp8⟩
  unfold endRule alt
  simp only [bind, pbind, manyF_fail comment c7 (comment_fail c7 '\n' r hN7 (by decide)), hle]

theorem quiet_tableTextP (tn : Str) (cs : List (Str × Str)) (post : Str) (d : Cur)
    (hd : d.rest = tableTextP tn cs post) : sym "\n" d = .fail ∧ comment d = .fail := by
  have : Next d 'T' _ := skipWs_rest_head d 'T' _ (by rw [hd]; rfl) (by decide)
  exact quiet_of_next d 'T' _ this (by decide) (by decide)

/-- one table element of the document, standing after a line break -/
theorem element_table_after (ap : Bool) (c : Cur) (t : TSpec) (ts : List TSpec) (ht : TSpecOK t)
    (hc : c.rest = afterText (t :: ts)) (hp : c.pastEnd = false) :
    ∃ c9, element ap c = .ok (mkElem t) c9 ∧ c9.rest = afterText ts ∧ c9.pastEnd = ts.isEmpty := by
  obtain ⟨c0, hb, hr0, hp0, hpv0⟩ := cBefore_nl c (tableTextP t.1 t.2 (docTail ts)) (by rw [hc]; rfl) hp
    (fun d hd _ => quiet_tableTextP _ _ _ d hd)
  obtain ⟨c9, hrule, hQ⟩ := tableRule_okP ap c c0 t.1 t.2 (docTail ts)
    (fun c9 => c9.rest = afterText ts ∧ c9.pastEnd = ts.isEmpty) hb hr0 hp0
    (by intro p hpp; rw [hpv0] at hpp; cases hpp; decide) ht.1 ht.2.1 ht.2.2
    (by
      intro c7 hr7 hp7
      cases ts with
      | nil =>
        obtain ⟨c9, h1, h2, h3⟩ := endRule_eof c7 (by simpa [docTail] using hr7) hp7
        exact ⟨c9, h1, by simpa [afterText] using h2, by simpa using h3⟩
      | cons t2 ts2 =>
        obtain ⟨c9, h1, h2, h3⟩ := endRule_nl c7 (afterText (t2 :: ts2)) (by rw [hr7]; simp [docTail, afterText]) hp7
        exact ⟨c9, h1, h2, by simpa using h3⟩)
  refine ⟨c9, ?_, hQ.1, hQ.2⟩
  unfold element alt mkElem
  simp only [bind, pbind, hrule, pure, ppure]

theorem afterText_length (ts : List TSpec) : ts.length ≤ (afterText ts).length := by
  induction ts with
  | nil => simp [afterText]
  | cons t r ih =>
    cases r with
    | nil => simp [afterText, tableTextP]
    | cons t2 r2 =>
      simp only [afterText, docTail, tableTextP, List.length_cons, List.length_append] at ih ⊢
      omega

/-- the repetition over the elements reads exactly the tables -/
theorem many_tables (ap : Bool) : ∀ (ts : List TSpec) (fuel : Nat) (c : Cur), ts.length < fuel →
    (∀ t ∈ ts, TSpecOK t) → c.rest = afterText ts → c.pastEnd = ts.isEmpty →
    ∃ c', many (element ap) fuel c = .ok (ts.map mkElem) c' ∧ c'.rest = [] ∧ c'.pastEnd = true := by
  intro ts
  induction ts with
  | nil =>
    intro fuel c hf _ hc hp
    obtain ⟨f, rfl⟩ : ∃ f, fuel = f + 1 := ⟨fuel - 1, by simp at hf; omega⟩
    have hp' : c.pastEnd = true := by simpa using hp
    refine ⟨c, ?_, by simpa [afterText] using hc, hp'⟩
    rw [many]
    simp [element_fail_pastEnd ap c hp']
  | cons t r ih =>
    intro fuel c hf hok hc hp
    obtain ⟨f, rfl⟩ : ∃ f, fuel = f + 1 := ⟨fuel - 1, by simp at hf; omega⟩
    have hp' : c.pastEnd = false := by simpa using hp
    obtain ⟨c1, hel, hr1, hp1⟩ := element_table_after ap c t r (hok t (by simp)) hc hp'
    obtain ⟨c2, hm, hr2, hp2⟩ := ih f c1 (by simp at hf; omega) (fun q hq => hok q (by simp [hq])) hr1 hp1
    refine ⟨c2, ?_, hr2, hp2⟩
    have hlen : c1.rest.length ≠ c.rest.length := by
      rw [hr1, hc]
      have := afterText_length r
      cases r with
      | nil => simp [afterText, tableTextP]
      | cons t2 r2 => simp only [afterText, docTail, tableTextP, List.length_cons, List.length_append]; omega
    rw [many]
    simp only [hel, hlen, decide_false, Bool.false_and, Bool.false_eq_true, ↓reduceIte, hm, List.map_cons]

/-! ### parse of the whole document -/

theorem docTail_no_tab : ∀ (ts : List TSpec), (∀ t ∈ ts, TSpecOK t) → ∀ c ∈ docTail ts, c ≠ '\t' := by
  intro ts
  induction ts with
  | nil => intro _ c hc; simp [docTail] at hc
  | cons t r ih =>
    intro hok c hc
    have e : docTail (t :: r) = ['\n', '\n'] ++ tableText t.1 t.2 ++ docTail r := by
      simp [docTail, tableTextP, tableText]
    rw [e] at hc
    simp only [List.mem_append] at hc
    rcases hc with (h | h) | h
    · exact (by decide : ∀ c ∈ ['\n', '\n'], c ≠ '\t') c h
    · exact tableText_no_tab t.1 t.2 (hok t (by simp)).1 (hok t (by simp)).2.1 c h
    · exact ih (fun q hq => hok q (by simp [hq])) c h

theorem docText_no_tab (ts : List TSpec) (hok : ∀ t ∈ ts, TSpecOK t) : ∀ c ∈ docText ts, c ≠ '\t' := by
  cases ts with
  | nil => intro c hc; simp [docText] at hc
  | cons t r =>
    intro c hc
    have e : docText (t :: r) = tableText t.1 t.2 ++ docTail r := by simp [docText, tableTextP, tableText]
    rw [e] at hc
    rcases List.mem_append.mp hc with h | h
    · exact tableText_no_tab t.1 t.2 (hok t (by simp)).1 (hok t (by simp)).2.1 c h
    · exact docTail_no_tab r (fun q hq => hok q (by simp [hq])) c h

theorem parseDoc_tables (ap : Bool) (ts : List TSpec) (hok : ∀ t ∈ ts, TSpecOK t) (hne : ts ≠ []) :
    ∃ c', parseDoc ap (docText ts) = .ok (ts.map mkElem) c' := by
  obtain ⟨t, r, rfl⟩ : ∃ t r, ts = t :: r := by
    cases ts with
    | nil => exact absurd rfl hne
    | cons a as => exact ⟨a, as, rfl⟩
  unfold parseDoc expandTabs
  rw [expandTabsAux_plain 0 _ (docText_no_tab _ hok)]
  let c0 : Cur := { rest := docText (t :: r) }
  have ht := hok t (by simp)
  -- the first table: nothing before it, no previous character
  obtain ⟨q1, q2⟩ := quiet_tableTextP t.1 t.2 (docTail r) c0 rfl
  have hb : cBefore c0 = .ok [] c0 := cBefore_stay c0 q1 q2
  obtain ⟨c1, hrule, hr1, hp1⟩ := tableRule_okP ap c0 c0 t.1 t.2 (docTail r)
    (fun c9 => c9.rest = afterText r ∧ c9.pastEnd = r.isEmpty) hb rfl rfl
    (by intro p hpp; cases hpp) ht.1 ht.2.1 ht.2.2
    (by
      intro c7 hr7 hp7
      cases r with
      | nil =>
        obtain ⟨c9, h1, h2, h3⟩ := endRule_eof c7 (by simpa [docTail] using hr7) hp7
        exact ⟨c9, h1, by simpa [afterText] using h2, by simpa using h3⟩
      | cons t2 ts2 =>
        obtain ⟨c9, h1, h2, h3⟩ := endRule_nl c7 (afterText (t2 :: ts2)) (by rw [hr7]; simp [docTail, afterText]) hp7
        exact ⟨c9, h1, h2, by simpa using h3⟩)
  have hel : element ap c0 = .ok (mkElem t) c1 := by
    unfold element alt mkElem
    simp only [bind, pbind, hrule, pure, ppure]
  have hfuel : r.length < c0.rest.length + 1 := by
    have := afterText_length r
    have h2 : (afterText r).length ≤ (docText (t :: r)).length := by
      cases r with
      | nil => simp [afterText]
      | cons t2 r2 => simp only [afterText, docText, docTail, tableTextP, List.length_cons, List.length_append]; omega
    show r.length < (docText (t :: r)).length + 1
    omega
  obtain ⟨c2, hm, hr2, hp2⟩ := many_tables ap r (c0.rest.length + 1) c1 hfuel (fun q hq => hok q (by simp [hq])) hr1 hp1
  have hmany : manyF (element ap) c0 = .ok ((t :: r).map mkElem) c2 := by
    unfold manyF fuelOf
    have hlen : c1.rest.length ≠ c0.rest.length := by
      rw [hr1]
      show (afterText r).length ≠ (docText (t :: r)).length
      cases r with
      | nil => simp [afterText, docText, tableTextP]
      | cons t2 r2 => simp only [afterText, docText, docTail, tableTextP, List.length_cons, List.length_append]; omega
    rw [many]
    simp only [hel, hlen, decide_false, Bool.false_and, Bool.false_eq_true, ↓reduceIte, hm, List.map_cons]
  obtain ⟨c9, hse⟩ := stringEnd_eof c2 (skipWs_rest_nil c2 hr2)
  refine ⟨c9, ?_⟩
  show document ap c0 = _
  unfold document
  simp only [bind, pbind, hmany, skipNl_pastEnd c2 hp2, hse, pure, ppure]

/-! ### the build of such a document -/

def mkTable (t : TSpec) : Table := plainTableM t.1 t.2

theorem buildTable_plain (t : TSpec) : buildTable [] (plainTable t.1 t.2) = .ok (mkTable t) := by
  have hcols : (t.2.map fun p => plainCol p.1 p.2).mapM (buildColumn []) = .ok (t.2.map plainColumn) := by
    rw [List.mapM_map]
    exact mapM_ok_map _ _ buildColumn_plain t.2
  simp [buildTable, plainTable, buildNote, hcols, mkTable, plainTableM, bind, Except.bind, pure, Except.pure]

theorem fullName_inj (a b : Str) (h : fullName (lit "public") a = fullName (lit "public") b) : a = b := by
  simpa [fullName] using h

theorem addTable_plain (done : List TSpec) (t : TSpec) (hd : ∀ u ∈ done, u.1 ≠ t.1) :
    addTable (done.map mkTable) (mkTable t) = .ok (done.map mkTable ++ [mkTable t]) := by
  unfold addTable
  have h1 : (done.map mkTable).contains (mkTable t) = false := by
    simp only [List.contains_eq_mem, decide_eq_false_iff_not, List.mem_map, not_exists, not_and]
    intro u hu e
    apply hd u hu
    have : (mkTable u).name = (mkTable t).name := by rw [e]
    simpa [mkTable, plainTableM] using this
  have h2 : hasKey (done.map mkTable) (mkTable t).fullName = false := by
    simp only [hasKey, List.any_eq_false, List.mem_map, forall_exists_index, and_imp, forall_apply_eq_imp_iff₂]
    intro u hu
    simp only [mkTable, plainTableM, Table.fullName, Bool.or_eq_true, beq_iff_eq, not_or]
    refine ⟨fun e => hd u hu (fullName_inj _ _ e), by simp⟩
  simp only [h1, h2, Bool.false_eq_true, ↓reduceIte]
  simp [mkTable, plainTableM, pure, Except.pure]

theorem foldlM_tables : ∀ (todo done : List TSpec), (done ++ todo).Pairwise (fun a b => a.1 ≠ b.1) →
    (todo.map fun t => plainTable t.1 t.2).foldlM (tableStep []) (done.map mkTable) = .ok ((done ++ todo).map mkTable) := by
  intro todo
  induction todo with
  | nil => intro done _; simp [pure, Except.pure]
  | cons t r ih =>
    intro done hp
    have hd : ∀ u ∈ done, u.1 ≠ t.1 := by
      intro u hu
      have := List.pairwise_append.mp hp
      exact this.2.2 u hu t (by simp)
    rw [List.map_cons, List.foldlM_cons]
    have hstep : tableStep [] (done.map mkTable) (plainTable t.1 t.2) = .ok ((done ++ [t]).map mkTable) := by
      unfold tableStep
      simp only [buildTable_plain t, bind, Except.bind, addTable_plain done t hd]
      simp
    rw [hstep]
    simp only [bind, Except.bind]
    have := ih (done ++ [t]) (by simpa using hp)
    simpa using this

theorem build_tables (ap : Bool) (ts : List TSpec) (hd : ts.Pairwise (fun a b => a.1 ≠ b.1)) :
    buildDatabase ap (ts.map mkElem) = .ok { tables := ts.map mkTable, allowProps := ap } := by
  have hT : tableBps (ts.map mkElem) = ts.map fun t => plainTable t.1 t.2 := by
    simp [tableBps, mkElem, List.filterMap_map, Function.comp_def]
  have hE : enumBps (ts.map mkElem) = [] := by
    simp [enumBps, mkElem, List.filterMap_map, Function.comp_def]
  have hG : groupBps (ts.map mkElem) = [] := by
    simp [groupBps, mkElem, List.filterMap_map, Function.comp_def]
  have hS : stickyBps (ts.map mkElem) = [] := by
    simp [stickyBps, mkElem, List.filterMap_map, Function.comp_def]
  have hP : projectBp (ts.map mkElem) = none := by
    simp [projectBp, mkElem, List.filterMap_map, Function.comp_def]
  have hR : refBlueprints (ts.map mkElem) = [] := by
    simp only [refBlueprints, mkElem, List.flatMap_map, List.flatMap_eq_nil_iff]
    intro t _
    simp only [plainTable, List.flatMap_map, List.flatMap_eq_nil_iff]
    intro p hp
    obtain ⟨q, _, rfl⟩ := List.mem_map.mp hp
    rfl
  have hF := foldlM_tables ts [] (by simpa using hd)
  simp only [List.map_nil, List.nil_append] at hF
  unfold buildDatabase
  simp [hT, hE, hG, hS, hP, hR, hF, buildProject, bind, Except.bind, pure, Except.pure]

/-! ### the rendering of such a database -/

theorem renderTableBody_plain (ap : Bool) (tbls : List Table) (ti : Nat) (tn : Str) (cs : List (Str × Str))
    (hcs : ColsOK cs) (hne : cs ≠ []) :
    Dbml.renderTableBody { tables := tbls, allowProps := ap } ti (plainTableM tn cs) = .ok (tableText tn cs) := by
  have hcols : (List.range (plainTableM tn cs).columns.length).mapM (fun ci => do
      let c ← getD? (plainTableM tn cs).columns ci "column position"
      Dbml.renderColumn { tables := tbls, allowProps := ap } ti ci c) = .ok (cs.map colStr) := by
    have : ∀ ci, (do
        let c ← getD? (plainTableM tn cs).columns ci "column position"
        Dbml.renderColumn { tables := tbls, allowProps := ap } ti ci c)
        = (do let c ← getD? (plainTableM tn cs).columns ci "column position"; (fun c => Except.ok (colStr (c.name, match c.type with | .plain s => s | _ => []))) c) := by
      intro ci
      cases hg : getD? (plainTableM tn cs).columns ci "column position" with
      | error e => rfl
      | ok c =>
        simp only [bind, Except.bind]
        have hm : c ∈ (plainTableM tn cs).columns := by
          unfold getD? at hg
          split at hg
          · rename_i a hx; cases hg; exact List.mem_of_getElem? hx
          · cases hg
        simp only [plainTableM, List.mem_map] at hm
        obtain ⟨p, _, rfl⟩ := hm
        rw [renderColumn_plain]
        rfl
    simp only [this]
    rw [range_mapM_getD]
    simp only [plainTableM, List.mapM_map]
    exact mapM_ok_map _ _ (fun p => rfl) cs
  have hbody : Dbml.indent4 (joinNL (cs.map colStr)) ++ ['\n'] = colsText cs := by
    rw [colsText_flatMap]
    apply indent4_lines
    · simpa using hne
    · intro l hl
      obtain ⟨p, hp, rfl⟩ := List.mem_map.mp hl
      exact colStr_ok p (hcs p hp).1 (hcs p hp).2
    · intro l hl
      obtain ⟨p, hp, rfl⟩ := List.mem_map.mp hl
      exact ⟨'"', _, rfl, by decide⟩
  unfold Dbml.renderTableBody
  rw [hcols]
  simp [plainTableM, truthy, Dbml.optComment, qualName, bind, Except.bind, pure, Except.pure, tableText, lit] at hbody ⊢
  rw [← hbody]
  simp

theorem range_mapM_getD_idx {α β} (l : List α) (why : String) (g : Nat → α → R β) (g' : α → R β)
    (h : ∀ i, ∀ x ∈ l, g i x = g' x) :
    (List.range l.length).mapM (fun i => do let x ← getD? l i why; g i x) = l.mapM g' := by
  have : (fun i => (do let x ← getD? l i why; g i x)) = fun i => (do let x ← getD? l i why; g' x) := by
    funext i
    cases hg : getD? l i why with
    | error e => rfl
    | ok x =>
      have hm : x ∈ l := by
        unfold getD? at hg
        split at hg
        · rename_i a hx; cases hg; exact List.mem_of_getElem? hx
        · cases hg
      simp only [bind, Except.bind]
      exact h i x hm
  rw [this]
  exact range_mapM_getD l why g'

theorem tableTextP_append (tn : Str) (cs : List (Str × Str)) (post : Str) :
    tableTextP tn cs post = tableText tn cs ++ post := by
  simp [tableTextP, tableText]

theorem joinWith_tables : ∀ (ts : List TSpec), joinWith (lit "\n\n") (ts.map fun t => tableText t.1 t.2) = docText ts := by
  intro ts
  induction ts with
  | nil => rfl
  | cons t r ih =>
    cases r with
    | nil => simp [joinWith, docText, docTail, tableTextP_append]
    | cons t2 r2 =>
      simp only [List.map_cons, joinWith, docText, docTail, tableTextP_append] at ih ⊢
      rw [ih]
      simp [lit]

theorem renderDb_tables (ap : Bool) (ts : List TSpec) (hok : ∀ t ∈ ts, TSpecOK t) :
    Dbml.renderDb { tables := ts.map mkTable, allowProps := ap } = .ok (docText ts) := by
  have htabs : (List.range (ts.map mkTable).length).mapM (Dbml.renderTable { tables := ts.map mkTable, allowProps := ap })
      = .ok (ts.map fun t => tableText t.1 t.2) := by
    have := range_mapM_getD_idx (ts.map mkTable) "table position"
      (fun i t => Dbml.renderTableBody { tables := ts.map mkTable, allowProps := ap } i t)
      (fun t => Except.ok (tableText t.name (t.columns.map fun c => (c.name, match c.type with | .plain s => s | _ => []))))
      (by
        intro i x hx
        obtain ⟨t, ht, rfl⟩ := List.mem_map.mp hx
        rw [mkTable, renderTableBody_plain ap _ i t.1 t.2 (hok t ht).2.1 (hok t ht).2.2]
        simp [plainTableM, plainColumn, List.map_map, Function.comp_def])
    unfold Dbml.renderTable
    rw [this, List.mapM_map]
    refine mapM_ok_map _ _ ?_ ts
    intro t
    simp [mkTable, plainTableM, plainColumn, List.map_map, Function.comp_def]
  unfold Dbml.renderDb Dbml.renderProjectList
  simp only [bind, Except.bind, htabs]
  simp [pure, Except.pure, joinWith_tables]

/-- **C02 for whole documents of plain tables, end to end** (renderer model ∘ character-level parser model ∘
    build model = identity): a database holding any positive number of tables with pairwise different names
    (schema public, no alias/settings/note/indexes), each with any positive number of columns (quoted name,
    one-word type, no settings), is rendered to DBML and parsed back to exactly the same database - the same
    tables in the same order with the same columns in the same order. -/
theorem tables_roundtrip_partial (ap : Bool) (ts : List TSpec) (hok : ∀ t ∈ ts, TSpecOK t) (hne : ts ≠ [])
    (hd : ts.Pairwise (fun a b => a.1 ≠ b.1)) :
    ∃ text, Dbml.renderDb { tables := ts.map mkTable, allowProps := ap } = .ok text
      ∧ Build.parse ap text = .ok { tables := ts.map mkTable, allowProps := ap } := by
  refine ⟨docText ts, renderDb_tables ap ts hok, ?_⟩
  obtain ⟨c', hp⟩ := parseDoc_tables ap ts hok hne
  unfold Build.parse
  have hbom : removeBom (docText ts) = docText ts := by
    cases ts with
    | nil => rfl
    | cons t r => simp [removeBom, docText, tableTextP]
  rw [hbom, hp]
  simp [build_tables ap ts hd]

end C02
end PyDBML
