"""Text-bearing sites: build a small database through the public classes with a text at one site,
render it, parse it back (the model-free oracle of C13 / C02)."""
import sys

sys.path.insert(0, '/repo')

from pydbml import PyDBML  # noqa: E402
from pydbml.classes import (Column, Enum, EnumItem, Expression, Index, Note, Project,  # noqa: E402
                            Reference, Table, TableGroup)
from pydbml.database import Database  # noqa: E402

from harness import ref_text as RT
from harness import observe as O  # noqa: E402
from harness import impl_text as IT  # noqa: E402

StickyNote = O.StickyNote

SITES = ['table_note', 'column_note', 'index_note', 'enum_item_note', 'group_note', 'project_note',
         'sticky', 'project_item', 'table_prop', 'column_prop', 'str_default', 'index_name']
NOTE_SITES = {'table_note', 'column_note', 'index_note', 'enum_item_note', 'group_note', 'project_note', 'sticky'}
BLOCK_SITES = {'table_note', 'group_note', 'project_note', 'sticky'}
SETTING_SITES = {'column_note', 'index_note', 'enum_item_note', 'column_prop'}
RAW_SITES = {'project_item', 'index_name'}


def printable_or_lf(t):
    return all(c == '\n' or c.isprintable() for c in t)


def out_of_statement(site, t):
    """Texts the statement of C13 does not speak about (not defects)."""
    if not printable_or_lf(t):
        return 'NotPrintable'
    if site in NOTE_SITES:
        try:
            if RT.ref_norm(t) != t:
                return 'NotNormal'
        except Exception:  # noqa: BLE001
            return 'NotNormal'
    return None


def trailing_quote_run(t):
    k = 0
    while k < len(t) and t[len(t) - 1 - k] == "'":
        k += 1
    return k


def site_reason(site, t):
    """Mirror of Lean `PyDBML.siteReason` (the driver's verdict is compared with this one)."""
    r = out_of_statement(site, t)
    if r:
        return r
    multi = '\n' in t
    if site == 'str_default':
        if t == '':
            return 'FalsyDefault'
        if multi:
            return 'MultilineDefault'
        if t.lower() in ('null', 'true', 'false'):
            return 'StringLooksLikeLiteral'
    if site in RAW_SITES:
        if multi:
            return 'MultilineRaw'
    if multi and site in SETTING_SITES:
        return 'MultilineSetting'
    if multi and site == 'table_prop':
        return 'MultilineProp'
    if multi and (any(l != '' and l.strip(' ') == '' for l in t.split('\n')) or all(l.strip(' ') == '' for l in t.split('\n'))):
        return 'WhitespaceOnlyLine'
    if not multi and "'''" in t:
        return 'TripleQuote'
    if multi:
        k = trailing_quote_run(t)
        if k >= 3 and k % 3 == 0:
            return 'TripleQuote'
    return None


def build_db(site, t):
    def at(s):
        return t if site == s else None
    db = Database(allow_properties=True)
    e = Enum('e1', [EnumItem('x', note=at('enum_item_note')), EnumItem('y')])
    db.add(e)
    c1 = Column('id', 'int', pk=True, note=at('column_note'),
                default=t if site == 'str_default' else None,
                properties={'ck': t} if site == 'column_prop' else None)
    c2 = Column('name', 'varchar')
    tb = Table('t1', note=at('table_note'), properties={'tk': t} if site == 'table_prop' else None)
    tb.add_column(c1)
    tb.add_column(c2)
    ix = Index([c2], name=at('index_name'), note=at('index_note'))
    tb.add_index(ix)
    db.add(tb)
    g = TableGroup('g1', [tb], note=Note(t) if site == 'group_note' else None)
    db.add(g)
    p = Project('p1', items={'k': t} if site == 'project_item' else {'k': 'v'}, note=at('project_note'))
    db.add(p)
    db.add(StickyNote('s1', t if site == 'sticky' else 'txt'))
    return db


def site_text(dump, site):
    t = dump['tables'][0]
    return {
        'table_note': lambda: t['note'],
        'column_note': lambda: t['columns'][0]['note'],
        'index_note': lambda: t['indexes'][0]['note'],
        'enum_item_note': lambda: dump['enums'][0]['items'][0]['note'],
        'group_note': lambda: dump['groups'][0]['note'] or '',
        'project_note': lambda: dump['project']['note'],
        'sticky': lambda: dump['sticky'][0]['text'],
        'project_item': lambda: dict(map(tuple, dump['project']['items'])).get('k'),
        'table_prop': lambda: dict(map(tuple, t['props'])).get('tk'),
        'column_prop': lambda: dict(map(tuple, t['columns'][0]['props'])).get('ck'),
        'str_default': lambda: (t['columns'][0]['default'] or {}).get('v') if (t['columns'][0]['default'] or {}).get('k') == 'str' else ('<kind:%s>' % (t['columns'][0]['default'] or {}).get('k')),
        'index_name': lambda: t['indexes'][0]['name'] or '',
    }[site]()


def canon_dump(d):
    d = O.strip_comments(d)
    for g in d['groups']:
        g['note'] = g['note'] or None
    for t in d['tables']:
        for ix in t['indexes']:
            ix['name'] = ix['name'] or None
    return d


def site_job(job):
    site, t = job
    try:
        db = build_db(site, t)
        d1 = canon_dump(O.dump_db(db))
    except Exception as e:  # noqa: BLE001
        return {'skip': 'build:' + type(e).__name__}
    try:
        text = db.dbml
    except Exception as e:  # noqa: BLE001
        return {'ok': False, 'how': 'render-raises', 'detail': O.classify(e)}
    try:
        db2 = PyDBML(text, allow_properties=True)
        d2 = canon_dump(O.dump_db(db2))
    except Exception as e:  # noqa: BLE001
        return {'ok': False, 'how': 'reparse-raises', 'detail': {'exc': O.classify(e), 'dbml': text}}
    got = site_text(d2, site)
    if got != t:
        return {'ok': False, 'how': 'site-text-differs', 'detail': {'got': got, 'dbml': text}}
    if d1 != d2:
        return {'ok': False, 'how': 'other-attribute-changed', 'detail': {'before': d1, 'after': d2}}
    try:
        if db2.dbml != text:
            return {'ok': False, 'how': 'second-render-differs', 'detail': {'first': text, 'second': db2.dbml}}
    except Exception as e:  # noqa: BLE001
        return {'ok': False, 'how': 'second-render-raises', 'detail': O.classify(e)}
    return {'ok': True}


def esc_single(t, q):
    out = []
    for c in t:
        if c == '\\':
            out.append('\\\\')
        elif c == q:
            out.append('\\' + q)
        elif c == '\n':
            out.append('\\n')
        else:
            out.append(c)
    return q + ''.join(out) + q


def esc_triple(t):
    out = []
    for c in t:
        if c == '\\':
            out.append('\\\\')
        elif c == "'":
            out.append("\\'")
        else:
            out.append(c)
    return "'''" + ''.join(out) + "'''"


def styles_job(t):
    if not printable_or_lf(t):
        return {'skip': 'NotPrintable'}
    try:
        expected = RT.ref_norm(t)
    except Exception:  # noqa: BLE001
        return {'skip': 'norm-raises(whitespace-only)'}
    observed = {}
    for style, lit in (('single', esc_single(t, "'")), ('double', esc_single(t, '"')), ('triple', esc_triple(t))):
        src = 'Note n1 {\n' + lit + '\n}\nTable t1 {\n  id int [note: ' + lit + ']\n}\n'
        try:
            db = PyDBML(src)
            observed[style] = [db.sticky_notes[0].text, db.tables[0].columns[0].note.text]
        except Exception as e:  # noqa: BLE001
            observed[style] = 'raises ' + O.classify(e)
    vals = list(observed.values())
    ok = all(v == [expected, expected] for v in vals)
    return {'ok': ok, 'observed': observed, 'stored': expected}


def sql_job(t):
    """-> list of (what, detail) failures."""
    fails = []
    expected = t.replace('\\\n', '').replace("'", '"')
    tb = Table('t1', note=t)
    c = Column('c1', 'int', note=t, default=Expression(t))
    tb.add_column(c)
    db = Database()
    db.add(tb)
    try:
        sql = db.sql
    except Exception as e:  # noqa: BLE001
        return [('sql raises', O.classify(e))]
    for head in ('COMMENT ON TABLE "t1" IS \'', 'COMMENT ON COLUMN "t1"."c1" IS \''):
        i = sql.find(head)
        if t == '':
            if i != -1:
                fails.append(('COMMENT ON emitted for an empty note', sql))
            continue
        if i == -1:
            fails.append(('COMMENT ON statement missing', sql))
            continue
        j = i + len(head)
        k = sql.find("'", j)
        body = sql[j:k]
        rest = sql[k:k + 2]
        if k == -1 or rest != "';" or body != expected:
            fails.append(('note text not inside one single-quoted SQL literal with quotes neutralised',
                          {'sql': sql, 'literal': body, 'expected': expected}))
    if '\n' not in t and ('DEFAULT (' + t + ')') not in sql:
        fails.append(('expression text not passed verbatim inside parentheses', sql))
    return fails
