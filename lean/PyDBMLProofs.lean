import PyDBMLProofs.Props.C13
