"""Common machinery of every check: build, audit, verdicts, replays, known findings, evidence.

A check module (`harness/props/cXX.py`) exposes `run(ctx)`; it calls `ctx.case(...)`,
`ctx.diverge(...)`, `ctx.fail(...)`.  The verdict logic is here (DESIGN.md section 4):

* oracle failure (the property itself fails on the real code)  -> VIOLATION with the input
  (unless its reason is a listed open finding -> counted, reported as KNOWN-FINDING)
* correspondence / proof obligation broken, no failing input   -> VIOLATION ... no-failing-input-found
* harness trouble                                               -> exit 2, never a VIOLATION line
"""
import hashlib
import json
import os
import random
import re
import subprocess
import sys
import time
import traceback

VERIF = os.path.dirname(os.path.dirname(os.path.abspath(__file__)))
LEAN_DIR = os.path.join(VERIF, 'lean')
REPLAYS = os.path.join(VERIF, 'replays')
EVIDENCE = os.path.join(VERIF, 'evidence')
KF_FILE = os.path.join(VERIF, 'known_findings.json')

ALLOWED_AXIOMS = {'propext', 'Classical.choice', 'Quot.sound'}
FORBIDDEN = re.compile(r'\bsorry\b|\badmit\b|^\s*axiom\s|native_decide|bv_decide|implemented_by|'
                       r'\bunsafe\s|maxHeartbeats\s+0\b', re.M)


def canon(x):
    return json.dumps(x, sort_keys=True, ensure_ascii=False, separators=(',', ':'))


def h(x):
    return hashlib.sha1(canon(x).encode('utf-8', 'surrogatepass')).hexdigest()[:16]


def strip_lean_comments(src):
    """Remove `/- ... -/` (nested) and `-- ...` comments and string literals' contents are kept."""
    out = []
    i, n, depth = 0, len(src), 0
    while i < n:
        if src.startswith('/-', i):
            depth += 1
            i += 2
        elif depth and src.startswith('-/', i):
            depth -= 1
            i += 2
        elif depth:
            i += 1
        elif src.startswith('--', i):
            while i < n and src[i] != '\n':
                i += 1
        elif src[i] == '"':
            j = i + 1
            while j < n and src[j] != '"':
                j += 2 if src[j] == '\\' else 1
            out.append('""')
            i = j + 1
        else:
            out.append(src[i])
            i += 1
    return ''.join(out)


class Ctx:
    def __init__(self, pid, tier, seed, level, theorems=(), lean_modules=()):
        self.pid = pid
        self.tier = tier
        self.seed = seed
        self.level = level
        self.rng = random.Random(f'{pid}:{seed}')
        self.t0 = time.time()
        self.theorems = list(theorems)        # fully qualified Lean names of the property theorems
        self.lean_modules = list(lean_modules)
        self.evaluations = 0
        self.nontrivial = set()
        self.samples = []
        self.dist = {}
        self.failures = []      # oracle failures: property violated on the real code
        self.divergences = []   # correspondence broken
        self.known_hits = {}    # finding id -> count
        self.obligations = 0
        self.discharged = 0
        self.axioms = {}
        self.build_ok = None
        self.build_log = ''
        self.notes = []
        self.extra = {}
        self.findings = [f for f in load_findings() if f.get('property') == pid]
        self.open_reasons = {f['reason']: f for f in self.findings if f.get('status') == 'open'}
        self.thorough = tier == 'thorough'

    # ---- counting -------------------------------------------------------------------------
    def count(self, key, n=1):
        self.dist[key] = self.dist.get(key, 0) + n

    def case(self, key, nontrivial=True, sample=None):
        """Register one evaluated case; `key` is its canonical form (hashed)."""
        self.evaluations += 1
        if nontrivial:
            self.nontrivial.add(key if isinstance(key, str) and len(key) <= 16 else h(key))
        if sample is not None and len(self.samples) < 8:
            self.samples.append(sample)

    # ---- verdict-bearing events -----------------------------------------------------------
    def fail(self, what, case, reason=None, how=None, **details):
        """The property fails on the real code for `case`.  `reason`: name of a domain-predicate
        disjunct when the input lies outside the theorems' domain (known-findings classifier).
        `how`: the way it fails (e.g. value changed / does not parse back); a recorded finding lists the ways it
        is known to fail, and a failure of another kind in the same region is a new violation."""
        if reason is not None and reason in self.open_reasons:
            f = self.open_reasons[reason]
            if how is None or 'how' not in f or how in f['how']:
                self.known_hits[f['id']] = self.known_hits.get(f['id'], 0) + 1
                self.count(f'KNOWN:{reason}:{how}')
                return
            what = f'{what} [region of {f["id"]}, but it fails in a way not recorded there: {how}]'
        self.count(f'FAIL:{what}:{reason}')
        if len(self.failures) < 50:
            self.failures.append({'what': what, 'case': case, 'reason': reason, 'details': details})

    def diverge(self, what, case, model, impl, reason=None):
        """Model and implementation disagree on `case` for observation `what`."""
        if reason is not None and reason in self.open_reasons:
            fid = self.open_reasons[reason]['id']
            self.known_hits[fid] = self.known_hits.get(fid, 0) + 1
            return
        if len(self.divergences) < 50:
            self.divergences.append({'what': what, 'case': case, 'model': model, 'impl': impl})

    # ---- Lean side --------------------------------------------------------------------------
    def build(self):
        p = subprocess.run(['lake', 'build'], cwd=LEAN_DIR, stdout=subprocess.PIPE,
                           stderr=subprocess.STDOUT, text=True)
        self.build_ok = p.returncode == 0
        self.build_log = p.stdout[-6000:]
        return self.build_ok

    def audit(self):
        """`#print axioms` on every property theorem + source grep.  Returns list of problems."""
        problems = []
        self.obligations = len(self.theorems)
        if not self.theorems:
            return problems
        imports = '\n'.join(f'import {m}' for m in self.lean_modules)
        body = '\n'.join(f'#print axioms {t}' for t in self.theorems)
        src = f'{imports}\n{body}\n'
        p = subprocess.run(['lake', 'env', 'lean', '--stdin'], cwd=LEAN_DIR, input=src,
                           stdout=subprocess.PIPE, stderr=subprocess.STDOUT, text=True)
        out = p.stdout
        # "'X' depends on axioms: [a, b]" | "'X' does not depend on any axioms"
        seen = {}
        for m in re.finditer(r"'([^']+)' depends on axioms: \[([^\]]*)\]", out, re.S):
            seen[m.group(1)] = {a.strip() for a in m.group(2).replace('\n', ' ').split(',') if a.strip()}
        for m in re.finditer(r"'([^']+)' does not depend on any axioms", out):
            seen[m.group(1)] = set()
        for t in self.theorems:
            if t not in seen:
                problems.append(f'theorem {t} missing or does not check')
                continue
            bad = seen[t] - ALLOWED_AXIOMS
            self.axioms[t] = sorted(seen[t])
            if bad:
                problems.append(f'theorem {t} depends on {sorted(bad)}')
            else:
                self.discharged += 1
        if p.returncode != 0 and not problems:
            problems.append('audit file does not elaborate: ' + out[-400:])
        # thorough tier: re-check the compiled proof modules with the toolchain's independent checker
        if self.thorough and self.lean_modules:
            lc = subprocess.run(['lake', 'env', 'leanchecker'] + list(self.lean_modules), cwd=LEAN_DIR,
                                stdout=subprocess.PIPE, stderr=subprocess.STDOUT, text=True)
            self.extra['leanchecker'] = {'modules': list(self.lean_modules), 'exit': lc.returncode}
            if lc.returncode != 0:
                problems.append('leanchecker rejects the compiled modules: ' + lc.stdout[-400:])
        # source grep
        for root, _, files in os.walk(LEAN_DIR):
            if '.lake' in root:
                continue
            for f in files:
                if f.endswith('.lean'):
                    txt = strip_lean_comments(open(os.path.join(root, f), encoding='utf-8').read())
                    m = FORBIDDEN.search(txt)
                    if m:
                        problems.append(f'forbidden construct {m.group(0).strip()!r} in {f}')
        return problems

    # ---- finish -----------------------------------------------------------------------------
    def write_replay(self, kind, payload):
        os.makedirs(REPLAYS, exist_ok=True)
        path = os.path.join(REPLAYS, f'{self.pid}-{kind}-{h(payload)}.json')
        with open(path, 'w', encoding='utf-8') as f:
            json.dump(payload, f, ensure_ascii=True, indent=1, default=str)
        return path

    def finish(self, rule, explanation, assumptions, trusted_base, kf_replay=None, proof_problems=()):
        """Print verdict lines, write evidence, return the exit code."""
        lines = []
        code = 0
        # known findings: replay the committed witnesses on the real code
        for f in self.findings:
            if f.get('status') != 'open':
                continue
            still = True
            if kf_replay is not None:
                try:
                    still = bool(kf_replay(f))
                except Exception as e:  # noqa: BLE001
                    self.notes.append(f'replaying {f["id"]} raised {type(e).__name__}: {e}')
                    still = True
            if still:
                lines.append(f'KNOWN-FINDING: property={self.pid} {f["id"]}: {f["what"]}')
            else:
                self.notes.append(f'finding {f["id"]} no longer reproduces on the real code')
        viol = 0
        for fl in self.failures[:5]:
            path = self.write_replay('fail', {'property': self.pid, 'kind': 'property-fails-on-real-code',
                                              'seed': self.seed, 'tier': self.tier, **fl})
            lines.append(f'VIOLATION property={self.pid} replay={path}')
            viol += 1
        if not self.failures:
            broken = []
            for d in self.divergences[:3]:
                broken.append({'kind': 'correspondence-broken', **d})
            for pp_ in proof_problems:
                broken.append({'kind': 'proof-obligation-broken', 'what': pp_})
            if self.build_ok is False:
                broken.append({'kind': 'lean-build-broken', 'what': self.build_log[-3000:]})
            for b in broken[:3]:
                path = self.write_replay('broken', {'property': self.pid, 'seed': self.seed,
                                                    'tier': self.tier,
                                                    'searched': f'{self.evaluations} cases, model-free oracle found no failing input',
                                                    **b})
                lines.append(f'VIOLATION property={self.pid} replay={path} no-failing-input-found')
                viol += 1
        if viol:
            code = 1
        cov = {
            'evaluations': self.evaluations,
            'distinct_nontrivial': len(self.nontrivial),
            'rule': rule,
            'samples': self.samples[:8] or ['(none)'],
            'programs': max(self.evaluations, 1),
            'disagreements_checked': len(self.divergences),
            'obligations': self.obligations,
            'discharged': self.discharged,
            'checker_cmd': 'cd /verif/lean && lake build && lake env lean --stdin  # `#print axioms` on: '
                           + ', '.join(self.theorems),
            'trusted_base': trusted_base,
            'explanation': explanation,
            'axioms': self.axioms,
            'distribution': self.dist,
            'known_finding_hits': self.known_hits,
            'oracle_failures': len(self.failures),
            'notes': self.notes,
            **self.extra,
        }
        ev = {'property_id': self.pid, 'tier': self.tier, 'seed': self.seed, 'level': self.level,
              'coverage': cov, 'assumptions': assumptions,
              'wall_s': round(time.time() - self.t0, 2), 'violations': viol}
        os.makedirs(EVIDENCE, exist_ok=True)
        with open(os.path.join(EVIDENCE, f'{self.pid}.json'), 'w', encoding='utf-8') as f:
            json.dump(ev, f, ensure_ascii=True, indent=1, default=str)
        for ln in lines:
            print(ln)
        print(f'[{self.pid}] tier={self.tier} seed={self.seed} evaluations={self.evaluations} '
              f'nontrivial={len(self.nontrivial)} theorems={self.discharged}/{self.obligations} '
              f'divergences={len(self.divergences)} failures={len(self.failures)} '
              f'known={sum(self.known_hits.values())} wall={ev["wall_s"]}s exit={code}')
        return code


def load_findings():
    try:
        with open(KF_FILE, encoding='utf-8') as f:
            return json.load(f).get('findings', [])
    except FileNotFoundError:
        return []


def chunks(lst, n):
    k = max(1, (len(lst) + n - 1) // n)
    return [lst[i:i + k] for i in range(0, len(lst), k)]


def pmap(fn, items, procs=None):
    """Parallel map over worker processes (fork): each worker imports pydbml itself."""
    import multiprocessing as mp
    items = list(items)
    if not items:
        return []
    procs = procs or min(16, os.cpu_count() or 4)
    if len(items) < 64 or procs == 1:
        return [fn(x) for x in items]
    ctx = mp.get_context('fork')
    with ctx.Pool(procs) as pool:
        return pool.map(fn, items, chunksize=max(1, len(items) // (procs * 8)))
