/-
L4b: the rules of `pydbml/definitions/*.py`, one-to-one, each with its parse action.
`cut` marks everything that follows pyparsing's error stop `-` in the (flattened) `And` of a rule.
-/
import PyDBMLModel.Blueprint
namespace PyDBML
namespace Grammar
open Lex Bp

/-! ### common.py -/

/-- `_ = ('\n' | comment)[...].suppress()` -/
def skipNl : P Unit := do
  let _ ← manyF (alt (sym "\n") (do let _ ← comment; pure ()))
  pure ()

/-- `_c = (Suppress('\n') | comment('comment_before*'))[...]`: the captured comment texts -/
def cBefore : P (List Str) := do
  let xs ← manyF (alt (do sym "\n"; pure (none : Option Str)) (do let t ← comment; pure (some t)))
  pure (xs.filterMap id)

/-- `'\n'.join(c[0] for c in tok['comment_before'])` when present -/
def joinBefore (cs : List Str) : Option Str :=
  if cs.isEmpty then none else some (joinNL cs)

/-- `c = comment('comment')[0, 1]` -/
def cOpt : P (Option Str) := opt comment

/-- `end = comment[...].suppress() + n | StringEnd()` -/
def endRule : P Unit :=
  alt (do let _ ← manyF comment; lineEnd) stringEnd

/-- `note = CaselessLiteral("note:") + _ - string_literal('text')` -/
def noteRule : P Str := do
  clit "note:"
  cut (do skipNl; stringLiteral)

/-- `note_object = CaselessKeyword('note') + _ - '{' + _ - string_literal('text') + _ - '}'` -/
def noteObject : P Str := do
  ckw "note"
  skipNl
  cut (do
    sym "{"
    skipNl
    let t ← stringLiteral
    skipNl
    sym "}"
    pure t)

def noteElement : P Str := alt noteRule noteObject

/-! ### generic.py: expressions (only their extent matters: `original_text_for`) -/

def isExprChar (c : Char) : Bool :=
  isAlnum c || c = '"' || c = '\'' || c = '`' || c = ',' || c = '.' || c = '_' || c = '+' || c = '-'
    || c = ' ' || c = '\n' || c = '\t'
def isExprCharNCS (c : Char) : Bool :=
  isAlnum c || c = '"' || c = '\'' || c = '`' || c = '.' || c = '_' || c = '+' || c = '-'

mutual
  /-- `factor` -/
  def factor : Nat → P Unit
    | 0 => pfail
    | fuel + 1 =>
      alt (do
          let _ ← opt (word isNameChar)
          sym "("
          expression fuel
          sym ")")
        (alt (do
            let _ ← word isExprCharNCS
            alt (sym ",") (alt (sym ");") (do lineEnd; sym ");")))
          (do let _ ← word isExprChar; pure ()))
  /-- `expression << factor[...]` -/
  def expression : Nat → P Unit
    | 0 => ppure ()
    | fuel + 1 => fun c =>
      match many (factor fuel) (fuelOf c) c with
      | .ok _ c' => .ok () c'
      | .fail => .fail
      | .fatal => .fatal
      | .exn e => .exn e
end

/-- `type_args = "(" + original_text_for(expression) + ")"` inside `Combine`: no whitespace is
    skipped before `(`, before the start marker, nor before `)`; the text is the source slice. -/
def typeArgs : P Str := fun c =>
  match litRaw ['('] c with
  | .ok _ c1 =>
    (match expression (fuelOf c1) c1 with
     | .ok _ c2 =>
       (match litRaw [')'] c2 with
        | .ok _ c3 => .ok ('(' :: c1.rest.take (c1.rest.length - c2.rest.length) ++ [')']) c3
        | .fail => .fail | .fatal => .fatal | .exn e => .exn e)
     | .fail => .fail | .fatal => .fatal | .exn e => .exn e)
  | .fail => .fail | .fatal => .fatal | .exn e => .exn e

/-- `name` without the leading whitespace skip (inside `Combine`) -/
def nameRaw : P Str := fun c =>
  match c.rest with
  | x :: _ => if isWs x then .fail else name c
  | [] => .fail

/-- `column_type = Combine((name + '[]') | (name + '.' + name) | (name + type_args[0, 1]))` -/
def columnType : P Str := fun c0 =>
  let c := skipWs c0
  (alt (do let n ← nameRaw; litRaw ['[', ']']; pure (n ++ ['[', ']']))
    (alt (do let a ← nameRaw; litRaw ['.']; let b ← nameRaw; pure (a ++ '.' :: b))
      (do
        let n ← nameRaw
        let a ← opt typeArgs
        pure (n ++ a.getD [])))) c

/-! ### reference.py -/

/-- `col_name` of an inline reference: (schema?, table, field) -/
def colName : P (Option Str × Str × Str) :=
  alt (do
      let s ← name
      sym "."
      let t ← name
      sym "."
      let f ← cut name
      pure (some s, t, f))
    (do
      let t ← name
      sym "."
      let f ← name
      pure (none, t, f))

/-- `ref_inline = CaselessLiteral("ref:") - relation('type') - col_name` -/
def refInline : P RefBp := do
  clit "ref:"
  cut (do
    let k ← relation
    let (s, t, f) ← colName
    pure { kind := k, inline := true, table2 := some t, col2 := some f,
           schema2 := s.getD (PyDBML.lit "public") })

def onOption : P Str :=
  alt (do clit "no action"; pure (PyDBML.lit "no action"))
  (alt (do clit "restrict"; pure (PyDBML.lit "restrict"))
  (alt (do clit "cascade"; pure (PyDBML.lit "cascade"))
  (alt (do clit "set null"; pure (PyDBML.lit "set null"))
       (do clit "set default"; pure (PyDBML.lit "set default")))))

inductive RefSetting where
  | update (s : Str) | delete (s : Str)

/-- `ref_setting = _ + (update('update') | delete('delete')) + _` -/
def refSetting : P RefSetting := do
  skipNl
  let r ← alt (do clit "update:"; skipNl; let o ← onOption; pure (RefSetting.update o))
              (do clit "delete:"; skipNl; let o ← onOption; pure (RefSetting.delete o))
  skipNl
  pure r

structure RefSettings where
  onUpdate : Option Str := none
  onDelete : Option Str := none
  comment : Option Str := none

/-- `ref_settings = '[' + ref_setting + (',' + ref_setting)[...] + ']' + c` -/
def refSettings : P RefSettings := do
  sym "["
  let s ← refSetting
  let ss ← manyF (do sym ","; refSetting)
  sym "]"
  let cm ← cOpt
  let all := s :: ss
  let upd := all.foldl (fun acc x => match x with | .update o => some o | _ => acc) none
  let del := all.foldl (fun acc x => match x with | .delete o => some o | _ => acc) none
  pure { onUpdate := upd, onDelete := del, comment := cm }

/-- `White()[...]` -/
def whites : P Str := fun c =>
  let w := c.rest.takeWhile fun x => x = ' ' || x = '\t' || x = '\r' || x = '\n'
  if c.pastEnd then .ok [] c else .ok w (advance c w.length)

/-- `Combine(composite_name)`: the raw text with names unquoted -/
def compositeName : P Str := fun c0 =>
  let c := skipWs c0
  (do
    litRaw ['(']
    let w0 ← whites
    cut (do
      let n ← nameRaw
      let w1 ← whites
      let more ← manyF (do
        let a ← whites
        litRaw [',']
        let b ← whites
        let m ← nameRaw
        let d ← whites
        pure (a ++ ',' :: b ++ m ++ d))
      litRaw [')']
      pure ('(' :: w0 ++ n ++ w1 ++ more.flatten ++ [')']))) c

def nameOrComposite : P Str := alt name compositeName

/-- `ref_cols`: (schema?, table, field) -/
def refCols : P (Option Str × Str × Str) :=
  alt (do
      let s ← name
      sym "."
      let t ← name
      sym "."
      let f ← nameOrComposite
      pure (some s, t, f))
    (do
      let t ← name
      sym "."
      let f ← nameOrComposite
      pure (none, t, f))

/-- `ref_body` + `parse_ref` given the optional name and the comments before -/
def refBody (nm : Option Str) (before : List Str) : P RefBp := do
  let (s1, t1, f1) ← refCols
  cut (do
    let k ← relation
    let (s2, t2, f2) ← refCols
    let cm ← cOpt
    let st ← opt refSettings
    let st' := st.getD {}
    -- settings first, then the comment after the columns, then the comments before
    let comment := match cm with
      | some x => some x
      | none => match st'.comment with
        | some x => some x
        | none => joinBefore before
    pure { kind := k, inline := false, name := nm,
           schema1 := s1.getD (PyDBML.lit "public"), table1 := some t1, col1 := some f1,
           schema2 := s2.getD (PyDBML.lit "public"), table2 := some t2, col2 := some f2,
           comment := comment, onUpdate := st'.onUpdate, onDelete := st'.onDelete })

/-- `ref_short = _c + CaselessLiteral('ref') + name('name')[0, 1] + ':' - ref_body` -/
def refShort : P RefBp := do
  let before ← cBefore
  clit "ref"
  let nm ← opt name
  sym ":"
  cut (refBody nm before)

/-- `ref_long` followed by `(n | StringEnd())` -/
def refLong : P RefBp := do
  let before ← cBefore
  clit "ref"
  skipNl
  let nm ← opt name
  skipNl
  sym "{"
  skipNl
  let r ← cut (do
    let r ← refBody nm before
    skipNl
    sym "}"
    pure r)
  alt lineEnd stringEnd
  pure r

def refRule : P RefBp := alt refShort refLong

/-! ### column.py -/

def booleanLiteral : P DefaultBp :=
  alt (do clit "true"; pure (.bool true))
  (alt (do clit "false"; pure (.bool false))
       (do clit "NULL"; pure .null))

/-- `int()` refuses more than 4300 digits (`ValueError` out of the parse action) -/
def numberValue (t : Str) : P DefaultBp :=
  if t.contains '.' then ppure (.float t)
  else if t.length > 4300 then pexn (.internal .ValueError)
  else ppure (.int t)

/-- `default = CaselessLiteral('default:').suppress() + _ - (…)` -/
def defaultRule : P DefaultBp := do
  clit "default:"
  cut (do
    skipNl
    alt (do let s ← stringLiteral; pure (DefaultBp.str s))
      (alt (do let e ← expressionLiteral; pure (DefaultBp.expr e))
        (alt booleanLiteral (do let t ← numberLiteral; numberValue t))))

/-- `prop = name + Suppress(":") + string_literal` -/
def prop : P (Str × Str) := do
  let k ← name
  sym ":"
  let v ← stringLiteral
  pure (k, v)

inductive ColSetting where
  | notNull (b : Bool) | pk | unique | increment | note (t : Str) | ref (r : RefBp)
  | default (d : DefaultBp) | prop (k v : Str)

/-- `column_setting = _ + (…) + _` -/
def columnSetting : P ColSetting := do
  skipNl
  let r ←
    alt (do clit "not null"; pure (ColSetting.notNull true))
    (alt (do clit "null"; pure (ColSetting.notNull false))
    (alt (do clit "primary key"; pure ColSetting.pk)
    (alt (do clit "pk"; pure ColSetting.pk)
    (alt (do clit "unique"; pure ColSetting.unique)
    (alt (do clit "increment"; pure ColSetting.increment)
    (alt (do let t ← noteRule; pure (ColSetting.note t))
    (alt (do let r ← refInline; pure (ColSetting.ref r))
         (do let d ← defaultRule; pure (ColSetting.default d)))))))))
  skipNl
  pure r

def columnSettingWithProperty : P ColSetting :=
  alt columnSetting (do let (k, v) ← prop; pure (ColSetting.prop k v))

structure ColSettings where
  notNull : Bool := false
  pk : Bool := false
  unique : Bool := false
  autoinc : Bool := false
  note : Option Str := none
  default : Option DefaultBp := none
  refs : List RefBp := []
  comment : Option Str := none
  props : Option (List (Str × Str)) := none

/-- `parse_column_settings` -/
def foldColSettings (all : List ColSetting) (cm : Option Str) : ColSettings :=
  let lastNN := all.foldl (fun acc x => match x with | .notNull b => some b | _ => acc) none
  let props := all.filterMap fun x => match x with | .prop k v => some (k, v) | _ => none
  { notNull := lastNN.getD false
    pk := all.any fun x => match x with | .pk => true | _ => false
    unique := all.any fun x => match x with | .unique => true | _ => false
    autoinc := all.any fun x => match x with | .increment => true | _ => false
    note := all.foldl (fun acc x => match x with | .note t => some t | _ => acc) none
    default := all.foldl (fun acc x => match x with | .default d => some d | _ => acc) none
    refs := all.filterMap fun x => match x with | .ref r => some r | _ => none
    comment := cm
    props := if props.isEmpty then none else some (dictOf props) }

/-- `column_settings = '[' - column_setting + ("," + column_setting)[...] + ']' + c` -/
def columnSettings : P ColSettings := do
  sym "["
  cut (do
    let s ← columnSetting
    let ss ← manyF (do sym ","; columnSetting)
    sym "]"
    let cm ← cOpt
    pure (foldColSettings (s :: ss) cm))

/-- `column_settings_with_properties = '[' - (_ + csp + _) + ("," + csp)[...] + ']' + c` -/
def columnSettingsWithProperties : P ColSettings := do
  sym "["
  cut (do
    skipNl
    let s ← columnSettingWithProperty
    skipNl
    let ss ← manyF (do sym ","; columnSettingWithProperty)
    sym "]"
    let cm ← cOpt
    pure (foldColSettings (s :: ss) cm))

inductive Constraint where | unique | pk

/-- `table_column[_with_properties]` and `parse_column` -/
def tableColumn (props : Bool) : P ColBp := do
  let before ← cBefore
  let nm ← name
  let ty ← columnType
  let cons ← manyF (alt (do clit "unique"; pure Constraint.unique) (do clit "pk"; pure Constraint.pk))
  let cm ← cOpt
  let st ← opt (if props then columnSettingsWithProperties else columnSettings)
  lineEnd
  let s := st.getD {}
  let hasSettings := st.isSome
  let conPk := cons.any fun x => match x with | .pk => true | _ => false
  let conUq := cons.any fun x => match x with | .unique => true | _ => false
  -- `init_dict.update(tok['settings'])`: the settings dict only holds the keys that were set
  let comment := match cm with
    | some x => some x
    | none => match s.comment with
      | some x => some x
      | none => joinBefore before
  pure { name := nm, type := ty,
         unique := conUq || s.unique, notNull := s.notNull, pk := conPk || s.pk, autoinc := s.autoinc,
         default := s.default, note := s.note, refs := if hasSettings then s.refs else [],
         comment := comment, props := s.props }

/-! ### index.py -/

def indexType : P Str := do
  clit "type:"
  cut (do
    skipNl
    alt (do clit "brin"; pure (PyDBML.lit "brin"))
      (alt (do clit "btree"; pure (PyDBML.lit "btree"))
      (alt (do clit "gin"; pure (PyDBML.lit "gin"))
      (alt (do clit "gist"; pure (PyDBML.lit "gist"))
      (alt (do clit "hash"; pure (PyDBML.lit "hash"))
           (do clit "spgist"; pure (PyDBML.lit "spgist")))))))

inductive IdxSetting where
  | unique | type (t : Str) | name (n : Str) | note (t : Str) | pk

def indexSetting : P IdxSetting := do
  skipNl
  let r ←
    alt (do clit "unique"; pure IdxSetting.unique)
    (alt (do let t ← indexType; pure (IdxSetting.type t))
    (alt (do clit "name:"; skipNl; let n ← cut stringLiteral; pure (IdxSetting.name n))
    (alt (do let t ← noteRule; pure (IdxSetting.note t))
         (do clit "pk"; pure IdxSetting.pk))))
  skipNl
  pure r

structure IdxSettings where
  unique : Bool := false
  name : Option Str := none
  pk : Bool := false
  type : Option Str := none
  note : Option Str := none
  comment : Option Str := none

/-- `index_settings = '[' + index_setting + (',' - index_setting)[...] - ']' + c` -/
def indexSettings : P IdxSettings := do
  sym "["
  let s ← indexSetting
  let ss ← manyF (do sym ","; cut indexSetting)
  cut (sym "]")
  let cm ← cOpt
  let all := s :: ss
  pure { unique := all.any fun x => match x with | .unique => true | _ => false
         pk := all.any fun x => match x with | .pk => true | _ => false
         name := all.foldl (fun acc x => match x with | .name n => some n | _ => acc) none
         type := all.foldl (fun acc x => match x with | .type t => some t | _ => acc) none
         note := all.foldl (fun acc x => match x with | .note t => some t | _ => acc) none
         comment := cm }

def subject : P SubjBp :=
  alt (do let n ← name; pure (SubjBp.name n)) (do let e ← expressionLiteral; pure (SubjBp.expr e))

/-- result of one alternative of `single ^ composite` -/
structure IdxCore where
  subjects : List SubjBp
  c1 : Option Str
  settings : Option IdxSettings

def singleIndex : P IdxCore := do
  let s ← subject
  let c1 ← cOpt
  let st ← opt indexSettings
  pure { subjects := [s], c1 := c1, settings := st }

def compositeIndex : P IdxCore := do
  sym "("
  let s ← subject
  let ss ← manyF (do sym ","; subject)
  sym ")"
  let c1 ← cOpt
  let st ← opt indexSettings
  pure { subjects := s :: ss, c1 := c1, settings := st }

/-- `Or` (`^`): longest match wins, first on ties; a fatal error of one alternative is raised only
    when no alternative matches. -/
def orLongest {α} (p q : P α) : P α := fun c =>
  match p c, q c with
  | .exn e, _ => .exn e
  | _, .exn e => .exn e
  | .ok a ca, .ok b cb => if cb.rest.length < ca.rest.length then .ok b cb else .ok a ca
  | .ok a ca, _ => .ok a ca
  | _, .ok b cb => .ok b cb
  | .fatal, _ => .fatal
  | _, .fatal => .fatal
  | .fail, .fail => .fail

/-- `index = _c + (single ^ composite) + c` and `parse_index` -/
def indexRule : P IdxBp := do
  let before ← cBefore
  let core ← orLongest singleIndex compositeIndex
  let c3 ← cOpt
  let st := core.settings.getD {}
  -- results name `comment` (not list-all): the later match wins; it beats the settings' comment
  let tokComment := match c3 with | some x => some x | none => core.c1
  let comment := match tokComment with
    | some x => some x
    | none => match st.comment with
      | some x => some x
      | none => joinBefore before
  pure { subjects := core.subjects, name := st.name, unique := st.unique, type := st.type, pk := st.pk,
         note := st.note, comment := comment }

/-- `indexes = CaselessLiteral('indexes').suppress() + _ - '{' - index[1, ...] + _ + '}'` -/
def indexesRule : P (List IdxBp) := do
  clit "indexes"
  skipNl
  cut (do
    sym "{"
    let is ← many1 indexRule
    skipNl
    sym "}"
    pure is)

/-! ### table.py -/

/-- `alias = WordStart() + CaselessLiteral('as').suppress() - WordEnd() - name` -/
def aliasRule : P Str := do
  wordStart
  clit "as"
  cut (do wordEnd; name)

def headerColor : P Str := do
  clit "headercolor:"
  skipNl
  cut hexColor

inductive TblSetting where | note (t : Str) | color (c : Str)

def tableSetting : P TblSetting := do
  skipNl
  let r ← alt (do let t ← noteRule; pure (TblSetting.note t)) (do let c ← headerColor; pure (TblSetting.color c))
  skipNl
  pure r

/-- `table_settings = '[' + table_setting + (',' + table_setting)[...] + ']'` → (note, header_color) -/
def tableSettings : P (Option Str × Option Str) := do
  sym "["
  let s ← tableSetting
  let ss ← manyF (do sym ","; tableSetting)
  sym "]"
  let all := s :: ss
  pure (all.foldl (fun acc x => match x with | .note t => some t | _ => acc) none,
        all.foldl (fun acc x => match x with | .color c => some c | _ => acc) none)

inductive TblElem where
  | column (c : ColBp) | note (t : Str) | indexes (is : List IdxBp) | prop (k v : Str)

/-- `table_element[_with_property] = _ + (…) + _` -/
def tableElement (props : Bool) : P TblElem := do
  skipNl
  let r ←
    alt (do let c ← tableColumn props; pure (TblElem.column c))
    (alt (do let t ← noteElement; pure (TblElem.note t))
    (alt (do let is ← indexesRule; pure (TblElem.indexes is))
         (if props then (do let (k, v) ← prop; pure (TblElem.prop k v)) else pfail)))
  skipNl
  pure r

/-- `table_name = (name('schema') + '.' + name('name')) | name('name')` -/
def tableName : P (Option Str × Str) :=
  alt (do let s ← name; sym "."; let n ← name; pure (some s, n))
      (do let n ← name; pure (none, n))

/-- `table[_with_properties]` and `parse_table` -/
def tableRule (props : Bool) : P TableBp := do
  let before ← cBefore
  ckw "table"
  let (schema, nm) ← tableName
  let al ← opt aliasRule
  let st ← opt tableSettings
  skipNl
  sym "{"
  cut (do
    let els ← manyF (tableElement props)
    skipNl
    sym "}"
    endRule
    let cols := els.filterMap fun x => match x with | .column c => some c | _ => none
    let bodyNote := els.foldl (fun acc x => match x with | .note t => some t | _ => acc) none
    let idxBlocks := els.filterMap fun x => match x with | .indexes is => some is | _ => none
    let ps := els.filterMap fun x => match x with | .prop k v => some (k, v) | _ => none
    let (sNote, sColor) := st.getD (none, none)
    if cols.isEmpty then pexn .noColumns
    else pure {
      name := nm, schema := schema.getD (PyDBML.lit "public"), columns := cols,
      indexes := idxBlocks.head?, alias := al,
      note := match bodyNote with | some t => some t | none => sNote,
      headerColor := sColor, comment := joinBefore before,
      props := if ps.isEmpty then none else some (dictOf ps) })

/-! ### enum.py -/

/-- `enum_settings = '[' + _ - note('note') + _ - ']' + c` → (note, comment) -/
def enumSettings : P (Str × Option Str) := do
  sym "["
  skipNl
  cut (do
    let t ← noteRule
    skipNl
    sym "]"
    let cm ← cOpt
    pure (t, cm))

/-- `enum_item` and `parse_enum_item`: the comment after the settings, else the one after the
    name, else the ones above -/
def enumItem : P EnumItemBp := do
  let before ← cBefore
  let nm ← name
  let c1 ← cOpt
  let st ← opt enumSettings
  let comment := match st with
    | some (_, some x) => some x
    | _ => match c1 with
      | some x => some x
      | none => joinBefore before
  pure { name := nm, note := st.map (·.1), comment := comment }

/-- `enum_name = Combine(name("schema") + '.' + name("name")) | name("name")` -/
def enumName : P (Option Str × Str) :=
  alt (fun c0 => (do let s ← nameRaw; litRaw ['.']; let n ← nameRaw; pure (some s, n)) (skipWs c0))
      (do let n ← name; pure (none, n))

/-- `enum` and `parse_enum` -/
def enumRule : P EnumBp := do
  let before ← cBefore
  clit "enum"
  cut (do
    let (schema, nm) ← enumName
    skipNl
    sym "{"
    let items ← many1 enumItem
    lineEnd
    skipNl
    sym "}"
    endRule
    pure { name := nm, items := items, schema := schema.getD (PyDBML.lit "public"),
           comment := joinBefore before })

/-! ### table_group.py -/

/-- `table_name = Combine(name + '.' + name) | name` (group items) -/
def groupTableName : P Str :=
  alt (fun c0 => (do let s ← nameRaw; litRaw ['.']; let n ← nameRaw; pure (s ++ '.' :: n)) (skipWs c0)) name

inductive GrpElem where | note (t : Str) | item (s : Str)

def tgElement : P GrpElem := do
  skipNl
  let r ← alt (do let t ← noteElement; pure (GrpElem.note t)) (do let s ← groupTableName; pure (GrpElem.item s))
  skipNl
  pure r

inductive GrpSetting where | note (t : Str) | color (c : Str)

def tgSetting : P GrpSetting := do
  skipNl
  let r ← alt (do let t ← noteRule; pure (GrpSetting.note t))
              (do clit "color:"; skipNl; let c ← cut hexColor; pure (GrpSetting.color c))
  skipNl
  pure r

def tgSettings : P (List GrpSetting) := do
  sym "["
  let s ← tgSetting
  let ss ← manyF (do sym ","; tgSetting)
  sym "]"
  pure (s :: ss)

/-- `table_group` and `parse_table_group` -/
def tableGroupRule : P GroupBp := do
  let before ← cBefore
  clit "TableGroup"
  cut (do
    let nm ← name
    skipNl
    let st ← opt tgSettings
    skipNl
    sym "{"
    skipNl
    let els ← manyF tgElement
    skipNl
    sym "}"
    endRule
    let sts := st.getD []
    let sNote := sts.foldl (fun acc x => match x with | .note t => some t | _ => acc) none
    let color := sts.foldl (fun acc x => match x with | .color c => some c | _ => acc) none
    let bNote := els.foldl (fun acc x => match x with | .note t => some t | _ => acc) none
    pure { name := nm, items := els.filterMap fun x => match x with | .item s => some s | _ => none,
           comment := joinBefore before,
           note := match bNote with | some t => some t | none => sNote,
           color := color })

/-! ### project.py -/

inductive PrjElem where | note (t : Str) | field (k v : Str)

/-- `project_field = Group(name + _ + Suppress(':') + _ - string_literal)` -/
def projectField : P (Str × Str) := do
  let k ← name
  skipNl
  sym ":"
  skipNl
  let v ← cut stringLiteral
  pure (k, v)

def projectElement : P PrjElem := do
  skipNl
  let r ← alt (do let t ← noteRule; pure (PrjElem.note t))
          (alt (do let t ← noteObject; pure (PrjElem.note t))
               (do let (k, v) ← projectField; pure (PrjElem.field k v)))
  skipNl
  pure r

/-- `project` and `parse_project` -/
def projectRule : P ProjectBp := do
  let before ← cBefore
  clit "project"
  skipNl
  cut (do
    let nm ← name
    skipNl
    sym "{"
    skipNl
    let els ← manyF projectElement
    skipNl
    sym "}"
    alt lineEnd stringEnd
    let fields := els.filterMap fun x => match x with | .field k v => some (k, v) | _ => none
    pure { name := nm, items := dictOf fields,
           note := els.foldl (fun acc x => match x with | .note t => some t | _ => acc) none,
           comment := joinBefore before })

/-! ### sticky_note.py -/

def stickyNoteRule : P StickyBp := do
  let _ ← cBefore
  clit "note"
  skipNl
  let nm ← name
  skipNl
  cut (do
    sym "{"
    skipNl
    let t ← stringLiteral
    skipNl
    sym "}"
    endRule
    pure { name := nm, text := t })

/-! ### parser.py: `_set_syntax` and `parse` -/

def element (props : Bool) : P Elem :=
  alt (do let t ← tableRule props; pure (Elem.table t))
  (alt (do let r ← refRule; pure (Elem.ref r))
  (alt (do let e ← enumRule; pure (Elem.enum e))
  (alt (do let g ← tableGroupRule; pure (Elem.group g))
  (alt (do let p ← projectRule; pure (Elem.project p))
       (do let s ← stickyNoteRule; pure (Elem.sticky s))))))

/-- `expr[...] + ("\n" | comment)[...] + StringEnd()` under `parse_string(..., parseAll=True)` -/
def document (props : Bool) : P (List Elem) := do
  let es ← manyF (element props)
  skipNl
  stringEnd
  pure es

/-- the blueprints of a document (after `expandtabs`), or the error -/
def parseDoc (props : Bool) (text : Str) : Res (List Elem) :=
  document props { rest := expandTabs text }

end Grammar
end PyDBML
