/-
C01 — the number of blank lines between elements does not matter.  `parseDoc_elems` (C02Doc.lean) reads a sequence of
element forms separated the way the renderer separates them (one empty line); `parseDoc_elems_gaps` reads the same
elements, to the same blueprints in the same order, whatever positive number of empty lines stands before each element:
the layout a hand-written document has.
-/
import PyDBMLProofs.Props.C02Doc
namespace PyDBML
namespace C02
open Lex Grammar Build

/-- `k` further line breaks, one more, an optional comment line, then something that is not blank: the items `_c` reads -/
theorem many_nls_comment (cm : Option Str) (x : Char) (xr : Str) (hxw : isWs x = false) (hx1 : x ≠ '\n') (hx2 : x ≠ '/')
    (hcm : CmOK cm) : ∀ (k f : Nat) (c : Cur), c.rest = List.replicate k '\n' ++ '\n' :: (commentText cm ++ x :: xr) →
    c.pastEnd = false →
    ∃ c0, many cbBody (f + k + 4) c = .ok (List.replicate k none ++ none :: (match cm with | none => [] | some s => [some s, none])) c0
      ∧ c0.rest = x :: xr ∧ c0.pastEnd = false ∧ ∀ p, c0.prev = some p → isKwIdent p = false := by
  intro k
  induction k with
  | zero =>
    intro f c hc hp
    have hc' : c.rest = '\n' :: (commentText cm ++ x :: xr) := by simpa using hc
    obtain ⟨hs, hr1, hp1, hpv1⟩ := sym_nl_here c _ hc' hp
    cases cm with
    | none =>
      have hr1' : (advance c 1).rest = x :: xr := by simpa [commentText] using hr1
      have hN : Next (advance c 1) x xr := skipWs_rest_head _ x xr hr1' hxw
      obtain ⟨q1, q2⟩ := quiet_of_next (advance c 1) x xr hN hx1 hx2
      refine ⟨advance c 1, ?_, hr1', hp1, by intro p hpp; rw [hpv1] at hpp; cases hpp; decide⟩
      have := many_cons cbBody (f + 3) c (advance c 1) _ none [] (cbBody_nl c _ hs) (by rw [hr1', hc']; simp [commentText])
        (many_stop cbBody (f + 2) _ (cbBody_fail _ q1 q2))
      simpa using this
    | some s =>
      have hr1' : (advance c 1).rest = '/' :: '/' :: ' ' :: (s ++ '\n' :: x :: xr) := by simpa [commentText] using hr1
      obtain ⟨c0, hm, hr0, hp0, hpv0⟩ := many_comment_line s x xr hxw hx1 hx2 hcm f (advance c 1) hr1' hp1
      refine ⟨c0, ?_, hr0, hp0, by intro p hpp; rw [hpv0] at hpp; cases hpp; decide⟩
      have := many_cons cbBody (f + 3) c (advance c 1) c0 none _ (cbBody_nl c _ hs) (by rw [hr1', hc']; simp [commentText]) hm
      simpa using this
  | succ k ih =>
    intro f c hc hp
    have hc' : c.rest = '\n' :: (List.replicate k '\n' ++ '\n' :: (commentText cm ++ x :: xr)) := by
      simpa [List.replicate_succ] using hc
    obtain ⟨hs, hr1, hp1, _⟩ := sym_nl_here c _ hc' hp
    obtain ⟨c0, hm, hr0, hp0, hpv0⟩ := ih f (advance c 1) hr1 hp1
    refine ⟨c0, ?_, hr0, hp0, hpv0⟩
    have := many_cons cbBody (f + k + 4) c (advance c 1) c0 none _ (cbBody_nl c _ hs) (by rw [hr1, hc']; simp) hm
    have e : f + (k + 1) + 4 = f + k + 4 + 1 := by omega
    rw [e]
    simpa [List.replicate_succ] using this

theorem filterMap_replicate_none {α} (k : Nat) (l : List (Option α)) :
    (List.replicate k none ++ l).filterMap id = l.filterMap id := by
  induction k with
  | zero => simp
  | succ k ih => simpa [List.replicate_succ] using ih

/-- `_c` after the end rule of the previous element consumed one line break: any positive number of further line breaks
    (empty lines), an optional comment line, then the element -/
theorem cBefore_nls_comment (c : Cur) (cm : Option Str) (k : Nat) (x : Char) (xr : Str) (hxw : isWs x = false) (hx1 : x ≠ '\n')
    (hx2 : x ≠ '/') (hc : c.rest = List.replicate k '\n' ++ '\n' :: (commentText cm ++ x :: xr)) (hp : c.pastEnd = false)
    (hcm : CmOK cm) :
    ∃ c0, cBefore c = .ok (cmList cm) c0 ∧ c0.rest = x :: xr ∧ c0.pastEnd = false
      ∧ ∀ p, c0.prev = some p → isKwIdent p = false := by
  have hlen : c.rest.length + 2 = (c.rest.length - k - 2) + k + 4 := by
    rw [hc]; simp only [List.length_append, List.length_replicate, List.length_cons]; omega
  obtain ⟨c0, hm, hr0, hp0, hpv0⟩ := many_nls_comment cm x xr hxw hx1 hx2 hcm k (c.rest.length - k - 2) c hc hp
  rw [← hlen] at hm
  refine ⟨c0, ?_, hr0, hp0, hpv0⟩
  have := cBefore_of_many c c0 _ hm
  rw [filterMap_replicate_none] at this
  cases cm <;> simpa [cmList] using this

variable {ap : Bool}

/-- the rest of a document: before each element the line break that ends the previous one, an empty line, and `k`
    further empty lines -/
def docTailG : List (Nat × EForm ap) → Str
  | [] => []
  | (k, e) :: es => '\n' :: (List.replicate k '\n' ++ '\n' :: (e.text ++ docTailG es))

/-- what is left when the previous element's end rule has consumed its line break -/
def afterG : List (Nat × EForm ap) → Str
  | [] => []
  | (k, e) :: es => List.replicate k '\n' ++ '\n' :: (e.text ++ docTailG es)

/-- a document: a first element, then elements each after at least one empty line -/
def docTextG (e : EForm ap) (es : List (Nat × EForm ap)) : Str := e.text ++ docTailG es

theorem docTailG_ends (es : List (Nat × EForm ap)) : EndsOK (docTailG es) := by
  cases es with
  | nil => exact Or.inl rfl
  | cons e r => obtain ⟨k, e⟩ := e; exact Or.inr ⟨_, rfl⟩

theorem after_docTailG (es : List (Nat × EForm ap)) (c9 : Cur) (h : After (docTailG es) c9) :
    c9.rest = afterG es ∧ c9.pastEnd = es.isEmpty := by
  cases es with
  | nil => simpa [afterG] using h.1 rfl
  | cons e r => obtain ⟨k, e⟩ := e; simpa [afterG] using h.2 _ rfl

theorem docTailG_length : ∀ es : List (Nat × EForm ap), es.length ≤ (docTailG es).length := by
  intro es
  induction es with
  | nil => simp
  | cons e r ih => obtain ⟨k, e⟩ := e; simp only [docTailG, List.length_cons, List.length_append]; omega

theorem afterG_length (es : List (Nat × EForm ap)) : es.length ≤ (afterG es).length := by
  cases es with
  | nil => simp
  | cons e r =>
    obtain ⟨k, e⟩ := e
    have := docTailG_length r
    simp only [afterG, List.length_cons, List.length_append]; omega

theorem afterG_lt (k : Nat) (e : EForm ap) (r : List (Nat × EForm ap)) :
    (afterG r).length < (afterG ((k, e) :: r)).length := by
  have h := e.text_length
  cases r with
  | nil => simp only [afterG, List.length_cons, List.length_append, List.length_nil]; omega
  | cons e2 r2 =>
    obtain ⟨k2, e2⟩ := e2
    simp only [afterG, docTailG, List.length_cons, List.length_append, List.length_replicate]; omega

theorem element_afterG (c : Cur) (k : Nat) (e : EForm ap) (es : List (Nat × EForm ap)) (hc : c.rest = afterG ((k, e) :: es))
    (hp : c.pastEnd = false) :
    ∃ c9, element ap c = .ok e.elem c9 ∧ c9.rest = afterG es ∧ c9.pastEnd = es.isEmpty := by
  obtain ⟨c0, hb, hr0, hp0, hpv0⟩ := cBefore_nls_comment c e.pre k e.head (e.body ++ docTailG es) e.headOK.1 e.headOK.2.1
    e.headOK.2.2 (by rw [hc]; simp [afterG, EForm.text]) hp e.preOK
  obtain ⟨c9, hel, haft⟩ := e.parse c c0 (docTailG es) hb hr0 hp0 hpv0 (docTailG_ends es)
  exact ⟨c9, hel, after_docTailG es c9 haft⟩

theorem many_elems_gaps : ∀ (es : List (Nat × EForm ap)) (fuel : Nat) (c : Cur), es.length < fuel →
    c.rest = afterG es → c.pastEnd = es.isEmpty →
    ∃ c', many (element ap) fuel c = .ok (es.map (·.2.elem)) c' ∧ c'.rest = [] ∧ c'.pastEnd = true := by
  intro es
  induction es with
  | nil =>
    intro fuel c hf hc hp
    obtain ⟨f, rfl⟩ : ∃ f, fuel = f + 1 := ⟨fuel - 1, by simp at hf; omega⟩
    have hp' : c.pastEnd = true := by simpa using hp
    refine ⟨c, ?_, by simpa [afterG] using hc, hp'⟩
    rw [many]
    simp [element_fail_pastEnd ap c hp']
  | cons e r ih =>
    obtain ⟨k, e⟩ := e
    intro fuel c hf hc hp
    obtain ⟨f, rfl⟩ : ∃ f, fuel = f + 1 := ⟨fuel - 1, by simp at hf; omega⟩
    have hp' : c.pastEnd = false := by simpa using hp
    obtain ⟨c1, hel, hr1, hp1⟩ := element_afterG c k e r hc hp'
    obtain ⟨c2, hm, hr2, hp2⟩ := ih f c1 (by simp at hf; omega) hr1 hp1
    refine ⟨c2, ?_, hr2, hp2⟩
    have hlen : c1.rest.length ≠ c.rest.length := by
      rw [hr1, hc]; have := afterG_lt k e r; omega
    rw [many]
    simp only [hel, hlen, decide_false, Bool.false_and, Bool.false_eq_true, ↓reduceIte, hm, List.map_cons]

theorem docTailG_no_tab : ∀ (es : List (Nat × EForm ap)), ∀ c ∈ docTailG es, c ≠ '\t' := by
  intro es
  induction es with
  | nil => intro c hc; simp [docTailG] at hc
  | cons e r ih =>
    obtain ⟨k, e⟩ := e
    intro c hc
    simp only [docTailG, List.mem_cons, List.mem_append, List.mem_replicate] at hc
    rcases hc with rfl | ⟨_, rfl⟩ | rfl | h | h
    · decide
    · decide
    · decide
    · exact e.text_no_tab c h
    · exact ih c h

/-- **blank lines between elements are inert**: a first element and any number of further elements, each after any
    positive number of empty lines (and possibly under a one-line comment), are read as exactly their blueprints, in order -
    the same result as for the renderer's own layout (`parseDoc_elems`, the case of all gaps 0). -/
theorem parseDoc_elems_gaps (e : EForm ap) (r : List (Nat × EForm ap)) :
    ∃ c', parseDoc ap (docTextG e r) = .ok (e.elem :: r.map (·.2.elem)) c' := by
  have hnotab : ∀ c ∈ docTextG e r, c ≠ '\t' := by
    intro c hc
    rcases List.mem_append.mp hc with h | h
    · exact e.text_no_tab c h
    · exact docTailG_no_tab r c h
  unfold parseDoc expandTabs
  rw [expandTabsAux_plain 0 _ hnotab]
  let c0 : Cur := { rest := docTextG e r }
  obtain ⟨cb, hb, hrb, hpb, hpvb⟩ := cBefore_comment c0 e.pre e.head (e.body ++ docTailG r) e.headOK.1 e.headOK.2.1
    e.headOK.2.2 (show c0.rest = _ by simp [c0, docTextG, EForm.text]) rfl e.preOK (by intro p hpp; cases hpp)
  obtain ⟨c1, hel, haft⟩ := e.parse c0 cb (docTailG r) hb hrb hpb hpvb (docTailG_ends r)
  obtain ⟨hr1, hp1⟩ := after_docTailG r c1 haft
  have hlt : (afterG r).length < (docTextG e r).length := by
    have h := e.text_length
    cases r with
    | nil => simp only [afterG, docTextG, docTailG, List.length_append, List.length_nil]; omega
    | cons e2 r2 =>
      obtain ⟨k2, e2⟩ := e2
      simp only [afterG, docTextG, docTailG, List.length_cons, List.length_append, List.length_replicate]; omega
  have hfuel : r.length < c0.rest.length + 1 := by
    have h1 := afterG_length r
    show r.length < (docTextG e r).length + 1
    omega
  obtain ⟨c2, hm, hr2, hp2⟩ := many_elems_gaps r (c0.rest.length + 1) c1 hfuel hr1 hp1
  have hmany : manyF (element ap) c0 = .ok (e.elem :: r.map (·.2.elem)) c2 := by
    unfold manyF fuelOf
    have hlen : c1.rest.length ≠ c0.rest.length := by
      rw [hr1]
      show (afterG r).length ≠ (docTextG e r).length
      omega
    rw [many]
    simp only [hel, hlen, decide_false, Bool.false_and, Bool.false_eq_true, ↓reduceIte, hm]
  obtain ⟨c9, hse⟩ := stringEnd_eof c2 (skipWs_rest_nil c2 hr2)
  refine ⟨c9, ?_⟩
  show document ap c0 = _
  unfold document
  simp only [bind, pbind, hmany, skipNl_pastEnd c2 hp2, hse, pure, ppure]

/-- with no extra empty lines this is the renderer's layout -/
theorem docTextG_zero (e : EForm ap) (r : List (EForm ap)) : docTextG e (r.map fun x => (0, x)) = docTextE (e :: r) := by
  have : ∀ r : List (EForm ap), docTailG (r.map fun x => (0, x)) = docTailE r := by
    intro r
    induction r with
    | nil => rfl
    | cons x xs ih => simp [docTailG, docTailE, ih]
  simp [docTextG, docTextE, this]

end C02
end PyDBML
