/-
C03 — the reader of the DDL, continued: `COMMENT ON` statements (`read_render_comment_table`, `read_render_comment_column`).
The statements address the table by its bare name: that the schema is dropped is the recorded finding
(KF COMMENT ON without schema); the theorems say what the text states.
-/
import PyDBMLModel
import PyDBMLProofs.Props.C03Script
namespace PyDBML
namespace C04
open Sql C03

/-- **a table note becomes one COMMENT ON TABLE statement** naming the table and carrying the note text with single
    quotes neutralised (`prepare_text_for_sql`) -/
theorem read_render_comment_table (name text : Str) (hq : '"' ∉ name) :
    readCommentOn (commentOn (lit "TABLE") name text) = some ⟨lit "TABLE", [name], prepareTextForSql text⟩ := by
  have e : commentOn (lit "TABLE") name text
      = lit "COMMENT ON " ++ (lit "TABLE" ++ ' ' :: '"' :: (name ++ '"' :: (lit " IS '" ++ (prepareTextForSql text ++ lit "';")))) := by
    simp [commentOn, lit]
  rw [e]
  unfold readCommentOn
  rw [stripKw_append]
  simp only []
  have hd := dropWhile_until (· != ' ') (lit "TABLE") ' '
    ('"' :: (name ++ '"' :: (lit " IS '" ++ (prepareTextForSql text ++ lit "';")))) (by decide) (by decide)
  rw [hd.1, hd.2]
  simp only []
  rw [readQuoted_ok name _ hq]
  show readCommentTail (lit "TABLE") [name] (lit " IS '" ++ (prepareTextForSql text ++ lit "';")) = _
  unfold readCommentTail
  rw [stripKw_append]
  simp only []
  rw [stripSuffix_append]
  rfl

/-- the statement the model writes for a column note -/
def commentColumnLine (t c text : Str) : Str :=
  lit "COMMENT ON COLUMN \"" ++ t ++ lit "\".\"" ++ c ++ lit "\" IS '" ++ prepareTextForSql text ++ lit "';"

/-- **a column note becomes one COMMENT ON COLUMN statement** naming table and column -/
theorem read_render_comment_column (t c text : Str) (ht : '"' ∉ t) (hc : '"' ∉ c) :
    readCommentOn (commentColumnLine t c text) = some ⟨lit "COLUMN", [t, c], prepareTextForSql text⟩ := by
  have e : commentColumnLine t c text
      = lit "COMMENT ON " ++ (lit "COLUMN" ++ ' ' :: '"' :: (t ++ '"' :: ('.' :: '"' :: (c ++ '"' :: (lit " IS '" ++ (prepareTextForSql text ++ lit "';")))))) := by
    simp [commentColumnLine, lit]
  rw [e]
  unfold readCommentOn
  rw [stripKw_append]
  simp only []
  have hd := dropWhile_until (· != ' ') (lit "COLUMN") ' '
    ('"' :: (t ++ '"' :: ('.' :: '"' :: (c ++ '"' :: (lit " IS '" ++ (prepareTextForSql text ++ lit "';")))))) (by decide) (by decide)
  rw [hd.1, hd.2]
  simp only []
  rw [readQuoted_ok t _ ht]
  simp only []
  rw [readQuoted_ok c _ hc]
  simp only []
  unfold readCommentTail
  rw [stripKw_append]
  simp only []
  rw [stripSuffix_append]
  rfl

example : readCommentOn (lit "COMMENT ON COLUMN \"t\".\"c\" IS 'it\"s; a note';") = some ⟨lit "COLUMN", [lit "t", lit "c"], lit "it\"s; a note"⟩
    ∧ readCommentOn (lit "COMMENT ON TABLE \"t\" IS '';") = some ⟨lit "TABLE", [lit "t"], []⟩ := by decide +kernel

end C04
end PyDBML
