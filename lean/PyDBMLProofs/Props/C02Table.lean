/-
C02/C01 — the round trip of a table with plain columns (any number of them), end to end:
`table_roundtrip_partial`.  Partial: one table in schema public without alias/settings/note/indexes,
columns with a quoted name and a one-word type and no settings.
-/
import PyDBMLProofs.Props.C02Sticky
namespace PyDBML
namespace C02
open Lex Grammar Build

/-! ### quoted names -/

/-- characters a name may hold so that `"name"` is read back unchanged -/
def NameOK (n : Str) : Prop := ∀ c ∈ n, c ≠ '"' ∧ c ≠ '\\' ∧ isLineBreak c = false ∧ c ≠ '\t'

theorem NameOK.tail {x : Char} {r : Str} (h : NameOK (x :: r)) : NameOK r := fun c hc => h c (by simp [hc])

theorem scanName_ok (n rest : Str) (h : NameOK n) : scanName (n ++ '"' :: rest) = some (n, rest) := by
  induction n with
  | nil => simp [scanName]
  | cons x r ih =>
    obtain ⟨h1, _, h3, _⟩ := h x (by simp)
    have hn : x ≠ '\n' := by rintro rfl; simp [isLineBreak] at h3
    have hr : x ≠ '\r' := by rintro rfl; simp [isLineBreak] at h3
    simp only [List.cons_append]
    rw [scanName]
    simp [h1, hn, hr, ih h.tail]

theorem unquote_name (n : Str) (h : NameOK n) : unquote false false n = n := by
  unfold unquote
  induction n with
  | nil => simp [unquoteAux]
  | cons x r ih =>
    rw [C13.unquote_plain _ _ x r (h x (by simp)).2.1, ih h.tail]

theorem name_quoted_ok (c : Cur) (n r : Str) (hn : (skipWs c).rest = '"' :: (n ++ '"' :: r)) (h : NameOK n)
    (hp : c.pastEnd = false) : ∃ c', name c = .ok n c' ∧ c'.rest = r ∧ c'.pastEnd = false := by
  refine ⟨curAfter (skipWs c) r, ?_, ?_, ?_⟩
  · unfold name
    simp only [skipWs_pastEnd, hp, Bool.false_eq_true, ↓reduceIte, hn]
    have : List.takeWhile isNameChar ('"' :: (n ++ '"' :: r)) = [] := by
      simp [List.takeWhile, isNameChar, isAlnum, isAlpha, isDigit]
    simp only [this, List.isEmpty_nil, Bool.not_true, Bool.false_eq_true, ↓reduceIte, scanName_ok n r h,
      unquote_name n h]
  · exact C13.curAfter_rest (skipWs c) ('"' :: n ++ ['"']) r (by rw [hn]; simp)
  · unfold curAfter; rw [C13.advance_pastEnd]; exact hp

/-! ### one column line: `    "name" type` + LF -/

def TypeOK (ty : Str) : Prop := ty ≠ [] ∧ ty.all isNameChar = true

def colLine (cn ty : Str) : Str := ' ' :: ' ' :: ' ' :: ' ' :: '"' :: (cn ++ '"' :: ' ' :: (ty ++ ['\n']))

def plainCol (cn ty : Str) : Bp.ColBp := { name := cn, type := ty }

theorem litRaw_fail (s : Str) (c : Cur) (h : startsWith c.rest s = false) : litRaw s c = .fail := by
  unfold litRaw; simp [h]

/-- `column_type` on a one-word type followed by a line break -/
theorem columnType_word (c : Cur) (ty r : Str) (hn : (skipWs c).rest = ty ++ '\n' :: r) (hty : TypeOK ty)
    (hp : c.pastEnd = false) : ∃ c', columnType c = .ok ty c' ∧ c'.rest = '\n' :: r ∧ c'.pastEnd = false := by
  obtain ⟨t0, ts, rfl⟩ : ∃ t0 ts, ty = t0 :: ts := by
    cases ty with
    | nil => exact absurd rfl hty.1
    | cons a as => exact ⟨a, as, rfl⟩
  have ht0 : isNameChar t0 = true := by have := hty.2; simp only [List.all_cons, Bool.and_eq_true] at this; exact this.1
  have ht0w : isWs t0 = false := (nameChar_facts t0 ht0).1
  -- `name` from the skipped position
  have hsk : (skipWs (skipWs c)).rest = (t0 :: ts) ++ '\n' :: r := by rw [skipWs_idem]; exact hn
  obtain ⟨c2, hnm, hr2, hp2⟩ := name_ok (skipWs c) (t0 :: ts) ('\n' :: r) hsk (by simp) hty.2
    (by intro x hx; simp at hx; subst hx; decide) (by simpa using hp)
  have hraw : nameRaw (skipWs c) = .ok (t0 :: ts) c2 := by
    unfold nameRaw
    rw [hn]
    simp only [List.cons_append, ht0w, Bool.false_eq_true, ↓reduceIte]
    exact hnm
  have hb1 : litRaw ['[', ']'] c2 = .fail := litRaw_fail _ c2 (by rw [hr2]; simp [startsWith])
  have hb2 : litRaw ['.'] c2 = .fail := litRaw_fail _ c2 (by rw [hr2]; simp [startsWith])
  have hb3 : typeArgs c2 = .fail := by
    unfold typeArgs
    rw [litRaw_fail ['('] c2 (by rw [hr2]; simp [startsWith])]
  refine ⟨c2, ?_, hr2, hp2⟩
  unfold columnType
  simp only [alt, bind, pbind, hraw, hb1, hb2, opt, hb3, pure, ppure, Option.getD_none, List.append_nil]

theorem lineEnd_nl (c : Cur) (r : Str) (hn : (skipWs c).rest = '\n' :: r) (hp : c.pastEnd = false) :
    ∃ c', lineEnd c = .ok () c' ∧ c'.rest = r ∧ c'.pastEnd = false := by
  refine ⟨{ skipWs c with prev := some '\n', rest := r }, ?_, rfl, by simpa using hp⟩
  unfold lineEnd
  simp [hp, hn]

/-- a cursor standing right before a line break: no constraint word, no comment, no bracket -/
theorem tableColumn_ok (props : Bool) (c : Cur) (cn ty rest : Str) (hc : c.rest = colLine cn ty ++ rest)
    (hp : c.pastEnd = false) (hcn : NameOK cn) (hty : TypeOK ty) :
    ∃ c', tableColumn props c = .ok (plainCol cn ty) c' ∧ c'.rest = rest ∧ c'.pastEnd = false := by
  -- the name
  have hN : Next c '"' (cn ++ '"' :: ' ' :: (ty ++ '\n' :: rest)) :=
    skipWs_rest_spaces c 4 '"' _ (by rw [hc]; simp [colLine]) (by decide)
  obtain ⟨q1, q2⟩ := quiet_of_next c '"' _ hN (by decide) (by decide)
  have hb : cBefore c = .ok [] c := cBefore_stay c q1 q2
  obtain ⟨c1, hnm, hr1, hp1⟩ := name_quoted_ok c cn _ hN hcn hp
  -- the type
  obtain ⟨t0, ts, hty0⟩ : ∃ t0 ts, ty = t0 :: ts := by
    cases ty with
    | nil => exact absurd rfl hty.1
    | cons a as => exact ⟨a, as, rfl⟩
  have ht0 : isNameChar t0 = true := by
    have := hty.2; rw [hty0] at this; simp only [List.all_cons, Bool.and_eq_true] at this; exact this.1
  have hN1 : (skipWs c1).rest = ty ++ '\n' :: rest :=
    skipWs_rest_spaces c1 1 t0 (ts ++ '\n' :: rest) (by rw [hr1, hty0]; rfl) (nameChar_facts t0 ht0).1 |>.trans (by rw [hty0]; rfl)
  obtain ⟨c2, hct, hr2, hp2⟩ := columnType_word c1 ty rest hN1 hty hp1
  -- nothing else on the line
  have hN2 : Next c2 '\n' rest := skipWs_rest_head c2 '\n' _ hr2 (by decide)
  have hcons : manyF (alt (pbind (clit "unique") fun _ => ppure Constraint.unique)
      (pbind (clit "pk") fun _ => ppure Constraint.pk)) c2 = .ok [] c2 := by
    apply manyF_fail
    simp only [alt, pbind,
      clit_fail "unique" c2 _ _ hN2 (swc_ne '\n' _ "unique" 'u' _ rfl (by decide)),
      clit_fail "pk" c2 _ _ hN2 (swc_ne '\n' _ "pk" 'p' _ rfl (by decide))]
  have hcm : cOpt c2 = .ok none c2 := by
    unfold cOpt opt
    rw [comment_fail c2 '\n' rest hN2 (by decide)]
  have hset : ∀ (q : P ColSettings), (∀ d, sym "[" d = .fail → q d = .fail) → opt q c2 = .ok none c2 := by
    intro q hq
    unfold opt
    rw [hq c2 (sym_fail "[" c2 '\n' rest hN2 (by simp [startsWith]))]
  have hs1 : opt (if props then columnSettingsWithProperties else columnSettings) c2 = .ok none c2 := by
    apply hset
    intro d hd
    split
    · unfold columnSettingsWithProperties; simp only [bind, pbind, hd]
    · unfold columnSettings; simp only [bind, pbind, hd]
  obtain ⟨c3, hle, hr3, hp3⟩ := lineEnd_nl c2 rest hN2 hp2
  refine ⟨c3, ?_, hr3, hp3⟩
  unfold tableColumn
  simp only [bind, pbind, hb, hnm, hct, hcons, hcm, hs1, hle, pure, ppure, plainCol, joinBefore]
  rfl

/-! ### the body of a table: column lines, then `}` -/

def colsText : List (Str × Str) → Str
  | [] => []
  | (cn, ty) :: r => colLine cn ty ++ colsText r

def ColsOK (cs : List (Str × Str)) : Prop := ∀ p ∈ cs, NameOK p.1 ∧ TypeOK p.2

/-- what follows a column line is another column line or the closing brace -/
theorem body_next (cs : List (Str × Str)) (tail : Str) :
    ∃ k x r, colsText cs ++ '}' :: tail = List.replicate k ' ' ++ x :: r ∧ isWs x = false ∧ x ≠ '\n' ∧ x ≠ '/'
      ∧ (x = '"' ∨ x = '}') := by
  cases cs with
  | nil => exact ⟨0, '}', tail, rfl, by decide, by decide, by decide, Or.inr rfl⟩
  | cons p r =>
    obtain ⟨cn, ty⟩ := p
    exact ⟨4, '"', cn ++ '"' :: ' ' :: (ty ++ '\n' :: (colsText r ++ '}' :: tail)), by simp [colsText, colLine],
      by decide, by decide, by decide, Or.inl rfl⟩

theorem skipNl_stay_body (c : Cur) (cs : List (Str × Str)) (tail : Str) (hc : c.rest = colsText cs ++ '}' :: tail) :
    skipNl c = .ok () c := by
  obtain ⟨k, x, r, he, hw, h1, h2, _⟩ := body_next cs tail
  have hN : Next c x r := skipWs_rest_spaces c k x r (by rw [hc, he]) hw
  obtain ⟨q1, q2⟩ := quiet_of_next c x r hN h1 h2
  exact skipNl_stay c q1 q2

/-- one body element that is a plain column -/
theorem tableElement_col (props : Bool) (c : Cur) (cn ty : Str) (cs : List (Str × Str)) (tail : Str)
    (hc : c.rest = colLine cn ty ++ (colsText cs ++ '}' :: tail)) (hp : c.pastEnd = false)
    (hcn : NameOK cn) (hty : TypeOK ty) :
    ∃ c', tableElement props c = .ok (TblElem.column (plainCol cn ty)) c'
      ∧ c'.rest = colsText cs ++ '}' :: tail ∧ c'.pastEnd = false := by
  have hs0 : skipNl c = .ok () c := skipNl_stay_body c ((cn, ty) :: cs) tail (by rw [hc]; simp [colsText])
  obtain ⟨c1, hcol, hr1, hp1⟩ := tableColumn_ok props c cn ty _ hc hp hcn hty
  have hs1 : skipNl c1 = .ok () c1 := skipNl_stay_body c1 cs tail hr1
  refine ⟨c1, ?_, hr1, hp1⟩
  unfold tableElement
  simp only [bind, pbind, hs0, alt, hcol, hs1, pure, ppure]

theorem name_fail (c : Cur) (x : Char) (r : Str) (hn : Next c x r) (h1 : isNameChar x = false) (h2 : x ≠ '"') :
    name c = .fail := by
  unfold name
  simp only [show (skipWs c).rest = x :: r from hn]
  split
  · rfl
  · simp only [List.takeWhile, h1, List.isEmpty_nil, Bool.not_true, Bool.false_eq_true, ↓reduceIte]
    split
    · rename_i heq; simp at heq; exact absurd heq.1 h2
    · rfl

/-- at the closing brace no body element starts -/
theorem tableElement_fail_brace (props : Bool) (c : Cur) (tail : Str) (hc : c.rest = '}' :: tail) :
    tableElement props c = .fail := by
  have hN : Next c '}' tail := skipWs_rest_head c '}' _ hc (by decide)
  obtain ⟨q1, q2⟩ := quiet_of_next c '}' _ hN (by decide) (by decide)
  have hs0 : skipNl c = .ok () c := skipNl_stay c q1 q2
  have hb : cBefore c = .ok [] c := cBefore_stay c q1 q2
  have hnm : name c = .fail := name_fail c '}' tail hN (by decide) (by decide)
  have h1 : tableColumn props c = .fail := by
    unfold tableColumn; simp only [bind, pbind, hb, hnm]
  have h2 : noteElement c = .fail := by
    unfold noteElement noteRule noteObject alt
    simp only [bind, pbind, clit_fail "note:" c _ _ hN (swc_ne '}' _ "note:" 'n' _ rfl (by decide)),
      ckw_fail "note" c _ _ hN (swc_ne '}' _ "note" 'n' _ rfl (by decide))]
  have h3 : indexesRule c = .fail := by
    unfold indexesRule
    simp only [bind, pbind, clit_fail "indexes" c _ _ hN (swc_ne '}' _ "indexes" 'i' _ rfl (by decide))]
  have h4 : prop c = .fail := by
    unfold prop; simp only [bind, pbind, hnm]
  unfold tableElement
  simp only [bind, pbind, hs0, alt, h1, h2, h3]
  cases props <;> simp [h4, pfail, bind, pbind]

/-- the repetition over the body reads exactly the column lines -/
theorem many_body (props : Bool) (cs : List (Str × Str)) (tail : Str) (hcs : ColsOK cs) :
    ∀ (fuel : Nat) (c : Cur), cs.length < fuel → c.rest = colsText cs ++ '}' :: tail → c.pastEnd = false →
      ∃ c', many (tableElement props) fuel c = .ok (cs.map fun p => TblElem.column (plainCol p.1 p.2)) c'
        ∧ c'.rest = '}' :: tail ∧ c'.pastEnd = false := by
  induction cs with
  | nil =>
    intro fuel c hf hc hp
    obtain ⟨f, rfl⟩ : ∃ f, fuel = f + 1 := ⟨fuel - 1, by simp at hf; omega⟩
    refine ⟨c, ?_, by simpa [colsText] using hc, hp⟩
    rw [many]
    simp [tableElement_fail_brace props c tail (by simpa [colsText] using hc)]
  | cons p r ih =>
    intro fuel c hf hc hp
    obtain ⟨cn, ty⟩ := p
    obtain ⟨f, rfl⟩ : ∃ f, fuel = f + 1 := ⟨fuel - 1, by simp at hf; omega⟩
    obtain ⟨hcn, hty⟩ := hcs (cn, ty) (by simp)
    obtain ⟨c1, hel, hr1, hp1⟩ := tableElement_col props c cn ty r tail (by rw [hc]; simp [colsText]) hp hcn hty
    obtain ⟨c2, hm, hr2, hp2⟩ := ih (fun q hq => hcs q (by simp [hq])) f c1 (by simp at hf; omega) hr1 hp1
    refine ⟨c2, ?_, hr2, hp2⟩
    have hlen : c1.rest.length ≠ c.rest.length := by
      rw [hr1, hc]; simp [colsText, colLine]; omega
    rw [many]
    simp only [hel, hlen, false_and, decide_false, Bool.false_and, Bool.false_eq_true, ↓reduceIte, hm, List.map_cons]

theorem colsText_length (cs : List (Str × Str)) : cs.length ≤ (colsText cs).length := by
  induction cs with
  | nil => simp [colsText]
  | cons p r ih =>
    obtain ⟨cn, ty⟩ := p
    simp [colsText, colLine]; omega

/-! ### the table rule on the rendered text -/

def tableText (tn : Str) (cs : List (Str × Str)) : Str :=
  'T' :: 'a' :: 'b' :: 'l' :: 'e' :: ' ' :: '"' :: (tn ++ '"' :: ' ' :: '{' :: '\n' :: (colsText cs ++ ['}']))

def plainTable (tn : Str) (cs : List (Str × Str)) : Bp.TableBp :=
  { name := tn, schema := lit "public", columns := cs.map fun p => plainCol p.1 p.2 }

theorem filterMap_cols_some (cs : List (Str × Str)) (f : TblElem → Option Bp.ColBp)
    (h : ∀ p : Str × Str, f (TblElem.column (plainCol p.1 p.2)) = some (plainCol p.1 p.2)) :
    (cs.map fun p => TblElem.column (plainCol p.1 p.2)).filterMap f = cs.map fun p => plainCol p.1 p.2 := by
  induction cs with
  | nil => rfl
  | cons p r ih => simp [h, ih]

theorem filterMap_cols_none {β} (cs : List (Str × Str)) (f : TblElem → Option β)
    (h : ∀ p : Str × Str, f (TblElem.column (plainCol p.1 p.2)) = none) :
    (cs.map fun p => TblElem.column (plainCol p.1 p.2)).filterMap f = [] := by
  induction cs with
  | nil => rfl
  | cons p r ih => simp [h, ih]

theorem foldl_cols {β} (cs : List (Str × Str)) (f : β → TblElem → β)
    (h : ∀ (a : β) (p : Str × Str), f a (TblElem.column (plainCol p.1 p.2)) = a) (a : β) :
    (cs.map fun p => TblElem.column (plainCol p.1 p.2)).foldl f a = a := by
  induction cs generalizing a with
  | nil => rfl
  | cons p r ih => simp [h, ih]

theorem skipWs_prev_head (c : Cur) (x : Char) (r : Str) (h : c.rest = x :: r) (hx : isWs x = false) :
    (skipWs c).prev = c.prev := by
  unfold skipWs; simp [h, skipWsList_head _ x r hx]

theorem ckw_ok (s : String) (c : Cur) (pre r : Str) (hn : (skipWs c).rest = pre ++ r) (hl : pre.length = s.toList.length)
    (hm : startsWithCaseless (pre ++ r) s.toList = true) (hp : c.pastEnd = false)
    (hprev : (skipWs c).prev = none) (hnext : ∀ x, r.head? = some x → isKwIdent x = false) :
    ∃ c', ckw s c = .ok () c' ∧ c'.rest = r ∧ c'.pastEnd = false := by
  have hlen : s.length = pre.length := by rw [hl]; exact Eq.symm String.length_toList
  have hrest : (advance (skipWs c) s.length).rest = r := by
    rw [C13.advance_rest, hn, hlen]; simp
  refine ⟨advance (skipWs c) s.length, ?_, hrest, ?_⟩
  · unfold ckw
    simp only [skipWs_pastEnd, hp, Bool.not_false, hn, hm, Bool.and_self, ↓reduceIte, hprev, hrest, Bool.true_and]
    cases r with
    | nil => simp
    | cons x xs => simp [hnext x rfl]
  · rw [C13.advance_pastEnd]; exact hp

theorem wordStart_cursor (c c' : Cur) (h : wordStart c = .ok () c') : c' = skipWs c := by
  unfold wordStart at h
  simp only at h
  split at h
  · cases h
  · split at h
    · cases h
    · split at h
      · cases h; rfl
      · split at h
        · cases h
        · cases h; rfl

/-- no alias where the next significant character is not an `a` -/
theorem aliasRule_fail (c : Cur) (x : Char) (r : Str) (hn : Next c x r)
    (hx : (pyUpper1 'a' == pyUpper1 x) = false) : aliasRule c = .fail := by
  unfold aliasRule
  simp only [bind, pbind]
  cases hw : wordStart c with
  | ok u c' =>
    have := wordStart_cursor c c' hw
    subst this
    have hn' : Next (skipWs c) x r := by unfold Next; rw [skipWs_idem]; exact hn
    simp only [clit_fail "as" (skipWs c) x r hn' (swc_ne x r "as" 'a' _ rfl hx)]
  | fail => rfl
  | fatal => exfalso; unfold wordStart at hw; simp only at hw; (repeat' split at hw) <;> cases hw
  | exn e => exfalso; unfold wordStart at hw; simp only at hw; (repeat' split at hw) <;> cases hw

theorem tableElement_skip (props : Bool) (c c1 : Cur) (h1 : skipNl c = .ok () c1) (h2 : skipNl c1 = .ok () c1) :
    tableElement props c = tableElement props c1 := by
  unfold tableElement
  simp only [bind, pbind, h1, h2]

theorem tableRule_ok (props : Bool) (c : Cur) (tn : Str) (cs : List (Str × Str))
    (hc : c.rest = tableText tn cs) (hp : c.pastEnd = false) (hprev : c.prev = none)
    (htn : NameOK tn) (hcs : ColsOK cs) (hne : cs ≠ []) :
    ∃ c', tableRule props c = .ok (plainTable tn cs) c' ∧ c'.rest = [] ∧ c'.pastEnd = true := by
  -- keyword
  have hN : Next c 'T' _ := skipWs_rest_head c 'T' _ (by rw [hc]; rfl) (by decide)
  obtain ⟨q1, q2⟩ := quiet_of_next c 'T' _ hN (by decide) (by decide)
  have hb : cBefore c = .ok [] c := cBefore_stay c q1 q2
  have hpv : (skipWs c).prev = none := by
    rw [skipWs_prev_head c 'T' _ (by rw [hc]; rfl) (by decide)]; exact hprev
  obtain ⟨c1, hk, hr1, hp1⟩ := ckw_ok "table" c ['T', 'a', 'b', 'l', 'e']
    (' ' :: '"' :: (tn ++ '"' :: ' ' :: '{' :: '\n' :: (colsText cs ++ ['}']))) hN (by decide)
    (by simp [startsWithCaseless]; decide) hp hpv (by intro x hx; simp at hx; subst hx; decide)
  -- name
  have hN1 : (skipWs c1).rest = '"' :: (tn ++ '"' :: ' ' :: '{' :: '\n' :: (colsText cs ++ ['}'])) :=
    skipWs_rest_spaces c1 1 '"' _ (by rw [hr1]; rfl) (by decide)
  obtain ⟨c2, hnm, hr2, hp2⟩ := name_quoted_ok c1 tn _ hN1 htn hp1
  have hN2 : Next c2 '{' ('\n' :: (colsText cs ++ ['}'])) := skipWs_rest_spaces c2 1 '{' _ (by rw [hr2]; rfl) (by decide)
  have hdot : sym "." c2 = .fail := sym_fail "." c2 _ _ hN2 (by simp [startsWith])
  have htname : tableName c1 = .ok (none, tn) c2 := by
    unfold tableName alt
    simp only [bind, pbind, hnm, hdot, pure, ppure]
  have hal : opt aliasRule c2 = .ok none c2 := by
    unfold opt; rw [aliasRule_fail c2 '{' _ hN2 (by decide)]
  have hst : opt tableSettings c2 = .ok none c2 := by
    unfold opt tableSettings
    simp only [bind, pbind, sym_fail "[" c2 _ _ hN2 (by simp [startsWith])]
  obtain ⟨q3, q4⟩ := quiet_of_next c2 '{' _ hN2 (by decide) (by decide)
  have hs2 : skipNl c2 = .ok () c2 := skipNl_stay c2 q3 q4
  obtain ⟨c3, hbr, hr3, hp3⟩ := sym_ok "{" '{' rfl c2 _ hN2 hp2
  -- body: the first element skips the line break after the brace
  have hN3 : Next c3 '\n' (colsText cs ++ ['}']) := skipWs_rest_head c3 '\n' _ hr3 (by decide)
  obtain ⟨c4, hs3, hr4, hp4⟩ := skipNl_one c3 (colsText cs ++ ['}']) hN3 hp3 (by
    intro d hd _
    obtain ⟨k, x, r, he, hw, h1, h2, _⟩ := body_next cs []
    have : Next d x r := skipWs_rest_spaces d k x r (by rw [hd, he]) hw
    exact quiet_of_next d x r this h1 h2)
  have hs4 : skipNl c4 = .ok () c4 := skipNl_stay_body c4 cs [] hr4
  obtain ⟨p0, ps, rfl⟩ : ∃ p0 ps, cs = p0 :: ps := by
    cases cs with
    | nil => exact absurd rfl hne
    | cons a as => exact ⟨a, as, rfl⟩
  obtain ⟨cn, ty⟩ := p0
  obtain ⟨hcn, hty⟩ := hcs (cn, ty) (by simp)
  obtain ⟨c5, hel, hr5, hp5⟩ := tableElement_col props c4 cn ty ps [] (by rw [hr4]; simp [colsText]) hp4 hcn hty
  have hel3 : tableElement props c3 = .ok (TblElem.column (plainCol cn ty)) c5 := by
    rw [tableElement_skip props c3 c4 hs3 hs4]; exact hel
  have hfuel : ps.length < c3.rest.length + 1 := by
    rw [hr3]
    have := colsText_length ps
    simp [colsText, colLine]; omega
  obtain ⟨c6, hm, hr6, hp6⟩ := many_body props ps [] (fun q hq => hcs q (by simp [hq])) (c3.rest.length + 1) c5 hfuel hr5 hp5
  have hmany : manyF (tableElement props) c3
      = .ok (((cn, ty) :: ps).map fun p => TblElem.column (plainCol p.1 p.2)) c6 := by
    unfold manyF fuelOf
    have hlen : c5.rest.length ≠ c3.rest.length := by
      rw [hr5, hr3]; simp [colsText, colLine]; omega
    rw [many]
    simp only [hel3, hlen, decide_false, Bool.false_and, Bool.false_eq_true, ↓reduceIte, hm, List.map_cons]
  -- closing brace and the end
  have hN6 : Next c6 '}' [] := skipWs_rest_head c6 '}' _ hr6 (by decide)
  obtain ⟨q5, q6⟩ := quiet_of_next c6 '}' _ hN6 (by decide) (by decide)
  have hs6 : skipNl c6 = .ok () c6 := skipNl_stay c6 q5 q6
  obtain ⟨c7, hcl, hr7, hp7⟩ := sym_ok "}" '}' rfl c6 _ hN6 hp6
  have hN7 : (skipWs c7).rest = [] := skipWs_rest_nil c7 hr7
  obtain ⟨c8, hle, hr8, hp8⟩ := lineEnd_eof c7 hN7 hp7
  have hend : endRule c7 = .ok () c8 := by
    unfold endRule alt
    simp only [bind, pbind, manyF_fail comment c7 (comment_fail_nil c7 hN7), hle]
  refine ⟨c8, ?_, hr8, hp8⟩
  unfold tableRule
  simp only [bind, pbind, hb, hk, htname, hal, hst, hs2, hbr, cut, hmany, hs6, hcl, hend]
  rw [filterMap_cols_some ((cn, ty) :: ps) _ (fun _ => rfl)]
  rw [filterMap_cols_none ((cn, ty) :: ps) _ (fun _ => rfl)]
  rw [filterMap_cols_none ((cn, ty) :: ps) _ (fun _ => rfl)]
  rw [foldl_cols ((cn, ty) :: ps) _ (fun _ _ => rfl)]
  simp [plainTable, joinBefore, pure, ppure]

/-! ### the document and the build -/

theorem typeOK_no_tab (ty : Str) (h : TypeOK ty) : ∀ c ∈ ty, c ≠ '\t' := by
  intro c hc
  exact nameChar_not_tab c (by have := h.2; simp only [List.all_eq_true] at this; exact this c hc)

theorem colsText_no_tab (cs : List (Str × Str)) (hcs : ColsOK cs) : ∀ c ∈ colsText cs, c ≠ '\t' := by
  induction cs with
  | nil => intro c hc; simp [colsText] at hc
  | cons p r ih =>
    obtain ⟨cn, ty⟩ := p
    obtain ⟨hcn, hty⟩ := hcs (cn, ty) (by simp)
    intro c hc
    have e : colsText ((cn, ty) :: r) = [' ', ' ', ' ', ' ', '"'] ++ cn ++ ['"', ' '] ++ ty ++ ['\n'] ++ colsText r := by
      simp [colsText, colLine]
    rw [e] at hc
    simp only [List.mem_append] at hc
    rcases hc with ((((h | h) | h) | h) | h) | h
    · exact (by decide : ∀ c ∈ [' ', ' ', ' ', ' ', '"'], c ≠ '\t') c h
    · exact (hcn c h).2.2.2
    · exact (by decide : ∀ c ∈ ['"', ' '], c ≠ '\t') c h
    · exact typeOK_no_tab ty hty c h
    · exact (by decide : ∀ c ∈ ['\n'], c ≠ '\t') c h
    · exact ih (fun q hq => hcs q (by simp [hq])) c h

theorem tableText_no_tab (tn : Str) (cs : List (Str × Str)) (htn : NameOK tn) (hcs : ColsOK cs) :
    ∀ c ∈ tableText tn cs, c ≠ '\t' := by
  intro c hc
  have e : tableText tn cs = ['T', 'a', 'b', 'l', 'e', ' ', '"'] ++ tn ++ ['"', ' ', '{', '\n'] ++ colsText cs ++ ['}'] := by
    simp [tableText]
  rw [e] at hc
  simp only [List.mem_append] at hc
  rcases hc with (((h | h) | h) | h) | h
  · exact (by decide : ∀ c ∈ ['T', 'a', 'b', 'l', 'e', ' ', '"'], c ≠ '\t') c h
  · exact (htn c h).2.2.2
  · exact (by decide : ∀ c ∈ ['"', ' ', '{', '\n'], c ≠ '\t') c h
  · exact colsText_no_tab cs hcs c h
  · exact (by decide : ∀ c ∈ ['}'], c ≠ '\t') c h

theorem parseDoc_table (ap : Bool) (tn : Str) (cs : List (Str × Str)) (htn : NameOK tn) (hcs : ColsOK cs)
    (hne : cs ≠ []) :
    ∃ c', parseDoc ap (tableText tn cs) = .ok [Bp.Elem.table (plainTable tn cs)] c' := by
  unfold parseDoc expandTabs
  rw [expandTabsAux_plain 0 _ (tableText_no_tab tn cs htn hcs)]
  let c0 : Cur := { rest := tableText tn cs }
  obtain ⟨c8, hst, hr8, hp8⟩ := tableRule_ok ap c0 tn cs rfl rfl rfl htn hcs hne
  have hel : element ap c0 = .ok (Bp.Elem.table (plainTable tn cs)) c8 := by
    unfold element alt
    simp only [bind, pbind, hst, pure, ppure]
  have hmany : manyF (element ap) c0 = .ok [Bp.Elem.table (plainTable tn cs)] c8 := by
    unfold manyF fuelOf
    have hlen : c8.rest.length ≠ c0.rest.length := by
      rw [hr8]; simp [c0, tableText]
    rw [many]
    simp only [hel, hlen, decide_false, Bool.false_and, Bool.false_eq_true, ↓reduceIte]
    rw [many]
    simp [element_fail_pastEnd ap c8 hp8]
  obtain ⟨c9, hse⟩ := stringEnd_eof c8 (skipWs_rest_nil c8 hr8)
  refine ⟨c9, ?_⟩
  show document ap c0 = _
  unfold document
  simp only [bind, pbind, hmany, skipNl_pastEnd c8 hp8, hse, pure, ppure]

/-- the content-model column / table of the declarations -/
def plainColumn (p : Str × Str) : Column := { name := p.1, type := .plain p.2 }
def plainTableM (tn : Str) (cs : List (Str × Str)) : Table := { name := tn, columns := cs.map plainColumn }

theorem mapM_ok_map {α β ε} (f : α → Except ε β) (g : α → β) (h : ∀ a, f a = .ok (g a)) :
    ∀ l : List α, l.mapM f = .ok (l.map g) := by
  intro l
  induction l with
  | nil => rfl
  | cons x xs ih => rw [List.mapM_cons, h x, ih]; rfl

theorem buildColumn_plain (p : Str × Str) : buildColumn [] (plainCol p.1 p.2) = .ok (plainColumn p) := by
  simp [buildColumn, buildDefault, resolveType, resolveTypePure, buildNote, plainCol, plainColumn,
    bind, Except.bind, pure, Except.pure]

theorem build_table (ap : Bool) (tn : Str) (cs : List (Str × Str)) :
    buildDatabase ap [Bp.Elem.table (plainTable tn cs)] = .ok { tables := [plainTableM tn cs], allowProps := ap } := by
  have hcols : (cs.map fun p => plainCol p.1 p.2).mapM (buildColumn []) = .ok (cs.map plainColumn) := by
    rw [List.mapM_map]
    exact mapM_ok_map _ _ buildColumn_plain cs
  have ht : buildTable [] (plainTable tn cs) = .ok (plainTableM tn cs) := by
    simp [buildTable, plainTable, buildNote, hcols, plainTableM, bind, Except.bind, pure, Except.pure]
  have hrefs : refBlueprints [Bp.Elem.table (plainTable tn cs)] = [] := by
    simp [refBlueprints, plainTable]
    intro x a b _ hx
    subst hx
    rfl
  simp [buildDatabase, enumBps, tableBps, groupBps, stickyBps, projectBp, hrefs, buildProject, tableStep,
    ht, addTable, hasKey, plainTableM, bind, Except.bind, pure, Except.pure]

/-! ### the rendering of such a table -/

theorem lineBreak_cases (c : Char) (h : isLineBreak c = true) :
    c.toNat ∈ [10, 11, 12, 13, 0x1c, 0x1d, 0x1e, 0x85, 0x2028, 0x2029] := by
  simp only [isLineBreak, Bool.or_eq_true, beq_iff_eq] at h
  simp only [List.mem_cons, List.mem_nil_iff, or_false]
  omega

theorem nameChar_not_lineBreak (c : Char) (h : isNameChar c = true) : isLineBreak c = false := by
  cases hb : isLineBreak c with
  | false => rfl
  | true =>
    exfalso
    have hm := lineBreak_cases c hb
    have e : c = Char.ofNat c.toNat := (Char.ofNat_toNat c).symm
    simp only [List.mem_cons, List.mem_nil_iff, or_false] at hm
    rcases hm with h' | h' | h' | h' | h' | h' | h' | h' | h' | h' <;>
      (rw [h'] at e; subst e; revert h; decide)

def colStr (p : Str × Str) : Str := '"' :: (p.1 ++ '"' :: ' ' :: p.2)

def LineOK (l : Str) : Prop := ∀ c ∈ l, isLineBreak c = false

theorem colStr_ok (p : Str × Str) (hn : NameOK p.1) (ht : TypeOK p.2) : LineOK (colStr p) := by
  intro c hc
  have e : colStr p = ['"'] ++ p.1 ++ ['"', ' '] ++ p.2 := by simp [colStr]
  rw [e] at hc
  simp only [List.mem_append] at hc
  rcases hc with ((h | h) | h) | h
  · exact (by decide : ∀ c ∈ ['"'], isLineBreak c = false) c h
  · exact (hn c h).2.2.1
  · exact (by decide : ∀ c ∈ ['"', ' '], isLineBreak c = false) c h
  · have hc' : isNameChar c = true := by have := ht.2; simp only [List.all_eq_true] at this; exact this c h
    exact nameChar_not_lineBreak c hc'

/-- `splitlines(keepends=True)` on a plain line followed by LF -/
theorem splitLinesKeepAux_line (cur l rest : Str) (hl : LineOK l) :
    splitLinesKeepAux cur (l ++ '\n' :: rest) = (cur.reverse ++ l ++ ['\n']) :: splitLinesKeepAux [] rest := by
  induction l generalizing cur with
  | nil =>
    simp only [List.nil_append, List.append_nil]
    rw [splitLinesKeepAux.eq_def]
    split
    · rename_i heq; cases heq
    · rename_i heq; cases heq
    · rename_i heq
      cases heq
      simp [isLineBreak]
  | cons x r ih =>
    have hx : isLineBreak x = false := hl x (by simp)
    have hxr : x ≠ '\r' := by intro e; subst e; simp [isLineBreak] at hx
    simp only [List.cons_append]
    rw [splitLinesKeepAux.eq_def]
    split
    · rename_i heq; cases heq
    · rename_i heq; simp at heq; exact absurd heq.1 hxr
    · rename_i cur' _ _ c' r' _ heq
      cases heq
      simp only [hx, Bool.false_eq_true, ↓reduceIte]
      rw [ih (x :: cur') (fun c hc => hl c (by simp [hc]))]
      simp

/-- `textwrap.indent` of lines that start with a non-blank character: every line gets the prefix -/
theorem indent4_lines (ls : List Str) (hne : ls ≠ []) (hok : ∀ l ∈ ls, LineOK l)
    (hst : ∀ l ∈ ls, ∃ x r, l = x :: r ∧ isSpaceChar x = false) :
    Dbml.indent4 (joinNL ls) ++ ['\n'] = ls.flatMap fun l => [' ', ' ', ' ', ' '] ++ l ++ ['\n'] := by
  induction ls with
  | nil => exact absurd rfl hne
  | cons l rest ih =>
    obtain ⟨x, r, hl, hx⟩ := hst l (by simp)
    cases rest with
    | nil =>
      simp only [joinNL, List.flatMap_cons, List.flatMap_nil, List.append_nil]
      rw [indent4_line l (hok l (by simp)) x r hl hx]
    | cons l2 rest2 =>
      have ih' := ih (by simp) (fun m hm => hok m (by simp [hm])) (fun m hm => hst m (by simp [hm]))
      simp only [joinNL, List.flatMap_cons] at ih' ⊢
      rw [← ih']
      unfold Dbml.indent4 textwrapIndent splitLinesKeep
      rw [splitLinesKeepAux_line [] l _ (hok l (by simp))]
      simp [hl, hx]

theorem range_mapM_getD {α β} (l : List α) (why : String) (g : α → R β) :
    (List.range l.length).mapM (fun i => do let x ← getD? l i why; g x) = l.mapM g := by
  induction l with
  | nil => rfl
  | cons x xs ih =>
    have hs : (fun i => getD? (x :: xs) i why >>= fun y => g y) ∘ Nat.succ
        = fun i => getD? xs i why >>= fun y => g y := by
      funext i; simp [getD?, Function.comp]
    rw [List.length_cons, List.range_succ_eq_map, List.mapM_cons, List.mapM_cons, List.mapM_map, hs, ih]
    rfl

theorem renderColumn_plain (ap : Bool) (ts : List Table) (ti ci : Nat) (p : Str × Str) :
    Dbml.renderColumn { tables := ts, allowProps := ap } ti ci (plainColumn p) = .ok (colStr p) := by
  simp [Dbml.renderColumn, Sql.typeText, Dbml.inlineRefsOfColumn, plainColumn, colStr, Dbml.optComment,
    bind, Except.bind, pure, Except.pure, lit]

theorem colsText_flatMap (cs : List (Str × Str)) :
    colsText cs = (cs.map colStr).flatMap fun l => [' ', ' ', ' ', ' '] ++ l ++ ['\n'] := by
  induction cs with
  | nil => rfl
  | cons p r ih =>
    obtain ⟨cn, ty⟩ := p
    simp [colsText, colLine, colStr, ih]

theorem renderDb_table (ap : Bool) (tn : Str) (cs : List (Str × Str)) (hcs : ColsOK cs) (hne : cs ≠ []) :
    Dbml.renderDb { tables := [plainTableM tn cs], allowProps := ap } = .ok (tableText tn cs) := by
  have hcols : (List.range (plainTableM tn cs).columns.length).mapM (fun ci => do
      let c ← getD? (plainTableM tn cs).columns ci "column position"
      Dbml.renderColumn { tables := [plainTableM tn cs], allowProps := ap } 0 ci c) = .ok (cs.map colStr) := by
    have : ∀ ci, (do
        let c ← getD? (plainTableM tn cs).columns ci "column position"
        Dbml.renderColumn { tables := [plainTableM tn cs], allowProps := ap } 0 ci c)
        = (do let c ← getD? (plainTableM tn cs).columns ci "column position"; (fun c => Except.ok (colStr (c.name, match c.type with | .plain s => s | _ => []))) c) := by
      intro ci
      cases hg : getD? (plainTableM tn cs).columns ci "column position" with
      | error e => rfl
      | ok c =>
        simp only [bind, Except.bind]
        have hm : c ∈ (plainTableM tn cs).columns := by
          unfold getD? at hg
          split at hg
          · rename_i a hx; cases hg; exact List.mem_of_getElem? hx
          · cases hg
        simp only [plainTableM, List.mem_map] at hm
        obtain ⟨p, _, rfl⟩ := hm
        rw [renderColumn_plain]
        rfl
    simp only [this]
    rw [range_mapM_getD]
    simp only [plainTableM, List.mapM_map]
    exact mapM_ok_map _ _ (fun p => rfl) cs
  have hbody : Dbml.indent4 (joinNL (cs.map colStr)) ++ ['\n'] = colsText cs := by
    rw [colsText_flatMap]
    apply indent4_lines
    · simpa using hne
    · intro l hl
      obtain ⟨p, hp, rfl⟩ := List.mem_map.mp hl
      exact colStr_ok p (hcs p hp).1 (hcs p hp).2
    · intro l hl
      obtain ⟨p, hp, rfl⟩ := List.mem_map.mp hl
      exact ⟨'"', _, rfl, by decide⟩
  have ht : Dbml.renderTable { tables := [plainTableM tn cs], allowProps := ap } 0 = .ok (tableText tn cs) := by
    unfold Dbml.renderTable
    have hg : getD? [plainTableM tn cs] 0 "table position" = .ok (plainTableM tn cs) := rfl
    rw [hg]
    show Dbml.renderTableBody _ 0 (plainTableM tn cs) = _
    unfold Dbml.renderTableBody
    rw [hcols]
    simp [plainTableM, truthy, Dbml.optComment, qualName, bind, Except.bind, pure, Except.pure, tableText, lit] at hbody ⊢
    rw [← hbody]
    simp
  unfold Dbml.renderDb Dbml.renderProjectList
  simp [bind, Except.bind, pure, Except.pure, joinWith, ht, List.range_succ]

/-- **C02 for a table with plain columns, end to end** (renderer model ∘ character-level parser model ∘ build
    model = identity): a database holding one table in schema public with any positive number of columns,
    each with a quoted name and a one-word type and no settings, is rendered to DBML and parsed back to
    exactly the same database. -/
theorem table_roundtrip_partial (ap : Bool) (tn : Str) (cs : List (Str × Str))
    (htn : NameOK tn) (hcs : ColsOK cs) (hne : cs ≠ []) :
    ∃ text, Dbml.renderDb { tables := [plainTableM tn cs], allowProps := ap } = .ok text
      ∧ Build.parse ap text = .ok { tables := [plainTableM tn cs], allowProps := ap } := by
  refine ⟨tableText tn cs, renderDb_table ap tn cs hcs hne, ?_⟩
  obtain ⟨c', hp⟩ := parseDoc_table ap tn cs htn hcs hne
  unfold Build.parse
  have hbom : removeBom (tableText tn cs) = tableText tn cs := by simp [removeBom, tableText]
  rw [hbom, hp]
  simp [build_table]

/-- non-vacuity -/
example : NameOK (lit "order items") ∧ ColsOK [(lit "id", lit "int"), (lit "unit price", lit "decimal")] := by
  refine ⟨?_, ?_⟩
  · intro c hc; revert c; decide
  · intro p hp
    simp at hp
    rcases hp with rfl | rfl <;> refine ⟨fun c hc => ?_, by decide, by decide⟩ <;> (revert c; decide)

/-! ### spellings of an identifier -/

/-- `nm` is a spelling of the identifier `tn`: followed by a blank, the name rule reads `tn` from it -/
def Spells (nm tn : Str) : Prop :=
  (∀ c ∈ nm, c ≠ '\t') ∧ (∃ x xr, nm = x :: xr ∧ isWs x = false ∧ x ≠ '\n' ∧ x ≠ '/') ∧
    ∀ (c1 : Cur) (r : Str), (skipWs c1).rest = nm ++ ' ' :: r → c1.pastEnd = false →
      ∃ c2, name c1 = .ok tn c2 ∧ c2.rest = ' ' :: r ∧ c2.pastEnd = false

/-- the identifier in double quotes (the renderer's spelling) -/
theorem spells_quoted (tn : Str) (h : NameOK tn) : Spells ('"' :: (tn ++ ['"'])) tn := by
  refine ⟨?_, ⟨'"', tn ++ ['"'], rfl, by decide, by decide, by decide⟩, ?_⟩
  · intro c hc
    simp only [List.mem_cons, List.mem_append, List.mem_nil_iff, or_false] at hc
    rcases hc with rfl | hc | rfl
    · decide
    · exact (h c hc).2.2.2
    · decide
  · intro c1 r hr hp
    exact name_quoted_ok c1 tn (' ' :: r) (by rw [hr]; simp) h hp

/-- the identifier written bare: possible when it consists of name characters only -/
theorem spells_bare (tn : Str) (hne : tn ≠ []) (hall : tn.all isNameChar = true) : Spells tn tn := by
  obtain ⟨x, xr, rfl⟩ : ∃ x xr, tn = x :: xr := by
    cases tn with
    | nil => exact absurd rfl hne
    | cons a as => exact ⟨a, as, rfl⟩
  have hx : isNameChar x = true := by simp only [List.all_cons, Bool.and_eq_true] at hall; exact hall.1
  refine ⟨?_, ⟨x, xr, rfl, (nameChar_facts x hx).1, (nameChar_facts x hx).2.1, (nameChar_facts x hx).2.2⟩, ?_⟩
  · intro c hc
    exact nameChar_not_tab c (by simp only [List.all_eq_true] at hall; exact hall c hc)
  · intro c1 r hr hp
    exact name_ok c1 (x :: xr) (' ' :: r) hr (by simp) hall (by intro y hy; simp at hy; subst hy; decide) hp

end C02
end PyDBML
