/-
C01 — whole documents under any spacing: the document of `document_roundtrip` (C02Document.lean), written with any
positive number of empty lines between its elements instead of the renderer's single one, and any number of line breaks at
its end, is parsed to the same database
(`document_faithful_gaps`): every declared element once, in source order, with the declared content, the references linked.
-/
import PyDBMLProofs.Props.C02Document
import PyDBMLProofs.Props.C01Layout
import PyDBMLProofs.Props.C01LayoutEnd
namespace PyDBML
namespace C02
open Lex Grammar Build

variable {σ : Type}

theorem EForm.text_removeBom {ap : Bool} (e : EForm ap) (rest : Str) : removeBom (e.text ++ rest) = e.text ++ rest := by
  have hne : e.text ≠ [] := by have := e.text_length; intro h0; rw [h0] at this; simp at this
  cases ht : e.text with
  | nil => exact absurd ht hne
  | cons x xs =>
    have hx : x.toNat ≠ 0xFEFF := by
      cases hpre : e.pre with
      | some s0 => simp [EForm.text, hpre, commentText] at ht; rw [← ht.1]; decide
      | none =>
        simp [EForm.text, hpre, commentText] at ht
        have := e.headAscii
        rw [ht.1] at this
        omega
    simp [removeBom, hx]

/-- **C01 for whole documents, whatever the spacing between elements**: the elements of a covered document (enums,
    tables with their columns and settings, inline and standalone references, table groups, sticky notes), written in
    source order with `gaps[i]` further empty lines before element `i + 1` (none where the list ends) and `m` line breaks
    after the last one (`m = 1`: the usual end of a file), are parsed to exactly the database the document declares - the
    same as from the renderer's own layout. -/
theorem document_faithful_gaps (F : ColForm σ) (ap : Bool) (d : DocSpec σ) (h : DocOK F ap d) (gaps : List Nat) (m : Nat)
    (e : EForm ap) (r : List (EForm ap)) (hf : d.forms F ap h = e :: r) :
    Build.parse ap (docTextGT m e ((gaps ++ List.replicate r.length 0).zip r)) = .ok (d.db F ap) := by
  obtain ⟨c', hp⟩ := parseDoc_elems_gaps_end m e ((gaps ++ List.replicate r.length 0).zip r)
  have hsnd : ((gaps ++ List.replicate r.length 0).zip r).map (fun (x : Nat × EForm ap) => x.2.elem) = r.map (·.elem) := by
    have : ((gaps ++ List.replicate r.length 0).zip r).map Prod.snd = r :=
      List.map_snd_zip (by simp)
    have h2 : ((gaps ++ List.replicate r.length 0).zip r).map (fun (x : Nat × EForm ap) => x.2.elem)
        = (((gaps ++ List.replicate r.length 0).zip r).map Prod.snd).map (fun (x : EForm ap) => x.elem) := by rw [List.map_map]; rfl
    rw [h2, this]
  rw [hsnd] at hp
  have helems : e.elem :: r.map (·.elem) = d.elems F := by
    have := d.forms_elems F ap h
    rw [hf] at this
    simpa using this
  rw [helems] at hp
  unfold Build.parse
  have hbom : removeBom (docTextGT m e ((gaps ++ List.replicate r.length 0).zip r)) = docTextGT m e ((gaps ++ List.replicate r.length 0).zip r) :=
    EForm.text_removeBom e _
  rw [hbom, hp]
  simp only []
  rw [d.build F ap h]

end C02
end PyDBML
