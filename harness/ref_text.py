"""Reference (implementation-independent) note normalisation: a direct transcription of `PyDBML.norm` in
lean/PyDBMLModel/Text.lean.  The harness uses it to decide what a document DECLARES (expected note texts, the
"normal text" domain predicate), so that a changed normalisation in the code under test cannot shift the
expectation along with itself.  C13 compares it with the Lean model on every text it generates (a
disagreement is harness trouble, exit 2)."""


def _blank(l):
    return all(c in ' \t' for c in l)


def ref_strip_empty_lines(s):
    if s == '':
        return ''
    ls = s.split('\n')
    i = 0
    while i < len(ls) and _blank(ls[i]):
        i += 1
    if i == len(ls):
        ln = ls[-1]
        if len(ls) >= 2:
            lp = ls[-2]
            return ln if ln != '' else (lp if lp != '' else '\n')
        return ln
    rest = ls[i:]
    while rest and _blank(rest[-1]):
        rest.pop()
    return '\n'.join(rest)


def ref_remove_indentation(s):
    if s == '':
        return s
    lines = s.split('\n')
    sp = [len(l) - len(l.lstrip()) for l in lines if l != '' and not l.isspace()]
    if not sp:
        return s
    k = min(sp)
    return '\n'.join(l[k:] for l in lines)


def ref_norm(s):
    return ref_remove_indentation(ref_strip_empty_lines(s))
