/-
C02/C01 — column settings in the round trip: `pk`, `increment`, `unique`, `not null` in the renderer's order.
`flags_table_roundtrip_partial`: one table, any positive number of columns, each with any subset of the four flags.
-/
import PyDBMLProofs.Props.C02Form
namespace PyDBML
namespace C02
open Lex Grammar Build

inductive Flag where | pk | increment | unique | notNull | note (t : Str)
  deriving DecidableEq

def Flag.text : Flag → Str
  | .pk => ['p', 'k']
  | .increment => ['i', 'n', 'c', 'r', 'e', 'm', 'e', 'n', 't']
  | .unique => ['u', 'n', 'i', 'q', 'u', 'e']
  | .notNull => ['n', 'o', 't', ' ', 'n', 'u', 'l', 'l']
  | .note t => 'n' :: 'o' :: 't' :: 'e' :: ':' :: ' ' :: '\'' :: (prepareTextForDbml t ++ ['\''])

/-- what a settings item must satisfy: a note is one plain line without a triple quote -/
def Flag.ok : Flag → Prop
  | .note t => Plain t ∧ hasTriple t = false
  | _ => True

def Flag.setting : Flag → ColSetting
  | .pk => .pk
  | .increment => .increment
  | .unique => .unique
  | .notNull => .notNull true
  | .note t => .note t

theorem swc_ne2 (x y : Char) (r : Str) (s : String) (k1 k2 : Char) (ks : Str) (hs : s.toList = k1 :: k2 :: ks)
    (h : (pyUpper1 k2 == pyUpper1 y) = false) : startsWithCaseless (x :: y :: r) s.toList = false := by
  rw [hs]; simp [startsWithCaseless, h]

theorem swc_ne4 (a b c d : Char) (r : Str) (s : String) (k1 k2 k3 k4 : Char) (ks : Str)
    (hs : s.toList = k1 :: k2 :: k3 :: k4 :: ks) (h : (pyUpper1 k4 == pyUpper1 d) = false) :
    startsWithCaseless (a :: b :: c :: d :: r) s.toList = false := by
  rw [hs]; simp [startsWithCaseless, h]

/-- one setting word, followed by a comma or the closing bracket -/
theorem columnSetting_flag (c : Cur) (w : Flag) (x : Char) (rest : Str) (hn : (skipWs c).rest = w.text ++ x :: rest)
    (hx : x = ',' ∨ x = ']') (hp : c.pastEnd = false) (hw : w.ok) :
    ∃ c', columnSetting c = .ok w.setting c' ∧ c'.rest = x :: rest ∧ c'.pastEnd = false := by
  have hxw : isWs x = false := by rcases hx with rfl | rfl <;> decide
  have hxn : x ≠ '\n' := by rcases hx with rfl | rfl <;> decide
  have hxs : x ≠ '/' := by rcases hx with rfl | rfl <;> decide
  have after : ∀ d : Cur, d.rest = x :: rest → skipNl d = .ok () d := by
    intro d hd
    have : Next d x rest := skipWs_rest_head d x rest hd hxw
    obtain ⟨q1, q2⟩ := quiet_of_next d x rest this hxn hxs
    exact skipNl_stay d q1 q2
  cases w with
  | pk =>
    have hN : Next c 'p' ('k' :: x :: rest) := hn
    obtain ⟨q1, q2⟩ := quiet_of_next c 'p' _ hN (by decide) (by decide)
    have hs0 := skipNl_stay c q1 q2
    obtain ⟨c1, hk, hr1, hp1⟩ := clit_ok "pk" c ['p', 'k'] (x :: rest) hn (by decide) (by simp [startsWithCaseless] <;> decide) hp
    refine ⟨c1, ?_, hr1, hp1⟩
    unfold columnSetting
    simp only [bind, pbind, hs0, alt,
      clit_fail "not null" c _ _ hN (swc_ne 'p' _ "not null" 'n' _ rfl (by decide)),
      clit_fail "null" c _ _ hN (swc_ne 'p' _ "null" 'n' _ rfl (by decide)),
      clit_fail "primary key" c _ _ hN (swc_ne2 'p' 'k' _ "primary key" 'p' 'r' _ rfl (by decide)),
      hk, after c1 hr1, pure, ppure, Flag.setting]
  | increment =>
    have hN : Next c 'i' ('n' :: 'c' :: 'r' :: 'e' :: 'm' :: 'e' :: 'n' :: 't' :: x :: rest) := hn
    obtain ⟨q1, q2⟩ := quiet_of_next c 'i' _ hN (by decide) (by decide)
    have hs0 := skipNl_stay c q1 q2
    obtain ⟨c1, hk, hr1, hp1⟩ := clit_ok "increment" c ['i', 'n', 'c', 'r', 'e', 'm', 'e', 'n', 't'] (x :: rest) hn (by decide)
      (by simp [startsWithCaseless] <;> decide) hp
    refine ⟨c1, ?_, hr1, hp1⟩
    unfold columnSetting
    simp only [bind, pbind, hs0, alt,
      clit_fail "not null" c _ _ hN (swc_ne 'i' _ "not null" 'n' _ rfl (by decide)),
      clit_fail "null" c _ _ hN (swc_ne 'i' _ "null" 'n' _ rfl (by decide)),
      clit_fail "primary key" c _ _ hN (swc_ne 'i' _ "primary key" 'p' _ rfl (by decide)),
      clit_fail "pk" c _ _ hN (swc_ne 'i' _ "pk" 'p' _ rfl (by decide)),
      clit_fail "unique" c _ _ hN (swc_ne 'i' _ "unique" 'u' _ rfl (by decide)),
      hk, after c1 hr1, pure, ppure, Flag.setting]
  | unique =>
    have hN : Next c 'u' ('n' :: 'i' :: 'q' :: 'u' :: 'e' :: x :: rest) := hn
    obtain ⟨q1, q2⟩ := quiet_of_next c 'u' _ hN (by decide) (by decide)
    have hs0 := skipNl_stay c q1 q2
    obtain ⟨c1, hk, hr1, hp1⟩ := clit_ok "unique" c ['u', 'n', 'i', 'q', 'u', 'e'] (x :: rest) hn (by decide)
      (by simp [startsWithCaseless] <;> decide) hp
    refine ⟨c1, ?_, hr1, hp1⟩
    unfold columnSetting
    simp only [bind, pbind, hs0, alt,
      clit_fail "not null" c _ _ hN (swc_ne 'u' _ "not null" 'n' _ rfl (by decide)),
      clit_fail "null" c _ _ hN (swc_ne 'u' _ "null" 'n' _ rfl (by decide)),
      clit_fail "primary key" c _ _ hN (swc_ne 'u' _ "primary key" 'p' _ rfl (by decide)),
      clit_fail "pk" c _ _ hN (swc_ne 'u' _ "pk" 'p' _ rfl (by decide)),
      hk, after c1 hr1, pure, ppure, Flag.setting]
  | notNull =>
    have hN : Next c 'n' ('o' :: 't' :: ' ' :: 'n' :: 'u' :: 'l' :: 'l' :: x :: rest) := hn
    obtain ⟨q1, q2⟩ := quiet_of_next c 'n' _ hN (by decide) (by decide)
    have hs0 := skipNl_stay c q1 q2
    obtain ⟨c1, hk, hr1, hp1⟩ := clit_ok "not null" c ['n', 'o', 't', ' ', 'n', 'u', 'l', 'l'] (x :: rest) hn (by decide)
      (by simp [startsWithCaseless] <;> decide) hp
    refine ⟨c1, ?_, hr1, hp1⟩
    unfold columnSetting
    simp only [bind, pbind, hs0, alt, hk, after c1 hr1, pure, ppure, Flag.setting]
  | note t =>
    obtain ⟨ht, h3⟩ := hw
    have h1 : C13.oneLine t = true := by
      simp only [C13.oneLine, Bool.not_eq_true', List.any_eq_false, Bool.or_eq_true, decide_eq_true_eq, not_or]
      intro ch hch
      have := (ht ch hch).1
      constructor <;> (rintro rfl; simp [isLineBreak] at this)
    have hn' : (skipWs c).rest = ['n', 'o', 't', 'e', ':'] ++ ' ' :: '\'' :: (prepareTextForDbml t ++ '\'' :: x :: rest) := by
      rw [hn]; simp [Flag.text]
    have hN : Next c 'n' ('o' :: 't' :: 'e' :: ':' :: ' ' :: '\'' :: (prepareTextForDbml t ++ '\'' :: x :: rest)) := hn'
    obtain ⟨q1, q2⟩ := quiet_of_next c 'n' _ hN (by decide) (by decide)
    have hs0 := skipNl_stay c q1 q2
    obtain ⟨c1, hk, hr1, hp1⟩ := clit_ok "note:" c ['n', 'o', 't', 'e', ':'] _ hn' (by decide)
      (by simp [startsWithCaseless] <;> decide) hp
    have hN1 : Next c1 '\'' (prepareTextForDbml t ++ '\'' :: x :: rest) :=
      skipWs_rest_spaces c1 1 '\'' _ (by rw [hr1]; rfl) (by decide)
    obtain ⟨q3, q4⟩ := quiet_of_next c1 '\'' _ hN1 (by decide) (by decide)
    have hs1 := skipNl_stay c1 q3 q4
    obtain ⟨c2, hsl, hr2, hp2⟩ := stringLiteral_ok c1 t (x :: rest) hN1 hp1 h1 h3
      (Or.inr (by rcases hx with rfl | rfl <;> simp))
    have hnote : noteRule c = .ok t c2 := by
      unfold noteRule
      simp only [bind, pbind, hk, cut, hs1, hsl]
    refine ⟨c2, ?_, hr2, hp2⟩
    unfold columnSetting
    simp only [bind, pbind, hs0, alt,
      clit_fail "not null" c _ _ hN (swc_ne4 'n' 'o' 't' 'e' _ "not null" 'n' 'o' 't' ' ' _ rfl (by decide)),
      clit_fail "null" c _ _ hN (swc_ne2 'n' 'o' _ "null" 'n' 'u' _ rfl (by decide)),
      clit_fail "primary key" c _ _ hN (swc_ne 'n' _ "primary key" 'p' _ rfl (by decide)),
      clit_fail "pk" c _ _ hN (swc_ne 'n' _ "pk" 'p' _ rfl (by decide)),
      clit_fail "unique" c _ _ hN (swc_ne 'n' _ "unique" 'u' _ rfl (by decide)),
      clit_fail "increment" c _ _ hN (swc_ne 'n' _ "increment" 'i' _ rfl (by decide)),
      hnote, after c2 hr2, pure, ppure, Flag.setting]

/-! ### the settings list: `[w1, w2, …]` -/

/-- the text after the first word: `, w` for each further word -/
def moreFlags : List Flag → Str
  | [] => []
  | w :: ws => ',' :: ' ' :: (w.text ++ moreFlags ws)

theorem flag_text_head (w : Flag) : ∃ y r, w.text = y :: r ∧ isWs y = false := by
  cases w <;> simp [Flag.text] <;> decide

theorem many_flags (item : P ColSetting) (hitem : ∀ c c' s, columnSetting c = .ok s c' → item c = .ok s c')
    (ws : List Flag) (post : Str) (hws : ∀ w ∈ ws, w.ok) :
    ∀ (fuel : Nat) (c : Cur), ws.length < fuel → c.rest = moreFlags ws ++ ']' :: post → c.pastEnd = false →
      ∃ c', many (pbind (sym ",") fun _ => item) fuel c = .ok (ws.map Flag.setting) c'
        ∧ c'.rest = ']' :: post ∧ c'.pastEnd = false := by
  induction ws with
  | nil =>
    intro fuel c hf hc hp
    obtain ⟨f, rfl⟩ : ∃ f, fuel = f + 1 := ⟨fuel - 1, by simp at hf; omega⟩
    have hN : Next c ']' post := skipWs_rest_head c ']' _ (by simpa [moreFlags] using hc) (by decide)
    refine ⟨c, ?_, by simpa [moreFlags] using hc, hp⟩
    rw [many]
    simp [pbind, sym_fail "," c ']' post hN (by simp [startsWith])]
  | cons w r ih =>
    intro fuel c hf hc hp
    obtain ⟨f, rfl⟩ : ∃ f, fuel = f + 1 := ⟨fuel - 1, by simp at hf; omega⟩
    have hN : Next c ',' (' ' :: (w.text ++ moreFlags r ++ ']' :: post)) :=
      skipWs_rest_head c ',' _ (by rw [hc]; simp [moreFlags]) (by decide)
    obtain ⟨c1, hcm, hr1, hp1⟩ := sym_ok "," ',' rfl c _ hN hp
    obtain ⟨y, yr, hy, hyw⟩ := flag_text_head w
    -- what follows the word: a comma (more words) or the closing bracket
    obtain ⟨x, rest, hrest, hx⟩ : ∃ x rest, moreFlags r ++ ']' :: post = x :: rest ∧ (x = ',' ∨ x = ']') := by
      cases r with
      | nil => exact ⟨']', post, rfl, Or.inr rfl⟩
      | cons w2 r2 => exact ⟨',', ' ' :: (w2.text ++ moreFlags r2 ++ ']' :: post), by simp [moreFlags], Or.inl rfl⟩
    have hN1 : (skipWs c1).rest = w.text ++ x :: rest := by
      have := skipWs_rest_spaces c1 1 y (yr ++ (moreFlags r ++ ']' :: post)) (by rw [hr1, hy]; simp) hyw
      rw [this, hy, hrest]; simp
    obtain ⟨c2, hset, hr2, hp2⟩ := columnSetting_flag c1 w x rest hN1 hx hp1 (hws w (by simp))
    obtain ⟨c3, hm, hr3, hp3⟩ := ih (fun q hq => hws q (by simp [hq])) f c2 (by simp at hf; omega) (by rw [hr2, hrest]) hp2
    refine ⟨c3, ?_, hr3, hp3⟩
    have hlen : c2.rest.length ≠ c.rest.length := by
      rw [hr2, hc, ← hrest]; simp [moreFlags]; omega
    rw [many]
    simp only [pbind, hcm, hitem c1 c2 _ hset, hlen, decide_false, Bool.false_and, Bool.false_eq_true, ↓reduceIte, hm,
      List.map_cons]

theorem moreFlags_length (ws : List Flag) : ws.length ≤ (moreFlags ws).length := by
  induction ws with
  | nil => simp [moreFlags]
  | cons a b ih => simp [moreFlags]; omega

theorem columnSetting_wp (c c' : Cur) (s : ColSetting) (h : columnSetting c = .ok s c') :
    columnSettingWithProperty c = .ok s c' := by
  unfold columnSettingWithProperty alt; simp only [h]

/-- `[w, ws…]` followed by a line break, in both grammars (with and without properties) -/
theorem settings_ok (props : Bool) (c : Cur) (w : Flag) (ws : List Flag) (rest : Str)
    (hn : (skipWs c).rest = '[' :: (w.text ++ moreFlags ws ++ ']' :: '\n' :: rest)) (hp : c.pastEnd = false)
    (hw : w.ok) (hws : ∀ q ∈ ws, q.ok) :
    ∃ c', (if props then columnSettingsWithProperties else columnSettings) c
        = .ok (foldColSettings ((w :: ws).map Flag.setting) none) c' ∧ c'.rest = '\n' :: rest ∧ c'.pastEnd = false := by
  obtain ⟨c1, hbr, hr1, hp1⟩ := sym_ok "[" '[' rfl c _ hn hp
  obtain ⟨y, yr, hy, hyw⟩ := flag_text_head w
  obtain ⟨x, r', hrest, hx⟩ : ∃ x r', moreFlags ws ++ ']' :: '\n' :: rest = x :: r' ∧ (x = ',' ∨ x = ']') := by
    cases ws with
    | nil => exact ⟨']', '\n' :: rest, rfl, Or.inr rfl⟩
    | cons w2 r2 => exact ⟨',', ' ' :: (w2.text ++ moreFlags r2 ++ ']' :: '\n' :: rest), by simp [moreFlags], Or.inl rfl⟩
  have hN0 : Next c1 y (yr ++ (moreFlags ws ++ ']' :: '\n' :: rest)) :=
    skipWs_rest_head c1 y _ (by rw [hr1, hy]; simp) hyw
  have hN1 : (skipWs c1).rest = w.text ++ x :: r' := by
    rw [show (skipWs c1).rest = _ from hN0, hy, hrest]; simp
  have hq1 : skipNl c1 = .ok () c1 := by
    have hyn : y ≠ '\n' ∧ y ≠ '/' := by
      cases w <;> simp [Flag.text] at hy <;> (obtain ⟨rfl, _⟩ := hy; exact ⟨by decide, by decide⟩)
    obtain ⟨q1, q2⟩ := quiet_of_next c1 y _ hN0 hyn.1 hyn.2
    exact skipNl_stay c1 q1 q2
  obtain ⟨c2, hset, hr2, hp2⟩ := columnSetting_flag c1 w x r' hN1 hx hp1 hw
  have hq2 : skipNl c2 = .ok () c2 := by
    have hxw : isWs x = false := by rcases hx with rfl | rfl <;> decide
    have hN : Next c2 x r' := skipWs_rest_head c2 x r' hr2 hxw
    have hxn : x ≠ '\n' ∧ x ≠ '/' := by rcases hx with rfl | rfl <;> exact ⟨by decide, by decide⟩
    obtain ⟨q1, q2⟩ := quiet_of_next c2 x r' hN hxn.1 hxn.2
    exact skipNl_stay c2 q1 q2
  have hfuel : ws.length < c2.rest.length + 2 := by
    have := moreFlags_length ws
    rw [hr2, ← hrest]; simp only [List.length_append, List.length_cons]; omega
  have hN3 : ∀ c3 : Cur, c3.rest = ']' :: '\n' :: rest → Next c3 ']' ('\n' :: rest) :=
    fun c3 h => skipWs_rest_head c3 ']' _ h (by decide)
  cases props with
  | false =>
    obtain ⟨c3, hm, hr3, hp3⟩ := many_flags columnSetting (fun _ _ _ h => h) ws ('\n' :: rest) hws (c2.rest.length + 2) c2
      hfuel (by rw [hr2, hrest]) hp2
    obtain ⟨c4, hcl, hr4, hp4⟩ := sym_ok "]" ']' rfl c3 _ (hN3 c3 hr3) hp3
    have hN4 : Next c4 '\n' rest := skipWs_rest_head c4 '\n' _ hr4 (by decide)
    have hcm : cOpt c4 = .ok none c4 := by
      unfold cOpt opt
      rw [comment_fail c4 '\n' rest hN4 (by decide)]
    have hmF : manyF (pbind (sym ",") fun _ => columnSetting) c2 = .ok (ws.map Flag.setting) c3 := by
      unfold manyF fuelOf; exact hm
    refine ⟨c4, ?_, hr4, hp4⟩
    simp only [Bool.false_eq_true, ↓reduceIte]
    unfold columnSettings
    simp only [bind, pbind, hbr, cut, hset, hmF, hcl, hcm, pure, ppure, List.map_cons]
  | true =>
    obtain ⟨c3, hm, hr3, hp3⟩ := many_flags columnSettingWithProperty columnSetting_wp ws ('\n' :: rest) hws
      (c2.rest.length + 2) c2 hfuel (by rw [hr2, hrest]) hp2
    obtain ⟨c4, hcl, hr4, hp4⟩ := sym_ok "]" ']' rfl c3 _ (hN3 c3 hr3) hp3
    have hN4 : Next c4 '\n' rest := skipWs_rest_head c4 '\n' _ hr4 (by decide)
    have hcm : cOpt c4 = .ok none c4 := by
      unfold cOpt opt
      rw [comment_fail c4 '\n' rest hN4 (by decide)]
    have hmF : manyF (pbind (sym ",") fun _ => columnSettingWithProperty) c2 = .ok (ws.map Flag.setting) c3 := by
      unfold manyF fuelOf; exact hm
    refine ⟨c4, ?_, hr4, hp4⟩
    simp only [↓reduceIte]
    unfold columnSettingsWithProperties
    simp only [bind, pbind, hbr, cut, hq1, columnSetting_wp c1 c2 _ hset, hq2, hmF, hcl, hcm, pure, ppure, List.map_cons]

/-! ### one column line with settings: `    "name" type [w, ws…]` + LF -/

/-- `column_type` on a one-word type followed by a space -/
theorem columnType_word_sp (c : Cur) (ty r : Str) (hn : (skipWs c).rest = ty ++ ' ' :: r) (hty : TypeOK ty)
    (hp : c.pastEnd = false) : ∃ c', columnType c = .ok ty c' ∧ c'.rest = ' ' :: r ∧ c'.pastEnd = false := by
  obtain ⟨t0, ts, rfl⟩ : ∃ t0 ts, ty = t0 :: ts := by
    cases ty with
    | nil => exact absurd rfl hty.1
    | cons a as => exact ⟨a, as, rfl⟩
  have ht0 : isNameChar t0 = true := by have := hty.2; simp only [List.all_cons, Bool.and_eq_true] at this; exact this.1
  have ht0w : isWs t0 = false := (nameChar_facts t0 ht0).1
  have hsk : (skipWs (skipWs c)).rest = (t0 :: ts) ++ ' ' :: r := by rw [skipWs_idem]; exact hn
  obtain ⟨c2, hnm, hr2, hp2⟩ := name_ok (skipWs c) (t0 :: ts) (' ' :: r) hsk (by simp) hty.2
    (by intro x hx; simp at hx; subst hx; decide) (by simpa using hp)
  have hraw : nameRaw (skipWs c) = .ok (t0 :: ts) c2 := by
    unfold nameRaw
    rw [hn]
    simp only [List.cons_append, ht0w, Bool.false_eq_true, ↓reduceIte]
    exact hnm
  have hb1 : litRaw ['[', ']'] c2 = .fail := litRaw_fail _ c2 (by rw [hr2]; simp [startsWith])
  have hb2 : litRaw ['.'] c2 = .fail := litRaw_fail _ c2 (by rw [hr2]; simp [startsWith])
  have hb3 : typeArgs c2 = .fail := by
    unfold typeArgs
    rw [litRaw_fail ['('] c2 (by rw [hr2]; simp [startsWith])]
  refine ⟨c2, ?_, hr2, hp2⟩
  unfold columnType
  simp only [alt, bind, pbind, hraw, hb1, hb2, opt, hb3, pure, ppure, Option.getD_none, List.append_nil]

/-- what `parse_column` makes of a column whose only extras are its settings -/
def colOfSettings (nm ty : Str) (S : ColSettings) : Bp.ColBp :=
  { name := nm, type := ty, unique := false || S.unique, notNull := S.notNull, pk := false || S.pk,
    autoinc := S.autoinc, default := S.default, note := S.note, refs := S.refs,
    comment := (match S.comment with | some x => some x | none => joinBefore []), props := S.props }

def flagsText : List Flag → Str
  | [] => []
  | w :: ws => ' ' :: '[' :: (w.text ++ moreFlags ws ++ [']'])

theorem tableColumn_settings (props : Bool) (c : Cur) (cn ty : Str) (w : Flag) (ws : List Flag) (rest : Str)
    (hc : c.rest = ' ' :: ' ' :: ' ' :: ' ' :: '"' :: (cn ++ '"' :: ' ' :: (ty ++ flagsText (w :: ws) ++ '\n' :: rest)))
    (hp : c.pastEnd = false) (hcn : NameOK cn) (hty : TypeOK ty) (hw : w.ok) (hws : ∀ q ∈ ws, q.ok) :
    ∃ c', tableColumn props c = .ok (colOfSettings cn ty (foldColSettings ((w :: ws).map Flag.setting) none)) c'
      ∧ c'.rest = rest ∧ c'.pastEnd = false := by
  have hfl : ty ++ flagsText (w :: ws) ++ '\n' :: rest
      = ty ++ ' ' :: '[' :: (w.text ++ moreFlags ws ++ ']' :: '\n' :: rest) := by
    simp [flagsText]
  rw [hfl] at hc
  have hN : Next c '"' (cn ++ '"' :: ' ' :: (ty ++ ' ' :: '[' :: (w.text ++ moreFlags ws ++ ']' :: '\n' :: rest))) :=
    skipWs_rest_spaces c 4 '"' _ (by rw [hc]; rfl) (by decide)
  obtain ⟨q1, q2⟩ := quiet_of_next c '"' _ hN (by decide) (by decide)
  have hb : cBefore c = .ok [] c := cBefore_stay c q1 q2
  obtain ⟨c1, hnm, hr1, hp1⟩ := name_quoted_ok c cn _ hN hcn hp
  obtain ⟨t0, ts, hty0⟩ : ∃ t0 ts, ty = t0 :: ts := by
    cases ty with
    | nil => exact absurd rfl hty.1
    | cons a as => exact ⟨a, as, rfl⟩
  have ht0 : isNameChar t0 = true := by
    have := hty.2; rw [hty0] at this; simp only [List.all_cons, Bool.and_eq_true] at this; exact this.1
  have hN1 : (skipWs c1).rest = ty ++ ' ' :: '[' :: (w.text ++ moreFlags ws ++ ']' :: '\n' :: rest) :=
    skipWs_rest_spaces c1 1 t0 (ts ++ ' ' :: '[' :: (w.text ++ moreFlags ws ++ ']' :: '\n' :: rest))
      (by rw [hr1, hty0]; rfl) (nameChar_facts t0 ht0).1 |>.trans (by rw [hty0]; rfl)
  obtain ⟨c2, hct, hr2, hp2⟩ := columnType_word_sp c1 ty _ hN1 hty hp1
  have hN2 : Next c2 '[' (w.text ++ moreFlags ws ++ ']' :: '\n' :: rest) :=
    skipWs_rest_spaces c2 1 '[' _ (by rw [hr2]; rfl) (by decide)
  have hcons : manyF (alt (pbind (clit "unique") fun _ => ppure Constraint.unique)
      (pbind (clit "pk") fun _ => ppure Constraint.pk)) c2 = .ok [] c2 := by
    apply manyF_fail
    simp only [alt, pbind,
      clit_fail "unique" c2 _ _ hN2 (swc_ne '[' _ "unique" 'u' _ rfl (by decide)),
      clit_fail "pk" c2 _ _ hN2 (swc_ne '[' _ "pk" 'p' _ rfl (by decide))]
  have hcm : cOpt c2 = .ok none c2 := by
    unfold cOpt opt
    rw [comment_fail c2 '[' _ hN2 (by decide)]
  obtain ⟨c3, hset, hr3, hp3⟩ := settings_ok props c2 w ws rest hN2 hp2 hw hws
  have hs1 : opt (if props then columnSettingsWithProperties else columnSettings) c2
      = .ok (some (foldColSettings ((w :: ws).map Flag.setting) none)) c3 := by
    unfold opt; rw [hset]
  have hN3 : Next c3 '\n' rest := skipWs_rest_head c3 '\n' _ hr3 (by decide)
  obtain ⟨c4, hle, hr4, hp4⟩ := lineEnd_nl c3 rest hN3 hp3
  refine ⟨c4, ?_, hr4, hp4⟩
  unfold tableColumn
  simp only [bind, pbind, hb, hnm, hct, hcons, hcm, hs1, hle, pure, ppure, colOfSettings]
  rfl

/-! ### the form: a column with any subset of the four flags and possibly a note -/

structure FCol where
  name : Str
  type : Str
  pk : Bool := false
  increment : Bool := false
  unique : Bool := false
  notNull : Bool := false
  /-- the empty text means: no note -/
  note : Str := []

/-- the settings in the order the renderer writes them -/
def FCol.flags (s : FCol) : List Flag :=
  (if s.pk then [Flag.pk] else []) ++ (if s.increment then [Flag.increment] else [])
    ++ (if s.unique then [Flag.unique] else []) ++ (if s.notNull then [Flag.notNull] else [])
    ++ (if s.note.isEmpty then [] else [Flag.note s.note])

def FCol.str (s : FCol) : Str := '"' :: (s.name ++ '"' :: ' ' :: (s.type ++ flagsText s.flags))

def FCol.bp (s : FCol) : Bp.ColBp :=
  { name := s.name, type := s.type, unique := s.unique, notNull := s.notNull, pk := s.pk, autoinc := s.increment,
    note := if s.note.isEmpty then none else some s.note }

def FCol.col (s : FCol) : Column :=
  { name := s.name, type := .plain s.type, unique := s.unique, notNull := s.notNull, pk := s.pk, autoinc := s.increment,
    note := s.note }

/-- a quoted name, a one-word type, and a note that is one plain normalised line without a triple quote -/
def FCol.ok (s : FCol) : Prop :=
  NameOK s.name ∧ TypeOK s.type ∧ Plain s.note ∧ hasTriple s.note = false ∧ norm s.note = s.note

theorem FCol.flags_ok (s : FCol) (hok : s.ok) : ∀ w ∈ s.flags, w.ok := by
  intro w hw
  simp only [FCol.flags, List.mem_append] at hw
  rcases hw with (((h | h) | h) | h) | h
  · split at h <;> simp at h; subst h; trivial
  · split at h <;> simp at h; subst h; trivial
  · split at h <;> simp at h; subst h; trivial
  · split at h <;> simp at h; subst h; trivial
  · split at h <;> simp at h; subst h; exact ⟨hok.2.2.1, hok.2.2.2.1⟩

theorem FCol.settings_bp (s : FCol) (w : Flag) (ws : List Flag) (h : s.flags = w :: ws) :
    colOfSettings s.name s.type (foldColSettings ((w :: ws).map Flag.setting) none) = s.bp := by
  rw [← h]
  obtain ⟨n, t, a, b, c, d, e⟩ := s
  cases e <;> cases a <;> cases b <;> cases c <;> cases d <;> first | rfl | (exfalso; simp [FCol.flags] at h)

theorem FCol.plain_bp (s : FCol) (h : s.flags = []) : plainCol s.name s.type = s.bp := by
  obtain ⟨n, t, a, b, c, d, e⟩ := s
  cases e <;> cases a <;> cases b <;> cases c <;> cases d <;> first | rfl | (exfalso; simp [FCol.flags] at h)

theorem flag_text_line (w : Flag) (hw : w.ok) : LineOK w.text ∧ ∀ ch ∈ w.text, ch ≠ '\t' := by
  cases w with
  | note t =>
    obtain ⟨ht, _⟩ := hw
    have e : (Flag.note t).text = ['n', 'o', 't', 'e', ':', ' ', '\''] ++ prepareTextForDbml t ++ ['\''] := by
      simp [Flag.text]
    constructor
    · intro c hc
      rw [e] at hc; simp only [List.mem_append] at hc
      rcases hc with (h | h) | h
      · exact (by decide : ∀ c ∈ ['n', 'o', 't', 'e', ':', ' ', '\''], isLineBreak c = false) c h
      · rcases prepare_mem _ c h with h' | rfl
        · exact (ht c h').1
        · decide
      · exact (by decide : ∀ c ∈ ['\''], isLineBreak c = false) c h
    · intro c hc
      rw [e] at hc; simp only [List.mem_append] at hc
      rcases hc with (h | h) | h
      · exact (by decide : ∀ c ∈ ['n', 'o', 't', 'e', ':', ' ', '\''], c ≠ '\t') c h
      · rcases prepare_mem _ c h with h' | rfl
        · exact (ht c h').2
        · decide
      · exact (by decide : ∀ c ∈ ['\''], c ≠ '\t') c h
  | pk => exact ⟨by intro c hc; revert c; decide, by intro c hc; revert c; decide⟩
  | increment => exact ⟨by intro c hc; revert c; decide, by intro c hc; revert c; decide⟩
  | unique => exact ⟨by intro c hc; revert c; decide, by intro c hc; revert c; decide⟩
  | notNull => exact ⟨by intro c hc; revert c; decide, by intro c hc; revert c; decide⟩

theorem moreFlags_line (ws : List Flag) (hws : ∀ w ∈ ws, w.ok) :
    LineOK (moreFlags ws) ∧ ∀ ch ∈ moreFlags ws, ch ≠ '\t' := by
  induction ws with
  | nil => exact ⟨by intro c hc; simp [moreFlags] at hc, by intro c hc; simp [moreFlags] at hc⟩
  | cons w r ih =>
    have ih := ih (fun q hq => hws q (by simp [hq]))
    have hw := hws w (by simp)
    have e : moreFlags (w :: r) = [',', ' '] ++ w.text ++ moreFlags r := by simp [moreFlags]
    constructor
    · intro c hc
      rw [e] at hc; simp only [List.mem_append] at hc
      rcases hc with (h | h) | h
      · exact (by decide : ∀ c ∈ [',', ' '], isLineBreak c = false) c h
      · exact (flag_text_line w hw).1 c h
      · exact ih.1 c h
    · intro c hc
      rw [e] at hc; simp only [List.mem_append] at hc
      rcases hc with (h | h) | h
      · exact (by decide : ∀ c ∈ [',', ' '], c ≠ '\t') c h
      · exact (flag_text_line w hw).2 c h
      · exact ih.2 c h

theorem flagsText_line (ws : List Flag) (hws : ∀ w ∈ ws, w.ok) :
    LineOK (flagsText ws) ∧ ∀ ch ∈ flagsText ws, ch ≠ '\t' := by
  cases ws with
  | nil => exact ⟨by intro c hc; simp [flagsText] at hc, by intro c hc; simp [flagsText] at hc⟩
  | cons w r =>
    have hw := hws w (by simp)
    have hr := moreFlags_line r (fun q hq => hws q (by simp [hq]))
    have e : flagsText (w :: r) = [' ', '['] ++ w.text ++ moreFlags r ++ [']'] := by simp [flagsText]
    constructor
    · intro c hc
      rw [e] at hc; simp only [List.mem_append] at hc
      rcases hc with ((h | h) | h) | h
      · exact (by decide : ∀ c ∈ [' ', '['], isLineBreak c = false) c h
      · exact (flag_text_line w hw).1 c h
      · exact hr.1 c h
      · exact (by decide : ∀ c ∈ [']'], isLineBreak c = false) c h
    · intro c hc
      rw [e] at hc; simp only [List.mem_append] at hc
      rcases hc with ((h | h) | h) | h
      · exact (by decide : ∀ c ∈ [' ', '['], c ≠ '\t') c h
      · exact (flag_text_line w hw).2 c h
      · exact hr.2 c h
      · exact (by decide : ∀ c ∈ [']'], c ≠ '\t') c h

theorem FCol.str_split (s : FCol) : s.str = colStr (s.name, s.type) ++ flagsText s.flags := by
  simp [FCol.str, colStr]

theorem containsChar_plain (t : Str) (ht : Plain t) : containsChar '\n' t = false := by
  unfold containsChar
  rw [List.any_eq_false]
  intro c hc
  have := (ht c hc).1
  intro h
  simp at h
  subst h
  simp [isLineBreak] at this

theorem FCol.render (ap : Bool) (ts : List Table) (ti ci : Nat) (s : FCol) (hok : s.ok) :
    Dbml.renderColumn { tables := ts, allowProps := ap } ti ci s.col = .ok s.str := by
  have hnl := containsChar_plain s.note hok.2.2.1
  obtain ⟨n, t, a, b, c, d, e⟩ := s
  cases e <;> cases a <;> cases b <;> cases c <;> cases d <;>
    simp [Dbml.renderColumn, Sql.typeText, Dbml.inlineRefsOfColumn, FCol.col, FCol.str, FCol.flags, flagsText, moreFlags,
      Flag.text, Dbml.optComment, joinWith, bind, Except.bind, pure, Except.pure, lit, noteOptionToDbml] <;>
    simp [hnl] at *

def flagForm : ColForm FCol where
  str := FCol.str
  bp := FCol.bp
  col := FCol.col
  ok := FCol.ok
  quoted := fun s => ⟨_, rfl⟩
  parse := by
    intro props c s rest hc hp hok
    cases hf : s.flags with
    | nil =>
      have := tableColumn_ok props c s.name s.type rest (by rw [hc]; simp [FCol.str, hf, flagsText, colLine]) hp hok.1 hok.2.1
      rw [FCol.plain_bp s hf] at this
      exact this
    | cons w ws =>
      have hall := FCol.flags_ok s hok
      rw [hf] at hall
      have := tableColumn_settings props c s.name s.type w ws rest (by rw [hc]; simp [FCol.str, hf]) hp hok.1 hok.2.1
        (hall w (by simp)) (fun q hq => hall q (by simp [hq]))
      rw [FCol.settings_bp s w ws hf] at this
      exact this
  noTab := by
    intro s hok ch hch
    rw [FCol.str_split] at hch
    simp only [List.mem_append] at hch
    rcases hch with h | h
    · have e : colStr (s.name, s.type) = ['"'] ++ s.name ++ ['"', ' '] ++ s.type := by simp [colStr]
      rw [e] at h; simp only [List.mem_append] at h
      rcases h with ((h | h) | h) | h
      · exact (by decide : ∀ c ∈ ['"'], c ≠ '\t') ch h
      · exact (hok.1 ch h).2.2.2
      · exact (by decide : ∀ c ∈ ['"', ' '], c ≠ '\t') ch h
      · exact typeOK_no_tab s.type hok.2.1 ch h
    · exact (flagsText_line s.flags (FCol.flags_ok s hok)).2 ch h
  lineOK := by
    intro s hok ch hch
    rw [FCol.str_split] at hch
    simp only [List.mem_append] at hch
    rcases hch with h | h
    · exact colStr_ok (s.name, s.type) hok.1 hok.2.1 ch h
    · exact (flagsText_line s.flags (FCol.flags_ok s hok)).1 ch h
  norefs := fun _ => rfl
  build := by
    intro s hok
    have hn := hok.2.2.2.2
    obtain ⟨n, t, a, b, c, d, e⟩ := s
    cases e with
    | nil =>
      simp [buildColumn, buildDefault, resolveType, resolveTypePure, buildNote, FCol.bp, FCol.col,
        bind, Except.bind, pure, Except.pure]
    | cons x r =>
      simp only at hn
      simp [buildColumn, buildDefault, resolveType, resolveTypePure, buildNote, FCol.bp, FCol.col,
        bind, Except.bind, pure, Except.pure, hn]
  render := fun ap ts ti ci s hok => FCol.render ap ts ti ci s hok

/-- **C02 for a table whose columns carry settings, end to end**: a database holding one table in schema public
    with any positive number of columns, each with a quoted name, a one-word type, ANY SUBSET of the settings
    `pk`, `increment`, `unique`, `not null` and possibly a one-line note, is rendered to DBML and parsed back to
    exactly the same database, with the properties switch on or off.  The settings travel through
    `column_settings` (or `column_settings_with_properties`), `parse_column_settings`, `ColumnBlueprint.build`
    (where the note is normalised) and `render_column`. -/
theorem flags_table_roundtrip_partial (ap : Bool) (tn : Str) (cs : List FCol)
    (htn : NameOK tn) (hcs : ∀ s ∈ cs, s.ok) (hne : cs ≠ []) :
    ∃ text, Dbml.renderDb { tables := [{ name := tn, columns := cs.map FCol.col }], allowProps := ap } = .ok text
      ∧ Build.parse ap text
          = .ok { tables := [{ name := tn, columns := cs.map FCol.col }], allowProps := ap } :=
  form_roundtrip flagForm ap tn cs htn hcs hne

/-- non-vacuity: a primary key with auto-increment, a unique not-null column with a note, a bare column -/
example : ∀ s ∈ [({ name := lit "id", type := lit "int", pk := true, increment := true } : FCol),
      { name := lit "e mail", type := lit "varchar", unique := true, notNull := true, note := lit "it's the login" },
      { name := lit "age", type := lit "int" }], s.ok := by
  intro s hs
  simp at hs
  rcases hs with rfl | rfl | rfl <;>
    refine ⟨fun c hc => ?_, ⟨by decide, by decide⟩, fun c hc => ?_, by decide, by decide⟩ <;> (revert c; decide)

/-- the text of such a table, as the renderer model writes it (a test of the statement on one literal) -/
example : flagForm.tableText (lit "t") [{ name := lit "id", type := lit "int", pk := true, increment := true },
      { name := lit "m", type := lit "text", unique := true, notNull := true, note := lit "it's" }]
    = lit "Table \"t\" {\n    \"id\" int [pk, increment]\n    \"m\" text [unique, not null, note: 'it\\'s']\n}" := by decide

end C02
end PyDBML
