/-
L6 (dispatch / validation): renderer choice (`SQLObject.sql`, `DBMLObject.dbml`,
`BaseRenderer.render`), `check_attributes_for_sql`, and the reference validations
(`validate_for_sql`, `validate_for_dbml`, `Reference._validate`, `get_refs`) as decision logic.
-/
import PyDBMLModel.Model
namespace PyDBML
namespace Dispatch

inductive EKind where
  | table | column | index | enum | enumItem | reference | note | expression | project | group | sticky
  deriving Repr, DecidableEq, Inhabited

def EKind.ofString : String → Option EKind
  | "table" => some .table | "column" => some .column | "index" => some .index | "enum" => some .enum
  | "enum_item" => some .enumItem | "reference" => some .reference | "note" => some .note
  | "expression" => some .expression | "project" => some .project | "group" => some .group
  | "sticky" => some .sticky | _ => none

/-- `required_attributes` of each class. -/
def requiredAttrs : EKind → List String
  | .table => ["name", "schema"]
  | .column => ["name", "type"]
  | .index => ["subjects", "table"]
  | .enum => ["name", "schema", "items"]
  | .enumItem => ["name"]
  | .reference => ["type", "col1", "col2"]
  | _ => []

/-- does the class carry a `database` attribute/property at all (`hasattr(self, 'database')`)? -/
def hasDatabaseAttr : EKind → Bool
  | .table | .column | .enum | .reference | .project | .group | .sticky => true
  | _ => false

/-- has the class a `.sql` property (SQLObject)? Project, TableGroup, StickyNote are DBML-only. -/
def isSqlObject : EKind → Bool
  | .project | .group | .sticky => false
  | _ => true

inductive Which where
  | configured      -- the renderer class the owning database was configured with
  | default         -- DefaultSQLRenderer / DefaultDBMLRenderer
  deriving Repr, DecidableEq, Inhabited

/-- `SQLObject.sql` / `DBMLObject.dbml`: which renderer class is asked.
    `attached` = the element's `database` (for a column: its table's database) is not None. -/
def rendererFor (k : EKind) (attached : Bool) : Which :=
  if hasDatabaseAttr k && attached then .configured else .default

inductive Out where
  | marker          -- the custom handler's output
  | empty           -- `''` (no handler for this type)
  | defaultText     -- what the default renderer produces
  | attributeMissing
  | unknownDatabase -- a detached table cannot be asked for its references (`get_references_for_sql`)
  deriving Repr, DecidableEq, Inhabited

/-- how the owning database is configured: with the default renderer classes, or with a custom
    renderer (a direct `BaseRenderer` subclass: no attribute check) handling exactly `handled`. -/
inductive Cfg where
  | defaultR
  | custom (handled : List EKind)
  deriving Repr, DecidableEq, Inhabited

/-- outcome of `elem.sql` (`sql = true`) / `elem.dbml`;
    `unset` = the required attributes that are `None` (only the default SQL renderer checks them). -/
def renderOutcome (sql : Bool) (cfg : Cfg) (k : EKind) (attached : Bool) (unset : List String) : Out :=
  let viaDefault : Option (List EKind) :=
    match rendererFor k attached, cfg with
    | .configured, .custom handled => some handled
    | _, _ => none
  match viaDefault with
  | some handled => if handled.contains k then .marker else .empty
  | none =>
    if sql && (requiredAttrs k).any (unset.contains ·) then .attributeMissing
    else if sql && k = .table && !attached then .unknownDatabase
    else .defaultText

/-! ### reference validations (C17) -/

/-- per column of a reference side: `none` = detached column, `some t` = table (equality class under
    `Table.__eq__`; the harness uses distinct classes for distinct tables). -/
abbrev Side := List (Option Nat)

inductive RefOut where
  | ok | tableNotFound | dbmlError | indexError
  deriving Repr, DecidableEq, Inhabited

def anyDetached (a b : Side) : Bool := (a ++ b).any (·.isNone)

/-- `Reference._validate` on one side: every column's table equals the first column's table. -/
def sideMixed : Side → Option Bool
  | [] => none                  -- `self.col1[0]` raises IndexError
  | t :: rest => some (rest.any (· != t))

/-- `Reference._validate` (both sides, col1 first). -/
def validate (a b : Side) : RefOut :=
  match sideMixed a with
  | none => .indexError
  | some true => .dbmlError
  | some false =>
    match sideMixed b with
    | none => .indexError
    | some true => .dbmlError
    | some false => .ok

/-- `reference.table1` / `.table2`. -/
def tableProp (a b : Side) : RefOut := validate a b

/-- default SQL rendering of a reference (`validate_for_sql`, then by type). -/
def refSql (m2m : Bool) (a b : Side) : RefOut :=
  if anyDetached a b then .tableNotFound
  else if m2m then validate a b      -- `join_table` asks `table1`
  else if a.isEmpty || b.isEmpty then .indexError
  else .ok                           -- a mixed side is NOT detected on this path (recorded observation)

/-- default DBML rendering of a reference. -/
def refDbml (inline : Bool) (a b : Side) : RefOut :=
  if anyDetached a b then .tableNotFound
  else if inline then
    if b.length > 1 then .dbmlError
    else if b.isEmpty then .indexError
    else .ok
  else validate a b

inductive RefsOut where
  | ok | unknownDatabase | tableNotFound
  deriving Repr, DecidableEq, Inhabited

/-- `Table.get_refs()` / `Column.get_refs()`. -/
def tableGetRefs (hasDb : Bool) : RefsOut := if hasDb then .ok else .unknownDatabase
def columnGetRefs (hasTable tableHasDb : Bool) : RefsOut :=
  if !hasTable then .tableNotFound else tableGetRefs tableHasDb

end Dispatch
end PyDBML
