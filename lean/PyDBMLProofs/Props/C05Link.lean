/-
C05 — a reference is linked to what the document names: for ANY blueprint, when `buildRef` succeeds, each
side's table carries exactly the key written (alias / bare key / schema.name), and each linked column is
the first column of that table with the written name, one per written name, in order.
-/
import PyDBMLProofs.Props.C06
namespace PyDBML
namespace C05
open Build Lex

def SideOK (tables : List Table) (schema tn cn : Str) (ti : Nat) (cols : List Nat) : Prop :=
  ∃ t, tables[ti]? = some t
    ∧ (t.fullName = tn ∨ t.alias = some tn ∨ t.fullName = fullName schema tn ∨ t.alias = some (fullName schema tn))
    ∧ cols.length = (splitComma cn).length
    ∧ ∀ k (hk : k < cols.length), ∃ piece c, (splitComma cn)[k]? = some piece ∧ t.columns[cols[k]]? = some c
        ∧ c.name = stripParenSpace piece
        ∧ ∀ j, j < cols[k] → ∀ c', t.columns[j]? = some c' → c'.name ≠ stripParenSpace piece

theorem colsAt_sound (tables : List Table) (schema tn cn : Str) (ti : Nat) (cols : List Nat)
    (ht : locateTable tables schema tn = .ok ti) (hc : colsAt tables ti cn = .ok cols) :
    SideOK tables schema tn cn ti cols := by
  obtain ⟨t, htt, hkey⟩ := C06.locateTable_sound tables schema tn ti ht
  unfold colsAt at hc
  rw [htt] at hc
  obtain ⟨hl, hk⟩ := locateCols_sound t cn cols hc
  exact ⟨t, htt, hkey, hl, hk⟩

/-- **C05, references, for any document**: the endpoints of a built reference are the columns the document
    names, in the tables the document names - never a column of another table, never a copy, never dropped. -/
theorem buildRef_sound (db : Db) (rb : Bp.RefBp) (r : Ref) (h : buildRef db rb = .ok r) :
    ∃ tn1 tn2 cn1 cn2, rb.table1 = some tn1 ∧ rb.table2 = some tn2 ∧ rb.col1 = some cn1 ∧ rb.col2 = some cn2
      ∧ SideOK db.tables rb.schema1 tn1 cn1 r.t1 r.col1 ∧ SideOK db.tables rb.schema2 tn2 cn2 r.t2 r.col2
      ∧ r.kind = rb.kind ∧ r.onUpdate = rb.onUpdate ∧ r.onDelete = rb.onDelete ∧ r.inlineFlag = rb.inline := by
  unfold buildRef at h
  cases hA : rb.table1 with
  | none => simp [hA, throw, throwThe, MonadExceptOf.throw, bind, Except.bind] at h
  | some tn1 =>
  cases hB : rb.table2 with
  | none => simp [hA, hB, throw, throwThe, MonadExceptOf.throw, bind, Except.bind] at h
  | some tn2 =>
  cases hC : rb.col1 with
  | none => simp [hA, hB, hC, throw, throwThe, MonadExceptOf.throw, bind, Except.bind] at h
  | some cn1 =>
  cases hD : rb.col2 with
  | none => simp [hA, hB, hC, hD, throw, throwThe, MonadExceptOf.throw, bind, Except.bind] at h
  | some cn2 =>
  simp only [hA, hB, hC, hD] at h
  obtain ⟨t1, h1, h⟩ := C06.bind_ok _ _ _ h
  obtain ⟨c1, h2, h⟩ := C06.bind_ok _ _ _ h
  obtain ⟨t2, h3, h⟩ := C06.bind_ok _ _ _ h
  obtain ⟨c2, h4, h⟩ := C06.bind_ok _ _ _ h
  simp only [pure, Except.pure, Except.ok.injEq] at h
  subst h
  exact ⟨tn1, tn2, cn1, cn2, rfl, rfl, rfl, rfl, colsAt_sound _ _ _ _ _ _ h1 h2, colsAt_sound _ _ _ _ _ _ h3 h4,
    rfl, rfl, rfl, rfl⟩

end C05
end PyDBML
