/-
L8: domain predicates.  These are part of the statements of the theorems; every excluded region
has a name (the reason), the harness classifies failing inputs by these names only.
-/
import PyDBMLModel.Text
namespace PyDBML

/-- a line that `str.isspace()` but is not `[ \t]*`. -/
def exoticBlankLine (l : Str) : Bool := isSpaceStr l && !l.all isBlankHT

/-- `NoExoticBlank t`: no line of `t` is whitespace-only without being `[ \t]*`
    (CR, VT, FF, NBSP … lines; CRLF files produce them). Hypothesis of `C13.norm_idem`. -/
def noExoticBlank (t : Str) : Bool := !(splitNL t).any exoticBlankLine

/-- conservative stand-in for `str.isprintable()` or LF (the statement of C13 speaks about texts
    over printable characters): no C0/C1 control except LF, no non-ASCII-space whitespace. -/
def printableOrLF (t : Str) : Bool :=
  t.all fun c => c = '\n' || (c.toNat ≥ 32 && !(127 ≤ c.toNat && c.toNat ≤ 160) &&
    (c = ' ' || !isSpaceChar c))

/-- `norm t = t` (a stored note text is always in normal form). -/
def isNormal (t : Str) : Bool := norm t == t

inductive Site where
  | tableNote | columnNote | indexNote | enumItemNote | groupNote | projectNote | sticky
  | projectItem | tableProp | columnProp | strDefault | indexName
  deriving Repr, DecidableEq, Inhabited

def Site.ofString : String → Option Site
  | "table_note" => some .tableNote | "column_note" => some .columnNote
  | "index_note" => some .indexNote | "enum_item_note" => some .enumItemNote
  | "group_note" => some .groupNote | "project_note" => some .projectNote
  | "sticky" => some .sticky | "project_item" => some .projectItem
  | "table_prop" => some .tableProp | "column_prop" => some .columnProp
  | "str_default" => some .strDefault | "index_name" => some .indexName
  | _ => none

def Site.isNote : Site → Bool
  | .tableNote | .columnNote | .indexNote | .enumItemNote | .groupNote | .projectNote | .sticky => true
  | _ => false
def Site.isSetting : Site → Bool
  | .columnNote | .indexNote | .enumItemNote | .columnProp => true
  | _ => false
def Site.isRaw : Site → Bool
  | .projectItem | .indexName => true
  | _ => false

def hasTriple : Str → Bool
  | '\'' :: '\'' :: '\'' :: _ => true
  | _ :: r => hasTriple r
  | [] => false

def trailingQuoteRun (t : Str) : Nat := (t.reverse.takeWhile (· = '\'')).length

/-- the text ends with a `'''` that `prepare_text_for_dbml` escapes as one chunk `\'''` (leftmost
    matching): its two unescaped quotes then touch the closing `'''` of a multi-line literal -/
def endsTriple : Str → Bool
  | '\'' :: '\'' :: '\'' :: [] => true
  | '\'' :: '\'' :: '\'' :: r => endsTriple r
  | _ :: r => endsTriple r
  | [] => false

/-- Why text `t` at site `s` is outside the domain on which the DBML round trip is claimed
    (`none` = inside).  Mirrors `harness/sites.py:site_reason`; the two are compared on every run. -/
def siteReason (s : Site) (t : Str) : Option String :=
  if !printableOrLF t then some "NotPrintable"
  else if s.isNote && !isNormal t then some "NotNormal"
  else
    let multi := containsChar '\n' t
    let l := lowerAscii t
    if s = .strDefault && t.isEmpty then some "FalsyDefault"
    else if s = .strDefault && multi then some "MultilineDefault"
    else if s = .strDefault && (l = lit "null" || l = lit "true" || l = lit "false") then
      some "StringLooksLikeLiteral"
    else if s.isRaw && multi then some "MultilineRaw"
    else if multi && s.isSetting then some "MultilineSetting"
    else if multi && s = .tableProp then some "MultilineProp"
    else if multi && ((splitNL t).any (fun l => !l.isEmpty && l.all (· = ' '))
                      || (splitNL t).all (fun l => l.all (· = ' '))) then
      some "WhitespaceOnlyLine"
    else if !multi && hasTriple t then some "TripleQuote"
    else if multi && endsTriple t then some "TripleQuote"
    else none

end PyDBML
