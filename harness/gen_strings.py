"""String generators shared by the text-level checks (all randomness from the caller's PRNG)."""
import itertools

A7 = ['a', ' ', '\n', "'", '"', '\\', '`']
EXT = A7 + ['\r', '\t', '\u00a0', '{', '#', '/', 'n', '\x0b', '\u2028', '\u00e9']
PRINTABLE_POOL = list("abcXYZ019 _-+*/#{}[]()<>:;,.!?@$%^&|~=") + ["'", '"', '\\', '`', 'é', 'ß', '日', '😀', 'ſ', 'ı']


def exhaustive(alphabet, maxlen):
    for n in range(0, maxlen + 1):
        for tup in itertools.product(alphabet, repeat=n):
            yield ''.join(tup)


def random_strings(rng, alphabet, count, minlen, maxlen):
    for _ in range(count):
        n = rng.randint(minlen, maxlen)
        yield ''.join(rng.choice(alphabet) for _ in range(n))


def random_texts(rng, count, multiline=True):
    """Structured printable texts: words, quotes, backslashes, indentation, blank lines."""
    words = ['a', 'note', "it's", '"q"', "'''", "''", '\\', '\\n', '`x`', '{b}', '[k]', '#fff', '//c', '/*c*/',
             'é', '日本', '😀', "\\'", 'x' * 7, ':', ',', ']', '}', "'", '"""', 'null', 'true', '0', '1.5',
             # not in Unicode normal form / compatibility and case-mapping characters: stored as written
             'e\u0301', 'A\u030a', '\u212b', '\u2126', '\ufb01', '\uff21', '\u1e9e', '\u0130']
    for _ in range(count):
        nlines = rng.randint(1, 4) if multiline else 1
        lines = []
        for _ in range(nlines):
            k = rng.randint(0, 4)
            ind = ' ' * rng.choice([0, 0, 2, 4])
            # trailing blanks (Markdown's two-space line break): stored as written, on every line
            lines.append(ind + ' '.join(rng.choice(words) for _ in range(k)) + (rng.choice([' ', '  ']) if k and rng.random() < 0.25 else ''))
        yield '\n'.join(lines)


def bmp_chars():
    for cp in range(0x10000):
        if 0xD800 <= cp <= 0xDFFF:
            continue
        yield chr(cp)


def has_surrogate(s):
    return any(0xD800 <= ord(c) <= 0xDFFF for c in s)
