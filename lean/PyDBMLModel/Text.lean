/-
L1: `pydbml/tools.py` and the renderer text helpers, function for function.
-/
import PyDBMLModel.Py
namespace PyDBML

/-- Python exception classes that are *not* part of PyDBML's error contract (C08). -/
inductive PyExc where
  | ValueError | KeyError | IndexError | AttributeError | TypeError | RuntimeError | RecursionError
  deriving Repr, DecidableEq, Inhabited

def PyExc.name : PyExc → String
  | .ValueError => "ValueError" | .KeyError => "KeyError" | .IndexError => "IndexError"
  | .AttributeError => "AttributeError" | .TypeError => "TypeError"
  | .RuntimeError => "RuntimeError" | .RecursionError => "RecursionError"

/-! ### tools.py -/

/-- `tools.comment(val, comb)`. -/
def commentLines (comb : Str) (val : Str) : Str :=
  joinNL ((splitNL val).map fun cl => comb ++ ' ' :: cl) ++ ['\n']

/-- `tools.indent(val, spaces)`. -/
def toolsIndent (val : Str) (spaces : Nat := 4) : Str :=
  if val.isEmpty then val
  else List.replicate spaces ' ' ++ replaceChar '\n' ('\n' :: List.replicate spaces ' ') val

/-- `tools.remove_bom`. -/
def removeBom (s : Str) : Str :=
  match s with
  | c :: r => if c.toNat = 0xFEFF then r else s
  | [] => []

def isBlankHT (c : Char) : Bool := c = ' ' || c = '\t'

/-- a line that is `[ \t]*` -/
def isBlankLine (l : Str) : Bool := l.all isBlankHT

/-- `tools.strip_empty_lines`: `re.sub(r'^([ \t]*\n)*(?P<content>[\s\S]+?)(\n[ \t]*)*$', '\g<content>')`,
    read line by line: the `[ \t]*` lines at both ends are dropped.  When every line is blank the
    non-greedy `content` must still take one character, and the regex's backtracking leaves: the
    last line if it is not empty, else the line before it if that is not empty, else one line break. -/
def stripEmptyLines (s : Str) : Str :=
  if s.isEmpty then []
  else
    let ls := splitNL s
    match ls.dropWhile isBlankLine with
    | [] =>
      (match ls.reverse with
       | ln :: lp :: _ => if !ln.isEmpty then ln else if !lp.isEmpty then lp else ['\n']
       | [ln] => ln
       | [] => [])
    | rest => joinNL (rest.reverse.dropWhile isBlankLine).reverse

/-- length of the `^\s*` match. -/
def leadingSpaces (line : Str) : Nat := (line.takeWhile isSpaceChar).length

def minList : List Nat → Option Nat
  | [] => none
  | x :: xs => match minList xs with
    | none => some x
    | some m => some (min x m)

/-- `tools.remove_indentation` (a text without any non-blank line is returned as it is). -/
def removeIndentation (s : Str) : Str :=
  if s.isEmpty then s
  else
    let lines := splitNL s
    let spaces := (lines.filter fun l => !l.isEmpty && !isSpaceStr l).map leadingSpaces
    match minList spaces with
    | none => s
    | some k => joinNL (lines.map (·.drop k))

/-- `NoteBlueprint._preformat_text` / `StickyNoteBlueprint._preformat_text`. -/
def norm (s : Str) : Str := removeIndentation (stripEmptyLines s)

/-- `tools.doublequote_string`. -/
def doublequoteString (s : Str) : Except PyExc Str :=
  if containsChar '\n' s then .error .ValueError
  else .ok ('"' :: replaceChar '"' ['\\', '"'] (stripSet (· = '"') s) ++ ['"'])

/-! ### renderer/dbml/default/utils.py -/

/-- `prepare_text_for_dbml`: `re.sub(r"('''|'|\\\\)", r'\\\1', text)`. -/
def prepareTextForDbml : Str → Str
  | '\'' :: '\'' :: '\'' :: r => '\\' :: '\'' :: '\'' :: '\'' :: prepareTextForDbml r
  | '\'' :: r => '\\' :: '\'' :: prepareTextForDbml r
  | '\\' :: r => '\\' :: '\\' :: prepareTextForDbml r
  | c :: r => c :: prepareTextForDbml r
  | [] => []

/-- `quote_string`. -/
def quoteString (t : Str) : Str :=
  if containsChar '\n' t then lit "'''\n" ++ prepareTextForDbml t ++ lit "'''"
  else '\'' :: prepareTextForDbml t ++ ['\'']

/-- `note_option_to_dbml` (on the note's text). -/
def noteOptionToDbml (t : Str) : Str :=
  if containsChar '\n' t then lit "note: '''" ++ prepareTextForDbml t ++ lit "'''"
  else lit "note: '" ++ prepareTextForDbml t ++ ['\'']

def commentToDbml (v : Str) : Str := commentLines (lit "//") v
def commentToSql (v : Str) : Str := commentLines (lit "--") v

/-! ### renderer/sql/default/note.py -/

/-- `re.sub(r'\\\n', '', text)`. -/
def dropLineContinuations : Str → Str
  | '\\' :: '\n' :: r => dropLineContinuations r
  | c :: r => c :: dropLineContinuations r
  | [] => []

/-- `prepare_text_for_sql`. -/
def prepareTextForSql (t : Str) : Str :=
  replaceChar '\'' ['"'] (dropLineContinuations t)

end PyDBML
