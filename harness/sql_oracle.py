"""Model-free oracles for the SQL output (C03, C04, C18): expectations computed from the spec
(the database content), observations read from `db.sql` by `ddl_reader`."""
from collections import Counter

from harness import ddl_reader as DR


def hygienic(spec):
    """Can the independent reader tokenise what this spec renders to?"""
    def okname(n):
        return n is not None and '"' not in n and '\n' not in n and '{' not in n and '}' not in n
    for e in spec['enums']:
        if not okname(e['name']) or not okname(e['schema']):
            return False
        if any("'" in i['name'] or '\n' in i['name'] for i in e['items']):
            return False
    for t in spec['tables']:
        if not okname(t['name']) or not okname(t['schema']):
            return False
        for c in t['columns']:
            if not okname(c['name']):
                return False
            if isinstance(c['type'], str) and (not _balanced(c['type']) or any(ch in c['type'] for ch in '\'"{};')
                                               or any(w in c['type'].split() for w in DR.COL_KW)):
                return False
            d = c['default']
            if d is not None and d['k'] in ('str', 'expr'):
                if any(ch in d['v'] for ch in '\'"{};\n') or (d['k'] == 'str' and any(ch in d['v'] for ch in ',()')) \
                        or not _balanced(d['v']):
                    return False
        for ix in t['indexes']:
            if ix['name'] is not None and not okname(ix['name']):
                return False
            for s in ix['subjects']:
                if 'raw' in s:
                    return False
                if 'expr' in s and (any(ch in s['expr'] for ch in '\'"{};\n') or not _balanced(s['expr'])):
                    return False
    for r in spec['refs']:
        if r['name'] is not None and not okname(r['name']):
            return False
        if r['comment'] and ('{' in r['comment'] or '}' in r['comment']):
            return False
    return True


def _balanced(s):
    d = 0
    for ch in s:
        if ch == '(':
            d += 1
        elif ch == ')':
            d -= 1
            if d < 0:
                return False
    return d == 0


def qual(schema, name):
    return (None if schema == 'public' else schema, name)


def sql_note(t):
    return t.replace('\\\n', '').replace("'", '"')


def default_text(d):
    if d is None:
        return None
    k, v = d['k'], d['v']
    if k == 'bool':
        return 'True' if v else 'False'
    if k == 'expr':
        return '(' + v + ')'
    return v


def type_text(spec, c):
    t = c['type']
    if isinstance(t, dict):
        if 'enum' in t:
            e = spec['enums'][t['enum']]
            s, n = e['schema'], e['name']
        else:
            s, n = t['schema'], t['name']
        return f'"{n}"' if s == 'public' else f'"{s}"."{n}"'
    return t


def subj_text(t, ix):
    out = []
    for s in ix['subjects']:
        if 'col' in s:
            out.append('"%s"' % t['columns'][s['col']]['name'])
        else:
            out.append('(' + s['expr'] + ')')
    return ', '.join(out)


def key_holder(r):
    return r['t2'] if r['type'] == '<' else r['t1']


def is_inline(r):
    return bool(r['inline']) and r['type'] != '<>'


def fk_expect(spec, r):
    """(host table, cols, ref table, ref cols, name, on_update, on_delete) of a non-m2m reference."""
    T = spec['tables']
    if r['type'] == '<':
        st, sc, rt, rc = r['t2'], r['col2'], r['t1'], r['col1']
    else:
        st, sc, rt, rc = r['t1'], r['col1'], r['t2'], r['col2']
    return (qual(T[st]['schema'], T[st]['name']),
            tuple(T[st]['columns'][i]['name'] for i in sc),
            qual(T[rt]['schema'], T[rt]['name']),
            tuple(T[rt]['columns'][i]['name'] for i in rc),
            r['name'] or None,
            r['on_update'].upper() if r['on_update'] else None,
            r['on_delete'].upper() if r['on_delete'] else None)


def fk_obs(host, fk):
    return (host, tuple(fk['cols']), fk['ref_table'], tuple(fk['ref_cols']), fk['name'], fk['on_update'], fk['on_delete'])


def check_sql(spec, sql):
    """-> dict property -> list of (what, detail, reason)."""
    out = {'C03': [], 'C04': [], 'C18': []}
    try:
        stmts = DR.read(sql)
    except DR.DDLError as e:
        out['C03'].append(('SQL output cannot be read back by the DDL reader', str(e), None))
        return out
    T = spec['tables']
    types = [s for s in stmts if s['kind'] == 'type']
    tables = [s for s in stmts if s['kind'] == 'table']
    indexes = [s for s in stmts if s['kind'] == 'index']
    comments = [s for s in stmts if s['kind'] == 'comment']
    alters = [s for s in stmts if s['kind'] == 'alter_fk']

    # ---- C03: types
    exp_types = [(qual(e['schema'], e['name']), [i['name'] for i in e['items']]) for e in spec['enums']]
    if [(s['name'], s['items']) for s in types] != exp_types:
        out['C03'].append(('CREATE TYPE statements differ from the enums', {'got': [(s['name'], s['items']) for s in types], 'want': exp_types}, None))

    # ---- tables: db tables + join tables, each exactly once
    m2m = [r for r in spec['refs'] if r['type'] == '<>']
    join_names = Counter(qual(T[r['t1']]['schema'], T[r['t1']]['name'] + '_' + T[r['t2']]['name']) for r in m2m)
    db_names = Counter(qual(t['schema'], t['name']) for t in T)
    got_names = Counter(s['name'] for s in tables)
    if got_names != db_names + join_names:
        out['C18'].append(('the CREATE TABLE statements are not a permutation of the tables (one dropped or duplicated)',
                           {'got': sorted(map(str, got_names.elements())), 'want': sorted(map(str, (db_names + join_names).elements()))}, None))
        out['C03'].append(('CREATE TABLE statements are not exactly the tables (each once) plus join tables',
                           {'got': sorted(map(str, got_names.elements())), 'want': sorted(map(str, (db_names + join_names).elements()))}, None))
        if m2m and (got_names - db_names) != join_names:
            out['C04'].append(('a many-to-many reference does not produce exactly one join table named <left>_<right> in the left table\'s schema',
                               {'got': sorted(map(str, (got_names - db_names).elements())), 'want': sorted(map(str, join_names.elements()))}, None))
        return out
    by_name = {}
    for s in tables:
        by_name.setdefault(s['name'], []).append(s)
    ambiguous = any(v > 1 for v in (db_names + join_names).values())
    if ambiguous:
        return out   # same-named join table and table: position-based matching not attempted

    # ---- per table
    inline_by_host = {}
    for r in spec['refs']:
        if r['type'] != '<>' and is_inline(r):
            inline_by_host.setdefault(key_holder(r), []).append(r)
    for ti, t in enumerate(T):
        s = by_name[qual(t['schema'], t['name'])][0]
        cpk = sum(c['pk'] for c in t['columns']) > 1
        want_cols = [{'name': c['name'], 'type': type_text(spec, c), 'pk': bool(c['pk']) and not cpk,
                      'autoinc': bool(c['autoinc']), 'unique': bool(c['unique']), 'not_null': bool(c['not_null']),
                      'default': default_text(c['default'])} for c in t['columns']]
        if s['columns'] != want_cols:
            diffs = [(g, w) for g, w in zip(s['columns'], want_cols) if g != w][:2]
            out['C03'].append((f'columns of CREATE TABLE {t["name"]} differ from the model', {'first differences (got, want)': diffs, 'n_got': len(s['columns']), 'n_want': len(want_cols)}, None))
        want_pk = [subj_text(t, ix) for ix in t['indexes'] if ix['pk']]
        if cpk:
            want_pk.append(', '.join('"%s"' % c['name'] for c in t['columns'] if c['pk']))
        if s['pk_clauses'] != want_pk:
            out['C03'].append((f'PRIMARY KEY clauses of table {t["name"]}', {'got': s['pk_clauses'], 'want': want_pk}, None))
        # C04 inline
        want_fk = Counter(fk_expect(spec, r) for r in inline_by_host.get(ti, []))
        got_fk = Counter(fk_obs(s['name'], fk) for fk in s['fks'])
        if want_fk != got_fk:
            out['C04'].append((f'inline FOREIGN KEY clauses of table {t["name"]}', {'got': sorted(map(str, got_fk.elements())), 'want': sorted(map(str, want_fk.elements()))}, None))

    # ---- indexes (in table order of appearance, then index order)
    want_idx = []
    for s in tables:
        for t in T:
            if qual(t['schema'], t['name']) == s['name']:
                for ix in t['indexes']:
                    if not ix['pk']:
                        want_idx.append({'name': ix['name'] or None, 'unique': bool(ix['unique']), 'table': qual(t['schema'], t['name']),
                                         'using': ix['type'].upper() if ix['type'] else None, 'subjects': subj_text(t, ix)})
    got_idx = [{k: s[k] for k in ('name', 'unique', 'table', 'using', 'subjects')} for s in indexes]
    if got_idx != want_idx:
        if [dict(g, table=g['table'][1]) for g in got_idx] == [dict(w, table=w['table'][1]) for w in want_idx]:
            out['C03'].append(('CREATE INDEX names its table without the schema of its CREATE TABLE', {'got': got_idx, 'want': want_idx}, 'IndexSchema'))
        else:
            out['C03'].append(('CREATE INDEX statements differ from the non-pk indexes', {'got': got_idx, 'want': want_idx}, None))

    # ---- comments
    want_c = []
    for s in tables:
        for t in T:
            if qual(t['schema'], t['name']) == s['name']:
                q = [x for x in qual(t['schema'], t['name']) if x is not None]
                if t['note']:
                    want_c.append(('TABLE', q, sql_note(t['note'])))
                for c in t['columns']:
                    if c['note']:
                        want_c.append(('COLUMN', q + [c['name']], sql_note(c['note'])))
    got_c = [(s['entity'], s['target'], s['text']) for s in comments]
    if got_c != want_c:
        strip = lambda lst: [(e, tg[-1:] if e == 'TABLE' else tg[-2:], tx) for e, tg, tx in lst]  # noqa: E731
        if strip(got_c) == strip(want_c):
            out['C03'].append(('COMMENT ON addresses its table without the schema of its CREATE TABLE', {'got': got_c, 'want': want_c}, 'CommentSchema'))
        else:
            out['C03'].append(('COMMENT ON statements differ from the table/column notes', {'got': got_c, 'want': want_c}, None))

    # ---- C04: ALTERs and join tables
    want_alter = Counter()
    for r in spec['refs']:
        if r['type'] == '<>':
            t1, t2 = T[r['t1']], T[r['t2']]
            j = qual(t1['schema'], t1['name'] + '_' + t2['name'])
            c1 = tuple(t1['name'] + '_' + t1['columns'][i]['name'] for i in r['col1'])
            c2 = tuple(t2['name'] + '_' + t2['columns'][i]['name'] for i in r['col2'])
            upd = r['on_update'].upper() if r['on_update'] else None
            dele = r['on_delete'].upper() if r['on_delete'] else None
            want_alter[(j, c1, qual(t1['schema'], t1['name']), tuple(t1['columns'][i]['name'] for i in r['col1']), None, upd, dele)] += 1
            want_alter[(j, c2, qual(t2['schema'], t2['name']), tuple(t2['columns'][i]['name'] for i in r['col2']), None, upd, dele)] += 1
            js = by_name[j][0]
            want_cols = [{'name': n, 'type': type_text(spec, tt['columns'][i]), 'pk': False, 'autoinc': False, 'unique': False,
                          'not_null': True, 'default': None}
                         for tt, idxs, names in ((t1, r['col1'], c1), (t2, r['col2'], c2)) for i, n in zip(idxs, names)]
            single = len(want_cols) == 1
            if single:
                want_cols[0]['pk'] = True
            want_pk = [] if single else [', '.join('"%s"' % c['name'] for c in want_cols)]
            if js['columns'] != want_cols or js['pk_clauses'] != want_pk or js['fks']:
                out['C04'].append(('join table of a many-to-many reference', {'got': js, 'want_cols': want_cols, 'want_pk': want_pk}, None))
        elif not is_inline(r):
            want_alter[fk_expect(spec, r)] += 1
    got_alter = Counter(fk_obs(s['table'], s) for s in alters)
    if got_alter != want_alter:
        out['C04'].append(('ALTER TABLE … ADD FOREIGN KEY statements differ from the non-inline references',
                           {'got': sorted(map(str, got_alter.elements())), 'want': sorted(map(str, want_alter.elements()))}, None))

    # ---- nothing else
    n_expected = len(types) + len(tables) + len(indexes) + len(comments) + len(alters)
    if n_expected != len(stmts):
        out['C03'].append(('unexpected statements in the SQL output', len(stmts) - n_expected, None))

    # ---- C18: permutation and targets-first
    order = [s['name'] for s in tables if s['name'] in db_names]
    if Counter(order) != db_names:
        out['C18'].append(('CREATE TABLE order is not a permutation of the tables', order, None))
    else:
        pos = {n: i for i, n in enumerate(order)}
        edges = set()
        for r in spec['refs']:
            if r['type'] != '<>' and is_inline(r):
                host = key_holder(r)
                target = r['t1'] if host == r['t2'] and r['type'] == '<' else r['t2']
                if host != target:
                    edges.add((host, target))
        if edges and _acyclic(len(T), edges):
            for host, target in sorted(edges):
                hn, tn = qual(T[host]['schema'], T[host]['name']), qual(T[target]['schema'], T[target]['name'])
                if pos[tn] > pos[hn]:
                    out['C18'].append(('a table with an inline FOREIGN KEY is created before the table it references',
                                       {'host': T[host]['name'], 'target': T[target]['name'], 'order': [str(o) for o in order]}, 'HostsFirst'))
                    break
    return out


def _acyclic(n, edges):
    adj = {}
    for a, b in edges:
        adj.setdefault(a, []).append(b)
    state = {}

    def dfs(u):
        state[u] = 1
        for v in adj.get(u, []):
            if state.get(v) == 1:
                return False
            if v not in state and not dfs(v):
                return False
        state[u] = 2
        return True
    return all(dfs(u) for u in range(n) if u not in state)
